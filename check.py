#!/usr/bin/env python3
"""Entry point registered in MANIFEST.json:  ./check.py <property id> [--tier quick|thorough] [--replay FILE]"""
import os
import sys

sys.path.insert(0, os.path.dirname(os.path.abspath(__file__)))
from vlib.runner import main

if __name__ == "__main__":
    sys.exit(main())
