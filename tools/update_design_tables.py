#!/usr/bin/env python3
"""Refreshes the generated tables inside DESIGN.md (status table, seeded-changes table)."""
import glob, json, os, re, subprocess, sys
ROOT = os.path.dirname(os.path.dirname(os.path.abspath(__file__)))
d = open(os.path.join(ROOT, "DESIGN.md")).read()
status = subprocess.check_output([sys.executable, os.path.join(ROOT, "tools", "status_table.py")], text=True)
rows = ["| seeded change | property | what it needs to manifest | confirmed (tests pass, demo fails) | detected by | replay (excerpt) |", "|---|---|---|---|---|---|"]
for m in sorted(glob.glob(os.path.join(ROOT, "seeded", "*", "meta.json"))):
    x = json.load(open(m))
    name = os.path.basename(os.path.dirname(m))
    rp = x.get("replay_excerpt") or {}
    ops = "; ".join(rp.get("ops") or [])[:90] if rp else ""
    if rp and not ops:
        ops = ("unchecked: " + ", ".join(rp.get("theorems") or []))[:90]
    det = x.get("detected_by") or "**not detected**"
    rows.append(f"| `{name}`: {x.get('title','')} | {x['property']} | {str(x.get('needs_to_manifest',''))[:160]} | {'yes' if x.get('confirmed') else 'NO'} | {det} | `{ops}` |")
def put(doc, tag, body):
    a = doc.index(f"<!-- {tag}-BEGIN -->") + len(f"<!-- {tag}-BEGIN -->")
    b = doc.index(f"<!-- {tag}-END -->")
    return doc[:a] + "\n" + body + "\n" + doc[b:]
order = open(os.path.join(ROOT, "notes", "design5", "ORDER")).read().split()
sec5 = "\n".join(open(os.path.join(ROOT, "notes", "design5", pid + ".md")).read().rstrip("\n") + "\n" for pid in order)
d = put(d, "SECTION5", sec5.rstrip("\n"))
d = put(d, "STATUS-TABLE", status.strip())
d = put(d, "SEEDED-TABLE", "\n".join(rows))
open(os.path.join(ROOT, "DESIGN.md"), "w").write(d)
