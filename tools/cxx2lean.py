#!/usr/bin/env python3
"""cxx2lean: translate instantiated fcppt integer helpers from clang's JSON AST into Lean 4.

For every registry entry a tiny translation unit forces the instantiation
(`(void)fcppt::math::log2<std::uint8_t>(x);`), clang-14 dumps the JSON AST of the declarations
with that name, and the *instantiated* FunctionDecl (concrete types, every implicit conversion an
explicit ImplicitCastExpr) is translated statement by statement into a Lean definition over the
fixed-width semantics of `FcpptModel/Prelude/CInt.lean`:

    integers -> Int (kept inside the range of their C++ type), bool -> Bool,
    fcppt::optional::object<T> -> Option, every operation that can be undefined -> `Except Fault`,
    loops -> fuel-recursive helper definitions (`Fault.fuel` = does not terminate).

Callees that are themselves fcppt function templates with a body in the dump are translated
recursively; a small whitelist of library primitives is built in (literal, make_if,
optional::bind/map, cast::size/to_signed/to_unsigned, numeric_limits::min/max, std::min/max/abs,
int_to_enum/enum_to_int, is_zero).  Anything else makes the translation FAIL (never a silent
default): the runner reports that as a broken proof obligation.

Usage: cxx2lean.py [--repo /repo] [--out lean/FcpptModel/Gen/Scalar.lean] [--report file.json]
"""
import argparse
import json
import os
import re
import subprocess
import sys
import tempfile
from concurrent.futures import ThreadPoolExecutor

ROOT = os.path.dirname(os.path.dirname(os.path.abspath(__file__)))

TYPES = {
    "unsigned char": "u8", "signed char": "i8", "char": "i8",
    "unsigned short": "u16", "short": "i16",
    "unsigned int": "u32", "int": "i32", "unsigned": "u32",
    "unsigned long": "u64", "long": "i64",
    "unsigned long long": "u64", "long long": "i64",
    "bool": "bool",
}
CNAME = {"u8": "std::uint8_t", "i8": "std::int8_t", "u16": "std::uint16_t", "i16": "std::int16_t",
         "u32": "std::uint32_t", "i32": "std::int32_t", "u64": "std::uint64_t", "i64": "std::int64_t"}
UNS = ["u8", "u16", "u32", "u64"]
SIG = ["i8", "i16", "i32", "i64"]
ALL = UNS + SIG
FUEL = 200


class Unsupported(Exception):
    pass


def const_value(v):
    """the "value" of a ConstantExpr in clang's JSON: "true" / "false" or a decimal number"""
    if v in ("true", "false"):
        return 1 if v == "true" else 0
    try:
        return int(v)
    except (TypeError, ValueError):
        raise Unsupported(f"constant {v!r}")


def registry():
    """(lean name, clang filter name, includes, forcing expression, template argument types of the wanted specialisation)"""
    R = []
    inc = lambda *h: [f"fcppt/{x}.hpp" for x in h]
    for d in ALL:
        for s in ALL:
            R.append((f"truncation_check_{d}_{s}", "truncation_check", inc("cast/truncation_check"),
                      f"fcppt::cast::truncation_check<{CNAME[d]}>({CNAME[s]}{{}})", [d, s, "void"]))
    for t in ["u32", "u64"]:
        R.append((f"ceil_div_{t}", "ceil_div", inc("math/ceil_div"), f"fcppt::math::ceil_div<{CNAME[t]}>({CNAME[t]}{{}}, {CNAME[t]}{{}})", [t]))
    for t in ["i32", "i64"]:
        R.append((f"ceil_div_signed_{t}", "ceil_div_signed", inc("math/ceil_div_signed"),
                  f"fcppt::math::ceil_div_signed<{CNAME[t]}>({CNAME[t]}{{}}, {CNAME[t]}{{}})", [t]))
    for t in ["u32", "i32", "u64", "i64"]:
        R.append((f"div_{t}", "div", inc("math/div"), f"fcppt::math::div({CNAME[t]}{{}}, {CNAME[t]}{{}})", [t, t]))
    for t in UNS:
        R.append((f"mod_{t}", "mod", inc("math/mod"), f"fcppt::math::mod<{CNAME[t]}>({CNAME[t]}{{}}, {CNAME[t]}{{}})", [t]))
        R.append((f"is_power_of_2_{t}", "is_power_of_2", inc("math/is_power_of_2"), f"fcppt::math::is_power_of_2<{CNAME[t]}>({CNAME[t]}{{}})", [t]))
        R.append((f"next_power_of_2_{t}", "next_power_of_2", inc("math/next_power_of_2"), f"fcppt::math::next_power_of_2<{CNAME[t]}>({CNAME[t]}{{}})", [t]))
        R.append((f"log2_{t}", "log2", inc("math/log2"), f"fcppt::math::log2<{CNAME[t]}>({CNAME[t]}{{}})", [t]))
        R.append((f"power_of_2_{t}", "power_of_2", inc("math/power_of_2"), f"fcppt::math::power_of_2<{CNAME[t]}>(0U)", [t, "u32"]))
        R.append((f"shifted_mask_{t}", "shifted_mask", inc("bit/shifted_mask"), f"fcppt::bit::shifted_mask<{CNAME[t]}>(0U)", [t]))
        R.append((f"bit_test_{t}", "test", inc("bit/test", "bit/mask"), f"fcppt::bit::test({CNAME[t]}{{}}, fcppt::bit::mask<{CNAME[t]}>{{{CNAME[t]}{{}}}})", [t]))
    for t in ALL:
        R.append((f"clamp_{t}", "clamp", inc("math/clamp"), f"fcppt::math::clamp<{CNAME[t]}>({CNAME[t]}{{}}, {CNAME[t]}{{}}, {CNAME[t]}{{}})", [t]))
        R.append((f"diff_{t}", "diff", inc("math/diff"), f"fcppt::math::diff<{CNAME[t]}>({CNAME[t]}{{}}, {CNAME[t]}{{}})", [t]))
    # enum_::from_int: enum underlying type x value type; the enum's size is a parameter of the translation
    for u in UNS:
        for v in UNS:
            R.append((f"from_int_{u}_{v}", "from_int", inc("enum/from_int"), f"fcppt::enum_::from_int<verif_enum_{u}>({CNAME[v]}{{}})", [f"enum:{u}", v, "void"]))
    # ---- second generation (ext/C06): everything below is additive
    # bool is an integral type too: destination bool (result `optional<bool>`)
    for s in ALL:
        R.append((f"truncation_check_b_{s}", "truncation_check", inc("cast/truncation_check"),
                  f"fcppt::cast::truncation_check<bool>({CNAME[s]}{{}})", ["bool", s, "void"]))
    # enums whose underlying type is signed (the default `int`, `signed char`): the size type is the unsigned counterpart
    for u in ["i8", "i32"]:
        for v in UNS:
            R.append((f"from_int_{u}_{v}", "from_int", inc("enum/from_int"), f"fcppt::enum_::from_int<verif_enum_{u}>({CNAME[v]}{{}})", [f"enum:{u}", v, "void"]))
    # math::div on the narrow types (result type int) and on mixed operand types (usual arithmetic conversions)
    for t in ["u8", "i8", "u16", "i16"]:
        R.append((f"div_{t}", "div", inc("math/div"), f"fcppt::math::div({CNAME[t]}{{}}, {CNAME[t]}{{}})", [t, t]))
    for l, r in DIV_MIXED:
        R.append((f"div_{l}_{r}", "div", inc("math/div"), f"fcppt::math::div({CNAME[l]}{{}}, {CNAME[r]}{{}})", [l, r]))
    # ceil_div_signed compiles for the narrow signed types as well (every intermediate is cast back to T)
    for t in ["i8", "i16"]:
        R.append((f"ceil_div_signed_{t}", "ceil_div_signed", inc("math/ceil_div_signed"),
                  f"fcppt::math::ceil_div_signed<{CNAME[t]}>({CNAME[t]}{{}}, {CNAME[t]}{{}})", [t]))
    # math::interval_distance: the two intervals arrive as four scalars (tuple slots)
    for t in ALL:
        tup = f"fcppt::tuple::object<{CNAME[t]}, {CNAME[t]}>"
        R.append((f"interval_distance_{t}", "interval_distance", inc("math/interval_distance", "tuple/object"),
                  f"fcppt::math::interval_distance<{CNAME[t]}>({tup}{{{CNAME[t]}{{}}, {CNAME[t]}{{}}}}, {tup}{{{CNAME[t]}{{}}, {CNAME[t]}{{}}}})", [t]))
    # the unchecked casts the checked ones are built from (anchors cast/size.hpp, to_signed.hpp, to_unsigned.hpp) and their neighbours
    for grp in (UNS, SIG):
        for d in grp:
            for s in grp:
                R.append((f"size_{d}_{s}", "fcppt::cast::size", inc("cast/size"), f"fcppt::cast::size<{CNAME[d]}>({CNAME[s]}{{}})", [d, s]))
                if BITS[d] >= BITS[s]:
                    R.append((f"safe_numeric_{d}_{s}", "safe_numeric", inc("cast/safe_numeric"), f"fcppt::cast::safe_numeric<{CNAME[d]}>({CNAME[s]}{{}})", [d, s]))
    for t in UNS:
        R.append((f"to_signed_{t}", "fcppt::cast::to_signed", inc("cast/to_signed"), f"fcppt::cast::to_signed({CNAME[t]}{{}})", [t]))
    for t in SIG:
        R.append((f"to_unsigned_{t}", "fcppt::cast::to_unsigned", inc("cast/to_unsigned"), f"fcppt::cast::to_unsigned({CNAME[t]}{{}})", [t]))
    for t in ALL:
        R.append((f"promote_int_{t}", "fcppt::cast::promote_int", inc("cast/promote_int"), f"fcppt::cast::promote_int({CNAME[t]}{{}})", [t]))
    # compile-time masks: a few instantiations per type (value, bit index)
    for t in UNS:
        for m in MASK_C[t]:
            R.append((f"mask_c_{t}_{m}", "mask_c", inc("bit/mask_c"), f"fcppt::bit::mask_c<{CNAME[t]}, {m}ULL>()",
                      [t, f"v{m if m < (1 << (BITS[t] - 1)) else m - (1 << BITS[t])}"]))   # clang prints the argument as a signed number
        for b in SHIFTED_MASK_C[t]:
            R.append((f"shifted_mask_c_{t}_{b}", "shifted_mask_c", inc("bit/shifted_mask_c"), f"fcppt::bit::shifted_mask_c<{CNAME[t]}, {b}>()", [t, f"v{b}"]))
    return R


BITS = {"u8": 8, "u16": 16, "u32": 32, "u64": 64, "i8": 8, "i16": 16, "i32": 32, "i64": 64}
DIV_MIXED = [("i32", "u32"), ("u32", "i32"), ("i8", "u8"), ("u8", "i64"), ("i64", "u64"), ("u16", "i32"), ("i16", "u64"), ("u64", "i8"), ("i32", "i64"), ("u32", "u64")]
MASK_C = {"u8": [0, 1, 5, 255], "u16": [0, 256, 65535], "u32": [0, 65536, 4294967295], "u64": [0, 4294967296, 18446744073709551615]}
SHIFTED_MASK_C = {"u8": [0, 3, 7], "u16": [0, 8, 15], "u32": [0, 16, 31], "u64": [0, 32, 63]}


PRELUDE_CPP = """#include <cstdint>
enum class verif_enum_u8 : std::uint8_t { a, b, c, fcppt_maximum = c };
enum class verif_enum_u16 : std::uint16_t { a, b, c, fcppt_maximum = c };
enum class verif_enum_u32 : std::uint32_t { a, b, c, fcppt_maximum = c };
enum class verif_enum_u64 : std::uint64_t { a, b, c, fcppt_maximum = c };
enum class verif_enum_i8 : std::int8_t { a, b, c, fcppt_maximum = c };
enum class verif_enum_i32 { a, b, c, fcppt_maximum = c };
"""


def include_flags(repo):
    inc = ["-I" + os.path.join(ROOT, "harness", "include")]
    for lib in ("core", "options", "parse", "log", "filesystem"):
        inc.append("-I" + os.path.join(repo, "libs", lib, "include"))
    return inc


def parse_docs(s):
    dec = json.JSONDecoder()
    i, docs = 0, []
    while i < len(s):
        while i < len(s) and s[i].isspace():
            i += 1
        if i >= len(s):
            break
        d, j = dec.raw_decode(s, i)
        docs.append(d)
        i = j
    return docs


def dump(repo, tu, name):
    p = subprocess.run(["clang++-14", "-std=c++20", "-fsyntax-only", "-DFCPPT_STATIC_LINK"] + include_flags(repo) +
                       ["-Xclang", "-ast-dump=json", "-Xclang", "-ast-dump-filter=" + name, tu], capture_output=True, text=True)
    if p.returncode != 0:
        raise Unsupported(f"clang failed for {name}: {p.stderr[-1500:]}")
    return parse_docs(p.stdout)


def qual(n):
    t = n.get("type", {})
    return t.get("desugaredQualType") or t.get("qualType") or ""


def norm_type(q):
    q = q.replace("const ", "").replace(" const", "").replace("&", "").replace("volatile ", "").strip()
    if q in TYPES:
        return TYPES[q]
    if q == "void":
        return "void"
    m = re.match(r"(?:class |struct )?fcppt::optional::object<(.*)>$", q)
    if m:
        return "opt:" + norm_type(m.group(1))
    m = re.match(r"(?:enum )?verif_enum_([ui]\d+)$", q)
    if m:
        return "enum:" + m.group(1)
    m = re.match(r"(?:class |struct )?fcppt::bit::mask<(.*)>$", q)
    if m:
        return norm_type(m.group(1))       # strong typedef around the word: same value
    m = re.match(r"(?:class |struct )?fcppt::strong_typedef<(.*), .*>$", q)
    if m:
        return norm_type(m.group(1))
    m = re.match(r"(?:class |struct )?fcppt::tuple::object<([^<>]*)>$", q)
    if m:
        parts = [norm_type(x.strip()) for x in m.group(1).split(",")]
        if all(is_int(x) for x in parts):
            return "tup:" + ",".join(parts)
    return "?" + q


def is_int(t):
    return t in ALL or t.startswith("enum:")


def ity(t):
    """Lean IntTy term of a translated type"""
    if t.startswith("enum:"):
        t = t[5:]
    if t not in ALL:
        raise Unsupported("not an integer type: " + t)
    return "IntTy." + t


class Index:
    """All FunctionDecls of the dumps, by id."""

    def __init__(self):
        self.by_id = {}
        self.by_sig = {}
        self.templates = {}
        self.seen = set()

    def add(self, docs):
        def walk(n, tmpl=None):
            k = n.get("kind")
            if k == "FunctionTemplateDecl":
                for c in n.get("inner", []):
                    walk(c, n)
                return
            if k in ("FunctionDecl", "CXXMethodDecl") and "id" in n:
                self.by_id[n["id"]] = n
                sig = (n.get("name"), (n.get("type") or {}).get("qualType"))
                if body_of(n) is not None:
                    self.by_sig.setdefault(sig, n)
                if tmpl is not None and sig + (tuple(targs_of(n)),) not in self.seen:
                    self.seen.add(sig + (tuple(targs_of(n)),))
                    self.templates.setdefault(n.get("name"), []).append(n)
            for c in n.get("inner", []):
                if isinstance(c, dict):
                    walk(c, tmpl)
        for d in docs:
            walk(d)

    def find_spec(self, name, targs):
        out = []
        for f in self.templates.get(name, []):
            ta = targs_of(f)
            if ta == targs and body_of(f) is not None:
                out.append(f)
        if len(out) > 1:
            # a public function and its detail:: overload share name and template arguments:
            # the public one is the one that calls a function of the same name
            def calls_same(n):
                if n.get("kind") == "DeclRefExpr" and n.get("referencedDecl", {}).get("name") == name and n["referencedDecl"].get("kind") == "FunctionDecl":
                    return True
                return any(calls_same(c) for c in n.get("inner", []) if isinstance(c, dict))
            outer = [f for f in out if calls_same(body_of(f))]
            if len(outer) == 1:
                return outer
        return out


def body_of(f):
    for c in f.get("inner", []):
        if c.get("kind") == "CompoundStmt":
            return c
    return None


def targ(c):
    if "value" in c and "type" not in c:
        return "v" + str(c["value"])
    return norm_type(qual(c))


def targs_of(f):
    return [targ(c) for c in f.get("inner", []) if c.get("kind") == "TemplateArgument"]


def mangle(f):
    parts = []
    for a in targs_of(f):
        if a == "void":
            continue
        parts.append(re.sub(r"[^A-Za-z0-9]", "_", a.replace("enum:", "e")))
    return f["name"] + ("_" + "_".join(parts) if parts else "")


class Emitter:
    def __init__(self, index, names):
        self.index = index
        self.names = names          # decl id -> lean name (for functions translated or requested)
        self.defs = {}              # lean name -> text
        self.order = []
        self.pending = []
        self.extra_params = {}      # lean name -> [extra param names]  (symbolic constants)

    # ------------------------------------------------------------------ functions
    def function(self, f, lean_name):
        if lean_name in self.defs:
            return
        self.defs[lean_name] = None     # reserve (recursion guard)
        ctx = Fn(self, f, lean_name)
        try:
            text = ctx.emit()
        except Exception:
            self.defs.pop(lean_name, None)      # no half-translated entries: every later use fails again
            raise
        self.defs[lean_name] = text
        self.order.append(lean_name)

    def callee_name(self, rd):
        sig = (rd.get("name"), (rd.get("type") or {}).get("qualType"))
        f = self.index.by_sig.get(sig)
        if f is None or body_of(f) is None:
            return None
        decl_id = f["id"]
        if decl_id in self.names:
            if self.names[decl_id] not in self.defs:
                self.function(f, self.names[decl_id])     # a registry function that is first met as a callee
            return self.names[decl_id]
        base = mangle(f)
        name = base
        k = 1
        while name in self.defs or name in self.names.values():
            k += 1
            name = f"{base}_{k}"
        self.names[decl_id] = name
        self.function(f, name)
        return name


class Fn:
    def __init__(self, em, f, lean_name):
        self.em, self.f, self.name = em, f, lean_name
        self.loops = []
        self.tmp = 0
        self.consts = []            # symbolic constants that became parameters
        self.ver = {}               # base variable name -> version counter
        self.refs = {}              # C++ reference variable -> the variable (or tuple slot) it is bound to
        self.tuples = {}            # tuple-typed parameter -> its slot pseudo-variables ("name#i")

    def fresh(self, base="t"):
        self.tmp += 1
        return f"{base}{self.tmp}"

    # -------------------------------------------------------------- entry
    def emit(self):
        f = self.f
        params = [c for c in f.get("inner", []) if c.get("kind") == "ParmVarDecl"]
        env = {}
        sig = []
        for p in params:
            t = norm_type(qual(p))
            nm = self.lean_ident(p["name"])
            if t.startswith("tup:"):
                slots = []
                for i, et in enumerate(t[4:].split(",")):
                    slot = f"{p['name']}#{i}"
                    env[slot] = f"{nm}_{i}"
                    sig.append((env[slot], self.lean_type(et)))
                    slots.append(slot)
                self.tuples[p["name"]] = slots
                continue
            env[p["name"]] = nm
            sig.append((nm, self.lean_type(t)))
        rq = qual(f)
        rt = norm_type(re.sub(r"\s*\(.*$", "", self.return_qual(f)))
        if rt.startswith("?") or rt.startswith("opt:?"):
            # enable_if / decltype return types: the type of the first return statement (not inside a lambda)
            def first_return(n):
                if n.get("kind") == "ReturnStmt":
                    return n
                if n.get("kind") == "LambdaExpr":
                    return None
                for c in n.get("inner", []):
                    if isinstance(c, dict):
                        r = first_return(c)
                        if r is not None:
                            return r
                return None
            st = first_return(body_of(f))
            if st is not None and st.get("inner"):
                rt = norm_type(qual(st["inner"][0]))
        self.ret_type = rt
        lines = self.block(body_of(f)["inner"], env, ret=True)
        extra = "".join(f" ({c} : Int)" for c in self.consts)
        self.em.extra_params[self.name] = list(self.consts)
        head = f"def {self.name}" + "".join(f" ({n} : {t})" for n, t in sig) + extra + f" : M {self.lean_type(rt)} := do\n"
        src = "".join(self.loops) + head + "".join("  " + l + "\n" for l in lines)
        return src

    def return_qual(self, f):
        # clang prints the function type as "<ret> (<params>)"; for enable_if returns the desugared form is needed
        t = f.get("type", {})
        q = t.get("desugaredQualType") or t.get("qualType")
        # find matching '(' of the parameter list: last top-level '('
        depth = 0
        for i in range(len(q) - 1, -1, -1):
            ch = q[i]
            if ch == ")":
                depth += 1
            elif ch == "(":
                depth -= 1
                if depth == 0:
                    q2 = q[:i].strip()
                    break
        else:
            q2 = q
        m = re.match(r"std::enable_if_t<.*,\s*(fcppt::optional::object<[^<>]*>)\s*>$", q2)
        if m:
            return m.group(1)
        return q2

    def lean_type(self, t):
        if t == "bool":
            return "Bool"
        if t.startswith("opt:"):
            return "(Option " + self.lean_type(t[4:]) + ")"
        if is_int(t):
            return "Int"
        raise Unsupported(f"type {t} in {self.name}")

    def lean_ident(self, n):
        n = n.replace("#", "_").lstrip("_") or "x"
        if n in ("end", "from", "to", "at", "in", "do", "then", "else", "if", "fun", "let", "have", "show", "by", "match", "with", "where", "open", "def", "max", "min", "mod", "div", "two", "one", "zero"):
            n = n + "_"
        return n

    def resolve(self, cname):
        """follow C++ references to the variable they are bound to"""
        seen = 0
        while cname in self.refs and seen < 20:
            cname = self.refs[cname]
            seen += 1
        return cname

    def ref_target(self, init, env):
        """the variable / tuple slot an lvalue initialiser of a reference names, or None (a temporary: copy)"""
        n = init
        while True:
            n = self.strip(n)
            if n.get("kind") == "InitListExpr" and len(n.get("inner", [])) == 1:
                n = n["inner"][0]
                continue
            break
        if n.get("kind") == "DeclRefExpr" and n["referencedDecl"].get("kind") in ("VarDecl", "ParmVarDecl"):
            nm = self.resolve(n["referencedDecl"]["name"])
            return nm if nm in env else None
        if n.get("kind") == "CallExpr":
            callee = self.strip(n["inner"][0])
            if callee.get("kind") == "DeclRefExpr" and callee["referencedDecl"].get("name") == "get" and len(n["inner"]) == 2:
                arg = self.strip(n["inner"][1])
                m = re.search(r"tuple::element<(\d+)U?L?,", (n.get("type") or {}).get("qualType", ""))
                if arg.get("kind") == "DeclRefExpr" and m:
                    tn = self.resolve(arg["referencedDecl"]["name"])
                    if tn in self.tuples and int(m.group(1)) < len(self.tuples[tn]):
                        return self.tuples[tn][int(m.group(1))]
            raise Unsupported("reference bound to the result of a call")
        return None

    def newver(self, env, cname):
        cname = self.resolve(cname)
        base = self.lean_ident(cname.replace("#", "_"))
        self.ver[base] = self.ver.get(base, 0) + 1
        nm = f"{base}_{self.ver[base]}"
        env[cname] = nm
        return nm

    # -------------------------------------------------------------- statements
    def block(self, stmts, env, ret):
        """Lines of a do-block.  If ret, the block's value is the function/lambda result."""
        out = []
        flat = []
        for s in stmts:
            if self.ignorable(s):
                continue
            if s.get("kind") == "CompoundStmt":
                # `{ a; b; } rest` is translated as `a; b; rest` (a nested block may return); names must not be re-declared
                self.no_shadowing(s, env)
                flat += [c for c in s.get("inner", []) if not self.ignorable(c)]
            else:
                flat.append(s)
        stmts = flat
        if any(s.get("kind") == "CompoundStmt" for s in stmts):
            return self.block(stmts, env, ret)
        for i, s in enumerate(stmts):
            k = s["kind"]
            rest = stmts[i + 1:]
            if k == "DeclStmt":
                for d in s["inner"]:
                    if d["kind"] in ("StaticAssertDecl", "TypeAliasDecl", "TypedefDecl", "UsingDecl"):
                        continue
                    if d["kind"] != "VarDecl":
                        raise Unsupported("decl " + d["kind"])
                    init = [c for c in d.get("inner", []) if isinstance(c, dict) and "kind" in c and not c["kind"].endswith("Comment")]
                    if not init:
                        raise Unsupported("uninitialised variable " + d["name"])
                    if (d.get("type") or {}).get("qualType", "").rstrip().endswith("&"):
                        tgt = self.ref_target(init[-1], env)
                        if tgt is not None:
                            if d["name"] in env or d["name"] in self.refs:
                                raise Unsupported("reference re-declared: " + d["name"])
                            self.refs[d["name"]] = tgt
                            continue
                    v = self.expr(init[-1], env, out, want=norm_type(qual(d)))
                    nm = self.newver(env, d["name"])
                    out.append(f"let {nm} := {v}")
            elif k == "ReturnStmt":
                v = self.expr(s["inner"][0], env, out, want=self.ret_type if ret is True else None)
                out.append(f"pure {v}")
                return out
            elif k == "IfStmt" and s.get("isConstexpr") and self.strip_const(s["inner"][0]) is not None:
                # `if constexpr`: only the selected branch exists in this instantiation
                inner = s["inner"]
                taken = inner[1] if self.strip_const(inner[0]) else (inner[2] if len(inner) > 2 else None)
                return out + self.block(([taken] if taken is not None else []) + rest, env, ret)
            elif k == "IfStmt":
                inner = s["inner"]
                cond, then = inner[0], inner[1]
                els = inner[2] if len(inner) > 2 else None
                c = self.expr(cond, env, out)
                tl = then["inner"] if then["kind"] == "CompoundStmt" else [then]
                if self.always_returns(tl):
                    e1 = dict(env)
                    tb = self.block(tl, e1, ret)
                    rb = self.block(([els] if els else []) + rest, env, ret) if (els or rest) else None
                    if rb is None:
                        raise Unsupported("if without continuation")
                    out.append(f"if {c} then do")
                    out += ["  " + l for l in tb]
                    out.append("else do")
                    out += ["  " + l for l in rb]
                    return out
                el = [] if els is None else (els["inner"] if els["kind"] == "CompoundStmt" else [els])
                if not self.contains_return(tl) and not self.contains_return(el):
                    # both branches fall through: the variables they assign are joined behind the `if`
                    assigned = set()
                    for st in tl + el:
                        self.assigned_vars(st, assigned)
                    assigned = sorted(v for v in assigned if v in env)
                    if not assigned:
                        raise Unsupported("if-statement without effect on the variables in scope")
                    e1, e2 = dict(env), dict(env)
                    l1 = self.block(tl, e1, False)
                    l2 = self.block(el, e2, False)
                    tup = lambda e: e[assigned[0]] if len(assigned) == 1 else "(" + ", ".join(e[v] for v in assigned) + ")"
                    for l in l1 + l2:
                        if "\n" in l or l.startswith(("if ", "else", "  ")):
                            raise Unsupported("nested statement-level if inside a joining if")
                    b1 = "(do " + "; ".join(l1 + [f"pure {tup(e1)}"]) + ")" if l1 else f"pure {tup(e1)}"
                    b2 = "(do " + "; ".join(l2 + [f"pure {tup(e2)}"]) + ")" if l2 else f"pure {tup(e2)}"
                    names = [self.newver(env, v) for v in assigned]
                    lhs = names[0] if len(names) == 1 else "(" + ", ".join(names) + ")"
                    out.append(f"let {lhs} ← (if {c} then {b1} else {b2})")
                    continue
                if ret is False:
                    raise Unsupported("conditional return inside a block that cannot return")
                # some path returns, some path falls through: the continuation is duplicated into both branches
                for st in tl + el:
                    self.no_shadowing(st, env)
                e1 = dict(env)
                tb = self.block(tl + rest, e1, ret)
                rb = self.block(el + rest, env, ret)
                out.append(f"if {c} then do")
                out += ["  " + l for l in tb]
                out.append("else do")
                out += ["  " + l for l in rb]
                if len(out) > 400:
                    raise Unsupported("too many paths")
                return out
            elif k in ("ForStmt", "WhileStmt"):
                self.loop(s, env, out)
            elif k == "CompoundStmt":
                sub = self.block(s["inner"], env, False)
                out += sub
            elif k == "NullStmt":
                pass
            else:
                # expression statement
                self.expr(s, env, out, discard=True)
        if ret:
            raise Unsupported("control reaches end of non-void block in " + self.name)
        return out

    def strip_const(self, n):
        """value of an already evaluated constant condition, or None"""
        while n.get("kind") in ("ParenExpr", "ExprWithCleanups"):
            n = n["inner"][-1]
        if n.get("kind") == "ConstantExpr" and "value" in n:
            return const_value(n["value"]) != 0
        return None

    def ignorable(self, s):
        return s.get("kind", "").endswith("Comment")

    def always_returns(self, stmts):
        stmts = [s for s in stmts if not self.ignorable(s)]
        if not stmts:
            return False
        last = stmts[-1]
        if last["kind"] == "ReturnStmt":
            return True
        if last["kind"] == "CompoundStmt":
            return self.always_returns(last.get("inner", []))
        if last["kind"] == "IfStmt" and len(last["inner"]) > 2:
            br = lambda b: b["inner"] if b["kind"] == "CompoundStmt" else [b]
            return self.always_returns(br(last["inner"][1])) and self.always_returns(br(last["inner"][2]))
        return False

    def contains_return(self, stmts):
        def walk(n):
            if n.get("kind") == "ReturnStmt":
                return True
            if n.get("kind") == "LambdaExpr":
                return False
            return any(walk(c) for c in n.get("inner", []) if isinstance(c, dict))
        return any(walk(st) for st in stmts)

    def no_shadowing(self, n, env):
        if n.get("kind") == "VarDecl" and (n.get("name") in env or n.get("name") in self.refs):
            raise Unsupported("a branch re-declares " + n["name"])
        for c in n.get("inner", []):
            if isinstance(c, dict):
                self.no_shadowing(c, env)

    def assigned_vars(self, n, acc, allow_return=False):
        k = n.get("kind")
        if k in ("BinaryOperator", "CompoundAssignOperator") and (n.get("opcode", "").endswith("=") and n.get("opcode") not in ("==", "!=", "<=", ">=")):
            tgt = self.strip(n["inner"][0])
            if tgt.get("kind") == "DeclRefExpr":
                acc.add(self.resolve(tgt["referencedDecl"]["name"]))
        if k == "UnaryOperator" and n.get("opcode") in ("++", "--"):
            tgt = self.strip(n["inner"][0])
            if tgt.get("kind") == "DeclRefExpr":
                acc.add(self.resolve(tgt["referencedDecl"]["name"]))
        if k == "CallExpr" and len(n.get("inner", [])) == 3:
            callee = self.strip(n["inner"][0])
            if callee.get("kind") == "DeclRefExpr" and callee["referencedDecl"].get("name") == "swap":
                for a in n["inner"][1:]:
                    a = self.strip(a)
                    if a.get("kind") == "DeclRefExpr":
                        nm = self.resolve(a["referencedDecl"]["name"])
                        for v in self.tuples.get(nm, [nm]):
                            acc.add(v)
        if k == "ReturnStmt" and not allow_return:
            raise Unsupported("return inside a loop")
        for c in n.get("inner", []):
            if isinstance(c, dict) and "kind" in c:
                self.assigned_vars(c, acc, allow_return)

    def used_vars(self, n, acc):
        if n.get("kind") == "DeclRefExpr" and n.get("referencedDecl", {}).get("kind") in ("VarDecl", "ParmVarDecl"):
            nm = self.resolve(n["referencedDecl"]["name"])
            for v in self.tuples.get(nm, [nm]):
                acc.add(v)
        for c in n.get("inner", []):
            if isinstance(c, dict) and "kind" in c:
                self.used_vars(c, acc)

    def loop(self, s, env, out):
        inner = s["inner"]
        if s["kind"] == "ForStmt":
            init, _, cond, inc, body = inner[0], inner[1], inner[2], inner[3], inner[4]
            if init and init.get("kind"):
                out += self.block([init], env, False)
        else:
            cond, body = inner[0], inner[1]
            inc = None
            if len(inner) == 3:     # while with condition variable slot
                cond, body = inner[1], inner[2]
        carried = set()
        for part in (cond, inc, body):
            if part and part.get("kind"):
                self.assigned_vars(part, carried)
        used = set()
        for part in (cond, inc, body):
            if part and part.get("kind"):
                self.used_vars(part, used)
        carried = sorted(v for v in carried if v in env)
        readonly = sorted(v for v in used if v in env and v not in carried)
        if not carried:
            raise Unsupported("loop without carried variables")
        lname = f"{self.name}.loop{len(self.loops) + 1}"
        lenv = {v: self.lean_ident(v) for v in carried + readonly}
        params = [lenv[v] for v in carried + readonly]
        body_lines = []
        c = self.expr(cond, lenv, body_lines)
        then_lines = []
        e2 = dict(lenv)
        bl = body["inner"] if body["kind"] == "CompoundStmt" else [body]
        then_lines += self.block(bl, e2, False)
        if inc and inc.get("kind"):
            self.expr(inc, e2, then_lines, discard=True)
        then_lines.append(f"{lname} fuel " + " ".join(e2[v] for v in carried + readonly))
        tup = lambda e: e[carried[0]] if len(carried) == 1 else "(" + ", ".join(e[v] for v in carried) + ")"
        rty = "Int" if len(carried) == 1 else "(" + " × ".join("Int" for _ in carried) + ")"
        src = f"def {lname} : Nat → " + " → ".join("Int" for _ in params) + f" → M {rty}\n"
        src += "  | 0, " + ", ".join("_" for _ in params) + " => .error .fuel\n"
        src += "  | fuel + 1, " + ", ".join(params) + " => do\n"
        for l in body_lines:
            src += "    " + l + "\n"
        src += f"    if {c} then do\n"
        for l in then_lines:
            src += "      " + l + "\n"
        src += f"    else pure {tup(lenv)}\n\n"
        self.loops.append(src)
        call = f"{lname} {FUEL} " + " ".join(env[v] for v in carried + readonly)
        if len(carried) == 1:
            nm = self.newver(env, carried[0])
            out.append(f"let {nm} ← {call}")
        else:
            names = [self.newver(env, v) for v in carried]
            out.append("let (" + ", ".join(names) + f") ← {call}")

    # -------------------------------------------------------------- expressions
    def strip(self, n):
        while n.get("kind") in ("ParenExpr", "ExprWithCleanups", "MaterializeTemporaryExpr", "CXXBindTemporaryExpr", "ConstantExpr") or \
                (n.get("kind") in ("ImplicitCastExpr", "CXXStaticCastExpr", "CXXFunctionalCastExpr", "CStyleCastExpr") and n.get("castKind") in ("NoOp", "LValueToRValue", "FunctionToPointerDecay", "ConstructorConversion", "DerivedToBase", "UncheckedDerivedToBase")):
            n = n["inner"][-1] if n.get("kind") != "CXXFunctionalCastExpr" else n["inner"][0]
        return n

    def lazy(self, node, env, want=None):
        """node as a monadic do-block term (for short-circuit / conditional contexts)"""
        lines = []
        e2 = dict(env)
        v = self.expr(node, e2, lines, want=want)
        for k in e2:
            if env.get(k) != e2[k]:
                raise Unsupported("assignment inside a lazily evaluated sub-expression")
        if not lines:
            return f"pure {v}"
        return "(do " + "; ".join(lines + [f"pure {v}"]) + ")"

    def bind(self, out, term, base="t"):
        nm = self.fresh(base)
        out.append(f"let {nm} ← {term}")
        return nm

    def expr(self, n, env, out, want=None, discard=False):
        n0 = n
        k = n.get("kind")
        if k == "ConstantExpr" and "value" in n and norm_type(qual(n)) in ALL + ["bool"]:
            # a constant expression clang has already evaluated (`if constexpr` conditions, template arguments)
            v = const_value(n["value"])
            return ("true" if v else "false") if norm_type(qual(n)) == "bool" else f"({v} : Int)"
        if k in ("ParenExpr", "ExprWithCleanups", "MaterializeTemporaryExpr", "CXXBindTemporaryExpr", "ConstantExpr"):
            return self.expr(n["inner"][-1], env, out, want, discard)
        if k == "InitListExpr":
            if len(n.get("inner", [])) != 1:
                raise Unsupported("init list")
            return self.expr(n["inner"][0], env, out, want, discard)
        if k == "IntegerLiteral":
            return f"({n['value']} : Int)"
        if k == "CharacterLiteral":
            return f"({int(n['value'])} : Int)"
        if k == "SubstNonTypeTemplateParmExpr":
            subs = [c for c in n.get("inner", []) if isinstance(c, dict) and c.get("kind") and not c["kind"].endswith("Decl")]
            if len(subs) != 1:
                raise Unsupported("substituted template parameter without a single replacement")
            return self.expr(subs[0], env, out, want, discard)
        if k == "CXXBoolLiteralExpr":
            return "true" if n.get("value") else "false"
        if k == "DeclRefExpr":
            rd = n["referencedDecl"]
            if rd["kind"] in ("VarDecl", "ParmVarDecl") and self.resolve(rd["name"]) in env:
                return env[self.resolve(rd["name"])]
            if rd["kind"] in ("VarDecl", "ParmVarDecl") and self.resolve(rd["name"]) in self.tuples:
                raise Unsupported("tuple used as a value: " + rd["name"])
            if rd["kind"] == "VarDecl" and rd["name"] == "value" and is_int(norm_type(qual(n))):
                # integral_constant<...>::value whose number is not in the AST: becomes a parameter
                if "size" not in self.consts:
                    self.consts.append("size")
                return "size"
            raise Unsupported(f"reference to {rd.get('name')} ({rd.get('kind')})")
        if k in ("ImplicitCastExpr", "CXXStaticCastExpr", "CXXFunctionalCastExpr", "CStyleCastExpr"):
            ck = n.get("castKind")
            sub = n["inner"][-1] if k != "CXXFunctionalCastExpr" else n["inner"][0]
            if ck in ("NoOp", "LValueToRValue", "ConstructorConversion"):
                return self.expr(sub, env, out, want, discard)
            if ck == "IntegralCast":
                dst = norm_type(qual(n))
                src = norm_type(qual(sub))
                v = self.expr(sub, env, out)
                if src == "bool":
                    v = f"(CInt.b2i {v})"
                    src = "i32"
                if dst == "bool":
                    return f"(decide ({v} ≠ 0))"
                return f"(CInt.conv {ity(dst)} {v})"
            if ck == "IntegralToBoolean":
                v = self.expr(sub, env, out)
                return f"(decide ({v} ≠ 0))"
            raise Unsupported(f"cast kind {ck}")
        if k == "UnaryOperator":
            op = n["opcode"]
            sub = n["inner"][0]
            t = norm_type(qual(n))
            if op == "!":
                return f"(!{self.expr(sub, env, out)})"
            if op == "-":
                return self.bind(out, f"CInt.neg {ity(t)} {self.expr(sub, env, out)}")
            if op == "+":
                return self.expr(sub, env, out)
            if op == "~":
                return f"(CInt.bnot {ity(t)} {self.expr(sub, env, out)})"
            if op in ("++", "--"):
                tgt = self.strip(sub)
                if tgt.get("kind") != "DeclRefExpr":
                    raise Unsupported("++ on non-variable")
                vt = norm_type(qual(tgt))
                cname = self.resolve(tgt["referencedDecl"]["name"])
                old = env[cname]
                # T promoted, +-1, converted back
                pt = vt if vt in ("u32", "i32", "u64", "i64") else "i32"
                f = "add" if op == "++" else "sub"
                r = self.bind(out, f"CInt.{f} {ity(pt)} {old} 1")
                nm = self.newver(env, cname)
                out.append(f"let {nm} := CInt.conv {ity(vt)} {r}")
                return old if n.get("isPostfix") else nm
            raise Unsupported("unary " + op)
        if k == "BinaryOperator":
            op = n["opcode"]
            a, b = n["inner"]
            if op in ("&&", "||"):
                x = self.expr(a, env, out)
                y = self.lazy(b, env)
                if op == "&&":
                    return self.bind(out, f"(if {x} then {y} else pure false)", "c")
                return self.bind(out, f"(if {x} then pure true else {y})", "c")
            if op == "=":
                tgt = self.strip(a)
                if tgt.get("kind") != "DeclRefExpr":
                    raise Unsupported("assignment to non-variable")
                v = self.expr(b, env, out)
                nm = self.newver(env, tgt["referencedDecl"]["name"])
                out.append(f"let {nm} := {v}")
                return nm
            if op == ",":
                self.expr(a, env, out, discard=True)
                return self.expr(b, env, out)
            x = self.expr(a, env, out)
            y = self.expr(b, env, out)
            ta = norm_type(qual(a))
            if op in ("==", "!=", "<", ">", "<=", ">="):
                if ta == "bool":
                    x, y = f"(CInt.b2i {x})", f"(CInt.b2i {y})"
                sym = {"==": "=", "!=": "≠", "<": "<", ">": ">", "<=": "≤", ">=": "≥"}[op]
                return f"(decide ({x} {sym} {y}))"
            t = norm_type(qual(n))
            if op in ("+", "-", "*", "/", "%"):
                f = {"+": "add", "-": "sub", "*": "mul", "/": "div", "%": "mod"}[op]
                return self.bind(out, f"CInt.{f} {ity(t)} {x} {y}")
            if op in ("<<", ">>"):
                f = "shl" if op == "<<" else "shr"
                return self.bind(out, f"CInt.{f} {ity(t)} {x} {y}")
            if op in ("&", "|", "^"):
                f = {"&": "band", "|": "bor", "^": "bxor"}[op]
                return f"(CInt.{f} {ity(t)} {x} {y})"
            raise Unsupported("binary " + op)
        if k == "CompoundAssignOperator":
            op = n["opcode"][:-1]
            a, b = n["inner"]
            tgt = self.strip(a)
            if tgt.get("kind") != "DeclRefExpr":
                raise Unsupported("compound assignment to non-variable")
            vt = norm_type(qual(tgt))
            ct = norm_type((n.get("computeResultType") or {}).get("desugaredQualType") or (n.get("computeResultType") or {}).get("qualType") or qual(n))
            cl = norm_type((n.get("computeLHSType") or {}).get("desugaredQualType") or (n.get("computeLHSType") or {}).get("qualType") or qual(n))
            cname = self.resolve(tgt["referencedDecl"]["name"])
            x = f"(CInt.conv {ity(cl)} {env[cname]})"
            y = self.expr(b, env, out)
            if op in ("+", "-", "*", "/", "%"):
                f = {"+": "add", "-": "sub", "*": "mul", "/": "div", "%": "mod"}[op]
                r = self.bind(out, f"CInt.{f} {ity(ct)} {x} {y}")
            elif op in ("<<", ">>"):
                r = self.bind(out, f"CInt.{'shl' if op == '<<' else 'shr'} {ity(ct)} {x} {y}")
            elif op in ("&", "|", "^"):
                f = {"&": "band", "|": "bor", "^": "bxor"}[op]
                r = f"(CInt.{f} {ity(ct)} {x} {y})"
            else:
                raise Unsupported("compound " + op)
            nm = self.newver(env, cname)
            out.append(f"let {nm} := CInt.conv {ity(vt)} {r}")
            return nm
        if k == "ConditionalOperator":
            c, a, b = n["inner"]
            cv = self.expr(c, env, out)
            return self.bind(out, f"(if {cv} then {self.lazy(a, env, want)} else {self.lazy(b, env, want)})", "v")
        if k in ("CXXTemporaryObjectExpr", "CXXConstructExpr"):
            t = norm_type(qual(n))
            args = [c for c in n.get("inner", []) if isinstance(c, dict) and c.get("kind") and c["kind"] != "CXXDefaultArgExpr"]
            if t.startswith("opt:"):
                if not args:
                    return "none"
                if len(args) == 1:
                    at = norm_type(qual(args[0]))
                    if at == t:     # copy / move construction
                        return self.expr(args[0], env, out)
                    return f"(some {self.expr(args[0], env, out)})"
            if is_int(t) and len(args) == 1:      # strong typedef / mask construction: same value
                return self.expr(args[0], env, out)
            raise Unsupported(f"construction of {t} from {len(args)} arguments")
        if k in ("CallExpr", "CXXMemberCallExpr", "CXXOperatorCallExpr"):
            return self.call(n, env, out, want)
        if k == "LambdaExpr":
            raise Unsupported("lambda used as a value")
        if k == "MemberExpr":
            raise Unsupported("member access " + n.get("name", ""))
        raise Unsupported("expression kind " + str(k))

    def lambda_parts(self, n):
        n = self.strip(n)
        if n.get("kind") != "LambdaExpr":
            raise Unsupported("expected a lambda, got " + str(n.get("kind")))
        rec = [c for c in n["inner"] if c.get("kind") == "CXXRecordDecl"][0]
        meth = [c for c in rec["inner"] if c.get("kind") == "CXXMethodDecl" and c.get("name") == "operator()"][0]
        params = [c for c in meth.get("inner", []) if c.get("kind") == "ParmVarDecl"]
        body = body_of(meth)
        rq = meth["type"].get("desugaredQualType") or meth["type"]["qualType"]
        return params, body, meth

    def typed_uses(self, n, acc):
        """C++ variables referenced below n, with their types"""
        if n.get("kind") == "DeclRefExpr" and n.get("referencedDecl", {}).get("kind") in ("VarDecl", "ParmVarDecl"):
            acc.setdefault(n["referencedDecl"]["name"], norm_type(qual(n)))
        for c in n.get("inner", []):
            if isinstance(c, dict) and "kind" in c:
                self.typed_uses(c, acc)

    def inline_lambda(self, lam, env, args, ret_type=None):
        params, body, meth = self.lambda_parts(lam)
        e2 = dict(env)
        for p, a in zip(params, args):
            e2[p["name"]] = a
        entry = dict(e2)
        saved = self.ret_type
        self.ret_type = ret_type
        nloops = len(self.loops)
        lines = self.block(body["inner"], e2, ret="lambda")
        self.ret_type = saved
        if all("\n" not in l and not l.startswith("if ") and not l.startswith("else") and not l.startswith("  ") for l in lines):
            return "(do " + "; ".join(lines) + ")"
        # a body with statement-level control flow becomes a helper definition `<function>.lam<k>` over the captured variables
        if ret_type is None:
            raise Unsupported("multi-statement lambda of unknown result type")
        uses = {}
        self.typed_uses(body, uses)
        sig, actual, seen = [], [], set()
        for cname, t in uses.items():
            r = self.resolve(cname)
            if r not in entry or entry[r] in seen:
                continue
            seen.add(entry[r])
            if not re.fullmatch(r"[A-Za-z_][A-Za-z_0-9]*", entry[r]):
                raise Unsupported("captured value is not a variable")
            sig.append(f"({entry[r]} : {self.lean_type(t)})")
            actual.append(entry[r])
        text = "\n".join(lines)
        for c in self.consts:
            if re.search(r"(?<![\w.])" + re.escape(c) + r"(?![\w.])", text):
                sig.append(f"({c} : Int)")
                actual.append(c)
        self.nlam = getattr(self, "nlam", 0) + 1
        lname = f"{self.name}.lam{self.nlam}"
        src = f"def {lname} " + " ".join(sig) + f" : M {self.lean_type(ret_type)} := do\n" + "".join("  " + l + "\n" for l in lines) + "\n"
        self.loops.append(src)
        return f"({lname} " + " ".join(actual) + ")" if actual else lname

    def call(self, n, env, out, want):
        inner = n["inner"]
        callee = self.strip(inner[0])
        args = inner[1:]
        if callee.get("kind") == "MemberExpr":
            nm = callee.get("name")
            obj = self.strip(callee["inner"][0])
            if nm == "get" and not args:      # strong_typedef::get / mask.get(): same value
                return self.expr(obj, env, out)
            raise Unsupported("member call " + str(nm))
        if callee.get("kind") != "DeclRefExpr":
            raise Unsupported("indirect call")
        rd = callee["referencedDecl"]
        name = rd.get("name")
        rt = norm_type(qual(n))
        if name == "swap" and len(args) == 2:
            a, b = (self.strip(x) for x in args)
            if a.get("kind") != "DeclRefExpr" or b.get("kind") != "DeclRefExpr":
                raise Unsupported("swap of non-variables")
            na, nb = self.resolve(a["referencedDecl"]["name"]), self.resolve(b["referencedDecl"]["name"])
            sa, sb = self.tuples.get(na, [na]), self.tuples.get(nb, [nb])
            if len(sa) != len(sb) or any(v not in env for v in sa + sb):
                raise Unsupported("swap of unknown variables")
            olda, oldb = [env[v] for v in sa], [env[v] for v in sb]
            for v, o in list(zip(sa, oldb)) + list(zip(sb, olda)):
                nm = self.newver(env, v)
                out.append(f"let {nm} := {o}")
            return "()"
        # translated callee?
        lean = self.em.callee_name(rd) if (name not in PRIMS or name in BODY_PRIMS) else None
        if lean:
            vals = [self.expr(a, env, out) for a in args]
            extra = "".join(" " + c for c in self.em.extra_params.get(lean, []))
            for c in self.em.extra_params.get(lean, []):
                if c not in self.consts:
                    self.consts.append(c)
            return self.bind(out, f"{lean} " + " ".join(vals) + extra, "r")
        if name == "literal" and len(args) == 1:
            return f"(CInt.conv {ity(rt)} {self.expr(args[0], env, out)})"
        if name in ("size", "to_signed", "to_unsigned") and len(args) == 1:
            return f"(CInt.conv {ity(rt)} {self.expr(args[0], env, out)})"
        if name in ("int_to_enum", "enum_to_int", "enum_to_underlying") and len(args) == 1:
            v = self.expr(args[0], env, out)
            return f"(CInt.conv {ity(rt)} {v})"      # int_to_enum: static_cast to an enum with a fixed underlying type
        if name in ("max", "min") and not args and rt == "bool":
            return "true" if name == "max" else "false"       # numeric_limits<bool>
        if name == "max" and not args:
            return f"({ity(rt)}).hi"
        if name == "min" and not args:
            return f"({ity(rt)}).lo"
        if name in ("max", "min") and len(args) == 2:
            x = self.expr(args[0], env, out)
            y = self.expr(args[1], env, out)
            # std::max(a,b) = (a < b) ? b : a ; std::min(a,b) = (b < a) ? b : a
            return f"(if {x} < {y} then {y} else {x})" if name == "max" else f"(if {y} < {x} then {y} else {x})"
        if name == "abs" and len(args) == 1:
            x = self.expr(args[0], env, out)
            ng = self.bind(out, f"(if {x} < 0 then CInt.neg {ity(rt)} {x} else pure {x})", "a")
            return ng
        if name == "is_zero" and len(args) == 1:
            return f"(decide ({self.expr(args[0], env, out)} = 0))"
        if name == "make_if" and len(args) == 2:
            c = self.expr(args[0], env, out)
            body = self.inline_lambda(args[1], env, [], ret_type=rt[4:] if rt.startswith("opt:") else None)
            return self.bind(out, f"(if {c} then (do let v ← {body}; pure (some v)) else pure none)", "o")
        if name in ("bind", "map") and len(args) == 2:
            o = self.expr(args[0], env, out)
            p = self.fresh("p")
            body = self.inline_lambda(args[1], env, [p], ret_type=rt if name == "bind" else (rt[4:] if rt.startswith("opt:") else None))
            if name == "bind":
                return self.bind(out, f"(match {o} with | none => pure none | some {p} => {body})", "o")
            return self.bind(out, f"(match {o} with | none => pure none | some {p} => (do let v ← {body}; pure (some v)))", "o")
        if name == "const_" and len(args) == 1:
            raise Unsupported("const_ outside make_if")
        raise Unsupported(f"call to {name} (no body in the dump, not a known primitive)")


PRIMS = {"literal", "size", "to_signed", "to_unsigned", "int_to_enum", "enum_to_int", "make_if", "bind", "map", "is_zero", "abs"}
# primitives whose body is translated whenever the referenced instantiation is in the dumps (the built-in meaning is the fallback)
BODY_PRIMS = {"size", "to_signed", "to_unsigned", "int_to_enum"}
# dumped in addition to the registry's filters (callees whose bodies are translated)
EXTRA_FILTERS = ["fcppt::cast::int_to_enum"]


def translate(repo, only=None):
    reg = registry()
    if only:
        reg = [r for r in reg if re.search(only, r[0])]
    includes = sorted({h for r in reg for h in r[2]} | {"fcppt/cast/int_to_enum.hpp"})
    filters = sorted({r[1] for r in reg} | {"truncation_check"} | set(EXTRA_FILTERS))
    tmp = tempfile.mkdtemp(prefix="cxx2lean_")
    tu = os.path.join(tmp, "tu.cpp")
    errors = {}
    excluded = set()

    def write_tu():
        """one forcing expression per line; returns line number -> registry name"""
        lines = {}
        with open(tu, "w") as f:
            text = PRELUDE_CPP
            for h in includes:
                text += f"#include <{h}>\n"
            text += "void verif_force_instantiation() {\n"
            n = text.count("\n")
            for r in reg:
                if r[0] in excluded:
                    continue
                n += 1
                lines[n] = r[0]
                text += f"  (void){r[3]};\n"
            text += "}\n"
            f.write(text)
        return lines

    index = Index()
    try:
        for attempt in range(6):
            lines = write_tu()
            index = Index()
            try:
                with ThreadPoolExecutor(max_workers=8) as ex:
                    for name, docs in zip(filters, ex.map(lambda nm: dump(repo, tu, nm), filters)):
                        index.add(docs)
                break
            except Unsupported as e:
                # an instantiation that no longer compiles must not take the other functions down: the forcing lines clang
                # blames are dropped (reported as errors of exactly these registry entries) and the dump is repeated
                p = subprocess.run(["clang++-14", "-std=c++20", "-fsyntax-only", "-ferror-limit=0", "-DFCPPT_STATIC_LINK"] + include_flags(repo) + [tu],
                                   capture_output=True, text=True)
                blamed = {}
                cur = None
                for l in p.stderr.split("\n"):
                    m = re.search(r"(?:error|fatal error): (.*)", l)
                    if m and "tu.cpp" not in l.split(":")[0]:
                        cur = m.group(1)
                    m2 = re.match(r".*tu\.cpp:(\d+):\d+: (note: in instantiation|error|note: while substituting|note: requested here|note: in )", l)
                    if m2 and int(m2.group(1)) in lines:
                        blamed.setdefault(lines[int(m2.group(1))], cur or l.strip())
                if not blamed or attempt == 5:
                    return None, {"error": str(e)}
                for nm, why in blamed.items():
                    excluded.add(nm)
                    errors[nm] = "the instantiation does not compile: " + str(why)[:300]
    finally:
        import shutil
        shutil.rmtree(tmp, ignore_errors=True)
    reg = [r for r in reg if r[0] not in excluded]
    em = Emitter(index, {})
    done = []
    found = {}
    for lean_name, fname, _, _, targs in reg:
        fname = fname.split("::")[-1]
        specs = index.find_spec(fname, targs)
        if len(specs) != 1:
            errors[lean_name] = f"{len(specs)} specialisations of {fname}<{','.join(targs)}> with a body found"
            continue
        found[lean_name] = specs[0]
        if fname in BODY_PRIMS:
            # a registry function that is also a callee of other registry functions keeps its registry name there
            em.names[specs[0]["id"]] = lean_name
    for lean_name, fname, _, _, targs in reg:
        if lean_name not in found:
            continue
        try:
            em.names[found[lean_name]["id"]] = lean_name
            em.function(found[lean_name], lean_name)
            if not em.defs.get(lean_name):
                raise Unsupported("recursive definition")
            done.append(lean_name)
        except Unsupported as e:
            errors[lean_name] = "unsupported: " + str(e)
            em.defs.pop(lean_name, None)
    families = {}
    for lean_name, fname, _, _, _ in reg:
        if lean_name in done:
            families.setdefault(fname.split("::")[-1], []).append(lean_name)
    text = HEADER + "".join(em.defs[n] + "\n" for n in em.order if em.defs.get(n)) + table(done, em) + unfold_macros(em, families) + "end Fcppt.Gen\n"
    return text, {"functions": done, "helpers": [n for n in em.order if n not in done], "errors": errors,
                  "extra_params": {k: v for k, v in em.extra_params.items() if v}}


def unfold_macros(em, families):
    """`gen_unfold_<family>`: unfolds every registry function of the family together with the helpers it (transitively) calls —
    proofs do not have to know how the source splits a function into detail:: overloads."""
    names = [n for n in em.order if em.defs.get(n)]
    calls = {n: {m for m in names if m != n and re.search(r"(?<![\w.])" + re.escape(m) + r"(?![\w.])", em.defs[n])} for n in names}
    out = "\n/-! Unfolding sets (used by the proofs instead of explicit helper names). -/\n"
    for fam, roots in sorted(families.items()):
        seen, todo = [], list(roots)
        while todo:
            n = todo.pop()
            if n in seen:
                continue
            seen.append(n)
            todo += sorted(calls.get(n, ()))
        seen = [n for n in names if n in seen]
        # lambda bodies that became helper definitions belong to their function
        seen = [m for n in seen for m in re.findall(r"^def (\S+\.lam\d+) ", em.defs[n], re.M) + [n]]
        out += f"macro \"gen_unfold_{fam}\" : tactic => `(tactic| simp only [" + ", ".join(seen) + "])\n"
    return out


def table(done, em):
    """Name -> function tables for the line-protocol driver (result rendered canonically)."""
    def arity(n):
        m = re.search(r"^def " + re.escape(n) + r"((?: \([a-z_A-Z0-9]+ : Int\))*) : M (.*) := do", em.defs[n], re.M)
        return len(re.findall(r"\(", m.group(1))), m.group(2)
    rows = {0: [], 1: [], 2: [], 3: [], 4: []}
    for n in done:
        k, rt = arity(n)
        show = {"Int": "showInt", "Bool": "showBool", "(Option Int)": "showOpt", "(Option Bool)": "showOptB"}[rt]
        args = " ".join("abcd"[:k])
        if k == 0:
            rows[0].append(f'  ("{n}", {show} {n})')
        else:
            rows[k].append(f'  ("{n}", fun {args} => {show} ({n} {args}))')
    out = """
def showM {α} (f : α → String) : M α → String
  | .ok v => f v
  | .error e => e.name
def showInt : M Int → String := showM toString
def showBool : M Bool → String := showM (fun b => if b then "1" else "0")
def showOpt : M (Option Int) → String := showM (fun o => match o with | none => "none" | some v => "some " ++ toString v)
def showOptB : M (Option Bool) → String := showM (fun o => match o with | none => "none" | some v => if v then "some 1" else "some 0")

"""
    out += "def table1 : List (String × (Int → String)) := [\n" + ",\n".join(rows[1]) + "]\n\n"
    out += "def table2 : List (String × (Int → Int → String)) := [\n" + ",\n".join(rows[2]) + "]\n\n"
    out += "def table3 : List (String × (Int → Int → Int → String)) := [\n" + ",\n".join(rows[3]) + "]\n\n"
    out += "def table4 : List (String × (Int → Int → Int → Int → String)) := [\n" + ",\n".join(rows[4]) + "]\n\n"
    out += "def table0 : List (String × String) := [\n" + ",\n".join(rows[0]) + "]\n\n"
    return out


HEADER = """import FcpptModel.Prelude.CInt
/-!
GENERATED by tools/cxx2lean.py from the instantiated clang AST of /repo's headers — do not edit.
Regenerated on every run of the C06 / C01 checks; the theorems of FcpptProofs/Props/C06.lean are
about exactly these definitions.
-/
set_option linter.unusedVariables false
namespace Fcppt.Gen
open Fcppt

"""


def main():
    ap = argparse.ArgumentParser()
    ap.add_argument("--repo", default=os.environ.get("VERIF_REPO", "/repo"))
    ap.add_argument("--out", default=os.path.join(ROOT, "lean", "FcpptModel", "Gen", "Scalar.lean"))
    ap.add_argument("--only")
    ap.add_argument("--report")
    a = ap.parse_args()
    text, info = translate(a.repo, a.only)
    if text is not None:
        old = open(a.out).read() if os.path.exists(a.out) else None
        if old != text:
            with open(a.out, "w") as f:
                f.write(text)
        info["changed"] = old != text
    if a.report:
        json.dump(info, open(a.report, "w"), indent=1)
    print(json.dumps({k: (v if k != "functions" else len(v)) for k, v in info.items()}, indent=1)[:3000])
    return 0 if text is not None and not info.get("errors") else 1


if __name__ == "__main__":
    sys.exit(main())
