import sys, subprocess, collections
sys.path.insert(0, '.')  # run from the repository root
from vlib.rng import Rng
import props.c09 as p
tier = sys.argv[1] if len(sys.argv) > 1 else "quick"
ops = []
for b in p.batches(Rng(1), tier):
    ops += b.ops
out = subprocess.run(["lean/.lake/build/bin/driver", "C09"], input="\n".join(ops) + "\n", capture_output=True, text=True).stdout.split("\n")
c = collections.Counter()
sizes = collections.Counter()
inner = collections.Counter()
for o, r in zip(ops, out):
    k = o.split()[0]
    st = r.split()[0] if r else "?"
    c[(k, st if st.startswith("skip") or st in ("bad-op",) or st.startswith("fault") else "run")] += 1
    if " a=" in r:
        a = r.split(" a=")[1].split()[0]
        inner[(k, "inner" if "." in a else "root")] += 1
    if "|" in r:
        d = r.split("|")[1]
        sizes[min(70, (d.count("+") + d.count("!")) // 10 * 10)] += 1
for k in sorted(c): print(k, c[k])
print(sorted(sizes.items()))
print(sorted(inner.items()))
