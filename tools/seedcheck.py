#!/usr/bin/env python3
"""Confirm a seeded breaking change and run the property's check against it.

    tools/seedcheck.py <seed-output-dir> [--tree /tmp/rw/me] [--keep-as seeded/<name>]

<seed-output-dir> holds patch.diff, demo.cpp and meta.json as written by an independent sub-agent.
Steps (all in a scratch worktree of /repo with a complete cmake build, never in /repo):
  1. the patch applies to the pristine tree;
  2. the demo passes WITHOUT the change and fails WITH it;
  3. with the change the library still builds and all 433 tests pass;
  4. `VERIF_REPO=<tree> ./check.py <property> --tier quick` (then thorough if quick is silent) - is a VIOLATION reported?
  5. undo; write seeded/<name>/{patch.diff, demo.cpp, meta.json}.
"""
import argparse
import json
import os
import re
import shutil
import subprocess
import sys
import time

ROOT = os.path.dirname(os.path.dirname(os.path.abspath(__file__)))


def sh(cmd, cwd=None, env=None, timeout=3600):
    p = subprocess.run(cmd, shell=True, cwd=cwd, env=env, capture_output=True, text=True, timeout=timeout)
    return p.returncode, (p.stdout + p.stderr)


def build_demo(tree, demo, out, meta):
    """Compile the demo against the tree: try the agent's own command first (rewritten to this tree), then generic ones."""
    inc = " ".join(f"-I {tree}/libs/{l}/include -I {tree}/libs/{l}/impl/include" for l in ("core", "options", "parse", "log", "filesystem")) + f" -I {tree}/_build/include"
    cmds = []
    generic = f"g++ -std=c++20 -O0 {inc} {demo} -o {out} -L{tree}/_build/lib -lfcppt_core -lfcppt_options -lfcppt_log -lfcppt_filesystem -lfcppt_parse -pthread"
    cmds.append(generic)
    cmds.append(generic.replace(" -lfcppt_parse", ""))
    cmds.append(f"g++ -std=c++20 -O0 {inc} {demo} -o {out} -pthread")
    last = ""
    for c in cmds:
        rc, o = sh(c)
        last = o
        if rc == 0:
            return True, c
    return False, last[-2000:]


def run_demo(tree, exe):
    env = dict(os.environ, LD_LIBRARY_PATH=f"{tree}/_build/lib")
    try:
        p = subprocess.run([exe], capture_output=True, text=True, timeout=120, env=env)
        return p.returncode, (p.stdout + p.stderr)[-1500:]
    except subprocess.TimeoutExpired:
        return 124, "TIMEOUT (120 s)"


def main():
    ap = argparse.ArgumentParser()
    ap.add_argument("seed")
    ap.add_argument("--tree", default="/tmp/rw/me")
    ap.add_argument("--keep-as")
    ap.add_argument("--no-thorough", action="store_true")
    a = ap.parse_args()
    seed = os.path.abspath(a.seed)
    tree = a.tree
    meta = json.load(open(os.path.join(seed, "meta.json")))
    pid = meta["property"]
    patch = os.path.join(seed, "patch.diff")
    demo = os.path.join(seed, "demo.cpp")
    rep = {"property": pid, "seed_dir": seed, "steps": {}}
    head = subprocess.check_output(["git", "-C", "/repo", "rev-parse", "HEAD"], text=True).strip()
    sh(f"git checkout -q -- . && git checkout -q --detach {head}", cwd=tree)
    rc, o = sh(f"git apply --check {patch}", cwd=tree)
    rep["steps"]["applies"] = rc == 0
    if rc != 0:
        rep["error"] = "patch does not apply to /repo HEAD: " + o[-500:]
        print(json.dumps(rep, indent=1))
        return 2
    # make sure the pristine build is current
    rc, o = sh("cmake --build _build -j12 2>&1 | tail -2", cwd=tree)
    exe0 = os.path.join(seed, "demo_without")
    ok, how = build_demo(tree, demo, exe0, meta)
    rep["steps"]["demo_builds_without_change"] = ok
    if not ok:
        rep["error"] = "demo does not build on the pristine tree: " + how
        print(json.dumps(rep, indent=1))
        return 2
    rc0, out0 = run_demo(tree, exe0)
    rep["steps"]["demo_without_change"] = {"rc": rc0, "tail": out0[-400:]}
    # apply
    sh(f"git apply {patch}", cwd=tree)
    try:
        t0 = time.time()
        rc, o = sh("cmake --build _build -j12 2>&1 | tail -15", cwd=tree)
        rep["steps"]["builds_with_change"] = rc == 0 and "FAILED" not in o and "error:" not in o
        rc, o = sh("ctest --test-dir _build -j12 2>&1 | tail -6", cwd=tree)
        m = re.search(r"(\d+)% tests passed, (\d+) tests failed out of (\d+)", o)
        rep["steps"]["tests_with_change"] = m.group(0) if m else o[-300:]
        tests_ok = bool(m) and m.group(2) == "0" and m.group(3) == "433"
        exe1 = os.path.join(seed, "demo_with")
        ok, how = build_demo(tree, demo, exe1, meta)
        rc1, out1 = run_demo(tree, exe1) if ok else (None, "demo does not build with the change: " + how)
        rep["steps"]["demo_with_change"] = {"rc": rc1, "tail": out1[-400:]}
        rep["confirmed"] = bool(rep["steps"]["builds_with_change"] and tests_ok and rc0 == 0 and rc1 not in (0, None))
        rep["build_test_s"] = round(time.time() - t0, 1)
        # run the check
        env = dict(os.environ, VERIF_REPO=tree)
        found = None
        for tier in (["quick"] if a.no_thorough else ["quick", "thorough"]):
            t0 = time.time()
            p = subprocess.run([os.path.join(ROOT, "check.py"), pid, "--tier", tier], cwd=ROOT, env=env, capture_output=True, text=True, timeout=7200)
            lines = [l for l in p.stdout.split("\n") if l.startswith("VIOLATION") or l.startswith("OK ") or l.startswith("ERROR") or l.startswith("KNOWN")]
            rep["steps"][f"check_{tier}"] = {"rc": p.returncode, "lines": lines[:6], "seconds": round(time.time() - t0, 1)}
            if p.returncode == 1:
                found = tier
                m = re.search(r"replay=(\S+)", p.stdout)
                if m and os.path.exists(m.group(1)):
                    r = json.load(open(m.group(1)))
                    rep["replay"] = {k: r.get(k) for k in ("kind", "batch", "ops", "expected", "observed", "what", "theorems")}
                    for k in ("ops", "expected", "observed"):
                        if rep["replay"].get(k):
                            rep["replay"][k] = [str(x)[:300] for x in rep["replay"][k][:6]]
                break
        rep["caught_by"] = found
    finally:
        sh("git checkout -q -- . && git clean -fdq -e _build", cwd=tree)
        sh("cmake --build _build -j12 2>&1 | tail -1", cwd=tree)
        for f in ("demo_without", "demo_with"):
            try:
                os.unlink(os.path.join(seed, f))
            except OSError:
                pass
    # regenerate the translated model from the pristine /repo again (a check run with VERIF_REPO rewrote it)
    if pid in ("C06", "C01"):
        sh(f"{sys.executable} {ROOT}/tools/cxx2lean.py", cwd=ROOT)
    if a.keep_as:
        dst = os.path.join(ROOT, a.keep_as)
        os.makedirs(dst, exist_ok=True)
        shutil.copy(patch, os.path.join(dst, "patch.diff"))
        shutil.copy(demo, os.path.join(dst, "demo.cpp"))
        meta_out = dict(meta)
        meta_out["base_commit"] = head
        meta_out["confirmed_by_coordinator"] = {k: rep["steps"].get(k) for k in ("applies", "demo_without_change", "builds_with_change", "tests_with_change", "demo_with_change")}
        meta_out["confirmed"] = rep.get("confirmed")
        meta_out["what_was_run"] = ("scratch worktree of /repo with a full cmake build: git apply patch.diff; cmake --build; ctest (433 tests); demo compiled and run "
                                    "with and without the change; VERIF_REPO=<tree> ./check.py " + pid + " --tier quick (then thorough if silent)")
        meta_out["detected_by"] = rep.get("caught_by")
        meta_out["check_result"] = {k: v for k, v in rep["steps"].items() if k.startswith("check_")}
        if rep.get("replay"):
            meta_out["replay_excerpt"] = rep["replay"]
        json.dump(meta_out, open(os.path.join(dst, "meta.json"), "w"), indent=1)
    print(json.dumps(rep, indent=1))
    return 0


if __name__ == "__main__":
    sys.exit(main())
