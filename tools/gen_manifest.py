#!/usr/bin/env python3
"""Regenerates /verif/MANIFEST.json from the property plugins (props/cXX.py).  Properties without a plugin are listed under
not_applicable with the reason given in tools/not_claimed.json."""
import importlib
import json
import os
import sys

ROOT = os.path.dirname(os.path.dirname(os.path.abspath(__file__)))
sys.path.insert(0, ROOT)

props = [json.loads(l)["id"] for l in open(os.path.join(ROOT, "properties.jsonl"))]
not_claimed = json.load(open(os.path.join(ROOT, "tools", "not_claimed.json")))
checks, na, served = [], [], []
for pid in props:
    f = os.path.join(ROOT, "props", pid.lower() + ".py")
    if not os.path.exists(f) or pid in not_claimed.get("withdrawn", {}):
        reason = not_claimed.get("withdrawn", {}).get(pid) or not_claimed["pending"].get(pid) or not_claimed["default"]
        na.append({"property_id": pid, "reason": reason})
        continue
    m = importlib.import_module("props." + pid.lower())
    mf = m.MANIFEST
    served.append(pid)
    checks.append({
        "property_id": pid,
        "quick_cmd": f"./check.py {pid} --tier quick",
        "thorough_cmd": f"./check.py {pid} --tier thorough",
        "evidence_file": f"/verif/evidence/{pid}.json",
        "replay_cmd_template": f"./check.py {pid} --replay {{path}}",
        "engine": "lean4-proof+correspondence",
        "level_claimed": {"category": "proof", "text": mf["level_text"], "design_ref": mf.get("design_ref", "DESIGN.md §5")},
        "level_note": mf["level_note"],
        "technique": mf["technique"],
    })
manifest = {
    "version": 1,
    "setup_cmd": "./setup.sh",
    "hooks": {
        "guard": "FCPPT_VERIF",
        "enable": "harnesses are compiled with -DFCPPT_VERIF by vlib/harness.py; no source hooks exist in /repo so far",
        "baseline_off_cmd": "cmake --build /repo/_build -j16 && ctest --test-dir /repo/_build -j8 --timeout 900",
        "source_commits": [],
        "add_only": True,
    },
    "engines": [{
        "name": "lean4-proof+correspondence",
        "path": "/verif/check.py",
        "serves_properties": served,
        "kind_free_text": "Lean 4 theorems about executable models (lean/), tied to /repo by C++ differential harnesses (harness/) and, for the scalar core, a clang-AST translator (tools/cxx2lean.py)",
    }],
    "checks": checks,
    "not_applicable": na,
    "notes": "See DESIGN.md. Fixed defects (each a fix: commit in /repo) and the four known findings are listed in known_findings.json; seeded/ holds 148 independently written breaking changes and what detected them.",
}
json.dump(manifest, open(os.path.join(ROOT, "MANIFEST.json"), "w"), indent=1)
print(f"{len(checks)} checks, {len(na)} not claimed")
