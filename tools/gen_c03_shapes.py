#!/usr/bin/env python3
"""C03: the family of parser shapes, written once and generated into

  harness/c03_shapes.inc, harness/c03_s<k>.cpp   real typed fcppt::options parsers (C++), spread over NTU translation units
  lean/FcpptModel/Model/C03/Shapes.lean          the same shapes as `OP` terms (Lean model)

`python3 tools/gen_c03_shapes.py` rewrites both files when their content changed (`--check` only
compares).  props/c03.py imports SHAPES from here for its generators (names, alphabets).

Shape description (nested tuples):
  ("arg", label, ty, help|None)                         argument<label, ty>  (its long_name is label + "_arg")
  ("flag", label, short|None, long, ty, act, inact, help|None)   flag<label, ty>
  ("switch", label, short|None, long, help|None)        switch_<label>
  ("opt", label, short|None, long, ty, default|None, help|None)  option<label, ty>
  ("unit", label)                                 unit<label>
  ("uswitch", label, short|None, long)            unit_switch<label>
  ("optional", p) ("many", p) ("prod", a, b) ("sum", label, a, b)
  ("commands", common, [(name, taglabel, p[, help]), ...])    make_commands(std::move(...)...)
  ("commands", common, subs, "lvalue")                        make_commands(lvalues...): the forwarding constructor copies
  ("apply", [p1, ..., pn])   n >= 2: fcppt::options::apply(p1, ..., pn) = product(p1, product(p2, ...))
  ("ref", p)    the parent gets fcppt::make_cref(p)             (parsers held by reference; the model sees p)
  ("sref", key, p)  the same, and all occurrences of `key` in the shape refer to one and the same parser object
  ("copy", p)   the parent gets a copy of p made with the copy constructor
  ("base", p)   the parent gets make_base<result_of<P>>(p)      (type-erased unique_ptr<base<Result>>; the model sees p)
ty in int | uns | str | enm; enum values are enumerator indices of `color {red, green, blue}`.
A shape entry: dict(id, p, help=None | (short|None, long) | "default" (= default_help_switch()), kind = "ok" | "ctor" | "hang", note)
"""
import os
import sys

ROOT = os.path.dirname(os.path.dirname(os.path.abspath(__file__)))

A = lambda l, ty, h=None: ("arg", l, ty, h)
F = lambda l, sh, lg, ty, act, inact, h=None: ("flag", l, sh, lg, ty, act, inact, h)
SW = lambda l, sh, lg, h=None: ("switch", l, sh, lg, h)
O = lambda l, sh, lg, ty, d=None, h=None: ("opt", l, sh, lg, ty, d, h)
U = lambda l: ("unit", l)
US = lambda l, sh, lg: ("uswitch", l, sh, lg)
OPT = lambda p: ("optional", p)
MANY = lambda p: ("many", p)
P = lambda a, b: ("prod", a, b)
SUM = lambda l, a, b: ("sum", l, a, b)
CMD = lambda c, subs: ("commands", c, subs)
CMDL = lambda c, subs: ("commands", c, subs, "lvalue")
APPLY = lambda *ps: ("apply", list(ps))
REF = lambda p: ("ref", p)
SREF = lambda key, p: ("sref", key, p)     # every occurrence of the key refers to ONE parser object (constructed at the first)
COPY = lambda p: ("copy", p)               # the parent gets a copy-constructed copy; the original stays alive beside it
BASE = lambda p: ("base", p)
DEFAULT_HELP = (None, "help")      # what default_help_switch() is documented to be ("--help"; see default_help_switch.cpp)

_S = []


def S(p, note, help=None, kind="ok"):
    _S.append({"id": len(_S), "p": p, "help": help, "kind": kind, "note": note})


# ---- leaves, every value type
S(A("a", "int"), "argument<int>")
S(A("a", "str"), "argument<string>")
S(A("a", "uns"), "argument<unsigned>")
S(A("a", "enm"), "argument<enum>")
S(SW("a", None, "f"), "switch, long name only")
S(SW("a", "f", "flag"), "switch, short and long name")
S(F("a", "v", "verbose", "int", 10, 0), "flag<int>")
S(F("a", None, "mode", "str", "yes", "no"), "flag<std::string> (constructor defect 986d19b)")
S(F("a", "c", "color", "enm", 2, 0), "flag<enum>")
S(O("a", None, "o", "int"), "option<int> without default")
S(O("a", "o", "opt", "int", 42), "option<int> with default, short and long")
S(O("a", "n", "name", "str"), "option<string>: values may look like flags")
S(O("a", None, "u", "uns"), "option<unsigned>")
S(O("a", None, "e", "enm", 1), "option<enum> with default")
S(U("a"), "unit")
S(US("a", "x", "exit"), "unit_switch")
# ---- products
S(P(A("a", "int"), A("b", "str")), "two arguments")
S(P(SW("a", None, "f"), A("b", "int")), "switch * argument")
S(P(O("a", None, "o", "int"), A("b", "str")), "option * argument: option value never positional")
S(P(A("b", "str"), O("a", None, "o", "str")), "argument * option<string>, argument first")
S(P(O("a", None, "o", "str"), SW("b", None, "f")), "option<string> * switch: value looks like the switch")
S(P(P(SW("a", "a", "all"), O("b", "b", "bee", "int", 7)), P(A("c", "str"), OPT(A("d", "uns")))), "four leaves")
# ---- optional / many
S(OPT(A("a", "int")), "optional argument")
S(OPT(P(SW("a", "f", "flag"), A("b", "int"))), "optional around switch*argument (defect 6e48692)")
S(OPT(P(O("a", None, "o", "int"), A("b", "int"))), "optional around option*argument (defect 6e48692)")
S(MANY(A("a", "int")), "many arguments")
S(MANY(P(US("a", None, "k"), A("b", "int"))), "many around a product")
S(MANY(O("a", "i", "inc", "str")), "repeated option")
S(MANY(US("a", "v", "verbose")), "repeated flags (counted)")
S(P(MANY(A("a", "str")), SW("b", None, "f")), "many arguments then a switch")
S(P(OPT(A("a", "int")), A("b", "str")), "optional argument then argument")
S(P(OPT(O("a", None, "o", "int")), MANY(A("b", "str"))), "optional option then many arguments")
S(MANY(SUM("s", A("a", "int"), US("b", None, "k"))), "many around a sum")
S(OPT(MANY(A("a", "enm"))), "optional around many")
# ---- sums
S(SUM("s", A("a", "int"), A("b", "str")), "int or string")
S(SUM("s", P(US("a", None, "k"), A("b", "int")), A("c", "str")), "sum whose left branch consumes before failing (roll-back)")
S(SUM("s", O("a", None, "o", "int"), SW("b", None, "f")), "sum whose right branch never fails")
S(SUM("s", US("a", None, "x"), SUM("t", US("b", None, "y"), U("c"))), "nested sums, missing+missing")
# ---- commands
S(CMD(O("a", None, "o", "int"), [("foo", "x", A("b", "int")), ("bar", "y", O("c", None, "o", "int"))]), "commands as in test/options")
S(CMD(SW("a", "v", "verbose"), [("run", "x", MANY(A("b", "str"))), ("stop", "y", U("c"))]), "commands with common switch")
S(CMD(U("a"), [("go", "x", OPT(A("b", "int")))]), "commands, no common options")
S(P(CMD(U("a"), [("go", "x", A("b", "int"))]), SW("c", None, "f")), "commands inside a product")
S(CMD(P(O("a", "o", "out", "str"), SW("b", None, "f")), [("add", "x", P(A("c", "str"), O("d", None, "n", "uns", 1))), ("rm", "y", MANY(A("e", "str"))), ("ls", "z", U("g"))]),
  "commands with common options, three sub-commands")
# ---- parse_help
S(P(O("a", None, "o", "int"), A("b", "str")), "parse_help, default switch", help=(None, "help"))
S(P(SW("a", None, "f"), OPT(A("b", "int"))), "parse_help, switch with short name", help=("h", "help"))
S(MANY(A("a", "str")), "parse_help around many", help=(None, "help"))
# ---- definitions that must / must not construct
S(F("a", "x", "x", "int", 1, 0), "flag short = long", kind="ctor")
S(F("a", None, "m", "int", 5, 5), "flag<int> active = inactive", kind="ctor")
S(F("a", None, "m", "str", "same", "same"), "flag<string> active = inactive", kind="ctor")
S(F("a", None, "m", "enm", 1, 1), "flag<enum> active = inactive", kind="ctor")
S(F("a", "m", "m", "str", "same", "same"), "flag: both defects, names checked first", kind="ctor")
S(O("a", "o", "o", "int"), "option short = long", kind="ctor")
S(SW("a", "f", "f"), "switch short = long", kind="ctor")
S(US("a", "x", "x"), "unit_switch short = long", kind="ctor")
S(P(SW("a", None, "f"), O("b", None, "f", "int")), "product: flag name = option name", kind="ctor")
S(P(SW("a", "f", "flag"), SW("b", None, "f")), "product: short name of one = long name of the other", kind="ctor")
S(P(SW("a", None, "f"), OPT(P(A("b", "int"), SW("c", "g", "f")))), "product: duplicate below optional", kind="ctor")
S(OPT(F("a", None, "m", "int", 5, 5)), "ill-formed flag below optional", kind="ctor")
S(CMD(U("a"), [("foo", "x", U("b")), ("foo", "y", U("c"))]), "duplicate sub-command names", kind="ctor")
S(CMD(SW("a", None, "f"), [("foo", "x", SW("b", None, "f")), ("bar", "y", U("c"))]), "same flag name in common and sub parser is allowed", kind="ctor")
S(SUM("s", SW("a", None, "f"), SW("b", None, "f")), "sum with the same name on both sides is allowed", kind="ctor")
S(P(F("a", None, "m", "int", 5, 5), F("b", "q", "q", "int", 1, 0)), "two ill-formed leaves: the left one is constructed first", kind="ctor")
# ---- known finding: many around a parser that succeeds without consuming
S(MANY(SW("a", None, "f")), "many(switch)", kind="hang")
S(MANY(O("a", None, "o", "int", 1)), "many(option with default)", kind="hang")
S(MANY(OPT(A("a", "int"))), "many(optional(argument))", kind="hang")
S(P(A("b", "str"), MANY(U("a"))), "argument * many(unit)", kind="hang")

# ---- added after the first mutation round (ids appended so that earlier ids stay stable)
S(CMD(SW("a", None, "v"), [("add", "x", P(A("b", "str"), O("c", None, "n", "int"))), ("del", "y", A("d", "int"))]),
  "commands whose sub-command has its own option and an argument (sub parser's own context)")
S(P(O("a", None, "o", "int", 0), CMD(U("b"), [("go", "x", P(A("c", "str"), O("d", None, "p", "str", "zz")))])),
  "option * commands: the commands parser ignores the outer context")

# ---- extension round (ids appended).  Names handed upwards by every combinator: they are next_arg's context and the
# ---- input of the product constructor's check, so every combinator gets a shape in which an argument is looked up
# ---- while an option of a *sibling below that combinator* is still in the vector.
S(SUM("s", P(US("a", None, "k"), A("b", "str")), P(O("c", None, "o", "int"), A("d", "str"))),
  "sum whose right alternative has an option and an argument (option_names of a sum = both sides)")
S(P(A("a", "str"), OPT(O("b", None, "o", "int"))), "argument, then optional(option): the option's value is still in the vector when the argument is looked up")
S(P(A("a", "str"), MANY(O("b", "i", "inc", "int"))), "argument, then many(option)")
S(P(P(A("a", "str"), SW("b", None, "f")), O("c", None, "o", "str")), "left-nested product: the inner product must see the outer option's name")
S(P(MANY(P(A("a", "int"), US("b", None, "k"))), O("c", None, "o", "int", 7)), "many(argument * unit_switch), then an option: many must pass the context on")
S(P(A("a", "str"), CMD(O("b", None, "o", "int", 1), [("go", "x", A("c", "int"))])), "argument, then commands with a common option (commands hands no names upwards)")
S(P(OPT(P(A("a", "int"), US("b", None, "k"))), P(O("c", "o", "opt", "int", 3), MANY(A("d", "str")))), "optional(argument * unit_switch) in front of an option with short name")
S(P(SUM("s", A("a", "int"), US("b", None, "k")), O("c", None, "o", "str", "dd")), "sum(argument | unit_switch), then an option")
# ---- commands: >= 3 sub-commands, options on both levels, the same names on both levels, nesting
S(CMD(P(O("a", "o", "out", "str"), SW("b", "v", "verbose")),
      [("add", "x", P(A("c", "str"), O("d", "n", "num", "int"))),
       ("rm", "y", P(MANY(A("e", "str")), SW("g", "f", "force"))),
       ("ls", "z", OPT(O("s", "l", "long", "str")))]),
  "three sub-commands, options (short and long) on both levels")
S(CMD(O("a", None, "o", "int", 0),
      [("push", "x", O("b", None, "o", "int", 5)), ("pull", "y", A("c", "int")), ("tag", "z", P(O("d", None, "o", "str"), A("e", "str")))]),
  "the same option name in the common parser and in the sub-commands")
S(CMD(SW("a", None, "v"),
      [("remote", "x", CMD(SW("b", None, "v"), [("add", "y", A("c", "str")), ("rm", "z", A("d", "str"))])),
       ("log", "t", MANY(A("e", "int")))]),
  "commands nested in a sub-command")
S(OPT(CMD(U("a"), [("go", "x", A("b", "int"))])), "optional(commands): no command = missing")
S(MANY(CMD(SW("a", None, "v"), [("go", "x", OPT(A("b", "int")))])), "many(commands)")
S(SUM("s", CMD(U("a"), [("go", "x", A("b", "int"))]), MANY(A("c", "str"))), "sum(commands | many(argument))")
S(CMDL(O("a", None, "o", "int", 2), [("one", "x", A("b", "int")), ("two", "y", SW("c", None, "f")), ("three", "z", U("d"))]),
  "make_commands from lvalues (the forwarding constructor copies its arguments)")
# ---- apply with more than two parsers, parsers held by reference / behind base<Result>
S(APPLY(SW("a", None, "f"), O("b", None, "o", "int"), A("c", "str")), "apply of three parsers")
S(APPLY(A("a", "int"), OPT(A("b", "int")), SW("c", "f", "flag"), MANY(A("d", "str"))), "apply of four parsers")
S(P(REF(SW("a", "f", "flag")), BASE(P(O("b", None, "o", "int"), A("c", "str")))), "product of a parser held by reference and a type-erased parser (make_base)")
S(OPT(BASE(P(US("a", None, "k"), A("b", "int")))), "optional around a type-erased product")
S(MANY(REF(A("a", "int"))), "many around a reference")
S(BASE(MANY(O("a", "i", "inc", "str"))), "type-erased parser at top level")
S(SUM("s", REF(P(US("a", None, "k"), A("b", "int"))), BASE(A("c", "str"))), "sum of a reference and a type-erased parser")
# ---- parse_help
S(P(O("a", None, "o", "int"), A("b", "str")), "parse_help with default_help_switch()", help="default")
S(CMD(SW("a", "v", "verbose"), [("run", "x", MANY(A("b", "str"))), ("stop", "y", U("c"))]), "parse_help with default_help_switch() around commands", help="default")
S(A("a", "str"), "parse_help, help switch with short name, around an argument", help=("h", "help"))
S(P(O("a", None, "o", "str"), MANY(A("b", "str"))), "parse_help: the help switch as the value of an option", help=("h", "help"))
S(OPT(SW("a", "h", "hilfe")), "parse_help whose parser uses the help switch's short name itself", help=("h", "help"))
# ---- definitions that must / must not construct
S(CMD(U("a"), [("foo", "x", U("b")), ("bar", "y", U("c")), ("foo", "z", U("d"))]), "duplicate sub-command names that are not neighbours", kind="ctor")
S(CMD(U("a"), [("bar", "x", U("b")), ("foo", "y", U("c")), ("foo", "z", U("d"))]), "duplicate sub-command names, last two", kind="ctor")
S(APPLY(SW("a", None, "f"), A("b", "int"), SW("c", None, "f")), "apply of three: first and third share a name", kind="ctor")
S(APPLY(SW("a", None, "f"), SW("b", None, "g"), O("c", None, "g", "int")), "apply of three: second and third share a name (inner product checks first)", kind="ctor")
S(P(O("a", None, "f", "int"), SW("b", None, "f")), "product: option on the left, flag with the same name on the right", kind="ctor")
S(P(O("a", "x", "opt", "int"), SW("b", None, "x")), "product: short option name = long flag name", kind="ctor")
S(P(O("a", None, "o", "int"), O("b", None, "o", "str")), "product: two options with the same name", kind="ctor")
S(CMD(P(SW("a", None, "f"), SW("b", None, "f")), [("go", "x", U("c"))]), "commands: duplicate inside the common parser", kind="ctor")
S(CMD(U("a"), [("go", "x", P(SW("b", None, "f"), SW("c", None, "f")))]), "commands: duplicate inside a sub-command's parser", kind="ctor")
S(SUM("s", SW("a", None, "f"), F("b", None, "m", "int", 5, 5)), "sum with an ill-formed right alternative", kind="ctor")
S(CMD(U("a"), [("go", "x", CMD(U("b"), [("go", "y", U("c"))]))]), "the same command name on two levels is allowed", kind="ctor")
S(F("a", None, "m", "uns", 1, 0), "flag<unsigned>", kind="ctor")
S(P(SW("a", None, "f"), SUM("s", SW("b", None, "g"), O("c", None, "f", "int"))), "product: duplicate hidden in the right alternative of a sum", kind="ctor")
S(P(MANY(O("a", None, "o", "int")), OPT(SW("b", "o", "other"))), "product: duplicate below many and optional", kind="ctor")
S(CMD(SW("a", None, "f"), [("go", "x", U("b")), ("go", "y", U("c")), ("go", "z", U("d"))]), "three equal sub-command names", kind="ctor")
S(MANY(BASE(P(SW("a", None, "f"), SW("b", "f", "g")))), "duplicate behind make_base", kind="ctor")


# ---- help texts, usage strings (ids appended)
S(P(A("a", "int", "the count"), SW("b", "v", "verbose", "be loud")), "help texts on argument and switch, parse_help with a short name", help=("h", "help"))
S(CMD(P(O("a", "o", "out", "str", None, "output file"), SW("b", None, "dry", "do nothing")),
      [("add", "x", P(A("c", "str", "what to add"), O("d", None, "n", "int", 3, "how often")), "adds things"),
       ("rm", "y", U("e"), "removes"),
       ("ls", "z", OPT(O("g", "l", "long", "enm", None, "colour")))]),
  "commands with help texts on every level, parse_help with default_help_switch()", help="default")
S(SUM("s", P(F("a", "m", "mode", "str", "fast", "slow", "two\nlines"), A("b", "uns")), MANY(O("c", "i", "inc", "str", None, "include\npath"))),
  "sum with multi-line help texts (indent works line by line)", help=(None, "usage"))
S(OPT(SUM("s", SUM("t", US("a", "x", "ex"), US("b", None, "why")), P(O("c", None, "o", "enm", 2, "third colour"), MANY(A("d", "enm", "colours"))))),
  "nested sums below optional, enum option with default (usage prints the default and the enumerator list)")

# ---- one parser object referred to twice, copies of parsers
S(SUM("s", SREF("k", P(US("a", None, "k"), A("b", "int"))), SREF("k", P(US("a", None, "k"), A("b", "int")))),
  "sum whose two alternatives are references to the same parser object")
S(CMD(SREF("c", SW("a", "v", "verbose")), [("one", "x", SREF("p", MANY(A("b", "str")))), ("two", "y", SREF("p", MANY(A("b", "str")))), ("three", "z", SREF("c", SW("a", "v", "verbose")))]),
  "commands whose sub-commands share parser objects with each other and with the common parser")
S(P(COPY(O("a", "o", "opt", "int", 4)), COPY(MANY(P(US("b", None, "k"), A("c", "str"))))), "product of copies (copy constructors of option, many, product, unit_switch, argument)")
S(COPY(CMD(COPY(SW("a", None, "v")), [("go", "x", COPY(OPT(SUM("s", A("b", "int"), F("c", None, "m", "enm", 1, 0)))))])),
  "copies of commands, switch, optional, sum, flag<enum>")

# ---- names of unusual shape: short names longer than long names, empty names, dashes inside names
S(P(O("a", "out", "o", "int"), P(SW("b", "vv", "v"), A("c", "str"))), "short names with several characters, long names with one")
S(P(SW("a", None, ""), A("b", "str")), "switch whose long name is empty (the flag is `--`)")
S(P(O("a", "", "o", "int", 9), A("b", "str")), "option whose short name is empty (the option is `-`)")
S(P(SW("a", "-x", "no-color"), P(O("b", None, "-v", "str", "d"), A("c", "str"))), "names that contain and start with dashes")
S(MANY(US("a", "kk", "k")), "unit_switch with a two-character short name, repeated")

# ---- default values as usage prints them
S(P(O("a", None, "o", "int", -7, "negative default"), P(O("b", "u", "up", "uns", 4294967295), O("c", None, "s", "str", "two words"))),
  "defaults: negative int, largest unsigned, string with a blank")

S(P(A("a", "str"), P(O("b", "out", "o", "int", 1), SW("c", "vv", "v"))), "argument in front of an option with a multi-character short name")

SHAPES = _S

LABELS = ["a", "b", "c", "d", "e", "g", "s", "t", "x", "y", "z"]
CXX_TY = {"int": "int", "uns": "unsigned", "str": "fcppt::string", "enm": "color"}
ENUM = ["red", "green", "blue"]
NTU = 8        # translation units the shape functions are spread over (compiled in parallel)


def norm(p):
    """the parser the model sees: wrappers that only change how the C++ object is held are dropped,
    apply(p1..pn) is the right-nested product"""
    k = p[0]
    if k in ("ref", "base", "copy"):
        return norm(p[1])
    if k == "sref":
        return norm(p[2])
    if k == "apply":
        ps = [norm(q) for q in p[1]]
        r = ps[-1]
        for q in reversed(ps[:-1]):
            r = ("prod", q, r)
        return r
    if k in ("optional", "many"):
        return (k, norm(p[1]))
    if k == "prod":
        return ("prod", norm(p[1]), norm(p[2]))
    if k == "sum":
        return ("sum", p[1], norm(p[2]), norm(p[3]))
    if k == "commands":
        return ("commands", norm(p[1]), [(x[0], x[1], norm(x[2]), x[3] if len(x) > 3 else None) for x in p[2]])
    return p


def help_of(shape):
    h = shape["help"]
    return DEFAULT_HELP if h == "default" else h


# ------------------------------------------------------------------ helpers used by props/c03.py

def leaves(p):
    p = norm(p)
    k = p[0]
    if k in ("arg", "flag", "switch", "opt", "unit", "uswitch"):
        return [p]
    if k in ("optional", "many"):
        return leaves(p[1])
    if k == "prod":
        return leaves(p[1]) + leaves(p[2])
    if k == "sum":
        return leaves(p[2]) + leaves(p[3])
    if k == "commands":
        r = leaves(p[1])
        for _, _, q, _ in p[2]:
            r += leaves(q)
        return r
    raise ValueError(k)


def command_names(p):
    p = norm(p)
    k = p[0]
    if k in ("optional", "many"):
        return command_names(p[1])
    if k == "prod":
        return command_names(p[1]) + command_names(p[2])
    if k == "sum":
        return command_names(p[2]) + command_names(p[3])
    if k == "commands":
        r = command_names(p[1])
        for n, _, q, _ in p[2]:
            r += [n] + command_names(q)
        return r
    return []


def own_tokens(shape):
    """--long / -short of every named leaf (and of the help switch), sub-command names"""
    toks = []
    for l in leaves(shape["p"]):
        if l[0] in ("flag", "switch", "opt", "uswitch"):
            toks.append("--" + l[3])
            if l[2] is not None:
                toks.append("-" + l[2])
    h = help_of(shape)
    if h:
        toks.append("--" + h[1])
        if h[0]:
            toks.append("-" + h[0])
    toks += command_names(shape["p"])
    seen = []
    for t in toks:
        if t not in seen:
            seen.append(t)
    return seen


def value_types(shape):
    tys = []
    for l in leaves(shape["p"]):
        if l[0] == "arg":
            tys.append(l[2])
        elif l[0] == "opt":
            tys.append(l[4])
    return tys


def nonconsuming(p):
    """can succeed without consuming an argument"""
    p = norm(p)
    k = p[0]
    if k in ("flag", "switch", "unit", "optional", "many"):
        return True
    if k == "opt":
        return p[5] is not None
    if k in ("arg", "uswitch", "commands"):
        return False
    if k == "prod":
        return nonconsuming(p[1]) and nonconsuming(p[2])
    if k == "sum":
        return nonconsuming(p[2]) or nonconsuming(p[3])
    raise ValueError(k)


def has_bad_many(p):
    p = norm(p)
    k = p[0]
    if k == "many":
        return nonconsuming(p[1]) or has_bad_many(p[1])
    if k == "optional":
        return has_bad_many(p[1])
    if k == "prod":
        return has_bad_many(p[1]) or has_bad_many(p[2])
    if k == "sum":
        return has_bad_many(p[2]) or has_bad_many(p[3])
    if k == "commands":
        return has_bad_many(p[1]) or any(has_bad_many(x[2]) for x in p[2])
    return False


# ------------------------------------------------------------------ Lean

def lstr(s):
    return '"' + s.replace("\\", "\\\\").replace("\n", "\\n").replace('"', '\\"') + '"'


def lopt(s):
    return "none" if s is None else f"(some {lstr(s)})"


def lval(ty, v):
    if ty in ("int", "uns"):
        return f"(.int {v})" if v >= 0 else f"(.int ({v}))"
    if ty == "str":
        return f"(.str {lstr(v)})"
    if ty == "enm":
        return f"(.enm {v})"
    raise ValueError(ty)


def lean_op(p):
    p = norm(p)
    k = p[0]
    if k == "arg":
        return f"(.arg {lstr(p[1])} .{p[2]} {lstr(p[1] + '_arg')} {lopt(p[3])})"
    if k == "flag":
        return f"(.flag {lstr(p[1])} {lopt(p[2])} {lstr(p[3])} {lval(p[4], p[5])} {lval(p[4], p[6])} {lopt(p[7])})"
    if k == "switch":
        return f"(OP.switch {lstr(p[1])} {lopt(p[2])} {lstr(p[3])} {lopt(p[4])})"
    if k == "opt":
        d = "none" if p[5] is None else f"(some {lval(p[4], p[5])})"
        return f"(.opt {lstr(p[1])} {lopt(p[2])} {lstr(p[3])} {d} .{p[4]} {lopt(p[6])})"
    if k == "unit":
        return f"(.unit {lstr(p[1])})"
    if k == "uswitch":
        return f"(.unitSwitch {lstr(p[1])} {lopt(p[2])} {lstr(p[3])})"
    if k == "optional":
        return f"(.optional {lean_op(p[1])})"
    if k == "many":
        return f"(.many {lean_op(p[1])})"
    if k == "prod":
        return f"(.prod {lean_op(p[1])} {lean_op(p[2])})"
    if k == "sum":
        return f"(.sum {lstr(p[1])} {lean_op(p[2])} {lean_op(p[3])})"
    if k == "commands":
        subs = ", ".join(f"({lstr(n)}, {lstr(t)}, {lopt(h)}, {lean_op(q)})" for n, t, q, h in p[2])
        return f"(.commands {lean_op(p[1])} [{subs}])"
    raise ValueError(k)


def gen_lean():
    out = ["import FcpptModel.Model.C03",
           "/-! GENERATED by tools/gen_c03_shapes.py from the shape list — do not edit. -/",
           "namespace Fcppt.C03",
           "",
           "/-- what the harness constructs, in construction order: a parser object or a `sub_command` -/",
           "inductive Node where",
           "  | parser (p : OP)",
           "  | erased (p : OP)      -- the same parser behind `base<Result>` (make_base)",
           "  | sub (name : String) (help : Option String)",
           "",
           "structure Shape where",
           "  op : OP",
           "  help : Option (Option String × String)",
           "  nodes : List Node",
           "",
           "def shapes : Array Shape := #["]
    rows = []
    for s in SHAPES:
        hh = help_of(s)
        h = "none" if not hh else f"(some ({lopt(hh[0])}, {lstr(hh[1])}))"
        e = Emit()
        e.top(s["p"])
        nodes = ",\n     ".join(f".sub {lstr(n[1])} {lopt(n[2])}" if n[0] == "sub" else f".{n[0]} {lean_op(n[1])}" for n in e.nodes)
        rows.append(f"  -- {s['id']}: {s['note']}\n  ⟨{lean_op(s['p'])}, {h},\n    [{nodes}]⟩")
    out.append(",\n".join(rows))
    out.append("]")
    out.append("")
    out.append("end Fcppt.C03")
    return "\n".join(out) + "\n"


# ------------------------------------------------------------------ C++

def cstr(s):
    return 'fcppt::string{"' + s.replace("\\", "\\\\").replace("\n", "\\n").replace('"', '\\"') + '"}'


def chelp(h):
    if h is None:
        return NOHELP
    return "fcppt::options::optional_help_text{fcppt::options::help_text{" + cstr(h) + "}}"


def cshort(s):
    if s is None:
        return "fcppt::options::optional_short_name{}"
    return "fcppt::options::optional_short_name{fcppt::options::short_name{" + cstr(s) + "}}"


def clong(s):
    return "fcppt::options::long_name{" + cstr(s) + "}"


def cval(ty, v):
    if ty == "int":
        return str(v)
    if ty == "uns":
        return f"{v}U"
    if ty == "str":
        return cstr(v)
    if ty == "enm":
        return "color::" + ENUM[v]
    raise ValueError(ty)


NOHELP = "fcppt::options::optional_help_text{}"


class Emit:
    """emits the statements constructing a shape, sub-parsers first, left to right, every constructed object in a
    statement of its own (so that the construction order is fixed) followed by `_visitor.note(...)`;
    `nodes` lists the same objects for the Lean table"""

    def __init__(self):
        self.lines = []
        self.nodes = []
        self.n = 0
        self.shared = {}

    def var(self, expr, node=None, sub=False):
        self.n += 1
        v = f"n{self.n}"
        self.lines.append(f"    auto {v} = {expr};")
        if node is not None:
            self.nodes.append(node)
            self.lines.append(f"    _visitor.note_sub({v});" if sub else f"    _visitor.note({v});")
        return v

    def top(self, p):
        """expression naming the finished parser"""
        return self.hand(p, top=True)

    def hand(self, p, top=False):
        """constructs p and returns the expression its parent (or the visitor) receives"""
        k = p[0]
        if k == "ref":
            return f"fcppt::make_cref({self.node(p[1])})"
        if k == "sref":
            if p[1] not in self.shared:
                self.shared[p[1]] = self.node(p[2])
            return f"fcppt::make_cref({self.shared[p[1]]})"
        if k == "copy":
            v = self.node(p[1])
            c = self.var(f"decltype({v}){{{v}}}", node=("parser", p[1]))
            return c if top else f"std::move({c})"
        if k == "base":
            v = self.node(p[1])
            b = self.var(f"fcppt::options::make_base<fcppt::options::result_of<decltype({v})>>(std::move({v}))", node=("erased", p[1]))
            return b if top else f"std::move({b})"
        v = self.node(p)
        return v if top else f"std::move({v})"

    def node(self, p):
        """emits the statements constructing p; returns the variable name"""
        k = p[0]
        me = ("parser", p)
        if k == "arg":
            return self.var(f"fcppt::options::argument<L_{p[1]}, {CXX_TY[p[2]]}>{{{clong(p[1] + '_arg')}, {chelp(p[3])}}}", me)
        if k == "flag":
            ty = CXX_TY[p[4]]
            return self.var(f"fcppt::options::flag<L_{p[1]}, {ty}>{{{cshort(p[2])}, {clong(p[3])}, "
                            f"fcppt::options::make_active_value({cval(p[4], p[5])}), fcppt::options::make_inactive_value({cval(p[4], p[6])}), {chelp(p[7])}}}", me)
        if k == "switch":
            return self.var(f"fcppt::options::switch_<L_{p[1]}>{{{cshort(p[2])}, {clong(p[3])}, {chelp(p[4])}}}", me)
        if k == "opt":
            ty = CXX_TY[p[4]]
            d = (f"fcppt::options::no_default_value<{ty}>()" if p[5] is None
                 else f"fcppt::options::make_default_value(fcppt::optional::object<{ty}>{{{cval(p[4], p[5])}}})")
            return self.var(f"fcppt::options::option<L_{p[1]}, {ty}>{{{cshort(p[2])}, {clong(p[3])}, {d}, {chelp(p[6])}}}", me)
        if k == "unit":
            return self.var(f"fcppt::options::unit<L_{p[1]}>{{}}", me)
        if k == "uswitch":
            return self.var(f"fcppt::options::unit_switch<L_{p[1]}>{{{cshort(p[2])}, {clong(p[3])}}}", me)
        if k == "optional":
            a = self.hand(p[1])
            return self.var(f"fcppt::options::make_optional({a})", me)
        if k == "many":
            a = self.hand(p[1])
            return self.var(f"fcppt::options::make_many({a})", me)
        if k == "prod":
            a = self.hand(p[1])
            b = self.hand(p[2])
            return self.var(f"fcppt::options::apply({a}, {b})", me)
        if k == "apply":
            xs = [self.hand(q) for q in p[1]]
            return self.var("fcppt::options::apply(" + ", ".join(xs) + ")", me)
        if k == "sum":
            a = self.hand(p[2])
            b = self.hand(p[3])
            return self.var(f"fcppt::options::make_sum<L_{p[1]}>({a}, {b})", me)
        if k == "commands":
            lvalue = len(p) > 3 and p[3] == "lvalue"
            c = self.hand(p[1])
            if lvalue:
                if not c.startswith("std::move("):
                    raise ValueError("lvalue commands: the common parser must be a plain parser")
                c = c[len("std::move("):-1]
            subs = []
            for x in p[2]:
                n, t, q = x[0], x[1], x[2]
                v = self.hand(q)
                sv = self.var(f"fcppt::options::make_sub_command<L_{t}>({cstr(n)}, {v}, {chelp(x[3] if len(x) > 3 else None)})", ("sub", n, x[3] if len(x) > 3 else None), sub=True)
                subs.append(sv if lvalue else f"std::move({sv})")
            return self.var("fcppt::options::make_commands(" + c + "".join(f", {s}" for s in subs) + ")", me)
        raise ValueError(k)


def shape_fn(s):
    e = Emit()
    top = e.top(s["p"])
    out = [f"// {s['id']}: {s['note']}",
           f"std::string shape_{s['id']}(visitor const &_visitor)",
           "{",
           "  try",
           "  {"]
    out += e.lines
    if s["help"] == "default":
        out.append("    fcppt::options::help_switch const hs{fcppt::options::default_help_switch()};")
        out.append(f"    return _visitor.help(hs, {top});")
    elif s["help"]:
        out.append(f"    fcppt::options::help_switch const hs{{{cshort(s['help'][0])}, {clong(s['help'][1])}}};")
        out.append(f"    return _visitor.help(hs, {top});")
    else:
        out.append(f"    return _visitor.plain({top});")
    out.append("  }")
    out.append("  catch (fcppt::options::duplicate_names const &_e) { return exc_line(\"duplicate-names\", _e); }")
    out.append("  catch (fcppt::options::exception const &_e) { return exc_line(\"options\", _e); }")
    out.append("}")
    out.append("")
    return out


def tu_of(s):
    return s["id"] % NTU


def gen_cxx_inc():
    out = ["// GENERATED by tools/gen_c03_shapes.py from the shape list - do not edit.",
           "// Included by harness/c03_common.hpp inside namespace c03h; the definitions are in harness/c03_s<k>.cpp.", ""]
    for s in SHAPES:
        out.append(f"std::string shape_{s['id']}(visitor const &); // {s['note']}")
    out.append("")
    out.append(f"constexpr int shape_count = {len(SHAPES)};")
    out.append("inline std::string dispatch_shape(int const _id, visitor const &_visitor)")
    out.append("{")
    out.append("  switch (_id)")
    out.append("  {")
    for s in SHAPES:
        out.append(f"  case {s['id']}: return shape_{s['id']}(_visitor);")
    out.append("  default: return \"bad-op\";")
    out.append("  }")
    out.append("}")
    return "\n".join(out) + "\n"


def gen_cxx_tu(k):
    def gen():
        out = ["// GENERATED by tools/gen_c03_shapes.py from the shape list - do not edit.",
               f"// Translation unit {k} of {NTU}: the shapes with id % {NTU} == {k}.",
               '#include "c03_common.hpp"', "",
               "namespace c03h", "{"]
        for s in SHAPES:
            if tu_of(s) == k:
                out += shape_fn(s)
        out.append("}")
        return "\n".join(out) + "\n"
    return gen


def tu_paths():
    return [os.path.join(ROOT, "harness", f"c03_s{k}.cpp") for k in range(NTU)]


TARGETS = {
    os.path.join(ROOT, "harness", "c03_shapes.inc"): gen_cxx_inc,
    os.path.join(ROOT, "lean", "FcpptModel", "Model", "C03", "Shapes.lean"): gen_lean,
}
for _k, _p in enumerate(tu_paths()):
    TARGETS[_p] = gen_cxx_tu(_k)


def regenerate(check_only=False):
    """returns list of files that differ from what the shape list generates"""
    changed = []
    for path, gen in TARGETS.items():
        new = gen()
        old = open(path).read() if os.path.exists(path) else None
        if old != new:
            changed.append(path)
            if not check_only:
                os.makedirs(os.path.dirname(path), exist_ok=True)
                with open(path, "w") as f:
                    f.write(new)
    return changed


if __name__ == "__main__":
    ch = regenerate(check_only="--check" in sys.argv)
    for c in ch:
        print(("differs: " if "--check" in sys.argv else "wrote: ") + c)
    sys.exit(1 if (ch and "--check" in sys.argv) else 0)
