#!/usr/bin/env python3
"""C03: the family of parser shapes, written once and generated into

  harness/c03_shapes.inc                      real typed fcppt::options parsers (C++)
  lean/FcpptModel/Model/C03/Shapes.lean       the same shapes as `OP` terms (Lean model)

`python3 tools/gen_c03_shapes.py` rewrites both files when their content changed (`--check` only
compares).  props/c03.py imports SHAPES from here for its generators (names, alphabets).

Shape description (nested tuples):
  ("arg", label, ty)                              argument<label, ty>
  ("flag", label, short|None, long, ty, act, inact)   flag<label, ty>
  ("switch", label, short|None, long)             switch_<label>
  ("opt", label, short|None, long, ty, default|None)  option<label, ty>
  ("unit", label)                                 unit<label>
  ("uswitch", label, short|None, long)            unit_switch<label>
  ("optional", p) ("many", p) ("prod", a, b) ("sum", label, a, b)
  ("commands", common, [(name, taglabel, p), ...])
ty in int | uns | str | enm; enum values are enumerator indices of `color {red, green, blue}`.
A shape entry: dict(id, p, help=None | (short|None, long), kind = "ok" | "ctor" | "hang", note)
"""
import os
import sys

ROOT = os.path.dirname(os.path.dirname(os.path.abspath(__file__)))

A = lambda l, ty: ("arg", l, ty)
F = lambda l, sh, lg, ty, act, inact: ("flag", l, sh, lg, ty, act, inact)
SW = lambda l, sh, lg: ("switch", l, sh, lg)
O = lambda l, sh, lg, ty, d=None: ("opt", l, sh, lg, ty, d)
U = lambda l: ("unit", l)
US = lambda l, sh, lg: ("uswitch", l, sh, lg)
OPT = lambda p: ("optional", p)
MANY = lambda p: ("many", p)
P = lambda a, b: ("prod", a, b)
SUM = lambda l, a, b: ("sum", l, a, b)
CMD = lambda c, subs: ("commands", c, subs)

_S = []


def S(p, note, help=None, kind="ok"):
    _S.append({"id": len(_S), "p": p, "help": help, "kind": kind, "note": note})


# ---- leaves, every value type
S(A("a", "int"), "argument<int>")
S(A("a", "str"), "argument<string>")
S(A("a", "uns"), "argument<unsigned>")
S(A("a", "enm"), "argument<enum>")
S(SW("a", None, "f"), "switch, long name only")
S(SW("a", "f", "flag"), "switch, short and long name")
S(F("a", "v", "verbose", "int", 10, 0), "flag<int>")
S(F("a", None, "mode", "str", "yes", "no"), "flag<std::string> (constructor defect 986d19b)")
S(F("a", "c", "color", "enm", 2, 0), "flag<enum>")
S(O("a", None, "o", "int"), "option<int> without default")
S(O("a", "o", "opt", "int", 42), "option<int> with default, short and long")
S(O("a", "n", "name", "str"), "option<string>: values may look like flags")
S(O("a", None, "u", "uns"), "option<unsigned>")
S(O("a", None, "e", "enm", 1), "option<enum> with default")
S(U("a"), "unit")
S(US("a", "x", "exit"), "unit_switch")
# ---- products
S(P(A("a", "int"), A("b", "str")), "two arguments")
S(P(SW("a", None, "f"), A("b", "int")), "switch * argument")
S(P(O("a", None, "o", "int"), A("b", "str")), "option * argument: option value never positional")
S(P(A("b", "str"), O("a", None, "o", "str")), "argument * option<string>, argument first")
S(P(O("a", None, "o", "str"), SW("b", None, "f")), "option<string> * switch: value looks like the switch")
S(P(P(SW("a", "a", "all"), O("b", "b", "bee", "int", 7)), P(A("c", "str"), OPT(A("d", "uns")))), "four leaves")
# ---- optional / many
S(OPT(A("a", "int")), "optional argument")
S(OPT(P(SW("a", "f", "flag"), A("b", "int"))), "optional around switch*argument (defect 6e48692)")
S(OPT(P(O("a", None, "o", "int"), A("b", "int"))), "optional around option*argument (defect 6e48692)")
S(MANY(A("a", "int")), "many arguments")
S(MANY(P(US("a", None, "k"), A("b", "int"))), "many around a product")
S(MANY(O("a", "i", "inc", "str")), "repeated option")
S(MANY(US("a", "v", "verbose")), "repeated flags (counted)")
S(P(MANY(A("a", "str")), SW("b", None, "f")), "many arguments then a switch")
S(P(OPT(A("a", "int")), A("b", "str")), "optional argument then argument")
S(P(OPT(O("a", None, "o", "int")), MANY(A("b", "str"))), "optional option then many arguments")
S(MANY(SUM("s", A("a", "int"), US("b", None, "k"))), "many around a sum")
S(OPT(MANY(A("a", "enm"))), "optional around many")
# ---- sums
S(SUM("s", A("a", "int"), A("b", "str")), "int or string")
S(SUM("s", P(US("a", None, "k"), A("b", "int")), A("c", "str")), "sum whose left branch consumes before failing (roll-back)")
S(SUM("s", O("a", None, "o", "int"), SW("b", None, "f")), "sum whose right branch never fails")
S(SUM("s", US("a", None, "x"), SUM("t", US("b", None, "y"), U("c"))), "nested sums, missing+missing")
# ---- commands
S(CMD(O("a", None, "o", "int"), [("foo", "x", A("b", "int")), ("bar", "y", O("c", None, "o", "int"))]), "commands as in test/options")
S(CMD(SW("a", "v", "verbose"), [("run", "x", MANY(A("b", "str"))), ("stop", "y", U("c"))]), "commands with common switch")
S(CMD(U("a"), [("go", "x", OPT(A("b", "int")))]), "commands, no common options")
S(P(CMD(U("a"), [("go", "x", A("b", "int"))]), SW("c", None, "f")), "commands inside a product")
S(CMD(P(O("a", "o", "out", "str"), SW("b", None, "f")), [("add", "x", P(A("c", "str"), O("d", None, "n", "uns", 1))), ("rm", "y", MANY(A("e", "str"))), ("ls", "z", U("g"))]),
  "commands with common options, three sub-commands")
# ---- parse_help
S(P(O("a", None, "o", "int"), A("b", "str")), "parse_help, default switch", help=(None, "help"))
S(P(SW("a", None, "f"), OPT(A("b", "int"))), "parse_help, switch with short name", help=("h", "help"))
S(MANY(A("a", "str")), "parse_help around many", help=(None, "help"))
# ---- definitions that must / must not construct
S(F("a", "x", "x", "int", 1, 0), "flag short = long", kind="ctor")
S(F("a", None, "m", "int", 5, 5), "flag<int> active = inactive", kind="ctor")
S(F("a", None, "m", "str", "same", "same"), "flag<string> active = inactive", kind="ctor")
S(F("a", None, "m", "enm", 1, 1), "flag<enum> active = inactive", kind="ctor")
S(F("a", "m", "m", "str", "same", "same"), "flag: both defects, names checked first", kind="ctor")
S(O("a", "o", "o", "int"), "option short = long", kind="ctor")
S(SW("a", "f", "f"), "switch short = long", kind="ctor")
S(US("a", "x", "x"), "unit_switch short = long", kind="ctor")
S(P(SW("a", None, "f"), O("b", None, "f", "int")), "product: flag name = option name", kind="ctor")
S(P(SW("a", "f", "flag"), SW("b", None, "f")), "product: short name of one = long name of the other", kind="ctor")
S(P(SW("a", None, "f"), OPT(P(A("b", "int"), SW("c", "g", "f")))), "product: duplicate below optional", kind="ctor")
S(OPT(F("a", None, "m", "int", 5, 5)), "ill-formed flag below optional", kind="ctor")
S(CMD(U("a"), [("foo", "x", U("b")), ("foo", "y", U("c"))]), "duplicate sub-command names", kind="ctor")
S(CMD(SW("a", None, "f"), [("foo", "x", SW("b", None, "f")), ("bar", "y", U("c"))]), "same flag name in common and sub parser is allowed", kind="ctor")
S(SUM("s", SW("a", None, "f"), SW("b", None, "f")), "sum with the same name on both sides is allowed", kind="ctor")
S(P(F("a", None, "m", "int", 5, 5), F("b", "q", "q", "int", 1, 0)), "two ill-formed leaves: the left one is constructed first", kind="ctor")
# ---- known finding: many around a parser that succeeds without consuming
S(MANY(SW("a", None, "f")), "many(switch)", kind="hang")
S(MANY(O("a", None, "o", "int", 1)), "many(option with default)", kind="hang")
S(MANY(OPT(A("a", "int"))), "many(optional(argument))", kind="hang")
S(P(A("b", "str"), MANY(U("a"))), "argument * many(unit)", kind="hang")

# ---- added after the first mutation round (ids appended so that earlier ids stay stable)
S(CMD(SW("a", None, "v"), [("add", "x", P(A("b", "str"), O("c", None, "n", "int"))), ("del", "y", A("d", "int"))]),
  "commands whose sub-command has its own option and an argument (sub parser's own context)")
S(P(O("a", None, "o", "int", 0), CMD(U("b"), [("go", "x", P(A("c", "str"), O("d", None, "p", "str", "zz")))])),
  "option * commands: the commands parser ignores the outer context")

SHAPES = _S

LABELS = ["a", "b", "c", "d", "e", "g", "s", "t", "x", "y", "z"]
CXX_TY = {"int": "int", "uns": "unsigned", "str": "fcppt::string", "enm": "color"}
ENUM = ["red", "green", "blue"]


# ------------------------------------------------------------------ helpers used by props/c03.py

def leaves(p):
    k = p[0]
    if k in ("arg", "flag", "switch", "opt", "unit", "uswitch"):
        return [p]
    if k in ("optional", "many"):
        return leaves(p[1])
    if k == "prod":
        return leaves(p[1]) + leaves(p[2])
    if k == "sum":
        return leaves(p[2]) + leaves(p[3])
    if k == "commands":
        r = leaves(p[1])
        for _, _, q in p[2]:
            r += leaves(q)
        return r
    raise ValueError(k)


def command_names(p):
    k = p[0]
    if k in ("optional", "many"):
        return command_names(p[1])
    if k == "prod":
        return command_names(p[1]) + command_names(p[2])
    if k == "sum":
        return command_names(p[2]) + command_names(p[3])
    if k == "commands":
        r = command_names(p[1])
        for n, _, q in p[2]:
            r += [n] + command_names(q)
        return r
    return []


def own_tokens(shape):
    """--long / -short of every named leaf (and of the help switch), sub-command names"""
    toks = []
    for l in leaves(shape["p"]):
        if l[0] in ("flag", "switch", "opt", "uswitch"):
            toks.append("--" + l[3])
            if l[2] is not None:
                toks.append("-" + l[2])
    if shape["help"]:
        toks.append("--" + shape["help"][1])
        if shape["help"][0]:
            toks.append("-" + shape["help"][0])
    toks += command_names(shape["p"])
    seen = []
    for t in toks:
        if t not in seen:
            seen.append(t)
    return seen


def value_types(shape):
    tys = []
    for l in leaves(shape["p"]):
        if l[0] == "arg":
            tys.append(l[2])
        elif l[0] == "opt":
            tys.append(l[4])
    return tys


def nonconsuming(p):
    """can succeed without consuming an argument"""
    k = p[0]
    if k in ("flag", "switch", "unit", "optional", "many"):
        return True
    if k == "opt":
        return p[5] is not None
    if k in ("arg", "uswitch", "commands"):
        return False
    if k == "prod":
        return nonconsuming(p[1]) and nonconsuming(p[2])
    if k == "sum":
        return nonconsuming(p[2]) or nonconsuming(p[3])
    raise ValueError(k)


def has_bad_many(p):
    k = p[0]
    if k == "many":
        return nonconsuming(p[1]) or has_bad_many(p[1])
    if k == "optional":
        return has_bad_many(p[1])
    if k == "prod":
        return has_bad_many(p[1]) or has_bad_many(p[2])
    if k == "sum":
        return has_bad_many(p[2]) or has_bad_many(p[3])
    if k == "commands":
        return has_bad_many(p[1]) or any(has_bad_many(q) for _, _, q in p[2])
    return False


# ------------------------------------------------------------------ Lean

def lstr(s):
    return '"' + s + '"'


def lopt(s):
    return "none" if s is None else f"(some {lstr(s)})"


def lval(ty, v):
    if ty in ("int", "uns"):
        return f"(.int {v})" if v >= 0 else f"(.int ({v}))"
    if ty == "str":
        return f"(.str {lstr(v)})"
    if ty == "enm":
        return f"(.enm {v})"
    raise ValueError(ty)


def lean_op(p):
    k = p[0]
    if k == "arg":
        return f"(.arg {lstr(p[1])} .{p[2]})"
    if k == "flag":
        return f"(.flag {lstr(p[1])} {lopt(p[2])} {lstr(p[3])} {lval(p[4], p[5])} {lval(p[4], p[6])})"
    if k == "switch":
        return f"(OP.switch {lstr(p[1])} {lopt(p[2])} {lstr(p[3])})"
    if k == "opt":
        d = "none" if p[5] is None else f"(some {lval(p[4], p[5])})"
        return f"(.opt {lstr(p[1])} {lopt(p[2])} {lstr(p[3])} {d} .{p[4]})"
    if k == "unit":
        return f"(.unit {lstr(p[1])})"
    if k == "uswitch":
        return f"(.unitSwitch {lstr(p[1])} {lopt(p[2])} {lstr(p[3])})"
    if k == "optional":
        return f"(.optional {lean_op(p[1])})"
    if k == "many":
        return f"(.many {lean_op(p[1])})"
    if k == "prod":
        return f"(.prod {lean_op(p[1])} {lean_op(p[2])})"
    if k == "sum":
        return f"(.sum {lstr(p[1])} {lean_op(p[2])} {lean_op(p[3])})"
    if k == "commands":
        subs = ", ".join(f"({lstr(n)}, {lstr(t)}, {lean_op(q)})" for n, t, q in p[2])
        return f"(.commands {lean_op(p[1])} [{subs}])"
    raise ValueError(k)


def gen_lean():
    out = ["import FcpptModel.Model.C03",
           "/-! GENERATED by tools/gen_c03_shapes.py from the shape list — do not edit. -/",
           "namespace Fcppt.C03",
           "",
           "structure Shape where",
           "  op : OP",
           "  help : Option (Option String × String)",
           "",
           "def shapes : Array Shape := #["]
    rows = []
    for s in SHAPES:
        h = "none" if not s["help"] else f"(some ({lopt(s['help'][0])}, {lstr(s['help'][1])}))"
        rows.append(f"  -- {s['id']}: {s['note']}\n  ⟨{lean_op(s['p'])}, {h}⟩")
    out.append(",\n".join(rows))
    out.append("]")
    out.append("")
    out.append("end Fcppt.C03")
    return "\n".join(out) + "\n"


# ------------------------------------------------------------------ C++

def cstr(s):
    return 'fcppt::string{"' + s + '"}'


def cshort(s):
    if s is None:
        return "fcppt::options::optional_short_name{}"
    return "fcppt::options::optional_short_name{fcppt::options::short_name{" + cstr(s) + "}}"


def clong(s):
    return "fcppt::options::long_name{" + cstr(s) + "}"


def cval(ty, v):
    if ty == "int":
        return str(v)
    if ty == "uns":
        return f"{v}U"
    if ty == "str":
        return cstr(v)
    if ty == "enm":
        return "color::" + ENUM[v]
    raise ValueError(ty)


NOHELP = "fcppt::options::optional_help_text{}"


class Emit:
    def __init__(self):
        self.lines = []
        self.n = 0

    def var(self, expr):
        self.n += 1
        v = f"n{self.n}"
        self.lines.append(f"    auto {v} = {expr};")
        return v

    def op(self, p):
        """emits the statements constructing p (sub-parsers first, left to right); returns the variable name"""
        k = p[0]
        if k == "arg":
            return self.var(f"fcppt::options::argument<L_{p[1]}, {CXX_TY[p[2]]}>{{{clong(p[1] + '_arg')}, {NOHELP}}}")
        if k == "flag":
            ty = CXX_TY[p[4]]
            return self.var(f"fcppt::options::flag<L_{p[1]}, {ty}>{{{cshort(p[2])}, {clong(p[3])}, "
                            f"fcppt::options::active_value<{ty}>{{{cval(p[4], p[5])}}}, fcppt::options::inactive_value<{ty}>{{{cval(p[4], p[6])}}}, {NOHELP}}}")
        if k == "switch":
            return self.var(f"fcppt::options::switch_<L_{p[1]}>{{{cshort(p[2])}, {clong(p[3])}, {NOHELP}}}")
        if k == "opt":
            ty = CXX_TY[p[4]]
            d = f"fcppt::optional::object<{ty}>{{}}" if p[5] is None else f"fcppt::optional::object<{ty}>{{{cval(p[4], p[5])}}}"
            return self.var(f"fcppt::options::option<L_{p[1]}, {ty}>{{{cshort(p[2])}, {clong(p[3])}, "
                            f"fcppt::options::default_value<fcppt::optional::object<{ty}>>{{{d}}}, {NOHELP}}}")
        if k == "unit":
            return self.var(f"fcppt::options::unit<L_{p[1]}>{{}}")
        if k == "uswitch":
            return self.var(f"fcppt::options::unit_switch<L_{p[1]}>{{{cshort(p[2])}, {clong(p[3])}}}")
        if k == "optional":
            a = self.op(p[1])
            return self.var(f"fcppt::options::make_optional(std::move({a}))")
        if k == "many":
            a = self.op(p[1])
            return self.var(f"fcppt::options::make_many(std::move({a}))")
        if k == "prod":
            a = self.op(p[1])
            b = self.op(p[2])
            return self.var(f"fcppt::options::apply(std::move({a}), std::move({b}))")
        if k == "sum":
            a = self.op(p[2])
            b = self.op(p[3])
            return self.var(f"fcppt::options::make_sum<L_{p[1]}>(std::move({a}), std::move({b}))")
        if k == "commands":
            c = self.op(p[1])
            subs = []
            for n, t, q in p[2]:
                v = self.op(q)
                subs.append(self.var(f"fcppt::options::make_sub_command<L_{t}>({cstr(n)}, std::move({v}), {NOHELP})"))
            return self.var("fcppt::options::make_commands(std::move(" + c + ")" + "".join(f", std::move({s})" for s in subs) + ")")
        raise ValueError(k)


def gen_cxx():
    out = ["// GENERATED by tools/gen_c03_shapes.py from the shape list - do not edit.",
           "// Included by harness/c03.cpp inside its anonymous namespace.", ""]
    for s in SHAPES:
        e = Emit()
        top = e.op(s["p"])
        out.append(f"// {s['id']}: {s['note']}")
        out.append("template <typename Visitor>")
        out.append(f"std::string shape_{s['id']}(Visitor const &_visitor)")
        out.append("{")
        out.append("  try")
        out.append("  {")
        out += e.lines
        if s["help"]:
            out.append(f"    fcppt::options::help_switch const hs{{{cshort(s['help'][0])}, {clong(s['help'][1])}}};")
            out.append(f"    return _visitor.help(hs, {top});")
        else:
            out.append(f"    return _visitor.plain({top});")
        out.append("  }")
        out.append("  catch (fcppt::options::duplicate_names const &) { return \"exc:duplicate-names\"; }")
        out.append("  catch (fcppt::options::exception const &) { return \"exc:options\"; }")
        out.append("}")
        out.append("")
    out.append(f"constexpr int shape_count = {len(SHAPES)};")
    out.append("template <typename Visitor>")
    out.append("std::string dispatch_shape(int const _id, Visitor const &_visitor)")
    out.append("{")
    out.append("  switch (_id)")
    out.append("  {")
    for s in SHAPES:
        out.append(f"  case {s['id']}: return shape_{s['id']}(_visitor);")
    out.append("  default: return \"bad-op\";")
    out.append("  }")
    out.append("}")
    return "\n".join(out) + "\n"


TARGETS = {
    os.path.join(ROOT, "harness", "c03_shapes.inc"): gen_cxx,
    os.path.join(ROOT, "lean", "FcpptModel", "Model", "C03", "Shapes.lean"): gen_lean,
}


def regenerate(check_only=False):
    """returns list of files that differ from what the shape list generates"""
    changed = []
    for path, gen in TARGETS.items():
        new = gen()
        old = open(path).read() if os.path.exists(path) else None
        if old != new:
            changed.append(path)
            if not check_only:
                os.makedirs(os.path.dirname(path), exist_ok=True)
                with open(path, "w") as f:
                    f.write(new)
    return changed


if __name__ == "__main__":
    ch = regenerate(check_only="--check" in sys.argv)
    for c in ch:
        print(("differs: " if "--check" in sys.argv else "wrote: ") + c)
    sys.exit(1 if (ch and "--check" in sys.argv) else 0)
