#!/usr/bin/env python3
"""Prints the per-property status table (markdown) from evidence/*.json, props/*.py and seeded/*/meta.json."""
import glob, importlib, json, os, sys
ROOT = os.path.dirname(os.path.dirname(os.path.abspath(__file__)))
sys.path.insert(0, ROOT)
props = {json.loads(l)["id"]: json.loads(l) for l in open(os.path.join(ROOT, "properties.jsonl"))}
seeded = {}
for m in glob.glob(os.path.join(ROOT, "seeded", "*", "meta.json")):
    d = json.load(open(m))
    seeded.setdefault(d["property"], []).append((os.path.basename(os.path.dirname(m)), d))
print("| id | title | theorems | tie | evaluations (quick) | quick s | seeded changes caught |")
print("|---|---|---|---|---|---|---|")
for pid in sorted(props):
    f = os.path.join(ROOT, "evidence", pid + ".json")
    if not os.path.exists(f):
        print(f"| {pid} | {props[pid]['title']} | - | not built | - | - | - |")
        continue
    e = json.load(open(f))
    c = e["coverage"]
    tie = "translation + correspondence" if c.get("translation") else "correspondence"
    s = seeded.get(pid, [])
    caught = sum(1 for _, d in s if d.get("detected_by"))
    print(f"| {pid} | {props[pid]['title']} | {c['discharged']}/{c['obligations']} | {tie} | {c['evaluations']:,} | {e['wall_s']} | {caught}/{len(s)} |")
