#!/usr/bin/env python3-vt
"""Validates MANIFEST.json and every evidence file against the schemas in /root/.vp (needs jsonschema: run with python3-vt)."""
import glob, json, sys, os
import jsonschema
ROOT = os.path.dirname(os.path.dirname(os.path.abspath(__file__)))
ok = True
def v(path, schema):
    global ok
    try:
        jsonschema.validate(json.load(open(path)), json.load(open(schema)))
        print("valid  ", path)
    except Exception as e:
        ok = False
        print("INVALID", path, str(e)[:300])
v(os.path.join(ROOT, "MANIFEST.json"), "/root/.vp/MANIFEST.schema.json")
for f in sorted(glob.glob(os.path.join(ROOT, "evidence", "*.json"))):
    v(f, "/root/.vp/EVIDENCE.schema.json")
sys.exit(0 if ok else 1)
