#!/usr/bin/env python3
"""Special-member sweep (notes/sweep.md): give a class of a SCRATCH worktree of fcppt hand-written special member
functions one of which is wrong - the pattern of seeded/C12-5 (classes whose special members are implicit get the five
declarations added, all correct except one).

    tools/sweep_mutate.py <tree> <header relative to tree> <class> <field,field,...> <member> <forget> [<copyable>]

copyable: for class templates that are copyable only for some arguments, the condition (a constant expression over the
        template parameters) under which the copy operations exist, e.g. 'std::is_copy_constructible_v<Parser>'

member: copy_ctor | move_ctor | copy_assign | move_assign | self_assign
forget: the field the wrong member forgets (left default-initialised by a constructor - the field's type must be default
        constructible -, left unchanged by an assignment); for self_assign: the field that copy assignment CLEARS FIRST
        (`f = {}` before copying - wrong only when source and target are the same object).
The definitions are written inline in front of the last `private:` of the header (the class with the data members).
Never run this on /repo.
"""
import os
import sys


def body(cls, fields, member, forget, cond):
    def init(src, mv, skip):
        parts = []
        for f in fields:
            if f == skip:
                continue
            parts.append(f"{f}(std::move({src}.{f}))" if mv else f"{f}({src}.{f})")
        return (" : " + ", ".join(parts)) if parts else ""

    def assign(src, mv, skip):
        return " ".join((f"this->{f} = std::move({src}.{f});" if mv else f"this->{f} = {src}.{f};") for f in fields if f != skip)

    cc = init("_o", False, forget if member == "copy_ctor" else None)
    mc = init("_o", True, forget if member == "move_ctor" else None)
    ca = assign("_o", False, forget if member == "copy_assign" else None)
    ma = assign("_o", True, forget if member == "move_assign" else None)
    if member == "self_assign":
        ca = f"this->{forget} = {{}}; " + ca
        guard = ""
    else:
        guard = "if (this != &_o) "
    req = f" requires ({cond})" if cond else ""
    return f"""
  // SWEEP MUTATION: hand-written special members, `{member}` forgets `{forget}`
  {cls}({cls} const &_o){req}{cc} {{}}
  {cls}({cls} &&_o) noexcept{mc} {{}}
  {cls} &operator=({cls} const &_o){req} {{ {guard}{{ {ca} }} return *this; }}
  {cls} &operator=({cls} &&_o) noexcept {{ {ma} return *this; }}
  ~{cls}() = default;
"""


def main():
    tree, header, cls, fields, member, forget = sys.argv[1:7]
    cond = sys.argv[7] if len(sys.argv) > 7 else ""
    if os.path.realpath(tree) == "/repo" or not os.path.realpath(tree).startswith("/tmp/"):
        sys.exit("refusing: the tree must be a scratch worktree under /tmp")
    fields = fields.split(",")
    assert forget in fields, "forget must be one of the fields"
    assert member in ("copy_ctor", "move_ctor", "copy_assign", "move_assign", "self_assign")
    path = os.path.join(tree, header)
    s = open(path).read()
    k = s.rfind("private:")
    if k < 0:
        sys.exit("no private: section in " + path)
    s = s[:k] + body(cls, fields, member, forget, cond).lstrip("\n") + "\n" + s[k:]
    k = s.find("#include")
    s = s[:k] + "#include <type_traits>\n#include <utility>\n" + s[k:]
    open(path, "w").write(s)
    print(f"mutated {header}: {cls}::{member} forgets {forget}")


if __name__ == "__main__":
    main()
