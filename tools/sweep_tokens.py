#!/usr/bin/env python3
"""Special-member sweep (notes/sweep.md): run the batches of one property's tier through the harness built from
VERIF_REPO and through the driver, and summarise every differing line:

  * SPECIAL-MEMBER-MISMATCH:<class>:<member> tokens - count per token and the first operation that shows it
  * differing lines without a token - count per leading operation tokens (`--group N`, default 2) and the first one

Used to attribute the violations of a scratch tree that carries several independent mutations at once; the
VIOLATION itself is always confirmed with `VERIF_REPO=<tree> ./check.py Cxx --tier quick`.

    VERIF_REPO=/tmp/rw/sweep tools/sweep_tokens.py C03 [--tier quick] [--seed 1] [--group 2] [--max-batches N]
"""
import argparse
import os
import re
import sys

ROOT = os.path.dirname(os.path.dirname(os.path.abspath(__file__)))
sys.path.insert(0, ROOT)

from vlib import harness as hbuild  # noqa: E402
from vlib import paths, runner  # noqa: E402
from vlib.rng import Rng  # noqa: E402

TOKEN = re.compile(r"SPECIAL-MEMBER-MISMATCH:[^ ,;|\]\)]+")


def main():
    ap = argparse.ArgumentParser()
    ap.add_argument("pid")
    ap.add_argument("--tier", default="quick")
    ap.add_argument("--seed", type=int, default=1)
    ap.add_argument("--group", type=int, default=2)
    ap.add_argument("--max-batches", type=int, default=10 ** 9)
    a = ap.parse_args()
    prop = runner.load_prop(a.pid.upper())
    binp, info = hbuild.build(prop.HARNESS)
    if binp is None:
        print("harness does not build:", info.get("error", "")[-3000:])
        return 2
    print(f"harness {binp} ({info})")
    rng = Rng(a.seed)
    batches = []
    cdir = os.path.join(paths.CORPUS, a.pid.upper())
    if os.path.isdir(cdir):
        for f in sorted(os.listdir(cdir)):
            if f.endswith(".ops"):
                lines = [l.rstrip("\n") for l in open(os.path.join(cdir, f)) if l.strip() and not l.startswith("#")]
                kind = "history" if lines and runner.is_reset(lines[0]) else "stateless"
                batches.append(runner.Batch("corpus/" + f, lines, kind=kind))
    batches += list(prop.batches(rng, a.tier))
    tokens, plain = {}, {}
    ndiff = 0
    for b in batches[: a.max_batches]:
        if not b.ops:
            continue
        hist = b.kind == "history"
        model = runner.run_driver(prop, b.ops, 3000, hist)
        impl, deaths = runner.run_harness(binp, b.ops, hist)
        for k, (o, x, y) in enumerate(zip(b.ops, impl, model)):
            if x in ("SKIPPED-AFTER-DEATH", "NOT-RUN") or runner.same(prop, o, x, y):
                continue
            ndiff += 1
            found = TOKEN.findall(x)
            if hist:
                # the operation with its history
                s = k
                while s > 0 and not runner.is_reset(b.ops[s]):
                    s -= 1
                shown = "; ".join(b.ops[s:k + 1])
            else:
                shown = o
            if found:
                for t in set(found):
                    e = tokens.setdefault(t, [0, b.name, shown, x, y])
                    e[0] += 1
            else:
                key = " ".join(o.split(" ")[: a.group])
                e = plain.setdefault(key, [0, b.name, shown, x, y])
                e[0] += 1
    print(f"{ndiff} differing line(s)")
    for t, (n, bn, o, x, y) in sorted(tokens.items()):
        print(f"TOKEN {t}  x{n}  batch={bn}\n   op   : {o[:600]}\n   impl : {x[:400]}\n   model: {y[:400]}")
    for t, (n, bn, o, x, y) in sorted(plain.items(), key=lambda kv: -kv[1][0])[:400]:
        print(f"DIFF  [{t}]  x{n}  batch={bn}\n   op   : {o[:600]}\n   impl : {x[:400]}\n   model: {y[:400]}")
    return 1 if ndiff else 0


if __name__ == "__main__":
    sys.exit(main())
