#!/usr/bin/env python3
"""Builds every property's harness once so that the first quick check does not pay for the compile."""
import importlib, os, sys
from concurrent.futures import ThreadPoolExecutor
ROOT = os.path.dirname(os.path.dirname(os.path.abspath(__file__)))
sys.path.insert(0, ROOT)
from vlib import harness
mods = [importlib.import_module("props." + f[:-3]) for f in sorted(os.listdir(os.path.join(ROOT, "props"))) if f.startswith("c") and f.endswith(".py")]
def one(m):
    hs = [m.HARNESS] + list(getattr(m, "EXTRA_HARNESSES", []))
    return m.ID, [harness.build(h, jobs=4)[1] for h in hs]
with ThreadPoolExecutor(max_workers=4) as ex:
    for pid, infos in ex.map(one, mods):
        print(pid, [(i.get("cached"), i.get("seconds"), i.get("kind")) for i in infos])
