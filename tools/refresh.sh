#!/bin/sh
# Re-runs every registered quick check on the unchanged /repo (seed 1) so that the committed evidence files come from clean runs,
# regenerates MANIFEST.json and validates everything.  Usage: tools/refresh.sh [ids...]
cd "$(dirname "$0")/.."
unset VERIF_REPO
if [ -n "$(git -C /repo status --porcelain --untracked-files=no)" ]; then echo "/repo has uncommitted changes - refusing"; exit 2; fi
ids="$*"
[ -z "$ids" ] && ids=$(python3 -c "import json;print(' '.join(c['property_id'] for c in json.load(open('MANIFEST.json'))['checks']))")
rc=0
for id in $ids; do VERIF_SEED=1 ./check.py $id --tier quick | tail -3 || rc=1; done
python3 tools/gen_manifest.py && python3-vt tools/validate.py || rc=1
exit $rc
