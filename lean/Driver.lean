import FcpptModel.Drv.C01
import FcpptModel.Drv.C02
import FcpptModel.Drv.C03
import FcpptModel.Drv.C04
import FcpptModel.Drv.C05
import FcpptModel.Drv.C06
import FcpptModel.Drv.C07
import FcpptModel.Drv.C08
import FcpptModel.Drv.C09
import FcpptModel.Drv.C10
import FcpptModel.Drv.C11
import FcpptModel.Drv.C12
import FcpptModel.Drv.C13
import FcpptModel.Drv.C14
import FcpptModel.Drv.C15
import FcpptModel.Drv.C16
import FcpptModel.Drv.C17
import FcpptModel.Drv.C18
import FcpptModel.Drv.C19
import FcpptModel.Drv.C20
/-!
`driver <property id>`: reads operation lines on stdin, prints one result line per operation.
Every property has its own module `FcpptModel/Drv/<id>.lean` exporting `main : IO Unit`.
-/
def main (args : List String) : IO UInt32 := do
  match args with
  | ["C01"] => Fcppt.C01.Drv.main; return 0
  | ["C02"] => Fcppt.C02.Drv.main; return 0
  | ["C03"] => Fcppt.C03.Drv.main; return 0
  | ["C04"] => Fcppt.C04.Drv.main; return 0
  | ["C05"] => Fcppt.C05.Drv.main; return 0
  | ["C06"] => Fcppt.C06.Drv.main; return 0
  | ["C07"] => Fcppt.C07.Drv.main; return 0
  | ["C08"] => Fcppt.C08.Drv.main; return 0
  | ["C09"] => Fcppt.C09.Drv.main; return 0
  | ["C10"] => Fcppt.C10.Drv.main; return 0
  | ["C11"] => Fcppt.C11.Drv.main; return 0
  | ["C12"] => Fcppt.C12.Drv.main; return 0
  | ["C13"] => Fcppt.C13.Drv.main; return 0
  | ["C14"] => Fcppt.C14.Drv.main; return 0
  | ["C15"] => Fcppt.C15.Drv.main; return 0
  | ["C16"] => Fcppt.C16.Drv.main; return 0
  | ["C17"] => Fcppt.C17.Drv.main; return 0
  | ["C18"] => Fcppt.C18.Drv.main; return 0
  | ["C19"] => Fcppt.C19.Drv.main; return 0
  | ["C20"] => Fcppt.C20.Drv.main; return 0
  | _ => IO.eprintln "usage: driver <property id>"; return 2
