import FcpptModel.Drv.C10
/-!
`driver <property id>`: reads operation lines on stdin, prints one result line per operation.
-/
def main (args : List String) : IO UInt32 := do
  match args with
  | ["C10"] => Fcppt.C10.Drv.main; return 0
  | _ => IO.eprintln "usage: driver <property id>"; return 2
