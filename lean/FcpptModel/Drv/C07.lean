import FcpptModel.Prelude.Proto
/-! Driver for C07 — placeholder until the property's model is built. -/
namespace Fcppt.C07.Drv
def main : IO Unit := Fcppt.Proto.run (fun _ => "not-built")
end Fcppt.C07.Drv
