import FcpptModel.Prelude.Proto
import FcpptModel.Spec.C07
/-!
Driver for C07: histories over 3 raw_vector registers and 2 buffer registers sharing one heap.

```
reset                                  start of a history: fresh registers
end                                    end of a history: all destructors run, ledger reported
ctor r default | count n x | range fwd|inp LIST | il LIST | move s | buf b
push r SRC | pop r | ins1 r pos SRC | insn r pos n SRC | insr r pos fwd|inp LIST
era1 r pos | erar r l h | resize r n SRC | reserve r n | shrink r | clear r
swap r s | massign r s | cmp r s | obs r
bctor b n | bresize b n | bfill b LIST | bappend b size LIST | bappendopt b size none|LIST
bread b size LIST | bmovector b c | bswap b c | bmassign b c
readchars count LIST                   (stateless) fcppt::io::read_chars
```
SRC = `v<int>` (a value) or `s<i>` (a reference to element i of the same vector); LIST = `a,b,c` or `-`.
An operation whose precondition does not hold for the current state prints `invalid` and is not executed
(decided by the *specification*; the harness decides with its std::vector).
-/
namespace Fcppt.C07.Drv
open Fcppt.Proto Fcppt.C07

def NV : Nat := 3
def NB : Nat := 2

def g : Nat → Nat → Nat := growth

def showList (l : List Int) : String := "[" ++ intList l ++ "]"

def parseSrc (t : String) : Option Src :=
  let rest := (t.drop 1).toString
  if t.startsWith "v" then rest.toInt?.map Src.val
  else if t.startsWith "s" then rest.toNat?.map Src.slot
  else none

def parseReg (n : Nat) (t : String) : Option Nat :=
  match t.toNat? with
  | some r => if r < n then some r else none
  | none => none

def parseFwd (t : String) : Option Bool :=
  if t = "fwd" then some true else if t = "inp" then some false else none

inductive Cmd where
  | reset
  | endHist
  | op (o : Op)
  | cmp (r s : Nat)
  | obs (r : Nat)
  | readChars (count : Nat) (xs : List Int)

def parseCmd (toks : List String) : Option Cmd :=
  match toks with
  | ["reset"] => some .reset
  | ["end"] => some .endHist
  | ["ctor", r, "default"] => do let r ← parseReg NV r; pure (.op (.ctor r .dflt))
  | ["ctor", r, "count", n, x] => do let r ← parseReg NV r; let n ← n.toNat?; let x ← x.toInt?; pure (.op (.ctor r (.count n x)))
  | ["ctor", r, "range", f, l] => do let r ← parseReg NV r; let f ← parseFwd f; let l ← parseIntList l; pure (.op (.ctor r (.range l f)))
  | ["ctor", r, "il", l] => do let r ← parseReg NV r; let l ← parseIntList l; pure (.op (.ctor r (.il l)))
  | ["ctor", r, "move", s] => do let r ← parseReg NV r; let s ← parseReg NV s; pure (.op (.ctorMove r s))
  | ["ctor", r, "buf", b] => do let r ← parseReg NV r; let b ← parseReg NB b; pure (.op (.ctorBuf r b))
  | ["push", r, s] => do let r ← parseReg NV r; let s ← parseSrc s; pure (.op (.v r (.pushBack s)))
  | ["pop", r] => do let r ← parseReg NV r; pure (.op (.v r .popBack))
  | ["ins1", r, p, s] => do let r ← parseReg NV r; let p ← p.toNat?; let s ← parseSrc s; pure (.op (.v r (.insert1 p s)))
  | ["insn", r, p, n, s] => do let r ← parseReg NV r; let p ← p.toNat?; let n ← n.toNat?; let s ← parseSrc s; pure (.op (.v r (.insertN p n s)))
  | ["insr", r, p, f, l] => do let r ← parseReg NV r; let p ← p.toNat?; let f ← parseFwd f; let l ← parseIntList l; pure (.op (.v r (.insertRange p l f)))
  | ["era1", r, p] => do let r ← parseReg NV r; let p ← p.toNat?; pure (.op (.v r (.erase1 p)))
  | ["erar", r, a, b] => do let r ← parseReg NV r; let a ← a.toNat?; let b ← b.toNat?; pure (.op (.v r (.eraseR a b)))
  | ["resize", r, n, s] => do let r ← parseReg NV r; let n ← n.toNat?; let s ← parseSrc s; pure (.op (.v r (.resize n s)))
  | ["reserve", r, n] => do let r ← parseReg NV r; let n ← n.toNat?; pure (.op (.v r (.reserve n)))
  | ["shrink", r] => do let r ← parseReg NV r; pure (.op (.v r .shrink))
  | ["clear", r] => do let r ← parseReg NV r; pure (.op (.v r .clear))
  | ["swap", r, s] => do let r ← parseReg NV r; let s ← parseReg NV s; pure (.op (.swap r s))
  | ["massign", r, s] => do let r ← parseReg NV r; let s ← parseReg NV s; pure (.op (.moveAssign r s))
  | ["cmp", r, s] => do let r ← parseReg NV r; let s ← parseReg NV s; pure (.cmp r s)
  | ["obs", r] => do let r ← parseReg NV r; pure (.obs r)
  | ["bctor", b, n] => do let b ← parseReg NB b; let n ← n.toNat?; pure (.op (.bctor b n))
  | ["bresize", b, n] => do let b ← parseReg NB b; let n ← n.toNat?; pure (.op (.b b (.resize n)))
  | ["bfill", b, l] => do let b ← parseReg NB b; let l ← parseIntList l; pure (.op (.b b (.fillWritten l)))
  | ["bappend", b, n, l] => do let b ← parseReg NB b; let n ← n.toNat?; let l ← parseIntList l; pure (.op (.b b (.append n l)))
  | ["bappendopt", b, n, l] => do
    let b ← parseReg NB b; let n ← n.toNat?
    if l = "none" then pure (.op (.b b (.appendOpt n none)))
    else do let l ← parseIntList l; pure (.op (.b b (.appendOpt n (some l))))
  | ["bread", b, n, l] => do let b ← parseReg NB b; let n ← n.toNat?; let l ← parseIntList l; pure (.op (.bread b n l))
  | ["bmovector", b, c] => do let b ← parseReg NB b; let c ← parseReg NB c; pure (.op (.bctorMove b c))
  | ["bswap", b, c] => do let b ← parseReg NB b; let c ← parseReg NB c; pure (.op (.bswap b c))
  | ["bmassign", b, c] => do let b ← parseReg NB b; let c ← parseReg NB c; pure (.op (.bmoveAssign b c))
  | ["readchars", n, l] => do let n ← n.toNat?; let l ← parseIntList l; pure (.readChars n l)
  | _ => none

def showVec (h : Heap) (r : Nat) (v : RV) : String :=
  match toList h v with
  | .ok l => s!"v{r}={l.length}:{showList l} capok={b01 (decide (v.last ≤ v.cap))}"
  | .error f => s!"v{r}=fault:{f.name}"

def showBuf (h : Heap) (k : Nat) (b : Buf) : String :=
  match Buf.readArea h b with
  | .ok l => s!"b{k}={l.length}:{showList l} ws={b.writeSize} capok={b01 (decide (b.readEnd ≤ b.writeEnd ∧ b.writeEnd ≤ b.cap))}"
  | .error f => s!"b{k}=fault:{f.name}"

def showRet : Option Nat → String
  | none => "ret=-"
  | some n => s!"ret={n}"

def tail (h : Heap) : String := s!"live={h.liveCount} std=ok alloc=ok"

/-- which registers an operation touches (printed after it) -/
def touched : Op → List Nat × List Nat
  | .v r _ => ([r], [])
  | .ctor r _ => ([r], [])
  | .ctorMove r s => ([r, s], [])
  | .ctorBuf r b => ([r], [b])
  | .swap r s => ([r, s], [])
  | .moveAssign r s => ([r, s], [])
  | .bctor b _ => ([], [b])
  | .bread b _ _ => ([], [b])
  | .b k _ => ([], [k])
  | .bctorMove b c => ([], [b, c])
  | .bswap b c => ([], [b, c])
  | .bmoveAssign b c => ([], [b, c])

/-- "reallocated iff needed" for the single-vector operations -/
def reok (old new : RV) : VOp → String
  | .shrink => "-"
  | .reserve n => b01 ((old.base != new.base) == decide (n > old.cap))
  | _ => b01 ((old.base != new.base) == decide (new.last > old.cap))

def runOp (st : St) (sst : Spec.SSt) (o : Op) : St × Spec.SSt × String :=
  match Spec.sstep sst o with
  | none => (st, sst, "invalid")
  | some (sst', sret) =>
    match step g st o with
    | .error f => (st, sst, "fault:" ++ f.name)
    | .ok (st', ret) =>
      let (vs, bs) := touched o
      let parts := vs.map (fun r => showVec st'.heap r (st'.vec r)) ++ bs.map (fun k => showBuf st'.heap k (st'.buf k))
      let re := match o with
        | .v r vo => " reok=" ++ reok (st.vec r) (st'.vec r) vo
        | _ => ""
      -- the specification's answer rides along: `spec=ok` iff model and List specification agree on everything printed
      let specOk :=
        ret == sret &&
        vs.all (fun r => match toList st'.heap (st'.vec r) with | .ok l => l == sst'.vec r | .error _ => false) &&
        bs.all (fun k => match Buf.readArea st'.heap (st'.buf k) with
                         | .ok l => l == (sst'.buf k).1 && (st'.buf k).writeSize == (sst'.buf k).2
                         | .error _ => false)
      (st', sst', showRet ret ++ " " ++ " ".intercalate parts ++ re ++ " " ++ tail st'.heap ++ (if specOk then "" else " SPEC-MISMATCH"))

def cmpLine (st : St) (r s : Nat) : String :=
  let a := st.vec r; let b := st.vec s
  match equalV st.heap a b, lessV st.heap a b, lessV st.heap b a with
  | .ok e, .ok lt, .ok gt => s!"eq={b01 e} ne={b01 (!e)} lt={b01 lt} gt={b01 gt} le={b01 (!gt)} ge={b01 (!lt)}"
  | _, _, _ => "fault"

def obsLine (st : St) (r : Nat) : String :=
  let v := st.vec r
  match toList st.heap v with
  | .error f => "fault:" ++ f.name
  | .ok l =>
    let fr := match l.head? with | some x => toString x | none => "-"
    let bk := match l.getLast? with | some x => toString x | none => "-"
    s!"empty={b01 (v.last == 0)} size={v.last} dist={v.last} front={fr} back={bk} idx={showList l}"

def readCharsLine (count : Nat) (xs : List Int) : String :=
  match readChars g Heap.empty xs count with
  | .error f => "fault:" ++ f.name
  | .ok (h, none) => "none" ++ (if h.liveCount == 0 then "" else " LEAK") ++ (if Spec.sreadChars xs count == none then "" else " SPEC-MISMATCH")
  | .ok (h, some v) =>
    match toList h v, deallocate h v with
    | .ok l, .ok h' => s!"some {l.length}:{showList l} capok={b01 (decide (v.last ≤ v.cap))}" ++ (if h'.liveCount == 0 then "" else " LEAK") ++
        (if Spec.sreadChars xs count == some l then "" else " SPEC-MISMATCH")
    | _, _ => "fault"

def handle (s : St × Spec.SSt) (toks : List String) : (St × Spec.SSt) × String :=
  match parseCmd toks with
  | none => (s, "bad-op")
  | some .reset => ((St.init, Spec.SSt.init), "reset")
  | some .endHist =>
    match finish s.1 NV NB with
    | .ok h => ((St.init, Spec.SSt.init), s!"end live={h.liveCount} alloc=ok")
    | .error f => ((St.init, Spec.SSt.init), "end fault:" ++ f.name)
  | some (.op o) => let (st', sst', line) := runOp s.1 s.2 o; ((st', sst'), line)
  | some (.cmp r t) => (s, cmpLine s.1 r t)
  | some (.obs r) => (s, obsLine s.1 r)
  | some (.readChars n xs) => (s, readCharsLine n xs)

def main : IO Unit := Proto.runState (St.init, Spec.SSt.init) handle

end Fcppt.C07.Drv
