import FcpptModel.Prelude.Proto
import FcpptModel.Spec.C07
/-!
Driver for C07: histories over 3 raw_vector registers and 2 buffer registers sharing one heap.

```
reset                                  start of a history: fresh registers
dump                                   all registers (contents, sizes) and the ledger
failat k                               fault injection: the k-th allocation of the NEXT line throws std::bad_alloc
failsize n | failsize off              every allocation request for more than n elements throws (until changed / reset)
                                       a throwing operation prints `exc:bad_alloc`, all registers, the ledger and `sg`
ctor r adefault|acount n x|arange KIND LIST|ail LIST, bactor b n      the overloads taking the allocator explicitly
end                                    end of a history: all destructors run, ledger reported
ctor r default | count n x | range KIND LIST | il LIST | move s | buf b        KIND = fwd|ptr|fl|bidi|inp
push r SRC | pop r | ins1 r pos SRC | insn r pos n SRC | insr r pos KIND LIST | insr r pos self a b
era1 r pos | erar r l h | resize r n SRC | reserve r n | shrink r | clear r
set r idx|it|data i x | set r front|back 0 x       store through the returned reference
swap r s | massign r s | cmp r s | obs r           (r = s allowed)
bctor b n | bresize b n | bfill b LIST | bappend b size LIST | bappendopt b size none|LIST
bread b size LIST | breadopt b size none|LIST | bmovector b c | bswap b c | bmassign b c | bobs b
readchars count LIST                   (stateless) fcppt::io::read_chars
dynarr n LIST                          (stateless) dynamic_array<int>(n): store LIST through data(), read back, destroy
```
SRC = `v<int>` (a value) or `s<i>` (a reference to element i of the same vector); LIST = `a,b,c` or `-`.
An operation whose precondition does not hold for the current state prints `invalid` and is not executed
(decided by the *specification*; the harness decides with its std::vector).
-/
namespace Fcppt.C07.Drv
open Fcppt.Proto Fcppt.C07

def NV : Nat := 3
def NB : Nat := 2

def g : Nat → Nat → Nat := growth

def showList (l : List Int) : String := "[" ++ intList l ++ "]"

def parseSrc (t : String) : Option Src :=
  let rest := (t.drop 1).toString
  if t.startsWith "v" then rest.toInt?.map Src.val
  else if t.startsWith "s" then rest.toNat?.map Src.slot
  else none

def parseReg (n : Nat) (t : String) : Option Nat :=
  match t.toNat? with
  | some r => if r < n then some r else none
  | none => none

/-- iterator kind of a range argument: `fwd` (std::vector iterator), `ptr` (pointer), `fl` (std::forward_list, forward only),
`bidi` (std::list) all model `forward_iterator_tag`; `inp` is a strictly single-pass input iterator -/
def parseFwd (t : String) : Option Bool :=
  if t = "fwd" || t = "ptr" || t = "fl" || t = "bidi" then some true else if t = "inp" then some false else none

/-- `idx`/`it`/`data`: `v[i]`, `*(begin() + i)`, `data()[i]` (one code path); `front`/`back` take the index 0 -/
def parseAcc (how : String) (i : Nat) : Option Acc :=
  if how = "idx" || how = "it" || how = "data" then some (.index i)
  else if how = "front" && i = 0 then some .front
  else if how = "back" && i = 0 then some .back
  else none

inductive Cmd where
  | reset
  | endHist
  | dump
  | failAt (k : Nat)
  | failSize (n : Option Nat)
  | op (o : Op)
  | cmp (r s : Nat)
  | obs (r : Nat)
  | bobs (b : Nat)
  | dynArr (n : Nat) (xs : List Int)
  | readChars (count : Nat) (xs : List Int)

def parseCmd (toks : List String) : Option Cmd :=
  match toks with
  | ["reset"] => some .reset
  | ["end"] => some .endHist
  | ["dump"] => some .dump
  | ["failat", k] => do let k ← k.toNat?; if k = 0 then none else pure (.failAt k)
  | ["failsize", n] => if n = "off" then some (.failSize none) else do let n ← n.toNat?; pure (.failSize (some n))
  | ["ctor", r, "adefault"] => do let r ← parseReg NV r; pure (.op (.ctor r .dflt))
  | ["ctor", r, "acount", n, x] => do let r ← parseReg NV r; let n ← n.toNat?; let x ← x.toInt?; pure (.op (.ctor r (.count n x)))
  | ["ctor", r, "arange", f, l] => do let r ← parseReg NV r; let f ← parseFwd f; let l ← parseIntList l; pure (.op (.ctor r (.range l f)))
  | ["ctor", r, "ail", l] => do let r ← parseReg NV r; let l ← parseIntList l; pure (.op (.ctor r (.il l)))
  | ["bactor", b, n] => do let b ← parseReg NB b; let n ← n.toNat?; pure (.op (.bctor b n))
  | ["ctor", r, "default"] => do let r ← parseReg NV r; pure (.op (.ctor r .dflt))
  | ["ctor", r, "count", n, x] => do let r ← parseReg NV r; let n ← n.toNat?; let x ← x.toInt?; pure (.op (.ctor r (.count n x)))
  | ["ctor", r, "range", f, l] => do let r ← parseReg NV r; let f ← parseFwd f; let l ← parseIntList l; pure (.op (.ctor r (.range l f)))
  | ["ctor", r, "il", l] => do let r ← parseReg NV r; let l ← parseIntList l; pure (.op (.ctor r (.il l)))
  | ["ctor", r, "move", s] => do let r ← parseReg NV r; let s ← parseReg NV s; pure (.op (.ctorMove r s))
  | ["ctor", r, "buf", b] => do let r ← parseReg NV r; let b ← parseReg NB b; pure (.op (.ctorBuf r b))
  | ["push", r, s] => do let r ← parseReg NV r; let s ← parseSrc s; pure (.op (.v r (.pushBack s)))
  | ["pop", r] => do let r ← parseReg NV r; pure (.op (.v r .popBack))
  | ["ins1", r, p, s] => do let r ← parseReg NV r; let p ← p.toNat?; let s ← parseSrc s; pure (.op (.v r (.insert1 p s)))
  | ["insn", r, p, n, s] => do let r ← parseReg NV r; let p ← p.toNat?; let n ← n.toNat?; let s ← parseSrc s; pure (.op (.v r (.insertN p n s)))
  | ["insr", r, p, "self", a, b] => do
    let r ← parseReg NV r; let p ← p.toNat?; let a ← a.toNat?; let b ← b.toNat?; pure (.op (.v r (.insertSelf p a b)))
  | ["insr", r, p, f, l] => do let r ← parseReg NV r; let p ← p.toNat?; let f ← parseFwd f; let l ← parseIntList l; pure (.op (.v r (.insertRange p l f)))
  | ["era1", r, p] => do let r ← parseReg NV r; let p ← p.toNat?; pure (.op (.v r (.erase1 p)))
  | ["erar", r, a, b] => do let r ← parseReg NV r; let a ← a.toNat?; let b ← b.toNat?; pure (.op (.v r (.eraseR a b)))
  | ["resize", r, n, s] => do let r ← parseReg NV r; let n ← n.toNat?; let s ← parseSrc s; pure (.op (.v r (.resize n s)))
  | ["reserve", r, n] => do let r ← parseReg NV r; let n ← n.toNat?; pure (.op (.v r (.reserve n)))
  | ["shrink", r] => do let r ← parseReg NV r; pure (.op (.v r .shrink))
  | ["clear", r] => do let r ← parseReg NV r; pure (.op (.v r .clear))
  | ["set", r, how, i, x] => do let r ← parseReg NV r; let i ← i.toNat?; let a ← parseAcc how i; let x ← x.toInt?; pure (.op (.v r (.assign a x)))
  | ["swap", r, s] => do let r ← parseReg NV r; let s ← parseReg NV s; pure (.op (.swap r s))
  | ["massign", r, s] => do let r ← parseReg NV r; let s ← parseReg NV s; pure (.op (.moveAssign r s))
  | ["cmp", r, s] => do let r ← parseReg NV r; let s ← parseReg NV s; pure (.cmp r s)
  | ["obs", r] => do let r ← parseReg NV r; pure (.obs r)
  | ["bctor", b, n] => do let b ← parseReg NB b; let n ← n.toNat?; pure (.op (.bctor b n))
  | ["bresize", b, n] => do let b ← parseReg NB b; let n ← n.toNat?; pure (.op (.b b (.resize n)))
  | ["bfill", b, l] => do let b ← parseReg NB b; let l ← parseIntList l; pure (.op (.b b (.fillWritten l)))
  | ["bappend", b, n, l] => do let b ← parseReg NB b; let n ← n.toNat?; let l ← parseIntList l; pure (.op (.b b (.append n l)))
  | ["bappendopt", b, n, l] => do
    let b ← parseReg NB b; let n ← n.toNat?
    if l = "none" then pure (.op (.b b (.appendOpt n none)))
    else do let l ← parseIntList l; pure (.op (.b b (.appendOpt n (some l))))
  | ["bread", b, n, l] => do let b ← parseReg NB b; let n ← n.toNat?; let l ← parseIntList l; pure (.op (.bread b n l))
  | ["breadopt", b, n, l] => do
    let b ← parseReg NB b; let n ← n.toNat?
    if l = "none" then pure (.op (.breadOpt b n none))
    else do let l ← parseIntList l; pure (.op (.breadOpt b n (some l)))
  | ["bobs", b] => do let b ← parseReg NB b; pure (.bobs b)
  | ["dynarr", n, l] => do let n ← n.toNat?; let l ← parseIntList l; pure (.dynArr n l)
  | ["bmovector", b, c] => do let b ← parseReg NB b; let c ← parseReg NB c; pure (.op (.bctorMove b c))
  | ["bswap", b, c] => do let b ← parseReg NB b; let c ← parseReg NB c; pure (.op (.bswap b c))
  | ["bmassign", b, c] => do let b ← parseReg NB b; let c ← parseReg NB c; pure (.op (.bmoveAssign b c))
  | ["readchars", n, l] => do let n ← n.toNat?; let l ← parseIntList l; pure (.readChars n l)
  | _ => none

def showVec (h : Heap) (r : Nat) (v : RV) : String :=
  match toList h v with
  | .ok l => s!"v{r}={l.length}:{showList l} capok={b01 (decide (v.last ≤ v.cap))}"
  | .error f => s!"v{r}=fault:{f.name}"

def showBuf (h : Heap) (k : Nat) (b : Buf) : String :=
  match Buf.readArea h b with
  | .ok l => s!"b{k}={l.length}:{showList l} ws={b.writeSize} capok={b01 (decide (b.readEnd ≤ b.writeEnd ∧ b.writeEnd ≤ b.cap))}"
  | .error f => s!"b{k}=fault:{f.name}"

def showRet : Option Nat → String
  | none => "ret=-"
  | some n => s!"ret={n}"

def tail (h : Heap) (std : String := "ok") : String := s!"live={h.liveCount} std={std} alloc=ok"

/-- which registers an operation touches (printed after it) -/
def touched : Op → List Nat × List Nat
  | .v r _ => ([r], [])
  | .ctor r _ => ([r], [])
  | .ctorMove r s => ([r, s], [])
  | .ctorBuf r b => ([r], [b])
  | .swap r s => ([r, s], [])
  | .moveAssign r s => ([r, s], [])
  | .bctor b _ => ([], [b])
  | .bread b _ _ => ([], [b])
  | .breadOpt b _ _ => ([], [b])
  | .b k _ => ([], [k])
  | .bctorMove b c => ([], [b, c])
  | .bswap b c => ([], [b, c])
  | .bmoveAssign b c => ([], [b, c])

/-- "reallocated iff needed" for the single-vector operations -/
def reok (old new : RV) : VOp → String
  | .shrink => "-"
  | .reserve n => b01 ((old.base != new.base) == decide (n > old.cap))
  | _ => b01 ((old.base != new.base) == decide (new.last > old.cap))

/-- capacity facts that do not depend on the growth policy: never shrinks (except `shrink_to_fit`, which makes it equal
to the size); `reserve(n)` makes it at least `n` -/
def cpok (old new : RV) : VOp → String
  | .shrink => b01 (new.cap == new.last)
  | .reserve n => b01 (decide (old.cap ≤ new.cap ∧ n ≤ new.cap))
  | _ => b01 (decide (old.cap ≤ new.cap))

/-- geometric growth: a capacity that changes at least doubles -/
def geo (old new : RV) : VOp → String
  | .shrink => "-"
  | _ => b01 (new.cap == old.cap || decide (2 * old.cap ≤ new.cap))

def dumpLine (st : St) : String :=
  " ".intercalate ((List.range NV).map (fun r => showVec st.heap r (st.vec r)) ++
    (List.range NB).map (fun k => showBuf st.heap k (st.buf k))) ++ s!" live={st.heap.liveCount} alloc=ok"

def armed (i : Inj) : Bool := i.failAt.isSome || i.failSize.isSome

/-- one operation under the failure schedule `i` (not armed: the plain `step`) -/
def execOp (i : Inj) (st : St) (o : Op) : M (Out St × Option Nat) :=
  if armed i then stepF i g st o else do let x ← step g st o; pure (.done x.1, x.2)

/-- registers a throwing operation may leave changed: the object under construction, the target of a single-pass range insert -/
def excluded : Op → List Nat × List Nat
  | .ctor r _ => ([r], [])
  | .v r (.insertRange _ _ false) => ([r], [])
  | .bctor b _ => ([], [b])
  | .bread b _ _ => ([], [b])
  | .breadOpt b _ _ => ([], [b])
  | _ => ([], [])

def sameRV (a b : RV) : Bool := a.base == b.base && a.last == b.last && a.cap == b.cap
def sameBuf (a b : Buf) : Bool := a.base == b.base && a.readEnd == b.readEnd && a.writeEnd == b.writeEnd && a.cap == b.cap

/-- after `std::bad_alloc`: all registers, the ledger, and `sg` = every register the exception may not change (strong guarantee:
all but `excluded`) has the same pointers as before.  The specification state adopts the model's contents. -/
def threwLine (st st' : St) (sst : Spec.SSt) (o : Op) : Spec.SSt × String :=
  let (ev, eb) := excluded o
  let sg := (List.range NV).all (fun r => ev.contains r || sameRV (st.vec r) (st'.vec r)) &&
            (List.range NB).all (fun k => eb.contains k || sameBuf (st.buf k) (st'.buf k))
  let vecs : Nat → List Int := fun r => match toList st'.heap (st'.vec r) with | .ok l => l | .error _ => sst.vec r
  let bufs : Nat → Spec.SBuf := fun k => match Buf.readArea st'.heap (st'.buf k) with
    | .ok l => (l, (st'.buf k).writeSize) | .error _ => sst.buf k
  (⟨vecs, bufs⟩, "exc:bad_alloc " ++ dumpLine st' ++ " sg=" ++ b01 sg ++ " std=ok")

/-- `insert(pos, begin()+a, begin()+b)` outside the specification (the range does not lie in front of `pos`): the iterators are
still valid, the model says what the code does (it depends on the capacity); the specification state adopts the result -/
def runNoSpec (i : Inj) (st : St) (sst : Spec.SSt) (r pos a b : Nat) : St × Spec.SSt × String :=
  let l := sst.vec r
  if ¬ (a ≤ b ∧ b ≤ l.length ∧ pos ≤ l.length) then (st, sst, "invalid") else
  let vo := VOp.insertSelf pos a b
  match execOp i st (.v r vo) with
  | .error _ => (st, sst, "invalid")      -- source and destination of the uninitialized_copy overlap
  | .ok (.threw st', _) => let (sst', line) := threwLine st st' sst (.v r vo); (st', sst', line)
  | .ok (.done st', ret) =>
    match toList st'.heap (st'.vec r) with
    | .error f => (st, sst, "fault:" ++ f.name)
    | .ok l' =>
      (st', ⟨upd sst.vec r l', sst.buf⟩,
        showRet ret ++ " " ++ showVec st'.heap r (st'.vec r) ++ " reok=" ++ reok (st.vec r) (st'.vec r) vo ++
          " cpok=" ++ cpok (st.vec r) (st'.vec r) vo ++ " geo=" ++ geo (st.vec r) (st'.vec r) vo ++ " " ++ tail st'.heap "na")

def runOp (i : Inj) (st : St) (sst : Spec.SSt) (o : Op) : St × Spec.SSt × String :=
  match Spec.sstep sst o with
  | none =>
    match o with
    | .v r (.insertSelf pos a b) => runNoSpec i st sst r pos a b
    | _ => (st, sst, "invalid")
  | some (sst', sret) =>
    match execOp i st o with
    | .error f => (st, sst, "fault:" ++ f.name)
    | .ok (.threw st', _) => let (sst2, line) := threwLine st st' sst o; (st', sst2, line)
    | .ok (.done st', ret) =>
      let (vs, bs) := touched o
      let parts := vs.map (fun r => showVec st'.heap r (st'.vec r)) ++ bs.map (fun k => showBuf st'.heap k (st'.buf k))
      let re := match o with
        | .v r vo => " reok=" ++ reok (st.vec r) (st'.vec r) vo ++ " cpok=" ++ cpok (st.vec r) (st'.vec r) vo ++
            " geo=" ++ geo (st.vec r) (st'.vec r) vo
        | .b k _ => " mv=" ++ b01 ((st.buf k).base != (st'.buf k).base)
        | _ => ""
      -- the specification's answer rides along: `spec=ok` iff model and List specification agree on everything printed
      let specOk :=
        ret == sret &&
        vs.all (fun r => match toList st'.heap (st'.vec r) with | .ok l => l == sst'.vec r | .error _ => false) &&
        bs.all (fun k => match Buf.readArea st'.heap (st'.buf k) with
                         | .ok l => l == (sst'.buf k).1 && (st'.buf k).writeSize == (sst'.buf k).2
                         | .error _ => false)
      (st', sst', showRet ret ++ " " ++ " ".intercalate parts ++ re ++ " " ++ tail st'.heap ++ (if specOk then "" else " SPEC-MISMATCH"))

def cmpLine (st : St) (r s : Nat) : String :=
  let a := st.vec r; let b := st.vec s
  match equalV st.heap a b, neV st.heap a b, lessV st.heap a b, gtV st.heap a b, leV st.heap a b, geV st.heap a b with
  | .ok e, .ok ne, .ok lt, .ok gt, .ok le, .ok ge => s!"eq={b01 e} ne={b01 ne} lt={b01 lt} gt={b01 gt} le={b01 le} ge={b01 ge}"
  | _, _, _, _, _, _ => "fault"

def mapM' {α β : Type} (f : α → M β) : List α → M (List β)
  | [] => pure []
  | x :: xs => do let y ← f x; let ys ← mapM' f xs; pure (y :: ys)

/-- every element through `operator[]`, `front()`, `back()` (the accessors of the model, not `toList`) -/
def obsLine (st : St) (r : Nat) : String :=
  let v := st.vec r
  let showAcc (a : Acc) : String :=
    if v.last == 0 then "-" else match readRef st.heap v a with | .ok x => toString x | .error f => "fault:" ++ f.name
  match mapM' (fun i => readRef st.heap v (.index i)) (List.range v.last) with
  | .error f => "fault:" ++ f.name
  | .ok l =>
    s!"empty={b01 (v.last == 0)} size={v.last} dist={v.last} front={showAcc .front} back={showAcc .back} idx={showList l} it=1 al=1"

def bobsLine (st : St) (k : Nat) : String :=
  let b := st.buf k
  match mapM' (fun i => Buf.index st.heap b i) (List.range b.readSize) with
  | .error f => "fault:" ++ f.name
  | .ok l => s!"size={b.readSize} ws={b.writeSize} dist={b.readEnd} idx={showList l} ptr=1"

def dynArrLine (n : Nat) (xs : List Int) : String :=
  if xs.length > n then "invalid" else
  match dynRoundTrip Heap.empty n xs with
  | .error f => "fault:" ++ f.name
  | .ok (h, size, dist, l) => s!"size={size} dist={dist} vals={showList l} live={h.liveCount} alloc=ok"

def readCharsLine (count : Nat) (xs : List Int) : String :=
  match readChars g Heap.empty xs count with
  | .error f => "fault:" ++ f.name
  | .ok (h, none) => "none" ++ (if h.liveCount == 0 then "" else " LEAK") ++ (if Spec.sreadChars xs count == none then "" else " SPEC-MISMATCH")
  | .ok (h, some v) =>
    match toList h v, deallocate h v with
    | .ok l, .ok h' => s!"some {l.length}:{showList l} capok={b01 (decide (v.last ≤ v.cap))}" ++ (if h'.liveCount == 0 then "" else " LEAK") ++
        (if Spec.sreadChars xs count == some l then "" else " SPEC-MISMATCH")
    | _, _ => "fault"

def dynArrLineF (i : Inj) (n : Nat) (xs : List Int) : String :=
  if xs.length > n then "invalid"
  else if armed i && (i.grant n).isNone then "exc:bad_alloc live=0 alloc=ok"
  else dynArrLine n xs

structure DS where
  st : St
  sst : Spec.SSt
  inj : Inj

def DS.init : DS := ⟨St.init, Spec.SSt.init, Inj.none⟩

/-- `failat k` holds for the next line only, `failsize n` until `failsize off` / `reset` -/
def handle (s : DS) (toks : List String) : DS × String :=
  let after : DS := { s with inj := ⟨none, s.inj.failSize⟩ }
  match parseCmd toks with
  | none => (after, "bad-op")
  | some .reset => (DS.init, "reset")
  | some (.failAt k) => ({ s with inj := ⟨some k, s.inj.failSize⟩ }, "ok")
  | some (.failSize n) => ({ s with inj := ⟨none, n⟩ }, "ok")
  | some .endHist =>
    match finish s.st NV NB with
    | .ok h => (DS.init, s!"end live={h.liveCount} alloc=ok")
    | .error f => (DS.init, "end fault:" ++ f.name)
  | some (.op o) => let (st', sst', line) := runOp s.inj s.st s.sst o; ({ after with st := st', sst := sst' }, line)
  | some (.cmp r t) => (after, cmpLine s.st r t)
  | some .dump => (after, dumpLine s.st)
  | some (.obs r) => (after, obsLine s.st r)
  | some (.bobs b) => (after, bobsLine s.st b)
  | some (.dynArr n xs) => (after, dynArrLineF s.inj n xs)
  | some (.readChars n xs) => (after, readCharsLine n xs)     -- io::buffer uses std::allocator: outside the failure schedule

def main : IO Unit := Proto.runState DS.init handle

end Fcppt.C07.Drv
