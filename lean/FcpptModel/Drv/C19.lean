import FcpptModel.Prelude.Proto
import FcpptModel.Spec.C19
/-!
Driver for C19 (history protocol; one context at a time).

History operations (state = the current context and its log objects):

* `reset`                      — fresh context, root level 3, default level-stream formatters     → `ok`
* `ctx <lvl> <D|N|M>`          — fresh context with that root level; stream formatters: D = `default_level`
                                 on every level, N = none, M = `default_level` on even levels only    → `ok`
* `set <loc> <lvl>`            — `context::set`                                                     → `ok`
* `get <loc>`                  — `context::get`                                                     → `lvl=<l>`
* `objr <name> <fmt>`          — `object(context, params)`                                          → `obj=<id> lvl=<l> en=<bits>`
* `objl <loc> <name> <fmt>`    — `object(context, location, params)`
* `objc <id> <name> <fmt>`     — `object(objects[id], params)`
* `del <id>`                   — destroy that log object (its id stays taken)                        → `ok`
* `lvl <id>`                   — `object::level`, `enabled` for the six levels                      → `lvl=<l> en=<bits>`
* `log <id> <level> <msg>`     — `object::log`                                                      → `emit=-` | `emit=<sink>|<text>`
* `logm <id> <level> <msg>`    — the same through `FCPPT_LOG_<LEVEL>` (level_if_enabled.hpp); `ev` = how often the
                                 message expression was evaluated                                    → `emit=… ev=<n>`
* `logp <id> <level> <p> <q>`  — `object::log(level, out << p << |q| << q)` (several insertions)     → `emit=…`
* `loga <id> <level> <p> <q>`  — `t = out << p; t = out << q; object::log(level, t)` (move assignment of the output) → `emit=…`
* `fmt <id> <text>`            — `object::formatter()` applied to a text                            → `fmt=<text>` | `fmt=-`
* `sink <id> <level> <fmt> <msg>` — `object::level_sink(level).log(out << msg, fmt)`; `same` = that stream is
                                 `object::level_streams()[level]` and `context::level_streams()[level]` → `emit=<sink>|<text> same=1`
* `cstr <level> <fmt> <msg>`   — `context::level_streams().get()[level].log(out << msg, fmt)`       → `emit=<sink>|<text>`

Stateless operations (do not touch the current context):

* `lfs <s>` `lts <k>` `lout <k>` `lin <text>` — `level_from_string`, `level_to_string`, `operator<<`, `operator>>`
* `loc <prog>`                 — location algebra: `e` | `n:<name>` first, then `d:<name>` (`/=`), `s:<name>` (`operator/`),
                                 `a:<name>` (`l = l / name`), `m:<name>` (`l = std::move(l) / name`), `x` (`/=` with a copy of the first entry); → `str=<string()> n=<size> elems=<a|b> ok=1`
* `chain <f> <g> <text>`       — `format::chain(f, g)` → `r=<text>` | `r=-`;  `fn <f> <text>` — one formatter applied
* `ts <text>`                  — `format::time_stamp()`                                             → `ts=ok rest=<text>`
* `ls <own> <add> <0|1> <msg>` — a free-standing `level_stream` on sink A, redirected to sink B by `sink()` if 1
* `dstream <k>`, `dls <k> <msg>` — `default_stream`, `default_level_streams()[k]`
* `params <name> <fmt> <text>`, `pnf <name> <text>` — `parameters`, `parameters_no_function`
* `enum <k> <e|f> <root> <cfg> <prefix> <alphabet> <locs>` — every history `prefix ++ w`, `w` ∈ alphabet^k, observed after
                                 every step (`e`) or at the end (`f`): number of histories and an FNV digest  → `n=<n> h=<hex>`
* `case <root> <cfg> <ops> <obs>` — one history, result line of the final operation `obs`

`<loc>` = `-` (empty) or names joined by `.`; the name `_` stands for the empty string.
`<lvl>` = `0`…`5` or `-` (disabled).  `<fmt>` = `-` (no formatter), `P:<p>` (`format::prefix`), `I:<pre>:<suf>`
(`format::inserter`), `L:<k>` (`format::default_level`) or a tag `T`: `s ↦ T<s>`.
In texts a newline is printed as `\n`; the input of `lin` ends with `$`, `_` stands for a blank and `~` for a newline.
Inside `enum`/`case` the tokens of an operation are joined by `,` and operations by `;`.
-/
namespace Fcppt.C19.Drv
open Fcppt.Proto

structure St where
  root : Level
  tree : Tree
  cfg : Char
  objs : Array (Option Obj)     -- `none` = destroyed
  sets : List (Loc × Level)     -- for the run-time cross-check against the spec

def fresh (root : Level) (cfg : Char) : St := ⟨root, mkRoot root, cfg, #[], []⟩

def parseName (s : String) : String := if s = "_" then "" else s

def parseLoc (s : String) : Option Loc :=
  if s = "-" then some [] else
  let parts := s.splitOn "."
  if parts.any (· = "") then none else some (parts.map parseName)

def parseLevel (s : String) : Option Level :=
  if s = "-" then some none else
  match s.toNat? with
  | some n => if n < levelCount then some (some n) else none
  | none => none

def parseLvlNat (s : String) : Option Nat :=
  match s.toNat? with
  | some n => if n < levelCount then some n else none
  | none => none

def parseFmt (s : String) : OptFn :=
  if s = "-" then none else
  match s.splitOn ":" with
  | ["P", p] => some (prefixFn p)
  | ["I", a, b] => some (inserter a b)
  | ["L", k] =>
    match parseLvlNat k with
    | some l => some (defaultLevel l)
    | none => some (fun t => s ++ "<" ++ t ++ ">")
  | _ => some (fun t => s ++ "<" ++ t ++ ">")

def streams (cfg : Char) (l : Nat) : OptFn :=
  if cfg = 'D' then some (defaultLevel l)
  else if cfg = 'M' then (if l % 2 = 0 then some (defaultLevel l) else none)
  else none

def showLevel : Level → String
  | none => "-"
  | some l => toString l

def esc (s : String) : String := (s.replace "\\" "\\\\").replace "\n" "\\n"

def showOpt (f : OptFn) (t : String) : String :=
  match f with
  | none => "-"
  | some g => esc (g t)

def objLine (s : St) (o : Obj) : String :=
  match objLevel s.tree o with
  | .error f => "fault:" ++ f.name
  | .ok l =>
    let bits := String.ofList ((List.range levelCount).map fun k => if enabledAt l k then '1' else '0')
    -- run-time cross-check of the theorem `object_level_eq_latest_prefix`
    if l = levelOf s.root s.sets o.node then s!"lvl={showLevel l} en={bits}" else "MODEL-SPEC-MISMATCH"

def addObj (s : St) (r : Tree × Obj) : St × String :=
  let s' := { s with tree := r.1, objs := s.objs.push (some r.2) }
  (s', s!"obj={s.objs.size} " ++ objLine s' r.2)

def getObj (s : St) (id : String) : Option Obj :=
  match id.toNat? with
  | some i => (s.objs[i]?).join
  | none => none

def emitLine (l : Nat) : Option String → String
  | none => "emit=-"
  | some t => s!"emit={l}|{esc t}"

def doLog (s : St) (id lvl msg : String) : String :=
  match getObj s id, parseLvlNat lvl with
  | some o, some l =>
    match objLog s.tree (streams s.cfg) o l msg with
    | .error f => "fault:" ++ f.name
    | .ok r => emitLine l r
  | _, _ => "bad-op"

def doLogMacro (s : St) (id lvl msg : String) : String :=
  match getObj s id, parseLvlNat lvl with
  | some o, some l =>
    match logMacro s.tree (streams s.cfg) o l msg with
    | .error f => "fault:" ++ f.name
    | .ok (r, n) => emitLine l r ++ s!" ev={n}"
  | _, _ => "bad-op"

/-- text of `lin`: `_` = blank, `~` = newline -/
def unescIn (s : String) : List Char := s.toList.map fun c => if c = '_' then ' ' else if c = '~' then '\n' else c
def escOut (cs : List Char) : String := String.ofList (cs.map fun c => if c = ' ' then '_' else if c = '\n' then '~' else c)

/-- the location program of `loc` -/
def locProg : Option Loc → List String → Option Loc
  | cur, [] => cur
  | none, t :: ts =>
    if t = "e" then locProg (some []) ts
    else match t.splitOn ":" with
      | ["n", n] => locProg (some (locOfName (parseName n))) ts
      | _ => none
  | some l, t :: ts =>
    if t = "x" then locProg (some (locPush l (l.headD ""))) ts
    else match t.splitOn ":" with
      | ["d", n] => locProg (some (locPush l (parseName n))) ts
      | ["s", n] => locProg (some (locPush l (parseName n))) ts
      | ["a", n] => locProg (some (locPush l (parseName n))) ts
      | ["m", n] => locProg (some (locPush l (parseName n))) ts
      | _ => none

def showName (s : String) : String := if s = "" then "_" else s

def stateless (toks : List String) : Option String :=
  match toks with
  | ["lfs", s] => some ("lvl=" ++ showLevel (levelFromString (parseName s)))
  | ["lts", k] =>
    match parseLvlNat k with
    | some l => match levelToString l with
      | .ok n => some ("name=" ++ n)
      | .error f => some ("fault:" ++ f.name)
    | none => some "bad-op"
  | ["lout", k] =>
    match parseLvlNat k with
    | some l => match levelToString l with
      | .ok n => some ("out=" ++ n)
      | .error f => some ("fault:" ++ f.name)
    | none => some "bad-op"
  | ["lin", text] =>
    if text.endsWith "$" then
      let (v, fail, rest) := levelInput 5 (unescIn (text.dropEnd 1).toString)
      some (s!"lvl={v} fail={b01 fail}" ++ (if fail then "" else " rest=" ++ escOut rest ++ "$"))
    else some "bad-op"
  | ["loc", prog] =>
    match locProg none (prog.splitOn ",") with
    | some l => some (s!"str={showName (locString l)} n={l.length} elems={if l.isEmpty then "-" else "|".intercalate (l.map showName)} ok=1")
    | none => some "bad-op"
  | ["chain", f, g, text] => some ("r=" ++ showOpt (chain (parseFmt f) (parseFmt g)) text)
  | ["fn", f, text] => some ("r=" ++ showOpt (parseFmt f) text)
  | ["ts", text] =>
    let r := timeStamp "NOW" text
    some (if r.startsWith "NOW: " then "ts=ok rest=" ++ esc (r.drop 5).toString else "ts=bad")
  | ["ls", own, add, redir, msg] =>
    if redir = "0" ∨ redir = "1" then
      let s0 : LevelStream := ⟨0, parseFmt own⟩
      let s1 := if redir = "1" then s0.sink 1 else s0
      let (d, text) := s1.log (parseFmt add) msg
      let a := if d = 0 then esc text else "-"
      let b := if d = 1 then esc text else "-"
      some (s!"A={a} B={b} g={if s1.dest = 0 then "A" else "B"} f={showOpt s1.fmt "x"}")
    else some "bad-op"
  | ["dstream", k] =>
    match parseLvlNat k with
    | some l => some (if defaultStream l then "cerr" else "clog")
    | none => some "bad-op"
  | ["dls", k, msg] =>
    match parseLvlNat k with
    | some l =>
      let (d, f) := defaultLevelStreams l
      some (s!"s={if d then "cerr" else "clog"} f={showOpt f msg}")
    | none => some "bad-op"
  | ["params", name, f, text] =>
    let p : Params := ⟨parseName name, parseFmt f⟩
    some (s!"name={showName p.name} f={showOpt p.fmt text}")
  | ["pnf", name, text] =>
    let p := paramsNoFunction (parseName name)
    some (s!"name={showName p.name} f={showOpt p.fmt text}")
  | _ => none

def handleCore (s : St) (toks : List String) : St × String :=
  match toks with
  | ["reset"] => (fresh (some 3) 'D', "ok")
  | ["ctx", l, c] =>
    match parseLevel l with
    | some r => if c = "D" ∨ c = "N" ∨ c = "M" then (fresh r (c.front), "ok") else (s, "bad-op")
    | none => (s, "bad-op")
  | ["set", loc, l] =>
    match parseLoc loc, parseLevel l with
    | some p, some v => ({ s with tree := ctxSet s.tree p v, sets := s.sets ++ [(p, v)] }, "ok")
    | _, _ => (s, "bad-op")
  | ["get", loc] =>
    match parseLoc loc with
    | some p =>
      let l := ctxGet s.tree p
      -- run-time cross-check of the theorem `get_eq_latest_prefix`
      (s, if l = levelOf s.root s.sets p then "lvl=" ++ showLevel l else "MODEL-SPEC-MISMATCH")
    | none => (s, "bad-op")
  | ["objr", name, f] => addObj s (objRoot s.tree (parseName name) (parseFmt f))
  | ["objl", loc, name, f] =>
    match parseLoc loc with
    | some p => addObj s (objAt s.tree p (parseName name) (parseFmt f))
    | none => (s, "bad-op")
  | ["objc", id, name, f] =>
    match getObj s id with
    | some p => addObj s (objChild s.tree p (parseName name) (parseFmt f))
    | none => (s, "bad-op")
  | ["del", id] =>
    match id.toNat?, getObj s id with
    | some i, some _ => ({ s with objs := s.objs.set! i none }, "ok")
    | _, _ => (s, "bad-op")
  | ["lvl", id] =>
    match getObj s id with
    | some o => (s, objLine s o)
    | none => (s, "bad-op")
  | ["log", id, l, msg] => (s, doLog s id l msg)
  | ["logm", id, l, msg] => (s, doLogMacro s id l msg)
  | ["logp", id, l, p, q] => (s, doLog s id l (outParts [p, toString q.utf8ByteSize, q]))
  | ["fmt", id, text] =>
    match getObj s id with
    | some o => (s, "fmt=" ++ showOpt o.fmt text)
    | none => (s, "bad-op")
  | ["loga", id, l, p, q] => (s, doLog s id l (outAssign [p] [q]))
  | ["sink", id, l, f, msg] =>
    match getObj s id, parseLvlNat l with
    | some o, some k =>
      -- `@`: the object's own formatter (the very same optional_function object) as additional formatter
      let add := if f = "@" then o.fmt else parseFmt f
      (s, emitLine k (some (sinkLog (streams s.cfg) k add msg)) ++ " same=1")
    | _, _ => (s, "bad-op")
  | ["cstr", l, f, msg] =>
    match parseLvlNat l with
    | some k => (s, emitLine k (some (sinkLog (streams s.cfg) k (parseFmt f) msg)))
    | none => (s, "bad-op")
  | _ =>
    match stateless toks with
    | some r => (s, r)
    | none => (s, "bad-op")

/-! ### exhaustive enumeration of small histories -/

def splitOp (s : String) : List String := s.splitOn ","

def parseOps (s : String) : List (List String) := if s = "-" then [] else (s.splitOn ";").map splitOp

def feed (h : UInt64) (line : String) : UInt64 := fnv h (line ++ "\n")

/-- what is looked at after a step: `get` of every location of the list, then for every live object `lvl` and one
    `log` / `logm` (alternating) at level `(id + step) % 6` -/
def observe (s : St) (locs : List String) (step : Nat) (h : UInt64) : UInt64 :=
  let h := locs.foldl (fun h l => feed h (handleCore s ["get", l]).2) h
  (List.range s.objs.size).foldl (fun h i =>
    match s.objs[i]? with
    | some (some _) =>
      let h := feed h (handleCore s ["lvl", toString i]).2
      let op := if (i + step) % 2 = 0 then "log" else "logm"
      feed h (handleCore s [op, toString i, toString ((i + step) % 6), "m"]).2
    | _ => h) h

/-- run the operations of a prefix; `none` if one of them is rejected -/
def runOps (each : Bool) (locs : List String) : List (List String) → St → Nat → UInt64 → Option (St × Nat × UInt64)
  | [], s, step, h => some (s, step, h)
  | op :: ops, s, step, h =>
    let (s', r) := handleCore s op
    if r = "bad-op" then none else
    let h := feed h r
    let h := if each then observe s' locs (step + 1) h else h
    runOps each locs ops s' (step + 1) h

/-- all extensions by `k` operations of the alphabet; a rejected operation (an `objc` whose parent does not exist)
    prunes its subtree.  Accumulates (number of histories, combined digest). -/
def enumRec (each : Bool) (locs : List String) (alpha : List (List String)) :
    Nat → St → Nat → UInt64 → Nat × UInt64 → Nat × UInt64
  | 0, s, step, h, (n, tot) =>
    let h := if each then h else observe s locs step h
    (n + 1, (tot ^^^ h) * 1099511628211)
  | k + 1, s, step, h, acc =>
    alpha.foldl (fun acc op =>
      let (s', r) := handleCore s op
      if r = "bad-op" then acc else
      let h := feed h r
      let h := if each then observe s' locs (step + 1) h else h
      enumRec each locs alpha k s' (step + 1) h acc) acc

def handle (s : St) (toks : List String) : St × String :=
  match toks with
  | ["enum", k, mode, root, cfg, pre, alpha, locs] =>
    match k.toNat?, parseLevel root with
    | some k, some r =>
      if (mode = "e" ∨ mode = "f") ∧ (cfg = "D" ∨ cfg = "N" ∨ cfg = "M") ∧ k ≤ 6 then
        let each := mode = "e"
        let ls := locs.splitOn ","
        match runOps each ls (parseOps pre) (fresh r cfg.front) 0 fnvInit with
        | none => (s, "bad-op")
        | some (s0, step, h) =>
          let (n, tot) := enumRec each ls (parseOps alpha) k s0 step h (0, fnvInit)
          (fresh (some 3) 'D', s!"n={n} h={hex64 tot}")
      else (s, "bad-op")
    | _, _ => (s, "bad-op")
  | ["case", root, cfg, ops, obs] =>
    match parseLevel root with
    | some r =>
      if cfg = "D" ∨ cfg = "N" ∨ cfg = "M" then
        match runOps false [] (parseOps ops) (fresh r cfg.front) 0 fnvInit with
        | none => (fresh (some 3) 'D', "bad-op")
        | some (s0, _, _) => (fresh (some 3) 'D', (handleCore s0 (splitOp obs)).2)
      else (s, "bad-op")
    | none => (s, "bad-op")
  | _ => handleCore s toks

def main : IO Unit := Proto.runState (fresh (some 3) 'D') handle

end Fcppt.C19.Drv
