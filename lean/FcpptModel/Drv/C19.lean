import FcpptModel.Prelude.Proto
import FcpptModel.Spec.C19
/-!
Driver for C19 (history protocol; one context at a time).

* `reset`                      — fresh context, root level 3, default level-stream formatters     → `ok`
* `ctx <lvl> <D|N|M>`          — fresh context with that root level; stream formatters: D = `default_level`
                                 on every level, N = none, M = `default_level` on even levels only    → `ok`
* `set <loc> <lvl>`            — `context::set`                                                     → `ok`
* `get <loc>`                  — `context::get`                                                     → `lvl=<l>`
* `objr <name> <fmt>`          — `object(context, params)`                                          → `obj=<id> lvl=<l> en=<bits>`
* `objl <loc> <name> <fmt>`    — `object(context, location, params)`
* `objc <id> <name> <fmt>`     — `object(objects[id], params)`
* `lvl <id>`                   — `object::level`, `enabled` for the six levels                      → `lvl=<l> en=<bits>`
* `log <id> <level> <msg>`     — `object::log`                                                      → `emit=-` | `emit=<sink>|<text>`
* `logm <id> <level> <msg>`    — the same through `FCPPT_LOG_<LEVEL>` (level_if_enabled.hpp)

`<loc>` = `-` (empty) or names joined by `.`; the name `_` stands for the empty string.
`<lvl>` = `0`…`5` or `-` (disabled).  `<fmt>` = `-` (no formatter) or a tag `T`: `s ↦ T<s>`.
In the emitted text a newline is printed as `\n`.
-/
namespace Fcppt.C19.Drv
open Fcppt.Proto

structure St where
  root : Level
  tree : Tree
  cfg : Char
  objs : Array Obj
  sets : List (Loc × Level)     -- for the run-time cross-check against the spec

def fresh (root : Level) (cfg : Char) : St := ⟨root, mkRoot root, cfg, #[], []⟩

def parseName (s : String) : String := if s = "_" then "" else s

def parseLoc (s : String) : Option Loc :=
  if s = "-" then some [] else
  let parts := s.splitOn "."
  if parts.any (· = "") then none else some (parts.map parseName)

def parseLevel (s : String) : Option Level :=
  if s = "-" then some none else
  match s.toNat? with
  | some n => if n < levelCount then some (some n) else none
  | none => none

def parseLvlNat (s : String) : Option Nat :=
  match s.toNat? with
  | some n => if n < levelCount then some n else none
  | none => none

def parseFmt (s : String) : OptFn :=
  if s = "-" then none else some (fun t => s ++ "<" ++ t ++ ">")

def streams (cfg : Char) (l : Nat) : OptFn :=
  if cfg = 'D' then some (defaultLevel l)
  else if cfg = 'M' then (if l % 2 = 0 then some (defaultLevel l) else none)
  else none

def showLevel : Level → String
  | none => "-"
  | some l => toString l

def esc (s : String) : String := (s.replace "\\" "\\\\").replace "\n" "\\n"

def objLine (s : St) (o : Obj) : String :=
  match objLevel s.tree o with
  | .error f => "fault:" ++ f.name
  | .ok l =>
    let bits := String.ofList ((List.range levelCount).map fun k => if enabledAt l k then '1' else '0')
    -- run-time cross-check of the theorem `object_level_eq_latest_prefix`
    if l = levelOf s.root s.sets o.node then s!"lvl={showLevel l} en={bits}" else "MODEL-SPEC-MISMATCH"

def addObj (s : St) (r : Tree × Obj) : St × String :=
  let s' := { s with tree := r.1, objs := s.objs.push r.2 }
  (s', s!"obj={s.objs.size} " ++ objLine s' r.2)

def doLog (s : St) (id lvl msg : String) : String :=
  match id.toNat?, parseLvlNat lvl with
  | some i, some l =>
    match s.objs[i]? with
    | none => "bad-op"
    | some o =>
      match objLog s.tree (streams s.cfg) o l msg with
      | .error f => "fault:" ++ f.name
      | .ok none => "emit=-"
      | .ok (some t) => s!"emit={l}|{esc t}"
  | _, _ => "bad-op"

def handle (s : St) (toks : List String) : St × String :=
  match toks with
  | ["reset"] => (fresh (some 3) 'D', "ok")
  | ["ctx", l, c] =>
    match parseLevel l with
    | some r => if c = "D" ∨ c = "N" ∨ c = "M" then (fresh r (c.front), "ok") else (s, "bad-op")
    | none => (s, "bad-op")
  | ["set", loc, l] =>
    match parseLoc loc, parseLevel l with
    | some p, some v => ({ s with tree := ctxSet s.tree p v, sets := s.sets ++ [(p, v)] }, "ok")
    | _, _ => (s, "bad-op")
  | ["get", loc] =>
    match parseLoc loc with
    | some p =>
      let l := ctxGet s.tree p
      -- run-time cross-check of the theorem `get_eq_latest_prefix`
      (s, if l = levelOf s.root s.sets p then "lvl=" ++ showLevel l else "MODEL-SPEC-MISMATCH")
    | none => (s, "bad-op")
  | ["objr", name, f] => addObj s (objRoot s.tree (parseName name) (parseFmt f))
  | ["objl", loc, name, f] =>
    match parseLoc loc with
    | some p => addObj s (objAt s.tree p (parseName name) (parseFmt f))
    | none => (s, "bad-op")
  | ["objc", id, name, f] =>
    match id.toNat? with
    | some i =>
      match s.objs[i]? with
      | some p => addObj s (objChild s.tree p (parseName name) (parseFmt f))
      | none => (s, "bad-op")
    | none => (s, "bad-op")
  | ["lvl", id] =>
    match id.toNat? with
    | some i =>
      match s.objs[i]? with
      | some o => (s, objLine s o)
      | none => (s, "bad-op")
    | none => (s, "bad-op")
  | ["log", id, l, msg] => (s, doLog s id l msg)
  | ["logm", id, l, msg] => (s, doLog s id l msg)
  | _ => (s, "bad-op")

def main : IO Unit := Proto.runState (fresh (some 3) 'D') handle

end Fcppt.C19.Drv
