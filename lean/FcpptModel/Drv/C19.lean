import FcpptModel.Prelude.Proto
/-! Driver for C19 — placeholder until the property's model is built. -/
namespace Fcppt.C19.Drv
def main : IO Unit := Fcppt.Proto.run (fun _ => "not-built")
end Fcppt.C19.Drv
