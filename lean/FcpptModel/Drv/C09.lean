import FcpptModel.Prelude.Proto
/-! Driver for C09 — placeholder until the property's model is built. -/
namespace Fcppt.C09.Drv
def main : IO Unit := Fcppt.Proto.run (fun _ => "not-built")
end Fcppt.C09.Drv
