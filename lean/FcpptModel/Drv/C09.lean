import FcpptModel.Prelude.Proto
import FcpptModel.Model.C09
/-!
Driver for C09 — one history of tree operations over a forest of at most 4 heap roots.

A node operand is a *selector*: a number `n` (the `n mod count`-th node of the forest in pre-order) or an explicit
path `p0.2.1` (root 0, child 2, child 1).  Child indices are reduced modulo the child count.  Lines:

```
reset
new V | del R | set A V                      (del leaves the last root alone: skip:last; reset destroys everything)
pushb A V | pushf A V | ins A I V            push_back / push_front / insert(it, value)
pushbt A B | pushft A B | inst A I B         the same with std::move(node B)
popb A K | popf A K | rel A I K              pop_back / pop_front / release(it); K=1: result becomes a new root
erase A I | eraser A I J | clear A | sort A
swap A B | cpa A B | mva A B                 swap, copy assignment A = B, move assignment A = std::move(B)
cpc B | mvc B                                new root by copy / move construction
pre A | toroot A | depth A | level A | cpos A B | cposk A I | map A | eq A B
sortp A K                                    sort(Predicate), K = index into `predOf`
mkl B V                                      new root object(V, child_list(B.children()))
pushbv A B | pushfv A B | insv A I B | setv A B    the value argument is a reference to the value of node B (may be A or inside A)
pushbmv A B | pushfmv A B | setmv A B              the same with std::move(B.value()) (the T && overloads)
front A | back A | kids A | out A            front()/back(), begin/end + rbegin/rend + size + empty, operator<<
obsall                                       every observer on every node (and on every pair of nodes while the forest is small)
```

A line starting with `M` is executed on a second forest whose value type is move-only (`skip:copy` for the copying operations).

A known command whose node operands are well formed but do not all exist answers `skip:nonode`.

Result: `ok a=<path> [b=<path>] [some|none] | <dump>` for mutating operations, `q …` for observers, `skip:<why>` when
the operation is not applicable (forest full, too big, empty child list, excluded misuse), `bad-op` for malformed lines.
Dump: every root, node = value, `+`/`!` (is `parent_` the address of the owner / `nullptr` for a root), children in parentheses.
-/
namespace Fcppt.C09.Drv
open Fcppt.Proto Fcppt.C09 Fcppt.C09.PT

def maxRoots : Nat := 4
def growCap : Nat := 40
def copyCap : Nat := 64

mutual
def pathsT (p : Path) : PT → List Path
  | .node _ _ _ ks => p :: pathsL p 0 ks
def pathsL (p : Path) (j : Nat) : List PT → List Path
  | [] => []
  | k :: ks => pathsT (p ++ [j]) k ++ pathsL p (j + 1) ks
end

def pathsF (j : Nat) : List PT → List Path
  | [] => []
  | t :: ts => pathsT [j] t ++ pathsF (j + 1) ts

mutual
def dumpT (exp : Option Nat) : PT → String
  | .node i v p ks =>
    toString v ++ (if p == exp then "+" else "!") ++
      (match ks with
       | [] => ""
       | k :: ks' => "(" ++ dumpL (some i) (k :: ks') ++ ")")
def dumpL (exp : Option Nat) : List PT → String
  | [] => ""
  | k :: ks => dumpT exp k ++ (match ks with | [] => "" | _ => " ") ++ dumpL exp ks
end

def dumpF (F : List PT) : String :=
  match F with
  | [] => "-"
  | _ => " ".intercalate (F.map (dumpT none))

def pathStr (p : Path) : String := ".".intercalate (p.map toString)

def parsePath (s : String) : Option Path :=
  if s.startsWith "p" then ((s.drop 1).toString.splitOn ".").mapM String.toNat? else none

/-- resolve a selector against the current forest -/
def sel (F : List PT) (tok : String) : Option Path :=
  if tok.startsWith "p" then
    match parsePath tok with
    | some p => if (getF p F).isSome then some p else none
    | none => none
  else
    match tok.toNat? with
    | some n =>
      let ps := pathsF 0 F
      if ps.isEmpty then none else ps[n % ps.length]?
    | none => none

/-- a selector token is well formed (`p<nat>(.<nat>)*` or a natural number) -/
def selWellFormed (tok : String) : Bool :=
  if tok.startsWith "p" then (parsePath tok).isSome else tok.toNat?.isSome

def unaryCmds : List String :=
  ["clear", "sort", "cpc", "mvc", "pre", "toroot", "depth", "level", "map", "front", "back", "kids", "out"]
def valuedCmds : List String := ["set", "pushb", "pushf", "popb", "popf", "erase", "cposk", "sortp", "mkl"]
def binaryCmds : List String :=
  ["pushbt", "pushft", "swap", "cpa", "mva", "cpos", "eq", "pushbv", "pushfv", "setv", "pushbmv", "pushfmv", "setmv"]
def fourACmds : List String := ["ins", "rel", "eraser"]
def fourABCmds : List String := ["inst", "insv"]

/-- the tokens of a line that select nodes (`none`: not a known node command of that arity) -/
def nodeOperands (toks : List String) : Option (List String) :=
  match toks with
  | [cmd, a] => if unaryCmds.contains cmd then some [a] else none
  | [cmd, a, b] =>
    if valuedCmds.contains cmd then some [a] else if binaryCmds.contains cmd then some [a, b] else none
  | [cmd, a, _, y] =>
    if fourACmds.contains cmd then some [a] else if fourABCmds.contains cmd then some [a, y] else none
  | _ => none

/-- a well-formed line whose node operands are all well formed but do not all exist (empty forest, or an explicit path that is
not there any more) is not applicable: `skip:nonode` -/
def missingNode (F : List PT) (toks : List String) : Bool :=
  match nodeOperands toks with
  | some sels => sels.all selWellFormed && sels.any (fun t => (sel F t).isNone)
  | none => false

def count (F : List PT) : Nat := sizeL F

def kidsLen (F : List PT) (a : Path) : Nat :=
  match getF a F with
  | some t => t.kids.length
  | none => 0

mutual
/-- the addresses of all objects of a tree / a forest in pre-order -/
def idsT : PT → List Nat
  | .node i _ _ ks => i :: idsL ks
def idsL : List PT → List Nat
  | [] => []
  | k :: ks => idsT k ++ idsL ks
end

/-- which objects survived the operation: for every object of the new forest (pre-order) the pre-order index the same object
(same address) had before the operation, `n` for an object that did not exist; `=` if nothing moved -/
def identStr (old new : List PT) : String :=
  let o := idsL old
  let n := idsL new
  if o == n then "=" else
    ",".intercalate (n.map fun i => match o.findIdx? (· == i) with | some k => toString k | none => "n")

def done (s s' : St) (head : String) : St × String :=
  (s', head ++ " | " ++ dumpF s'.forest ++ " @" ++ identStr s.forest s'.forest)

def runOp (s : St) (op : Op) (head : String) : St × String :=
  if !op.guard then (s, "skip:misuse") else
  match step s op with
  | .ok s' => done s s' head
  | .error e => (s, "fault:" ++ e.name)

def mapFn (v : Int) : Int := 2 * v + 1

def excStr {α} (f : α → String) : Except Fault α → String
  | .ok a => f a
  | .error e => "fault:" ++ e.name

def optVal (o : Option PT) : String :=
  match o with
  | some c => s!"{c.val}:{c.kids.length}"
  | none => "none"

def outStr (t : PT) : String := String.ofList (output '>' ';' t)

def kidsStr (t : PT) : String :=
  s!"fwd={intList ((fwd t).map PT.val)} rev={intList ((rev t).map PT.val)} size={sizeK t} empty={b01 (emptyK t)}"

def cposStr (o : Option Nat) : String := match o with | some i => toString i | none => "none"

/-- every observer on every node; on every ordered pair of nodes while there are at most `pairCap` nodes -/
def pairCap : Nat := 14

def obsAll (s : St) : String :=
  let F := s.forest
  let ps := pathsF 0 F
  let per := ps.map fun p =>
    match getF p F with
    | none => "?"
    | some t =>
      s!"{pathStr p} v={t.val} l={excStr toString (level F t)} d={depth t} f={optVal (front t)} b={optVal (back t)} {kidsStr t}" ++
      s!" pre={excStr intList (preOrder t)} tr={excStr intList (toRoot F t)} out={outStr t}"
  let pairs :=
    if ps.length > pairCap then "pairs=skipped" else
      let cp := ps.flatMap fun p => ps.filterMap fun c =>
        match getF p F, getF c F with
        | some P, some C =>
          match childPosition P C with
          | some j => some s!"{pathStr p}>{pathStr c}={j}"
          | none => none
        | _, _ => none
      let eqs := ps.map fun p => String.ofList (ps.map fun c =>
        match getF p F, getF c F with
        | some P, some C => if eqT P C then '1' else '0'
        | _, _ => '?')
      "cpos=" ++ ",".intercalate cp ++ " eq=" ++ ",".intercalate eqs
  s!"q obsall n={ps.length} | " ++ " | ".intercalate per ++ " || " ++ pairs

/-- the object returned by `pop_front` / `pop_back` / `release`, as the caller sees it before doing anything with it -/
def retStr (s : St) (a : Path) (pos : Pos) : String :=
  match getF a s.forest with
  | none => "?"
  | some t =>
    match pos.popIdx t.kids.length with
    | some (some i) =>
      match t.kids[i]? with
      | some c => dumpT none (((moveCtor s.next c).1).setParent none)
      | none => "?"
    | _ => "none"

def handle (s : St) (toks : List String) : St × String :=
  let F := s.forest
  let full := F.length ≥ maxRoots
  let big := count F ≥ growCap
  if missingNode F toks then (s, "skip:nonode") else
  match toks with
  | ["reset"] => (St.init, "ok")
  | ["obsall"] => (s, obsAll s)
  | ["new", v] =>
    match v.toInt? with
    | some v => if full then (s, "skip:full") else if big then (s, "skip:big") else runOp s (.new v) "ok"
    | none => (s, "bad-op")
  | ["del", r] =>
    match r.toNat? with
    | some r => if F.isEmpty then (s, "skip:empty") else if F.length == 1 then (s, "skip:last") else
        let r := r % F.length
        runOp s (.del r) s!"ok r={r}"
    | none => (s, "bad-op")
  | ["set", a, v] =>
    match sel F a, v.toInt? with
    | some a, some v => runOp s (.setVal a v) s!"ok a={pathStr a}"
    | _, _ => (s, "bad-op")
  | [cmd, a, v] =>
    match sel F a with
    | none => (s, "bad-op")
    | some a =>
      let pa := pathStr a
      if cmd == "pushb" || cmd == "pushf" then
        match v.toInt? with
        | some v => if big then (s, "skip:big") else
            runOp s (.insV a (if cmd == "pushb" then .back else .front) v) s!"ok a={pa}"
        | none => (s, "bad-op")
      else if cmd == "pushbt" || cmd == "pushft" then
        match sel F v with
        | some b => runOp s (.insT a (if cmd == "pushbt" then .back else .front) b) s!"ok a={pa} b={pathStr b}"
        | none => (s, "bad-op")
      else if cmd == "popb" || cmd == "popf" then
        match v.toNat? with
        | some k =>
          let keep := k != 0 && !full
          let pos : Pos := if cmd == "popb" then .back else .front
          runOp s (.pop a pos keep) s!"ok a={pa} ret={retStr s a pos}"
        | none => (s, "bad-op")
      else if cmd == "erase" then
        match v.toNat? with
        | some i => if kidsLen F a == 0 then (s, "skip:empty") else
            let i := i % kidsLen F a
            runOp s (.erase a i) s!"ok a={pa} i={i}"
        | none => (s, "bad-op")
      else if cmd == "swap" || cmd == "cpa" || cmd == "mva" then
        match sel F v with
        | some b =>
          let head := s!"ok a={pa} b={pathStr b}"
          if cmd == "swap" then runOp s (.swap a b) head
          else if cmd == "mva" then runOp s (.moveAssign a b) head
          else
            match getF b F with
            | some tb => if count F + tb.size > copyCap then (s, "skip:big") else runOp s (.copyAssign a b) head
            | none => (s, "bad-op")
        | none => (s, "bad-op")
      else if cmd == "cpos" then
        match sel F v with
        | some b =>
          match getF a F, getF b F with
          | some ta, some tb =>
            (s, s!"q a={pa} b={pathStr b} cpos=" ++ (match childPosition ta tb with | some i => toString i | none => "none"))
          | _, _ => (s, "bad-op")
        | none => (s, "bad-op")
      else if cmd == "cposk" then
        match v.toNat?, getF a F with
        | some i, some ta =>
          if ta.kids.length == 0 then (s, "skip:empty") else
          let i := i % ta.kids.length
          match ta.kids[i]? with
          | some tb => (s, s!"q a={pa} i={i} cpos=" ++ (match childPosition ta tb with | some i => toString i | none => "none"))
          | none => (s, "bad-op")
        | _, _ => (s, "bad-op")
      else if cmd == "eq" then
        match sel F v with
        | some b =>
          match getF a F, getF b F with
          | some ta, some tb =>
            let e := eqT ta tb
            (s, s!"q a={pa} b={pathStr b} eq={b01 e} ne={b01 (!e)}")
          | _, _ => (s, "bad-op")
        | none => (s, "bad-op")
      else if cmd == "sortp" then
        match v.toNat? with
        | some k => let k := k % 4; runOp s (.sortBy a k) s!"ok a={pa} k={k}"
        | none => (s, "bad-op")
      else if cmd == "mkl" then
        match v.toInt?, getF a F with
        | some v, some t =>
          if full then (s, "skip:full") else if count F + t.size > copyCap then (s, "skip:big")
          else runOp s (.mkFrom a v) s!"ok b={pa}"
        | _, _ => (s, "bad-op")
      else if cmd == "pushbv" || cmd == "pushfv" || cmd == "setv" || cmd == "pushbmv" || cmd == "pushfmv" || cmd == "setmv" then
        -- the value argument refers to the value of node b: by const reference (…v) or as an xvalue (…mv; the moved-from
        -- value keeps its number)
        match sel F v with
        | some b =>
          match getF b F with
          | some tb =>
            let head := s!"ok a={pa} b={pathStr b}"
            if cmd == "setv" || cmd == "setmv" then runOp s (.setVal a tb.val) head
            else if big then (s, "skip:big")
            else runOp s (.insV a (if cmd == "pushbv" || cmd == "pushbmv" then .back else .front) tb.val) head
          | none => (s, "bad-op")
        | none => (s, "bad-op")
      else (s, "bad-op")
  | [cmd, a, x, y] =>
    match sel F a with
    | none => (s, "bad-op")
    | some a =>
      let pa := pathStr a
      let len := kidsLen F a
      if cmd == "ins" then
        match x.toNat?, y.toInt? with
        | some i, some v => if big then (s, "skip:big") else
            let i := i % (len + 1)
            runOp s (.insV a (.at i) v) s!"ok a={pa} i={i}"
        | _, _ => (s, "bad-op")
      else if cmd == "inst" then
        match x.toNat?, sel F y with
        | some i, some b =>
            let i := i % (len + 1)
            runOp s (.insT a (.at i) b) s!"ok a={pa} i={i} b={pathStr b}"
        | _, _ => (s, "bad-op")
      else if cmd == "rel" then
        match x.toNat?, y.toNat? with
        | some i, some k => if len == 0 then (s, "skip:empty") else
            let i := i % len
            runOp s (.pop a (.at i) (k != 0 && !full)) s!"ok a={pa} i={i} ret={retStr s a (.at i)}"
        | _, _ => (s, "bad-op")
      else if cmd == "insv" then
        match x.toNat?, sel F y with
        | some i, some b =>
          match getF b F with
          | some tb => if big then (s, "skip:big") else
            let i := i % (len + 1)
            runOp s (.insV a (.at i) tb.val) s!"ok a={pa} i={i} b={pathStr b}"
          | none => (s, "bad-op")
        | _, _ => (s, "bad-op")
      else if cmd == "eraser" then
        match x.toNat?, y.toNat? with
        | some i, some j =>
            let i := i % (len + 1)
            let j := j % (len + 1)
            runOp s (.eraseRange a (min i j) (max i j)) s!"ok a={pa} i={min i j} j={max i j}"
        | _, _ => (s, "bad-op")
      else (s, "bad-op")
  | [cmd, a] =>
    match sel F a with
    | none => (s, "bad-op")
    | some a =>
      let pa := pathStr a
      match getF a F with
      | none => (s, "bad-op")
      | some t =>
        if cmd == "clear" then runOp s (.clear a) s!"ok a={pa}"
        else if cmd == "sort" then runOp s (.sort a) s!"ok a={pa}"
        else if cmd == "cpc" then
          if full then (s, "skip:full") else if count F + t.size > copyCap then (s, "skip:big")
          else runOp s (.copyCtor a) s!"ok b={pa}"
        else if cmd == "mvc" then
          if full then (s, "skip:full") else runOp s (.moveCtor a) s!"ok b={pa}"
        else if cmd == "pre" then (s, s!"q a={pa} pre=" ++ excStr intList (preOrder t))
        else if cmd == "toroot" then (s, s!"q a={pa} toroot=" ++ excStr intList (toRoot F t))
        else if cmd == "depth" then (s, s!"q a={pa} depth={depth t}")
        else if cmd == "level" then (s, s!"q a={pa} level=" ++ excStr toString (level F t))
        else if cmd == "map" then (s, s!"q a={pa} map=" ++ dumpT none (mapT mapFn s.next t))
        else if cmd == "front" then (s, s!"q a={pa} front={optVal (front t)}")
        else if cmd == "back" then (s, s!"q a={pa} back={optVal (back t)}")
        else if cmd == "kids" then (s, s!"q a={pa} " ++ kidsStr t)
        else if cmd == "out" then (s, s!"q a={pa} out={outStr t}")
        else (s, "bad-op")
  | _ => (s, "bad-op")

/-- the members that copy a value do not exist for a value type that can only be moved -/
def copyCmds : List String := ["cpc", "cpa", "mkl", "pushbv", "pushfv", "insv", "setv"]

/-- Two forests: the plain one (`object<int>`) and, for lines starting with `M`, the instantiation with a move-only value type.
The model is the same for both (a moved-from value keeps its number); only the copying operations are unavailable. -/
def handle2 (st : St × St) (toks : List String) : (St × St) × String :=
  match toks with
  | ["reset"] => ((St.init, St.init), "ok")
  | "M" :: rest =>
    match rest with
    | ["reset"] => (st, "bad-op")
    | ["obsall"] => (st, obsAll st.2)
    | cmd :: _ =>
      if copyCmds.contains cmd then (st, "skip:copy") else
        let (s2, r) := handle st.2 rest
        ((st.1, s2), r)
    | [] => (st, "bad-op")
  | _ =>
    let (s1, r) := handle st.1 toks
    ((s1, st.2), r)

def main : IO Unit := Proto.runState (St.init, St.init) handle2

end Fcppt.C09.Drv
