import FcpptModel.Prelude.Proto
import FcpptModel.Spec.C02
import FcpptModel.Model.C02.Typed
/-!
Driver for C02.  Protocol: notes/C02-protocol.md.

* `run  <ce> <sk> <grammar> =<input>`            → `ok <val>` | `fail` | `fatal` | `diverge`
  (stream entry points `s`, `r`: ` @<offset the stream is left at>` appended)
* `enum <ce> <sk> <grammar> =<alphabet> <maxlen>` → `D <digest> n=.. ok=.. fail=.. fatal=..`
* `typed  <ce> <sk> <grammar> =<input>` / `tenum …` → the same for the statically typed instantiation of the grammar:
  `ok <type> <typed value>` where the typed value is `flat` of the model's universal value

The answer is computed by the implementation-level model `M.parseString` (which the theorems of
`FcpptProofs/Props/C02.lean` relate to the documented semantics).
-/
namespace Fcppt.C02.Drv
open Fcppt.Proto

def decodeChar (wide : Bool) (c : Char) : Nat :=
  if c = '_' then 32 else if c = '/' then 10 else if c = '^' then 9 else if c = '!' then 46
  else if c = '@' then (if wide then 0x263A else 64) else c.toNat

def decode (wide : Bool) (s : String) : List Nat := s.toList.map (decodeChar wide)

def okParam (s : String) : Bool := s.toList.all fun c => c ≠ '.' ∧ c ≠ ':' ∧ c ≠ ';' ∧ c ≠ ',' ∧ c ≠ '='

def parseSk (wide : Bool) (t : String) : Option Sk :=
  match t.toList with
  | ['E'] => some .eps
  | ['S'] => some (.rep (.cset [32, 10, 9]))
  | 'R' :: cs => some (.rep (.cset (cs.map (decodeChar wide))))
  | ['L', c] => some (.lit (decodeChar wide c))
  | 'Q' :: c :: cs => some (.seq (.lit (decodeChar wide c)) (.rep (.cset (cs.map (decodeChar wide)))))
  | 'C' :: cs => some (.cset (cs.map (decodeChar wide)))
  | _ => none

/-- split `name:param` -/
def nameParam (t : String) : String × Option String :=
  match t.splitOn ":" with
  | [n] => (n, none)
  | [n, p] => (n, some p)
  | _ => ("?", none)

/-- the constant of a `cst:` node: `i<digits>` or `c<char>` -/
def parseConst (wide : Bool) (p : String) : Option Val :=
  match p.toList with
  | 'i' :: ds => match (String.ofList ds).toNat? with
    | some n => if ds.length ≤ 4 then some (.int n) else none
    | none => none
  | ['c', c] => some (.ch (decodeChar wide c))
  | 's' :: cs => some (cs.foldr (fun c acc => .cons (.ch (decodeChar wide c)) acc) .nil)
  | _ => none

/-- prefix-notation parser; `nrules` bounds `ref:<i>`.  `typed`: the grammar is instantiated with its natural result
types (no `ignore` is put around the operands of `not` / `sep` / `list` / `cst`, they must be unit-typed themselves where
the C++ demands it); otherwise every node has the result `Val` and the harness wraps those operands in `ignore`. -/
def parseP (typed wide : Bool) (nrules : Nat) : Nat → List String → Option (P × List String)
  | 0, _ => none
  | _, [] => none
  | fuel+1, t :: ts =>
    let un (k : P → P) : Option (P × List String) :=
      match parseP typed wide nrules fuel ts with
      | some (a, r) => some (k a, r)
      | none => none
    let bin (k : P → P → P) : Option (P × List String) :=
      match parseP typed wide nrules fuel ts with
      | some (a, r) =>
        -- `same`: the second operand is the very same parser object as the first (typed family only)
        match r with
        | "same" :: r' => if typed then some (k a a, r') else none
        | _ => match parseP typed wide nrules fuel r with
          | some (b, r') => some (k a b, r')
          | none => none
      | none => none
    match nameParam t with
    -- how the operand is handed to the enclosing combinator (a copy of a named parser object, by fcppt::reference, by
    -- base_unique_ptr): no effect on the semantics
    | ("copy", none) => if typed then un id else none
    | ("cref", none) => if typed then un id else none
    | ("box", none) => if typed then un id else none
    -- fcppt::parse::space() / blank() / digits<Ch>()
    | ("spc", none) => some (.cset [32, 10, 9], ts)
    | ("blk", none) => some (.cset [32, 9], ts)
    | ("dig", none) => some (.cset digits, ts)
    | ("eps", none) => some (.eps, ts)
    | ("fail", none) => some (.fail, ts)
    | ("any", none) => some (.any, ts)
    | ("lit", some p) => match decode wide p with
      | [c] => some (.lit c, ts)
      | _ => none
    | ("cset", some p) => some (.cset (decode wide p), ts)
    | ("compl", some p) => some (.compl (decode wide p), ts)
    | ("str", some p) => some (.str (decode wide p), ts)
    | ("uint", none) => some (.uint 65535, ts)
    | ("int", none) => some (.int 32767, ts)
    | ("float", none) => some (.float, ts)
    | ("seq", none) => bin .seq
    | ("alt", none) => bin .alt
    | ("sep", none) => bin (fun a b => .sep a (if typed then b else .ignore b))
    | ("rep", none) => un .rep
    | ("plus", none) => un .plus
    | ("opt", none) => un .opt
    | ("not", none) => un (fun a => .not (if typed then a else .ignore a))
    | ("fatal", none) => un .fatal
    | ("lex", none) => un .lexeme
    | ("ign", none) => un .ignore
    | ("named", none) => un .named
    | ("rec", none) => if typed then un id else un (.conv 9)    -- typed: fcppt::recursive<T> is printed as T
    | ("conv", some k) => match k.toNat? with
      | some k => if k < 3 ∧ !typed then un (.conv k) else none
      | none => none
    | ("cif", some k) => match k.toNat? with
      | some k => if k < 3 ∧ !typed then un (.convIf k) else none
      | none => none
    | ("ref", some i) => match i.toNat? with
      | some i => if i < nrules then some (.ref i, ts) else none
      | none => none
    | ("con", some k) => match k.toNat? with
      | some k => if 20 ≤ k ∧ k < 30 then un (.map (.construct k)) else none
      | none => none
    | ("ast", some k) => match k.toNat? with
      | some k =>
        if 30 ≤ k ∧ k < 40 then
          -- as_struct needs a tuple: in the `Val` world that is exactly a sequence node
          match parseP typed wide nrules fuel ts with
          | some (.seq a b, r) => some (.map (.asStruct k) (.seq a b), r)
          | some (a, r) => if typed then some (.map (.asStruct k) a, r) else none
          | none => none
        else none
      | none => none
    | ("cst", some c) => match parseConst wide c with
      | some c => un (fun a => .map (.const c) (if typed then a else .ignore a))
      | none => none
    | ("list", none) =>
      match parseP typed wide nrules fuel ts with
      | some (o, r1) => match parseP typed wide nrules fuel r1 with
        | some (a, r2) => match parseP typed wide nrules fuel r2 with
          | some (s, r3) => match parseP typed wide nrules fuel r3 with
            | some (c, r4) => some (if typed then .list o a s c else .list (.ignore o) a (.ignore s) (.ignore c), r4)
            | none => none
          | none => none
        | none => none
      | none => none
    | _ => none

def parseRule (typed wide : Bool) (nrules : Nat) (r : String) : Option P :=
  let toks := r.splitOn "."
  if toks.all (fun t => okParam ((nameParam t).2.getD "")) then
    match parseP typed wide nrules (toks.length + 1) toks with
    | some (p, []) => some p
    | _ => none
  else none

def parseGrammar (typed wide : Bool) (t : String) : Option (List P) :=
  let rs := t.splitOn ";"
  rs.mapM (parseRule typed wide rs.length)

def isList : Val → Bool
  | .nil => true
  | .cons _ t => isList t
  | _ => false

def listLen : Val → Nat
  | .cons _ t => listLen t + 1
  | _ => 0

def fn (k : Nat) (v : Val) : Val :=
  match k, v with
  | 0, v => .tag 0 v
  | 1, .pair a b => .pair b a
  | 1, v => .tag 1 v
  | 2, v => if isList v then .int (listLen v) else .tag 2 v
  | _, v => v                                   -- 9: identity (`rec`)

def fnIf (k : Nat) (v : Val) : Except Bool Val :=
  match k with
  | 0 => if v = .ch 97 then .ok (.tag 10 v) else .error false
  | 1 => if isList v ∧ listLen v % 2 = 0 then .ok (.tag 11 v) else .error false
  | _ => if v = .ch 98 then .error true else .ok v

def mkG (rules : List P) : G := { rules := fun i => rules.getD i .fail, fn := fn, fnIf := fnIf }

partial def showVal : Val → String
  | .unit => "u"
  | .ch c => s!"c{c}"
  | .int i => s!"i{i}"
  | .nil => "[]"
  | .cons h t => "[" ++ showVal h ++ showTail t
  | .pair a b => "(" ++ showVal a ++ "," ++ showVal b ++ ")"
  | .none => "N"
  | .some v => "S(" ++ showVal v ++ ")"
  | .inl v => "L(" ++ showVal v ++ ")"
  | .inr v => "R(" ++ showVal v ++ ")"
  | .tag k v => s!"T{k}(" ++ showVal v ++ ")"
  | .flt b => s!"f{b}"
where
  showTail : Val → String
    | .nil => "]"
    | .cons h t => "," ++ showVal h ++ showTail t
    | v => "|" ++ showVal v ++ "]"

def fuel : Nat := 3000

def showTop : Top → String
  | .ok v => "ok " ++ showVal v
  | .err false => "fail"
  | .err true => "fatal"

/-- `stream`: the entry points without `consume_remaining`; the offset the stream is left at is part of the answer -/
def runLine (stream : Bool) (g : G) (p : P) (sk : Sk) (inp : List Nat) : String :=
  if stream then
    match M.parseStream g fuel p sk inp with
    | none => "diverge"
    | some (t, q) => showTop t ++ s!" @{q}"
  else
    match M.parseString g fuel p sk inp with
    | none => "diverge"
    | some t => showTop t

/-! ### the typed instantiation -/

mutual
partial def showTy : Ty → String
  | .unit => "U" | .ch => "C" | .uint => "N" | .int => "I" | .flt => "F" | .str => "S"
  | .vec t => "V(" ++ showTy t ++ ")"
  | .opt t => "O(" ++ showTy t ++ ")"
  | .tup ts => "T(" ++ showTyL ts ++ ")"
  | .var ts => "A(" ++ showTyL ts ++ ")"
  | .named k => s!"K{k}"
partial def showTyL : TyL → String
  | .nil => ""
  | .cons t .nil => showTy t
  | .cons t ts => showTy t ++ "," ++ showTyL ts
end

mutual
partial def showTVal : TVal → String
  | .unit => "u"
  | .ch c => s!"c{c}"
  | .uint n => s!"n{n}"
  | .int i => s!"i{i}"
  | .flt b => s!"f{b}"
  | .str cs => "s[" ++ ",".intercalate (cs.map toString) ++ "]"
  | .vec vs => "v[" ++ showTValL vs ++ "]"
  | .none => "N"
  | .some v => "S(" ++ showTVal v ++ ")"
  | .tup vs => "t(" ++ showTValL vs ++ ")"
  | .inj i v => s!"a{i}(" ++ showTVal v ++ ")"
  | .struct k v => s!"k{k}(" ++ showTVal v ++ ")"
partial def showTValL : TValL → String
  | .nil => ""
  | .cons v .nil => showTVal v
  | .cons v vs => showTVal v ++ "," ++ showTValL vs
end

/-- the payload types of the structs of a grammar: `con:k.a` / `ast:k.a` declare struct `k` over the result type of `a`
(inner structs first) -/
def collectDefs (ruleTy : Nat → Ty) : P → (Nat → Ty) → (Nat → Ty)
  | .seq a b, d | .alt a b, d | .sep a b, d => collectDefs ruleTy b (collectDefs ruleTy a d)
  | .rep a, d | .opt a, d | .not a, d | .fatal a, d | .lexeme a, d | .conv _ a, d | .convIf _ a, d
  | .ignore a, d | .named a, d | .plus a, d | .map (.const _) a, d => collectDefs ruleTy a d
  | .list o a s c, d => collectDefs ruleTy c (collectDefs ruleTy s (collectDefs ruleTy a (collectDefs ruleTy o d)))
  | .map (.construct k) a, d | .map (.asStruct k) a, d =>
    let d' := collectDefs ruleTy a d
    match typeOf { ruleTy := ruleTy, defs := d' } a with
    | some t => fun j => if j = k then t else d' j
    | none => d'
  | _, d => d

/-- The environment of a typed grammar: a rule `con:k. …` has the declared type struct `k` (that is how a recursive result
type is written in C++), the type of every other rule is computed from its body (two rounds, so that such a rule may refer
to `con` rules and to rules computed in the first round).  This is glue, not trusted: `typedLine` checks `WT` by evaluation. -/
def mkEnv (rules : List P) : TEnv :=
  let named : Nat → Ty := fun i => match rules[i]? with
    | some (.map (.construct k) _) => .named k
    | _ => .unit
  let defsOf (ruleTy : Nat → Ty) : Nat → Ty := rules.foldl (fun d r => collectDefs ruleTy r d) (fun _ => .unit)
  let round (ruleTy : Nat → Ty) : Nat → Ty := fun i => match rules[i]? with
    | some (.map (.construct k) _) => .named k
    | some r => (typeOf { ruleTy := ruleTy, defs := defsOf ruleTy } r).getD .unit
    | none => .unit
  let ruleTy := round (round named)
  { ruleTy := ruleTy, defs := defsOf ruleTy }

def typedLine (rules : List P) (g : G) (p : P) (sk : Sk) (inp : List Nat) : String :=
  let E := mkEnv rules
  -- `WT`: every rule has its declared type
  if !(List.range rules.length).all (fun i => typeOf E (rules.getD i .fail) == some (E.ruleTy i)) then "ill-typed" else
  match typeOf E p with
  | none => "ill-typed"
  | some τ =>
    match M.parseString g fuel p sk inp with
    | none => "diverge"
    | some (.ok v) =>
      (match flat E g fuel p v with
       | some tv => "ok " ++ showTy τ ++ " " ++ showTVal tv
       | none => "stuck")
    | some (.err false) => "fail"
    | some (.err true) => "fatal"

def strings (alpha : List Nat) : Nat → List (List Nat)
  | 0 => [[]]
  | n+1 => alpha.flatMap fun c => (strings alpha n).map (c :: ·)

structure Acc where
  h : UInt64 := fnvInit
  n : Nat := 0
  ok : Nat := 0
  fail : Nat := 0
  fatal : Nat := 0
  other : Nat := 0

def enumLine (one : List Nat → String) (alpha : List Nat) (maxlen : Nat) : String :=
  let acc := (List.range (maxlen + 1)).foldl (fun (acc : Acc) len =>
    (strings alpha len).foldl (fun (acc : Acc) inp =>
      let l := one inp
      let acc := { acc with h := fnv acc.h (l ++ "\n"), n := acc.n + 1 }
      if l.startsWith "ok" then { acc with ok := acc.ok + 1 }
      else if l.startsWith "fail" then { acc with fail := acc.fail + 1 }
      else if l.startsWith "fatal" then { acc with fatal := acc.fatal + 1 }
      else { acc with other := acc.other + 1 }) acc) ({} : Acc)
  s!"D {hex64 acc.h} n={acc.n} ok={acc.ok} fail={acc.fail} fatal={acc.fatal}" ++
    (if acc.other = 0 then "" else s!" other={acc.other}")

/-- common front part of the ops: char type + entry point, skipper, grammar; the Bool of the result: stream entry point -/
def setup (typed : Bool) (ce sk gr : String) : Option (Bool × Bool × Sk × G × P × List P) :=
  match ce.toList with
  | [c, e] =>
    if (c = 'c' ∨ c = 'w') ∧ (e = 'p' ∨ e = 'h' ∨ e = 'g' ∨ e = 's' ∨ e = 'r' ∨ e = 'q' ∨ e = 't') ∧ (typed → (e = 'p' ∨ e = 'h' ∨ e = 'g')) then
      let wide := c = 'w'
      match parseSk wide sk, parseGrammar typed wide gr with
      | some sk, some (p :: rs) =>
        if (e = 'p' ∨ e = 'q' ∨ e = 't') ∧ sk ≠ .eps then none
        else some (wide, e = 's' ∨ e = 'r' ∨ e = 'q' ∨ e = 't', sk, mkG (p :: rs), p, p :: rs)
      | _, _ => none
    else none
  | _ => none

def handle (toks : List String) : String :=
  match toks with
  | [op, ce, sk, gr, inp] =>
    if op = "run" ∨ op = "typed" then
      match setup (op = "typed") ce sk gr, inp.toList with
      | some (wide, stream, sk, g, p, rules), '=' :: cs =>
        if okParam (String.ofList cs) then
          (if op = "typed" then typedLine rules g p sk (cs.map (decodeChar wide))
           else runLine stream g p sk (cs.map (decodeChar wide)))
        else "bad-op"
      | _, _ => "bad-op"
    else "bad-op"
  | [op, ce, sk, gr, alpha, maxlen] =>
    if op = "enum" ∨ op = "tenum" then
      match setup (op = "tenum") ce sk gr, alpha.toList, maxlen.toNat? with
      | some (wide, stream, sk, g, p, rules), '=' :: cs, some n =>
        if okParam (String.ofList cs) ∧ n ≤ 10 ∧ 0 < cs.length ∧ cs.length ≤ 6 then
          enumLine (if op = "tenum" then typedLine rules g p sk else runLine stream g p sk) (cs.map (decodeChar wide)) n
        else "bad-op"
      | _, _, _ => "bad-op"
    else "bad-op"
  | _ => "bad-op"

def main : IO Unit := Proto.run handle

end Fcppt.C02.Drv
