import FcpptModel.Prelude.Proto
/-! Driver for C02 — placeholder until the property's model is built. -/
namespace Fcppt.C02.Drv
def main : IO Unit := Fcppt.Proto.run (fun _ => "not-built")
end Fcppt.C02.Drv
