import FcpptModel.Prelude.Proto
import FcpptModel.Spec.C02
/-!
Driver for C02.  Protocol: notes/C02-protocol.md.

* `run  <ce> <sk> <grammar> =<input>`            → `ok <val>` | `fail` | `fatal` | `diverge`
* `enum <ce> <sk> <grammar> =<alphabet> <maxlen>` → `D <digest> n=.. ok=.. fail=.. fatal=..`

The answer is computed by the implementation-level model `M.parseString` (which the theorems of
`FcpptProofs/Props/C02.lean` relate to the documented semantics).
-/
namespace Fcppt.C02.Drv
open Fcppt.Proto

def decodeChar (wide : Bool) (c : Char) : Nat :=
  if c = '_' then 32 else if c = '/' then 10 else if c = '^' then 9
  else if c = '@' then (if wide then 0x263A else 64) else c.toNat

def decode (wide : Bool) (s : String) : List Nat := s.toList.map (decodeChar wide)

def okParam (s : String) : Bool := s.toList.all fun c => c ≠ '.' ∧ c ≠ ':' ∧ c ≠ ';' ∧ c ≠ ',' ∧ c ≠ '='

def parseSk (wide : Bool) (t : String) : Option Sk :=
  match t.toList with
  | ['E'] => some .eps
  | ['S'] => some (.rep (.cset [32, 10, 9]))
  | 'R' :: cs => some (.rep (.cset (cs.map (decodeChar wide))))
  | ['L', c] => some (.lit (decodeChar wide c))
  | 'Q' :: c :: cs => some (.seq (.lit (decodeChar wide c)) (.rep (.cset (cs.map (decodeChar wide)))))
  | 'C' :: cs => some (.cset (cs.map (decodeChar wide)))
  | _ => none

/-- split `name:param` -/
def nameParam (t : String) : String × Option String :=
  match t.splitOn ":" with
  | [n] => (n, none)
  | [n, p] => (n, some p)
  | _ => ("?", none)

/-- prefix-notation parser; `nrules` bounds `ref:<i>` -/
def parseP (wide : Bool) (nrules : Nat) : Nat → List String → Option (P × List String)
  | 0, _ => none
  | _, [] => none
  | fuel+1, t :: ts =>
    let un (k : P → P) : Option (P × List String) :=
      match parseP wide nrules fuel ts with
      | some (a, r) => some (k a, r)
      | none => none
    let bin (k : P → P → P) : Option (P × List String) :=
      match parseP wide nrules fuel ts with
      | some (a, r) => match parseP wide nrules fuel r with
        | some (b, r') => some (k a b, r')
        | none => none
      | none => none
    match nameParam t with
    | ("eps", none) => some (.eps, ts)
    | ("fail", none) => some (.fail, ts)
    | ("any", none) => some (.any, ts)
    | ("lit", some p) => match decode wide p with
      | [c] => some (.lit c, ts)
      | _ => none
    | ("cset", some p) => some (.cset (decode wide p), ts)
    | ("compl", some p) => some (.compl (decode wide p), ts)
    | ("str", some p) => some (.str (decode wide p), ts)
    | ("uint", none) => some (.uint 65535, ts)
    | ("int", none) => some (.int 32767, ts)
    | ("seq", none) => bin .seq
    | ("alt", none) => bin .alt
    | ("sep", none) => bin (fun a b => .sep a (.ignore b))
    | ("rep", none) => un .rep
    | ("plus", none) => un .plus
    | ("opt", none) => un .opt
    | ("not", none) => un (fun a => .not (.ignore a))
    | ("fatal", none) => un .fatal
    | ("lex", none) => un .lexeme
    | ("ign", none) => un .ignore
    | ("named", none) => un .named
    | ("rec", none) => un (.conv 9)
    | ("conv", some k) => match k.toNat? with
      | some k => if k < 3 then un (.conv k) else none
      | none => none
    | ("cif", some k) => match k.toNat? with
      | some k => if k < 3 then un (.convIf k) else none
      | none => none
    | ("ref", some i) => match i.toNat? with
      | some i => if i < nrules then some (.ref i, ts) else none
      | none => none
    | ("list", none) =>
      match parseP wide nrules fuel ts with
      | some (o, r1) => match parseP wide nrules fuel r1 with
        | some (a, r2) => match parseP wide nrules fuel r2 with
          | some (s, r3) => match parseP wide nrules fuel r3 with
            | some (c, r4) => some (.list (.ignore o) a (.ignore s) (.ignore c), r4)
            | none => none
          | none => none
        | none => none
      | none => none
    | _ => none

def parseRule (wide : Bool) (nrules : Nat) (r : String) : Option P :=
  let toks := r.splitOn "."
  if toks.all (fun t => okParam ((nameParam t).2.getD "")) then
    match parseP wide nrules (toks.length + 1) toks with
    | some (p, []) => some p
    | _ => none
  else none

def parseGrammar (wide : Bool) (t : String) : Option (List P) :=
  let rs := t.splitOn ";"
  rs.mapM (parseRule wide rs.length)

def isList : Val → Bool
  | .nil => true
  | .cons _ t => isList t
  | _ => false

def listLen : Val → Nat
  | .cons _ t => listLen t + 1
  | _ => 0

def fn (k : Nat) (v : Val) : Val :=
  match k, v with
  | 0, v => .tag 0 v
  | 1, .pair a b => .pair b a
  | 1, v => .tag 1 v
  | 2, v => if isList v then .int (listLen v) else .tag 2 v
  | _, v => v                                   -- 9: identity (`rec`)

def fnIf (k : Nat) (v : Val) : Except Bool Val :=
  match k with
  | 0 => if v = .ch 97 then .ok (.tag 10 v) else .error false
  | 1 => if isList v ∧ listLen v % 2 = 0 then .ok (.tag 11 v) else .error false
  | _ => if v = .ch 98 then .error true else .ok v

def mkG (rules : List P) : G := { rules := fun i => rules.getD i .fail, fn := fn, fnIf := fnIf }

partial def showVal : Val → String
  | .unit => "u"
  | .ch c => s!"c{c}"
  | .int i => s!"i{i}"
  | .nil => "[]"
  | .cons h t => "[" ++ showVal h ++ showTail t
  | .pair a b => "(" ++ showVal a ++ "," ++ showVal b ++ ")"
  | .none => "N"
  | .some v => "S(" ++ showVal v ++ ")"
  | .inl v => "L(" ++ showVal v ++ ")"
  | .inr v => "R(" ++ showVal v ++ ")"
  | .tag k v => s!"T{k}(" ++ showVal v ++ ")"
where
  showTail : Val → String
    | .nil => "]"
    | .cons h t => "," ++ showVal h ++ showTail t
    | v => "|" ++ showVal v ++ "]"

def fuel : Nat := 3000

def runLine (g : G) (p : P) (sk : Sk) (inp : List Nat) : String :=
  match M.parseString g fuel p sk inp with
  | none => "diverge"
  | some (.ok v) => "ok " ++ showVal v
  | some (.err false) => "fail"
  | some (.err true) => "fatal"

def strings (alpha : List Nat) : Nat → List (List Nat)
  | 0 => [[]]
  | n+1 => alpha.flatMap fun c => (strings alpha n).map (c :: ·)

structure Acc where
  h : UInt64 := fnvInit
  n : Nat := 0
  ok : Nat := 0
  fail : Nat := 0
  fatal : Nat := 0
  other : Nat := 0

def enumLine (g : G) (p : P) (sk : Sk) (alpha : List Nat) (maxlen : Nat) : String :=
  let acc := (List.range (maxlen + 1)).foldl (fun (acc : Acc) len =>
    (strings alpha len).foldl (fun (acc : Acc) inp =>
      let l := runLine g p sk inp
      let acc := { acc with h := fnv acc.h (l ++ "\n"), n := acc.n + 1 }
      if l.startsWith "ok" then { acc with ok := acc.ok + 1 }
      else if l = "fail" then { acc with fail := acc.fail + 1 }
      else if l = "fatal" then { acc with fatal := acc.fatal + 1 }
      else { acc with other := acc.other + 1 }) acc) ({} : Acc)
  s!"D {hex64 acc.h} n={acc.n} ok={acc.ok} fail={acc.fail} fatal={acc.fatal}" ++
    (if acc.other = 0 then "" else s!" other={acc.other}")

/-- common front part of both ops: char type + entry point, skipper, grammar -/
def setup (ce sk gr : String) : Option (Bool × Sk × G × P) :=
  match ce.toList with
  | [c, e] =>
    if (c = 'c' ∨ c = 'w') ∧ (e = 'p' ∨ e = 'h' ∨ e = 'g') then
      let wide := c = 'w'
      match parseSk wide sk, parseGrammar wide gr with
      | some sk, some (p :: rs) =>
        if e = 'p' ∧ sk ≠ .eps then none else some (wide, sk, mkG (p :: rs), p)
      | _, _ => none
    else none
  | _ => none

def handle (toks : List String) : String :=
  match toks with
  | ["run", ce, sk, gr, inp] =>
    match setup ce sk gr, inp.toList with
    | some (wide, sk, g, p), '=' :: cs =>
      if okParam (String.ofList cs) then runLine g p sk (cs.map (decodeChar wide)) else "bad-op"
    | _, _ => "bad-op"
  | ["enum", ce, sk, gr, alpha, maxlen] =>
    match setup ce sk gr, alpha.toList, maxlen.toNat? with
    | some (wide, sk, g, p), '=' :: cs, some n =>
      if okParam (String.ofList cs) ∧ n ≤ 10 ∧ 0 < cs.length ∧ cs.length ≤ 6 then
        enumLine g p sk (cs.map (decodeChar wide)) n else "bad-op"
    | _, _, _ => "bad-op"
  | _ => "bad-op"

def main : IO Unit := Proto.run handle

end Fcppt.C02.Drv
