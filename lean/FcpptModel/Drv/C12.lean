import FcpptModel.Prelude.Proto
import FcpptModel.Spec.C12
/-!
Driver for C12.  `K` is the character kind (`c` = char, codes 0..255; `w` = wchar_t, codes
0..1114111), `TEXT` a comma separated list of character codes (`-` = empty), `FA` the read budget
of the failure-injecting stream buffer (`-` = a plain `std::basic_istringstream`).

History lines (state = the current stream and the saved positions):

* `reset`                       — forget the stream                       → `ok`
* `open K TEXT FA`              — new stream                              → `ok`
* `get` / `pos` / `set J`       — get_char / get_position (saved) / set_position(saved[J])
* `setraw OFF L C` / `setraw OFF -` — set_position of a fabricated position (outside the property's
                                  guard; exercises the seekg failure path and the absent location)
* `char` / `lit C` / `cset CS` / `slit C` / `scset CS` — `fcppt::parse::parse` of basic_char /
                                  basic_literal / basic_char_set, `skipper::run` of the skippers

Each answers one observation `<op>=<value>/<eof><fail><bad>@<line>:<col>` — the istream state bits and
the stream's stored location after the operation.

Stateless lines:

* `hist K TEXT FA OPS`          — OPS = comma separated `g`,`p`,`sJ`: all observations of that history
* `walk K SC TEXT`              — the fixed script `SC` (`A` linear walk, `B` all pairs of rewinds)
* `exh K SC L PREFIX`           — digest of `walk` over all texts of length `L` over {a,\n,space,tab}
                                  starting with PREFIX
* `seqs K TEXT FA M`            — digest of `hist` over all op sequences of length ≤ M
* `perr K TEXT FA OPS P ARG`    — history OPS, then parser P (`char|lit|cset|slit|scset`) with ARG,
                                  then get_position
-/
namespace Fcppt.C12.Drv
open Fcppt.Proto

/-! ### rendering -/

def flagsStr (s : IStream) : String := "/" ++ b01 s.eof ++ b01 s.fail ++ b01 s.bad

/-- flags and the stored location (`stream::location_`, read by the harness without going through
    `get_position`) -/
def stateStr (s : Stream) : String := flagsStr s.is ++ s!"@{s.loc.line}:{s.loc.col}"

def posStr (p : Pos) : String :=
  match p.loc with
  | some l => s!"{p.off}@{l.line}:{l.col}"
  | none => s!"{p.off}@-"

def opTag : Op → String
  | .get => "g" | .pos => "p" | .set _ => "s"

def obsStr (op : Op) (o : Obs) (s : Stream) : String :=
  let v := match o with
    | .ch (some c) => toString c
    | .ch none => "none"
    | .pos p => posStr p
    | .ok => "ok"
    | .exc => "exc"
    | .noSlot => "noslot"
  opTag op ++ "=" ++ v ++ stateStr s

def mix (h : UInt64) (v : Nat) : UInt64 := (h ^^^ v.toUInt64) * 1099511628211

def flagsNum (s : IStream) : Nat :=
  16 + (if s.eof then 1 else 0) + (if s.fail then 2 else 0) + (if s.bad then 4 else 0)

def mixObs (h : UInt64) (o : Obs) (s : Stream) : UInt64 :=
  let h := match o with
    | .ch (some c) => mix (mix h 1) c
    | .ch none => mix h 2
    | .exc => mix h 3
    | .pos p =>
      match p.loc with
      | some l => mix (mix (mix (mix h 4) p.off.toNat) l.line) l.col
      | none => mix (mix (mix (mix h 4) p.off.toNat) 0) 0
    | .ok => mix h 5
    | .noSlot => mix h 6
  mix (mix (mix h (flagsNum s.is)) s.loc.line) s.loc.col

/-- run a history, digesting every observation -/
def runDigest (h0 : UInt64) (st : HState) (ops : List Op) : UInt64 :=
  (ops.foldl (fun (acc : UInt64 × HState) op =>
    let (st', o) := step acc.2 op
    (mixObs acc.1 o st'.s, st')) (h0, st)).1

/-- run a history, rendering every observation -/
def runText (st : HState) (ops : List Op) : HState × List String :=
  let r := ops.foldl (fun (acc : HState × List String) op =>
    let (st', o) := step acc.1 op
    (st', obsStr op o st'.s :: acc.2)) (st, [])
  (r.1, r.2.reverse)

/-! ### the fixed scripts -/

def rep {α : Type} (n : Nat) (f : Nat → List α) : List α := (List.range n).flatMap f

/-- script A: read through saving every position; probe the end of input; rewind to every saved
    position from far behind; a few forward jumps. -/
def scriptA (n : Nat) : List Op :=
  [.pos] ++ rep n (fun _ => [.get, .pos]) ++ [.get, .get, .pos, .get]
  ++ rep (n + 1) (fun k => [.set (n - k), .get, .pos, .get])
  ++ [.set 0, .set n, .get, .set (n / 2), .pos, .get, .set (n + 1), .pos]

/-- script B: every ordered pair (a, b) of saved positions: go to a, read, go to b, observe;
    and to every b from the end-of-input state. -/
def scriptB (n : Nat) : List Op :=
  [.pos] ++ rep n (fun _ => [.get, .pos])
  ++ rep (n + 1) (fun a => rep (n + 1) (fun b => [.set a, .get, .set b, .pos, .get]))
  ++ rep (n + 1) (fun b => [.set n, .get, .set b, .get, .pos])

def script (sc : String) (n : Nat) : Option (List Op) :=
  if sc = "A" then some (scriptA n) else if sc = "B" then some (scriptB n) else none

def alphabet : List Ch := [97, 10, 32, 9]

/-- all texts of length `m` over the alphabet, first letter varying slowest -/
def allTexts : Nat → List (List Ch)
  | 0 => [[]]
  | m + 1 => alphabet.flatMap fun c => (allTexts m).map (c :: ·)

/-- all op sequences of length ≤ m (preorder: a sequence, then its extensions by g, p, s0, s1 …),
    `k` = number of `p` so far; sequences are built reversed -/
def allSeqs : Nat → Nat → List Op → List (List Op)
  | 0, _, acc => [acc.reverse]
  | m + 1, k, acc =>
    acc.reverse :: (allSeqs m k (.get :: acc) ++ allSeqs m (k + 1) (.pos :: acc)
      ++ (List.range k).flatMap fun j => allSeqs m k (.set j :: acc))

/-! ### parsing of operation lines -/

def kindMax (k : String) : Option Nat :=
  if k = "c" then some 255 else if k = "w" then some 1114111 else none

def parseText (k : String) (s : String) : Option (List Ch) := do
  let mx ← kindMax k
  let l ← parseNatList s
  if l.all (· ≤ mx) then some l else none

def parseFA (s : String) : Option (Option Nat) :=
  if s = "-" then some none else s.toNat?.map some

def parseOp (s : String) : Option Op :=
  if s = "g" then some .get
  else if s = "p" then some .pos
  else if s.startsWith "s" then (s.drop 1).toNat?.map .set
  else none

def parseOps (s : String) : Option (List Op) :=
  if s = "-" then some [] else (s.splitOn ",").mapM parseOp

/-! ### character-level parsers -/

def presStr (withValue : Bool) : Stream.PRes → String
  | .ok c => if withValue then s!"ok:{c}" else "ok"
  | .fail (.expected (some l)) => s!"fail:{l.line}:{l.col}"
  | .fail _ => "fail:noloc"

/-- `P ARG` → (stream after, result text) -/
def runParser (k : String) (p : String) (arg : String) (s : Stream) : Option (Stream × String) :=
  let viaParse (pred : Ch → Bool) (wv : Bool) : Stream × String :=
    let (s', r) := s.parse pred
    (s', presStr wv r)
  let viaSkip (pred : Ch → Bool) : Stream × String :=
    match s.charPred pred with
    | (s', .ok r) => (s', presStr false r)
    | (s', .error _) => (s', "exc")
  if p = "char" then (if arg = "-" then some (viaParse (fun _ => true) true) else none)
  else if p = "lit" || p = "slit" then
    match parseText k arg with
    | some [c] => some (if p = "lit" then viaParse (· == c) false else viaSkip (· == c))
    | _ => none
  else if p = "cset" || p = "scset" then
    match parseText k arg with
    | some cs => some (if p = "cset" then viaParse (cs.contains ·) true else viaSkip (cs.contains ·))
    | none => none
  else none

/-! ### the handler -/

abbrev DState := Option (String × HState)     -- kind, history state

def obs1 (st : HState) (op : Op) : HState × String :=
  let (st', o) := step st op
  (st', obsStr op o st'.s)

def handle (d : DState) (toks : List String) : DState × String :=
  match toks with
  | ["reset"] => (none, "ok")
  | ["open", k, text, fa] =>
    match parseText k text, parseFA fa with
    | some t, some f => (some (k, HState.open t f), "ok")
    | _, _ => (d, "bad-op")
  | ["get"] =>
    match d with
    | some (k, st) => let (st', r) := obs1 st .get; (some (k, st'), r)
    | none => (d, "no-stream")
  | ["pos"] =>
    match d with
    | some (k, st) => let (st', r) := obs1 st .pos; (some (k, st'), r)
    | none => (d, "no-stream")
  | ["set", j] =>
    match d, j.toNat? with
    | some (k, st), some j => let (st', r) := obs1 st (.set j); (some (k, st'), r)
    | none, some _ => (d, "no-stream")
    | _, none => (d, "bad-op")
  | "setraw" :: off :: rest =>
    let loc : Option (Option Loc) :=
      match rest with
      | ["-"] => some none
      | [l, c] => match l.toNat?, c.toNat? with
        | some l, some c => some (some ⟨l, c⟩)
        | _, _ => none
      | _ => none
    match d, off.toInt?, loc with
    | some (k, st), some off, some loc =>
      let (s', r) := st.s.setPosition { off := off, loc := loc }
      let v := match r with | .ok () => "ok" | .error _ => "exc"
      (some (k, { st with s := s' }), "s=" ++ v ++ stateStr s')
    | none, some _, some _ => (d, "no-stream")
    | _, _, _ => (d, "bad-op")
  | [p, arg] =>
    match d with
    | some (k, st) =>
      match runParser k p arg st.s with
      | some (s', r) => (some (k, { st with s := s' }), "r=" ++ r ++ stateStr s')
      | none => (d, "bad-op")
    | none => if ["char", "lit", "cset", "slit", "scset"].contains p then (d, "no-stream") else (d, "bad-op")
  | ["hist", k, text, fa, ops] =>
    match parseText k text, parseFA fa, parseOps ops with
    | some t, some f, some ops => (d, " ".intercalate (runText (HState.open t f) ops).2)
    | _, _, _ => (d, "bad-op")
  | ["walk", k, sc, text] =>
    match parseText k text with
    | some t =>
      match script sc t.length with
      | some ops => (d, " ".intercalate (runText (HState.open t none) ops).2)
      | none => (d, "bad-op")
    | none => (d, "bad-op")
  | ["exh", k, sc, l, prefix_] =>
    match kindMax k, l.toNat?, parseText k prefix_ with
    | some _, some l, some pre =>
      if pre.length ≤ l ∧ l ≤ 16 ∧ pre.all (alphabet.contains ·) then
        match script sc l with
        | some ops =>
          let h := (allTexts (l - pre.length)).foldl
            (fun h suf => runDigest h (HState.open (pre ++ suf) none) ops) fnvInit
          (d, "D " ++ hex64 h)
        | none => (d, "bad-op")
      else (d, "bad-op")
    | _, _, _ => (d, "bad-op")
  | ["seqs", k, text, fa, m] =>
    match parseText k text, parseFA fa, m.toNat? with
    | some t, some f, some m =>
      if m ≤ 8 then
        let h := (allSeqs m 0 []).foldl (fun h ops => runDigest h (HState.open t f) ops) fnvInit
        (d, "D " ++ hex64 h)
      else (d, "bad-op")
    | _, _, _ => (d, "bad-op")
  | ["perr", k, text, fa, ops, p, arg] =>
    match parseText k text, parseFA fa, parseOps ops with
    | some t, some f, some ops =>
      let st := (runText (HState.open t f) ops).1
      match runParser k p arg st.s with
      | some (s', r) =>
        let (st', o) := obs1 { st with s := s' } .pos
        let _ := st'
        (d, "r=" ++ r ++ stateStr s' ++ " " ++ o)
      | none => (d, "bad-op")
    | _, _, _ => (d, "bad-op")
  | _ => (d, "bad-op")

def main : IO Unit := Proto.runState (none : DState) handle

end Fcppt.C12.Drv
