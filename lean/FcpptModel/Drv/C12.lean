import FcpptModel.Prelude.Proto
import FcpptModel.Spec.C12
import FcpptModel.Model.C12.Grammar
/-!
Driver for C12.  `K` is the character kind (`c` = char, codes 0..255; `w` = wchar_t, codes
0..1114111), `TEXT` a comma separated list of character codes (`-` = empty), `FA` the read budget
of the failure-injecting stream buffer (`-` = a plain `std::basic_istringstream`).

History lines (state = the current stream and the saved positions):

* `reset`                       — forget the stream                       → `ok`
* `open K TEXT FA`              — new stream                              → `ok`
* `get` / `pos` / `set J`       — get_char / get_position (saved) / set_position(saved[J])
* `setraw OFF L C` / `setraw OFF -` — set_position of a fabricated position (outside the property's
                                  guard; exercises the seekg failure path and the absent location)
* `gpar SK GR`                 — `phrase_parse(GR, stream, SK)` on the current stream, every basic_stream call recorded
* `char` / `lit C` / `cset CS` / `slit C` / `scset CS` — `fcppt::parse::parse` of basic_char /
                                  basic_literal / basic_char_set, `skipper::run` of the skippers

Each answers one observation `<op>=<value>/<eof><fail><bad>@<line>:<col>` — the istream state bits and
the stream's stored location after the operation.

Stateless lines:

* `hist K TEXT FA OPS`          — OPS = comma separated `g`,`p`,`sJ`: all observations of that history
* `walk K SC TEXT`              — the fixed script `SC` (`A` linear walk, `B` all pairs of rewinds)
* `exh K SC L PREFIX`           — digest of `walk` over all texts of length `L` over {a,\n,space,tab}
                                  starting with PREFIX
* `seqs K TEXT FA M`            — digest of `hist` over all op sequences of length ≤ M
* `perr K TEXT FA OPS P ARG`    — history OPS, then parser P (`char|lit|cset|slit|scset`) with ARG,
                                  then get_position

Clients of get_position / set_position (`Model/C12/Grammar.lean`).  `GR` / `SK` are grammars /
skippers in prefix notation, tokens separated by `.`: `any | lit:C | cset:CS | str:S | seq | alt | opt |
rep | plus | not | fatal | k1 | k2` and `eps | space | lit:C | cset:CS | seq | rep` (repetition bodies must consume).

* `gp K TEXT FA OPS SK GR`      — history OPS, then `phrase_parse(GR, stream, SK)` over a stream that
                                  records every basic_stream call: result skeleton, every call with its
                                  answer, state bits and stored location, then `| pos get`
* `gx K L FA SK GR`             — digest of `gp` over all texts of length L, started after k = 0 … L+1 reads
* `ge K E TEXT FA N SK GR`      — entry point E (`p` phrase_parse_stream, `e` parse_stream, `g`
                                  grammar_parse_stream) on an istream from which N characters were read
                                  directly before: result, state bits, get index
* `poseq K A B` / `posout K A`  — `operator==` / `operator<<` of positions `OFF@L:C` | `OFF@-` and their locations
-/
namespace Fcppt.C12.Drv
open Fcppt.Proto

/-! ### rendering -/

def flagsStr (s : IStream) : String := "/" ++ b01 s.eof ++ b01 s.fail ++ b01 s.bad

/-- flags and the stored location (`stream::location_`, read by the harness without going through
    `get_position`) -/
def stateStr (s : Stream) : String := flagsStr s.is ++ s!"@{s.loc.line}:{s.loc.col}"

def posStr (p : Pos) : String :=
  match p.loc with
  | some l => s!"{p.off}@{l.line}:{l.col}"
  | none => s!"{p.off}@-"

def opTag : Op → String
  | .get => "g" | .pos => "p" | .set _ => "s"

def obsStr (op : Op) (o : Obs) (s : Stream) : String :=
  let v := match o with
    | .ch (some c) => toString c
    | .ch none => "none"
    | .pos p => posStr p
    | .ok => "ok"
    | .exc => "exc"
    | .noSlot => "noslot"
  opTag op ++ "=" ++ v ++ stateStr s

def mix (h : UInt64) (v : Nat) : UInt64 := (h ^^^ v.toUInt64) * 1099511628211

def flagsNum (s : IStream) : Nat :=
  16 + (if s.eof then 1 else 0) + (if s.fail then 2 else 0) + (if s.bad then 4 else 0)

def mixObs (h : UInt64) (o : Obs) (s : Stream) : UInt64 :=
  let h := match o with
    | .ch (some c) => mix (mix h 1) c
    | .ch none => mix h 2
    | .exc => mix h 3
    | .pos p =>
      match p.loc with
      | some l => mix (mix (mix (mix h 4) p.off.toNat) l.line) l.col
      | none => mix (mix (mix (mix h 4) p.off.toNat) 0) 0
    | .ok => mix h 5
    | .noSlot => mix h 6
  mix (mix (mix h (flagsNum s.is)) s.loc.line) s.loc.col

/-- run a history, digesting every observation -/
def runDigest (h0 : UInt64) (st : HState) (ops : List Op) : UInt64 :=
  (ops.foldl (fun (acc : UInt64 × HState) op =>
    let (st', o) := step acc.2 op
    (mixObs acc.1 o st'.s, st')) (h0, st)).1

/-- run a history, rendering every observation -/
def runText (st : HState) (ops : List Op) : HState × List String :=
  let r := ops.foldl (fun (acc : HState × List String) op =>
    let (st', o) := step acc.1 op
    (st', obsStr op o st'.s :: acc.2)) (st, [])
  (r.1, r.2.reverse)

/-! ### the fixed scripts -/

def rep {α : Type} (n : Nat) (f : Nat → List α) : List α := (List.range n).flatMap f

/-- script A: read through saving every position; probe the end of input; rewind to every saved
    position from far behind; a few forward jumps. -/
def scriptA (n : Nat) : List Op :=
  [.pos] ++ rep n (fun _ => [.get, .pos]) ++ [.get, .get, .pos, .get]
  ++ rep (n + 1) (fun k => [.set (n - k), .get, .pos, .get])
  ++ [.set 0, .set n, .get, .set (n / 2), .pos, .get, .set (n + 1), .pos]

/-- script B: every ordered pair (a, b) of saved positions: go to a, read, go to b, observe;
    and to every b from the end-of-input state. -/
def scriptB (n : Nat) : List Op :=
  [.pos] ++ rep n (fun _ => [.get, .pos])
  ++ rep (n + 1) (fun a => rep (n + 1) (fun b => [.set a, .get, .set b, .pos, .get]))
  ++ rep (n + 1) (fun b => [.set n, .get, .set b, .get, .pos])

def script (sc : String) (n : Nat) : Option (List Op) :=
  if sc = "A" then some (scriptA n) else if sc = "B" then some (scriptB n) else none

def alphabet : List Ch := [97, 10, 32, 9]

/-- all texts of length `m` over the alphabet, first letter varying slowest -/
def allTexts : Nat → List (List Ch)
  | 0 => [[]]
  | m + 1 => alphabet.flatMap fun c => (allTexts m).map (c :: ·)

/-- all op sequences of length ≤ m (preorder: a sequence, then its extensions by g, p, s0, s1 …),
    `k` = number of `p` so far; sequences are built reversed -/
def allSeqs : Nat → Nat → List Op → List (List Op)
  | 0, _, acc => [acc.reverse]
  | m + 1, k, acc =>
    acc.reverse :: (allSeqs m k (.get :: acc) ++ allSeqs m (k + 1) (.pos :: acc)
      ++ (List.range k).flatMap fun j => allSeqs m k (.set j :: acc))

/-! ### parsing of operation lines -/

def kindMax (k : String) : Option Nat :=
  if k = "c" then some 255 else if k = "w" then some 1114111 else none

def parseText (k : String) (s : String) : Option (List Ch) := do
  let mx ← kindMax k
  let l ← parseNatList s
  if l.all (· ≤ mx) then some l else none

def parseFA (s : String) : Option (Option Nat) :=
  if s = "-" then some none else s.toNat?.map some

def parseOp (s : String) : Option Op :=
  if s = "g" then some .get
  else if s = "p" then some .pos
  else if s.startsWith "s" then (s.drop 1).toNat?.map .set
  else none

def parseOps (s : String) : Option (List Op) :=
  if s = "-" then some [] else (s.splitOn ",").mapM parseOp

/-! ### character-level parsers -/

def presStr (withValue : Bool) : Stream.PRes → String
  | .ok c => if withValue then s!"ok:{c}" else "ok"
  | .fail (.expected (some l)) => s!"fail:{l.line}:{l.col}"
  | .fail _ => "fail:noloc"

/-- `P ARG` → (stream after, result text) -/
def runParser (k : String) (p : String) (arg : String) (s : Stream) : Option (Stream × String) :=
  let viaParse (pred : Ch → Bool) (wv : Bool) : Stream × String :=
    let (s', r) := s.parse pred
    (s', presStr wv r)
  let viaSkip (pred : Ch → Bool) : Stream × String :=
    match s.charPred pred with
    | (s', .ok r) => (s', presStr false r)
    | (s', .error _) => (s', "exc")
  if p = "char" then (if arg = "-" then some (viaParse (fun _ => true) true) else none)
  else if p = "lit" || p = "slit" then
    match parseText k arg with
    | some [c] => some (if p = "lit" then viaParse (· == c) false else viaSkip (· == c))
    | _ => none
  else if p = "cset" || p = "scset" then
    match parseText k arg with
    | some cs => some (if p = "cset" then viaParse (cs.contains ·) true else viaSkip (cs.contains ·))
    | none => none
  else none

/-! ### grammars -/

def splitColon (tok : String) : String × Option String :=
  match tok.splitOn ":" with
  | [n] => (n, none)
  | [n, a] => (n, some a)
  | _ => ("", none)

def parseSk (k : String) : Nat → List String → Option (Sk × List String)
  | 0, _ => none
  | _, [] => none
  | f + 1, tok :: rest =>
    match splitColon tok with
    | ("eps", none) => some (.eps, rest)
    | ("space", none) => some (Sk.space, rest)
    | ("lit", some a) =>
      match parseText k a with
      | some [c] => some (.lit c, rest)
      | _ => none
    | ("cset", some a) => (parseText k a).map fun cs => (.cset cs, rest)
    | ("seq", none) => do
      let (l, rest) ← parseSk k f rest
      let (r, rest) ← parseSk k f rest
      pure (.seq l r, rest)
    | ("rep", none) => do
      let (b, rest) ← parseSk k f rest
      pure (.rep b, rest)
    | _ => none

def parseP (k : String) : Nat → List String → Option (P × List String)
  | 0, _ => none
  | _, [] => none
  | f + 1, tok :: rest =>
    let one (c : P → P) : Option (P × List String) := do
      let (b, rest) ← parseP k f rest
      pure (c b, rest)
    let two (c : P → P → P) : Option (P × List String) := do
      let (l, rest) ← parseP k f rest
      let (r, rest) ← parseP k f rest
      pure (c l r, rest)
    match splitColon tok with
    | ("any", none) => some (.any, rest)
    -- the two fixed grammars the harness builds with children held by value / by unique_ptr
    | ("k1", none) => some (.seq (.rep (.alt (.lit 97) (.lit 10))) (.not .any), rest)
    | ("k2", none) => some (.seq (.opt (.lit 97)) (.plus (.cset [97, 10])), rest)
    | ("lit", some a) =>
      match parseText k a with
      | some [c] => some (.lit c, rest)
      | _ => none
    | ("cset", some a) => (parseText k a).map fun cs => (.cset cs, rest)
    | ("str", some a) => (parseText k a).map fun cs => (.str cs, rest)
    | ("seq", none) => two .seq
    | ("alt", none) => two .alt
    | ("opt", none) => one .opt
    | ("rep", none) => one .rep
    | ("plus", none) => one .plus
    | ("not", none) => one .not
    | ("fatal", none) => one .fatal
    | _ => none

def parseGrammar (k sk gr : String) : Option (Sk × P) := do
  let st := sk.splitOn "."
  let gt := gr.splitOn "."
  if st.length > 200 ∨ gt.length > 200 then none
  let (s, r1) ← parseSk k (st.length + 1) st
  let (p, r2) ← parseP k (gt.length + 1) gt
  if r1.isEmpty ∧ r2.isEmpty ∧ s.wf ∧ p.wf then some (s, p) else none

def atomStr : Atom → String
  | .eof => "E"
  | .exp (some l) => s!"L{l.line}:{l.col}"
  | .exp none => "X"
  | .not => "N"
  | .lb => "{"
  | .or => "|"
  | .rb => "}"
  | .exc => "P"

def resStr : R → String
  | .ok () => "ok"
  | .error e =>
    (if e.fatal then "fatal:" else "fail:") ++
      (if e.atoms.isEmpty then "-" else ",".intercalate (e.atoms.map atomStr))

def atomCode : Atom → Nat
  | .eof => 69 | .exp (some _) => 76 | .exp none => 88 | .not => 78 | .lb => 123 | .or => 124 | .rb => 125
  | .exc => 80

def mixRes (h : UInt64) : R → UInt64
  | .ok () => mix (mix h 65) 99
  | .error e =>
    let h := mix h (if e.fatal then 67 else 66)
    let h := e.atoms.foldl (fun h a =>
      let h := mix h (atomCode a)
      match a with
      | .exp (some l) => mix (mix h l.line) l.col
      | _ => h) h
    mix h 99

def evTag : EvOp → Op
  | .get => .get | .pos => .pos | .set _ => .set 0

def evStr (e : Ev) : String :=
  match e.op with
  | .set p => "s[" ++ posStr p ++ "]" ++ ((obsStr (.set 0) e.obs e.s).drop 1).toString
  | o => obsStr (evTag o) e.obs e.s

def mixEv (h : UInt64) (e : Ev) : UInt64 :=
  let h := match e.op with
    | .get => mix h 32
    | .pos => mix h 33
    | .set p =>
      match p.loc with
      | some l => mix (mix (mix (mix h 34) p.off.toNat) l.line) l.col
      | none => mix (mix (mix (mix h 34) p.off.toNat) 0) 0
  mixObs h e.obs e.s

structure GRun where
  res : R
  log : List Ev          -- oldest first
  post : List (Op × Obs × Stream)

/-- history `pre`, then `phrase_parse` over the traced stream, then `pos`, `get` -/
def runTraced (sk : Sk) (p : P) (t : List Ch) (fa : Option Nat) (pre : List Op) : GRun :=
  let st := (run (HState.open t fa) pre).1
  let (x, r) := TS.phrase p sk { s := st.s, log := [] }
  let h1 := step { s := x.s, saved := [] } .pos
  let h2 := step h1.1 .get
  { res := r, log := x.log.reverse, post := [(.pos, h1.2, h1.1.s), (.get, h2.2, h2.1.s)] }

def GRun.str (g : GRun) : String :=
  " ".intercalate (["r=" ++ resStr g.res] ++ g.log.map evStr ++ ["|"] ++ g.post.map fun (o, b, s) => obsStr o b s)

def GRun.mix (h : UInt64) (g : GRun) : UInt64 :=
  let h := mixRes h g.res
  let h := g.log.foldl mixEv h
  g.post.foldl (fun h (_, b, s) => mixObs h b s) h

/-- `N` direct `istream::get()` calls -/
def rawGets : Nat → IStream → IStream
  | 0, is => is
  | n + 1, is => rawGets n is.get.1

def parsePosVal (s : String) : Option Pos :=
  match s.splitOn "@" with
  | [o, l] =>
    match o.toNat? with
    | none => none
    | some off =>
      if l = "-" then some ⟨off, none⟩
      else match l.splitOn ":" with
        | [a, b] =>
          match a.toNat?, b.toNat? with
          | some a, some b => some ⟨off, some ⟨a, b⟩⟩
          | _, _ => none
        | _ => none
  | _ => none

/-! ### the handler -/

abbrev DState := Option (String × HState)     -- kind, history state

def obs1 (st : HState) (op : Op) : HState × String :=
  let (st', o) := step st op
  (st', obsStr op o st'.s)

def handle (d : DState) (toks : List String) : DState × String :=
  match toks with
  | ["reset"] => (none, "ok")
  | ["open", k, text, fa] =>
    match parseText k text, parseFA fa with
    | some t, some f => (some (k, HState.open t f), "ok")
    | _, _ => (d, "bad-op")
  | ["get"] =>
    match d with
    | some (k, st) => let (st', r) := obs1 st .get; (some (k, st'), r)
    | none => (d, "no-stream")
  | ["pos"] =>
    match d with
    | some (k, st) => let (st', r) := obs1 st .pos; (some (k, st'), r)
    | none => (d, "no-stream")
  | ["set", j] =>
    match d, j.toNat? with
    | some (k, st), some j => let (st', r) := obs1 st (.set j); (some (k, st'), r)
    | none, some _ => (d, "no-stream")
    | _, none => (d, "bad-op")
  | "setraw" :: off :: rest =>
    let loc : Option (Option Loc) :=
      match rest with
      | ["-"] => some none
      | [l, c] => match l.toNat?, c.toNat? with
        | some l, some c => some (some ⟨l, c⟩)
        | _, _ => none
      | _ => none
    match d, off.toInt?, loc with
    | some (k, st), some off, some loc =>
      let (s', r) := st.s.setPosition { off := off, loc := loc }
      let v := match r with | .ok () => "ok" | .error _ => "exc"
      (some (k, { st with s := s' }), "s=" ++ v ++ stateStr s')
    | none, some _, some _ => (d, "no-stream")
    | _, _, _ => (d, "bad-op")
  | ["gpar", sk, gr] =>
    match d with
    | some (k, st) =>
      match parseGrammar k sk gr with
      | some (s, p) =>
        let (st', r, log) := st.phrase p s
        (some (k, st'), " ".intercalate (["r=" ++ resStr r] ++ log.map evStr) ++ " |" ++ stateStr st'.s)
      | none => (d, "bad-op")
    | none => (d, "no-stream")
  | [p, arg] =>
    match d with
    | some (k, st) =>
      match runParser k p arg st.s with
      | some (s', r) => (some (k, { st with s := s' }), "r=" ++ r ++ stateStr s')
      | none => (d, "bad-op")
    | none => if ["char", "lit", "cset", "slit", "scset"].contains p then (d, "no-stream") else (d, "bad-op")
  | ["hist", k, text, fa, ops] =>
    match parseText k text, parseFA fa, parseOps ops with
    | some t, some f, some ops => (d, " ".intercalate (runText (HState.open t f) ops).2)
    | _, _, _ => (d, "bad-op")
  | ["walk", k, sc, text] =>
    match parseText k text with
    | some t =>
      match script sc t.length with
      | some ops => (d, " ".intercalate (runText (HState.open t none) ops).2)
      | none => (d, "bad-op")
    | none => (d, "bad-op")
  | ["exh", k, sc, l, prefix_] =>
    match kindMax k, l.toNat?, parseText k prefix_ with
    | some _, some l, some pre =>
      if pre.length ≤ l ∧ l ≤ 16 ∧ pre.all (alphabet.contains ·) then
        match script sc l with
        | some ops =>
          let h := (allTexts (l - pre.length)).foldl
            (fun h suf => runDigest h (HState.open (pre ++ suf) none) ops) fnvInit
          (d, "D " ++ hex64 h)
        | none => (d, "bad-op")
      else (d, "bad-op")
    | _, _, _ => (d, "bad-op")
  | ["seqs", k, text, fa, m] =>
    match parseText k text, parseFA fa, m.toNat? with
    | some t, some f, some m =>
      if m ≤ 8 then
        let h := (allSeqs m 0 []).foldl (fun h ops => runDigest h (HState.open t f) ops) fnvInit
        (d, "D " ++ hex64 h)
      else (d, "bad-op")
    | _, _, _ => (d, "bad-op")
  | ["perr", k, text, fa, ops, p, arg] =>
    match parseText k text, parseFA fa, parseOps ops with
    | some t, some f, some ops =>
      let st := (runText (HState.open t f) ops).1
      match runParser k p arg st.s with
      | some (s', r) =>
        let (st', o) := obs1 { st with s := s' } .pos
        let _ := st'
        (d, "r=" ++ r ++ stateStr s' ++ " " ++ o)
      | none => (d, "bad-op")
    | _, _, _ => (d, "bad-op")
  | ["gp", k, text, fa, ops, sk, gr] =>
    match parseGrammar k sk gr, parseText k text, parseFA fa, parseOps ops with
    | some (s, p), some t, some f, some ops => (d, (runTraced s p t f ops).str)
    | _, _, _, _ => (d, "bad-op")
  | ["gx", k, l, fa, sk, gr] =>
    match parseGrammar k sk gr, l.toNat?, parseFA fa with
    | some (s, p), some l, some f =>
      if l ≤ 8 then
        let h := (allTexts l).foldl (fun h t =>
          (List.range (l + 2)).foldl (fun h n => (runTraced s p t f (List.replicate n .get)).mix h) h) fnvInit
        (d, "D " ++ hex64 h)
      else (d, "bad-op")
    | _, _, _ => (d, "bad-op")
  | ["ge", k, e, text, fa, n, sk, gr] =>
    match parseGrammar k sk gr, parseText k text, parseFA fa, n.toNat? with
    | some (s, p), some t, some f, some n =>
      if (e = "p" ∨ e = "g" ∨ (e = "e" ∧ sk = "eps")) ∧ n ≤ 1000 then
        let (x, r) := IStream.phraseStream p s (rawGets n (IStream.open t f))
        (d, "r=" ++ resStr r ++ flagsStr x.s.is ++ s!" at={x.s.is.idx}")
      else (d, "bad-op")
    | _, _, _, _ => (d, "bad-op")
  | ["poseq", k, a, b] =>
    match kindMax k, parsePosVal a, parsePosVal b with
    | some _, some a, some b =>
      let leq := match a.loc, b.loc with
        | some x, some y => b01 (x.eq y)
        | _, _ => "-"
      (d, "eq=" ++ b01 (a.eq b) ++ b01 (b.eq a) ++ " leq=" ++ leq ++ " self=" ++ b01 (a.eq a))
    | _, _, _ => (d, "bad-op")
  | ["posout", k, a] =>
    match kindMax k, parsePosVal a with
    | some _, some a =>
      (d, "out=" ++ a.out ++
        (match a.loc with
         | some l =>
           let m : Loc := ⟨l.line + 1, 7⟩
           " loc=" ++ l.out ++ " mut=" ++ m.out ++ " orig=" ++ l.out ++ (if m.eq l then " same" else " differ")
         | none => ""))
    | _, _ => (d, "bad-op")
  | _ => (d, "bad-op")

def main : IO Unit := Proto.runState (none : DState) handle

end Fcppt.C12.Drv
