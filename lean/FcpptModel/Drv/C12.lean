import FcpptModel.Prelude.Proto
/-! Driver for C12 — placeholder until the property's model is built. -/
namespace Fcppt.C12.Drv
def main : IO Unit := Fcppt.Proto.run (fun _ => "not-built")
end Fcppt.C12.Drv
