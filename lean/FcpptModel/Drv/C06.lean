import FcpptModel.Prelude.Proto
import FcpptModel.Gen.Scalar
import FcpptModel.Spec.C06
/-!
Driver for C06 (and the scalar part of C01): runs the definitions that `tools/cxx2lean.py`
generated from /repo's headers.

* `call f [a [b [c [d]]]]`      — one result (no argument: the compile-time masks `mask_c`, `shifted_mask_c`)
* `list4 f as`                  — digest over all quadruples of a value list (`interval_distance`)
* `alias f a`                   — the binary / ternary function called with THE SAME object for every parameter
* `aliasl f as` / `aliasr f lo hi` — digest of `alias` over a list / a range
* `static2 f a b`               — `ceil_div_static<T, a, b>::value` (harness: compile-time table) against the run-time `ceil_div`
* `enumsize u m`                — `enum_::size<E>::value` of the harness enum over `u` whose `fcppt_maximum` is `m`
* `range1 f lo hi`              — digest over a ∈ [lo,hi]
* `range2 f alo ahi blo bhi`    — digest over the rectangle (a outer loop)
* `range3 f lo hi`              — digest over all triples in [lo,hi]³
* `list1 f as` / `list2 f as bs`— digest over explicit value lists / their cross product
* `selfcheck f n`               — the harness enumerates a full square against its own 128-bit
                                   oracle and prints `ok n`; the model only echoes the count
* `selfcheck f alo ahi`         — the same for the rows `alo..ahi` of the 16-bit square (count = rows · 65536)
Results: integers as decimal, optionals as `some v` / `none`, bools as 1/0, faults by name.
-/
namespace Fcppt.C06.Drv
open Fcppt.Proto Fcppt.Gen

def irange (lo hi : Int) : List Int :=
  (List.range (hi - lo + 1).toNat).map (fun (i : Nat) => lo + Int.ofNat i)

def digest (rs : List String) : String := "D " ++ hex64 (rs.foldl fnv fnvInit)

def fold1 (f : Int → String) (as : List Int) : UInt64 := as.foldl (fun h a => fnv h (f a)) fnvInit
def fold2 (f : Int → Int → String) (as bs : List Int) : UInt64 :=
  as.foldl (fun h a => bs.foldl (fun h b => fnv h (f a b)) h) fnvInit
def fold3 (f : Int → Int → Int → String) (as : List Int) : UInt64 :=
  as.foldl (fun h a => as.foldl (fun h b => as.foldl (fun h c => fnv h (f a b c)) h) h) fnvInit
def fold4 (f : Int → Int → Int → Int → String) (as : List Int) : UInt64 :=
  as.foldl (fun h a => as.foldl (fun h b => as.foldl (fun h c => as.foldl (fun h d => fnv h (f a b c d)) h) h) h) fnvInit

/-- a binary / ternary function applied to one value in every position -/
def aliased (f : String) : Option (Int → String) :=
  match table2.lookup f with
  | some g => some (fun a => g a a)
  | none => match table3.lookup f with
    | some g => some (fun a => g a a a)
    | none => none

/-- size types of the harness enums (the unsigned counterpart of the underlying type) -/
def enumSizeTy : String → Option IntTy
  | "u8" => some IntTy.u8 | "u16" => some IntTy.u16 | "u32" => some IntTy.u32 | "u64" => some IntTy.u64
  | "i8" => some IntTy.u8 | "i32" => some IntTy.u32
  | _ => none

/-- `interval_distance` on `int32_t` / `int64_t`: outside this guard (some difference of two of the four operands is not
representable) the C++ may overflow depending on its control flow; the harness answers "guard" by the same rule and
does not call the function. -/
def guard4 (f : String) (a b c d : Int) : Bool :=
  let t? := if f = "interval_distance_i32" then some IntTy.i32 else if f = "interval_distance_i64" then some IntTy.i64 else none
  match t? with
  | none => true
  | some t => [a, b, c, d].all (fun x => [a, b, c, d].all (fun y => decide (t.InRange (x - y))))

def guarded4 (f : String) (g : Int → Int → Int → Int → String) : Int → Int → Int → Int → String :=
  fun a b c d => if guard4 f a b c d then g a b c d else "guard"

/-- Integral types that are not one of the eight fixed-width typedefs but have the representation of one of them
(LP64 Linux): `long long`, `unsigned long long`, plain `char` (signed), `wchar_t` (int), `char8_t`, `char16_t`,
`char32_t`.  `truncation_check_ll_i32` is looked up as `truncation_check_i64_i32`: the instantiation has the same
clang AST up to the spelling of the type. -/
def canonTy : String → String
  | "ll" => "i64" | "ull" => "u64" | "ch" => "i8" | "wc" => "i32" | "c8" => "u8" | "c16" => "u16" | "c32" => "u32"
  | t => t

def canonName (f : String) : String :=
  match f.splitOn "_" with
  | ["truncation", "check", d, s] => "truncation_check_" ++ canonTy d ++ "_" ++ canonTy s
  | _ => f

/-- `bool` as SOURCE has no translated instantiation (the driver's tables take integers): every `bool` is representable in
every integer type, the specification itself is the model there.  (`bool` as destination is translated: `truncation_check_b_*`.) -/
def boolTy : IntTy := ⟨false, 1⟩

def lookup1 (f : String) : Option (Int → String) :=
  match f.splitOn "_" with
  | ["truncation", "check", d, "b"] =>
    if ["u8", "u16", "u32", "u64", "i8", "i16", "i32", "i64"].contains d then
      some (fun x => if boolTy.InRange x then showOpt (.ok (some x)) else "bad-op")
    else none
  | _ => table1.lookup (canonName f)

def handle (toks : List String) : String :=
  match toks with
  | ["call", f] =>
    match table0.lookup f with
    | some r => r
    | none => "bad-op"
  | ["call", f, a, b, c, d] =>
    match table4.lookup f, a.toInt?, b.toInt?, c.toInt?, d.toInt? with
    | some g, some a, some b, some c, some d => guarded4 f g a b c d
    | _, _, _, _, _ => "bad-op"
  | ["list4", f, as] =>
    match table4.lookup f, parseIntList as with
    | some g, some as => "D " ++ hex64 (fold4 (guarded4 f g) as)
    | _, _ => "bad-op"
  | ["alias", f, a] =>
    match aliased f, a.toInt? with
    | some g, some a => g a
    | _, _ => "bad-op"
  | ["aliasl", f, as] =>
    match aliased f, parseIntList as with
    | some g, some as => "D " ++ hex64 (fold1 g as)
    | _, _ => "bad-op"
  | ["aliasr", f, lo, hi] =>
    match aliased f, lo.toInt?, hi.toInt? with
    | some g, some lo, some hi => "D " ++ hex64 (fold1 g (irange lo hi))
    | _, _, _ => "bad-op"
  | ["static2", f, a, b] =>
    -- ceil_div_static<T, a, b>: the run-time function of the same type on the same operands (b ≠ 0 is a static_assert)
    match (if f = "ceil_div_static_u32" then table2.lookup "ceil_div_u32" else if f = "ceil_div_static_u64" then table2.lookup "ceil_div_u64" else none),
          a.toInt?, b.toInt? with
    | some g, some a, some b => if b = 0 then "bad-op" else g a b
    | _, _, _ => "bad-op"
  | ["enumsize", u, m] =>
    -- enum_::size<E> = integral_constant<size_type<E>, enum_to_int<size_type<E>>(max_value<E>) + 1U>
    match enumSizeTy u, m.toInt? with
    | some t, some m => if 0 ≤ m ∧ t.InRange (m + 1) then toString (m + 1) else "bad-op"
    | _, _ => "bad-op"
  | ["call", f, a] =>
    match lookup1 f, a.toInt? with
    | some g, some a => g a
    | _, _ => "bad-op"
  | ["call", f, a, b] =>
    match table2.lookup f, a.toInt?, b.toInt? with
    | some g, some a, some b => g a b
    | _, _, _ => "bad-op"
  | ["call", f, a, b, c] =>
    match table3.lookup f, a.toInt?, b.toInt?, c.toInt? with
    | some g, some a, some b, some c => g a b c
    | _, _, _, _ => "bad-op"
  | ["range1", f, lo, hi] =>
    match lookup1 f, lo.toInt?, hi.toInt? with
    | some g, some lo, some hi => "D " ++ hex64 (fold1 g (irange lo hi))
    | _, _, _ => "bad-op"
  | ["range2", f, alo, ahi, blo, bhi] =>
    match table2.lookup f, alo.toInt?, ahi.toInt?, blo.toInt?, bhi.toInt? with
    | some g, some alo, some ahi, some blo, some bhi => "D " ++ hex64 (fold2 g (irange alo ahi) (irange blo bhi))
    | _, _, _, _, _ => "bad-op"
  | ["range3", f, lo, hi] =>
    match table3.lookup f, lo.toInt?, hi.toInt? with
    | some g, some lo, some hi => "D " ++ hex64 (fold3 g (irange lo hi))
    | _, _, _ => "bad-op"
  | ["list1", f, as] =>
    match lookup1 f, parseIntList as with
    | some g, some as => "D " ++ hex64 (fold1 g as)
    | _, _ => "bad-op"
  | ["list2", f, as, bs] =>
    match table2.lookup f, parseIntList as, parseIntList bs with
    | some g, some as, some bs => "D " ++ hex64 (fold2 g as bs)
    | _, _, _ => "bad-op"
  | ["list3", f, as] =>
    match table3.lookup f, parseIntList as with
    | some g, some as => "D " ++ hex64 (fold3 g as)
    | _, _ => "bad-op"
  | ["selfcheck", _, n] => "ok " ++ n
  | ["selfcheck", _, alo, ahi] =>
    match alo.toInt?, ahi.toInt? with
    | some alo, some ahi => if alo ≤ ahi then "ok " ++ toString ((ahi - alo + 1) * 65536) else "bad-op"
    | _, _ => "bad-op"
  | _ => "bad-op"

def main : IO Unit := Proto.run handle

end Fcppt.C06.Drv
