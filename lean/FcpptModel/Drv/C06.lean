import FcpptModel.Prelude.Proto
/-! Driver for C06 — placeholder until the property's model is built. -/
namespace Fcppt.C06.Drv
def main : IO Unit := Fcppt.Proto.run (fun _ => "not-built")
end Fcppt.C06.Drv
