import FcpptModel.Prelude.Proto
import FcpptModel.Spec.C18
/-!
Driver for C18.  Operations (one per line; `harness/c18.cpp` implements the same protocol on the real code):

* `ir  ty b e`        — `make_int_range(b, e)` over `ty ∈ {i8,u8,i16,u16,i32,u32,i64,u64,si8,su8,si32,su32}` (`s…` = strong typedef):
                        elements (cap 300, else `overrun`), `size()`, `range::size` (plain signed types)
* `irub ty b e`       — only `size()`, really called even where it is undefined (model: the fault's name)
* `irc ty n`          — `make_int_range_count(n)`
* `irs ty b`          — digest of the `ir ty b e` lines for every `e` of an 8- or 16-bit `ty`
* `er n w s e` / `ers n w s` / `era n w` — `make_range_start_end` / `make_range_start` / `make_range` of an enum with
                        `n` enumerators and a `w`-bit size_type
* `cyc L f s start k` — cyclic iterator over the sub-range `[f, s)` of a vector of length `L`, at index `start`, advanced by `k`
* `cycw kind L f s start ops…` — walk: `+ - p m` (pre- and post-increment, pre- and post-decrement), `a<k>` (`+=`), `s<k>` (`-=`), `i<k>` (`operator[]`)
* `sp ty x y d`       — `make_spiral_range(pos(x,y), d)` (cap 5000)
* `nb ty x y`         — `neumann_neighbors`, `moore_neighbors`
* `itr kind L i j` / `adr kind L` — `iterator::make_range(begin+i, begin+j)` / `adapt_range(container)`; container element k is 3k+1
* `mirc n`            — `math::int_range_count<n>`
-/
namespace Fcppt.C18.Drv
open Fcppt.Proto Fcppt.C18

def cap : Nat := 300
def spiralCap : Nat := 5000

def tyOf : String → Option (IntTy × Bool)     -- (type, is strong typedef)
  | "i8" => some (⟨true, 8⟩, false) | "u8" => some (⟨false, 8⟩, false)
  | "i16" => some (⟨true, 16⟩, false) | "u16" => some (⟨false, 16⟩, false)
  | "i32" => some (⟨true, 32⟩, false) | "u32" => some (⟨false, 32⟩, false)
  | "i64" => some (⟨true, 64⟩, false) | "u64" => some (⟨false, 64⟩, false)
  | "si8" => some (⟨true, 8⟩, true) | "su8" => some (⟨false, 8⟩, true)
  | "si32" => some (⟨true, 32⟩, true) | "su32" => some (⟨false, 32⟩, true)
  | _ => none

def showInts (l : List Int) : String := if l.isEmpty then "-" else intList l

def showElems : M (List Int) → String
  | .ok l => s!"n={l.length} e={showInts l}"
  | .error .fuel => "overrun"
  | .error f => f.name

def rangeLine (t : IntTy) (strong : Bool) (r : IntRange) : String :=
  let el := r.elems t (cap + 1)
  let sz := match r.size t with
    | .ok v => toString v
    | .error _ => "ub"
  let rs := match el with
    | .ok l =>
      if t.signed && !strong then
        match rangeSize t l.length with
        | .ok v => toString v
        | .error _ => "ub"
      else "-"
    | .error _ => "-"
  s!"{showElems el} size={sz} rs={rs}"

def irLine (t : IntTy) (strong : Bool) (b e : Int) : String := rangeLine t strong (makeIntRange b e)

def irsDigest (t : IntTy) (strong : Bool) (b : Int) : String :=
  let n := (t.hi - t.lo + 1).toNat
  let h := (List.range n).foldl (fun h (i : Nat) => fnv h (irLine t strong b (t.lo + (i : Int)))) fnvInit
  "D " ++ hex64 h

def enumLine (w : Nat) (r : EnumRange) : String :=
  s!"{showElems (r.elems w (cap + 1))} size={r.size w}"

def val (k : Int) : Int := 3 * k + 1

def cycLine (f s start k : Int) : String :=
  let c : Cyc := ⟨start, f, s⟩
  match c.advance k with
  | .error e => e.name
  | .ok a =>
    let st := if k ≥ 0 then iter Cyc.increment k.toNat c else iter Cyc.decrement (-k).toNat c
    let alt := match c.advance (-(-k)) with
      | .ok a' => a' == a
      | .error _ => false
    s!"adv={a.it} val={val a.it} alt={b01 alt} steps={st.it} inb={b01 (decide (f ≤ a.it ∧ a.it < s ∧ f ≤ st.it ∧ st.it < s))} dist={c.distanceTo a}"

def cycWalk (randomAccess : Bool) : List String → Cyc → List String → Option (List String)
  | [], _, acc => some acc.reverse
  | t :: ts, c, acc =>
    let arg := (t.drop 1).toInt?
    match t.get 0, arg with
    | '+', none => let c' := c.increment; cycWalk randomAccess ts c' (toString c'.it :: acc)
    | '-', none => let c' := c.decrement; cycWalk randomAccess ts c' (toString c'.it :: acc)
    -- post-increment returns the old iterator: print its position, then the new one
    | 'p', none => let c' := c.increment; cycWalk randomAccess ts c' (s!"{c.it}>{c'.it}" :: acc)
    | 'm', none => let c' := c.decrement; cycWalk randomAccess ts c' (s!"{c.it}>{c'.it}" :: acc)
    | 'a', some k =>
      if !randomAccess then none else
      match c.advance k with
      | .ok c' => cycWalk randomAccess ts c' (toString c'.it :: acc)
      | .error _ => none
    | 's', some k =>
      if !randomAccess then none else
      match c.advance (-k) with            -- operator-=(d) = *this += -d
      | .ok c' => cycWalk randomAccess ts c' (toString c'.it :: acc)
      | .error _ => none
    | 'i', some k =>
      if !randomAccess then none else
      match c.advance k with               -- operator[](d) = *(*this + d)
      | .ok c' => cycWalk randomAccess ts c (s!"v{val c'.it}" :: acc)
      | .error _ => none
    | _, _ => none

def showPos (p : Pos) : String := s!"{p.x}:{p.y}"
def showPosList (l : List Pos) : String := if l.isEmpty then "-" else ",".intercalate (l.map showPos)

def spLine (x y d : Int) : String :=
  match spiralRange ⟨x, y⟩ d (spiralCap + 1) with
  | .ok l => s!"n={l.length} p={showPosList l}"
  | .error .fuel => "overrun"
  | .error f => f.name

def nbLine (t : IntTy) (x y : Int) : String :=
  match neumann t ⟨x, y⟩, moore t ⟨x, y⟩ with
  | .ok a, .ok b => s!"neu={showPosList a} moo={showPosList b}"
  | .error f, _ => f.name
  | _, .error f => f.name

def container (L : Nat) : List Int := (List.range L).map (fun (k : Nat) => val (k : Int))

def itrLine (L i j : Nat) : String :=
  let r := iterMakeRange i j
  s!"{showElems (r.elems (container L) (cap + 1))} size={r.size}"

def adrLine (L : Nat) : String :=
  let c := container L
  let r := adaptRange c
  s!"{showElems (r.elems c (cap + 1))} size={r.size}"

def int? (s : String) : Option Int := s.toInt?

def handle (toks : List String) : String :=
  match toks with
  | ["ir", ty, b, e] =>
    match tyOf ty, int? b, int? e with
    | some (t, st), some b, some e => if t.InRange b ∧ t.InRange e then irLine t st b e else "bad-op"
    | _, _, _ => "bad-op"
  | ["irub", ty, b, e] =>
    match tyOf ty, int? b, int? e with
    | some (t, _), some b, some e =>
      if t.InRange b ∧ t.InRange e then
        match (makeIntRange b e).size t with
        | .ok v => s!"size={v}"
        | .error f => f.name
      else "bad-op"
    | _, _, _ => "bad-op"
  | ["irc", ty, n] =>
    match tyOf ty, int? n with
    | some (t, st), some n => if t.InRange n then rangeLine t st (makeIntRangeCount n) else "bad-op"
    | _, _ => "bad-op"
  | ["irs", ty, b] =>
    match tyOf ty, int? b with
    | some (t, st), some b => if (t.bits = 8 ∨ t.bits = 16) ∧ t.InRange b then irsDigest t st b else "bad-op"
    | _, _ => "bad-op"
  | ["er", n, w, s, e] =>
    match n.toNat?, w.toNat?, s.toNat?, e.toNat? with
    | some n, some w, some s, some e =>
      if s < n ∧ e < n ∧ n ≤ 2 ^ w then enumLine w (makeRangeStartEnd w s e) else "bad-op"
    | _, _, _, _ => "bad-op"
  | ["ers", n, w, s] =>
    match n.toNat?, w.toNat?, s.toNat? with
    | some n, some w, some s => if s < n ∧ n ≤ 2 ^ w then enumLine w (makeRangeStart w n s) else "bad-op"
    | _, _, _ => "bad-op"
  | ["era", n, w] =>
    match n.toNat?, w.toNat? with
    | some n, some w => if 0 < n ∧ n ≤ 2 ^ w then enumLine w (makeRange w n) else "bad-op"
    | _, _ => "bad-op"
  | ["cyc", l, f, s, start, k] =>
    match l.toNat?, f.toNat?, s.toNat?, start.toNat?, int? k with
    | some l, some f, some s, some start, some k =>
      if f < s ∧ s ≤ l ∧ f ≤ start ∧ start < s then cycLine f s start k else "bad-op"
    | _, _, _, _, _ => "bad-op"
  | "cycw" :: kind :: l :: f :: s :: start :: ops =>
    match l.toNat?, f.toNat?, s.toNat?, start.toNat? with
    | some l, some f, some s, some start =>
      if (kind = "v" ∨ kind = "l") ∧ f < s ∧ s ≤ l ∧ f ≤ start ∧ start < s then
        match cycWalk (kind == "v") ops ⟨start, f, s⟩ [] with
        | some tr => if tr.isEmpty then "-" else ",".intercalate tr
        | none => "bad-op"
      else "bad-op"
    | _, _, _, _ => "bad-op"
  | ["sp", ty, x, y, d] =>
    match int? x, int? y, int? d with
    | some x, some y, some d => if ty = "i32" ∨ ty = "i64" then spLine x y d else "bad-op"
    | _, _, _ => "bad-op"
  | ["nb", ty, x, y] =>
    match tyOf ty, int? x, int? y with
    | some (t, false), some x, some y => if 32 ≤ t.bits ∧ t.InRange x ∧ t.InRange y then nbLine t x y else "bad-op"
    | _, _, _ => "bad-op"
  | ["itr", kind, l, i, j] =>
    match l.toNat?, i.toNat?, j.toNat? with
    | some l, some i, some j => if (kind = "v" ∨ kind = "l") ∧ i ≤ j ∧ j ≤ l then itrLine l i j else "bad-op"
    | _, _, _ => "bad-op"
  | ["adr", kind, l] =>
    match l.toNat? with
    | some l => if kind = "v" ∨ kind = "l" then adrLine l else "bad-op"
    | _ => "bad-op"
  | ["mirc", n] =>
    match n.toNat? with
    | some n => if n ≤ 16 then s!"e={if n = 0 then "-" else natList (mathIntRangeCount n)}" else "bad-op"
    | _ => "bad-op"
  | _ => "bad-op"

def main : IO Unit := Proto.run handle

end Fcppt.C18.Drv
