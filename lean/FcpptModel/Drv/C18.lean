import FcpptModel.Prelude.Proto
/-! Driver for C18 — placeholder until the property's model is built. -/
namespace Fcppt.C18.Drv
def main : IO Unit := Fcppt.Proto.run (fun _ => "not-built")
end Fcppt.C18.Drv
