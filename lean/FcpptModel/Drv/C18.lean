import FcpptModel.Prelude.Proto
import FcpptModel.Spec.C18
/-!
Driver for C18.  Operations (one per line; `harness/c18.cpp` implements the same protocol on the real code):

* `ir  ty b e`        — `make_int_range(b, e)` over `ty ∈ {i8,u8,i16,u16,i32,u32,i64,u64,si8,su8,si32,su32}` (`s…` = strong typedef):
                        elements (cap 300, else `overrun`), `size()`, `range::size` (plain signed types)
* `irub ty b e`       — only `size()`, really called even where it is undefined (model: the fault's name)
* `irc ty n`          — `make_int_range_count(n)`
* `irs ty b`          — digest of the `ir ty b e` lines for every `e` of an 8- or 16-bit `ty`
* `er n w s e` / `ers n w s` / `era n w` — `make_range_start_end` / `make_range_start` / `make_range` of an enum with
                        `n` enumerators and a `w`-bit size_type
* `cyc L f s start k` — cyclic iterator over the sub-range `[f, s)` of a vector of length `L`, at index `start`, advanced by `k`
* `cycw kind L f s start ops…` — walk: `+ - p m` (pre- and post-increment, pre- and post-decrement), `a<k>` (`+=`), `s<k>` (`-=`), `i<k>` (`operator[]`)
* `sp ty x y d`       — `make_spiral_range(pos(x,y), d)` (cap 5000)
* `nb ty x y`         — `neumann_neighbors`, `moore_neighbors`
* `itr kind L i j` / `adr kind L` — `iterator::make_range(begin+i, begin+j)` / `adapt_range(container)`; container element k is 3k+1
* `mirc n`            — `math::int_range_count<n>`;  `mir a b` — `math::int_range<a, b>`
* `iit ty a b` / `iits ty a` — `int_iterator<ty>(a)`, `(b)` used directly: `== !=` (also on the same object), `*`, `it++`, member / free / self `swap`;
                        `iits`: digest over every `b` of an 8- or 16-bit type
* `eit n w a b`       — the same for `enum_::iterator` (values `≤ n`)
* `erd n w b e`       — `enum_::range<E>(b, e)` constructed directly from two `size_type` values
* `itri ty b e` / `itris ty b` — `iterator::make_range(int_iterator(b), int_iterator(e))` (no clamp)
* `itrc kind L i j k l` — `operator== / !=` of two `iterator::range`s over one container, `begin()`, `end()`
* `cycp len f1 s1 i f2 s2 j` — two cyclic iterators at arbitrary positions (outside / at the end of the boundary, empty boundary, different
                        boundaries): `== != < > <= >=`, `a - b`, the same object on both sides, `get`, `get_boundary`, `->`, member / free / self swap, copy
* `cycx kind len f s i ops…` — a walk like `cycw` but from an arbitrary position and any boundary `f ≤ s`; needs a margin of `#ops` positions
* `cycl len f s start sgn k` — `it + k` (`sgn` = `+`) / `it - k` (`-`) for any 64-bit `k` in `ptrdiff_t` arithmetic
* `cycd kind len i f s` — the default constructor, then assignment
* `cycc kind len f s i f2 s2 j k` — converting constructor / assignment `cyclic_iterator<iterator>` → `cyclic_iterator<const_iterator>` (into a default-constructed
                        iterator, over an iterator at `j` with boundary `[f2, s2)`, and with `OtherIterator` = the same type), then `k` steps on the converted iterator
* `spi ty x y d n`    — `spiral_iterator(pos(x,y), d)` used directly: `n` steps alternating `++it` / `it++`, comparison with `end()`, with an
                        iterator of another `max_dist`, swap
-/
namespace Fcppt.C18.Drv
open Fcppt.Proto Fcppt.C18

def cap : Nat := 300
def spiralCap : Nat := 5000

def tyOf : String → Option (IntTy × Bool)     -- (type, is strong typedef)
  | "i8" => some (⟨true, 8⟩, false) | "u8" => some (⟨false, 8⟩, false)
  | "i16" => some (⟨true, 16⟩, false) | "u16" => some (⟨false, 16⟩, false)
  | "i32" => some (⟨true, 32⟩, false) | "u32" => some (⟨false, 32⟩, false)
  | "i64" => some (⟨true, 64⟩, false) | "u64" => some (⟨false, 64⟩, false)
  | "si8" => some (⟨true, 8⟩, true) | "su8" => some (⟨false, 8⟩, true)
  | "si32" => some (⟨true, 32⟩, true) | "su32" => some (⟨false, 32⟩, true)
  | "si16" => some (⟨true, 16⟩, true) | "su16" => some (⟨false, 16⟩, true)
  | "si64" => some (⟨true, 64⟩, true) | "su64" => some (⟨false, 64⟩, true)
  | _ => none

def showInts (l : List Int) : String := if l.isEmpty then "-" else intList l

def showElems : M (List Int) → String
  | .ok l => s!"n={l.length} e={showInts l}"
  | .error .fuel => "overrun"
  | .error f => f.name

def rangeLine (t : IntTy) (strong : Bool) (r : IntRange) : String :=
  let el := r.elems t (cap + 1)
  let sz := match r.size t with
    | .ok v => toString v
    | .error _ => "ub"
  let rs := match el with
    | .ok l =>
      if t.signed && !strong then
        match rangeSize t l.length with
        | .ok v => toString v
        | .error _ => "ub"
      else "-"
    | .error _ => "-"
  -- `range::singular` does not compile for ranges over strong typedefs (`std::next` needs an integral difference_type)
  let sg := if strong then "-" else match r.singular t with
    | .ok b => b01 b
    | .error _ => "ub"
  s!"{showElems el} size={sz} rs={rs} be={r.begin_}:{r.end_} es={b01 r.empty}{sg}"

def irLine (t : IntTy) (strong : Bool) (b e : Int) : String := rangeLine t strong (makeIntRange b e)

def irsDigest (t : IntTy) (strong : Bool) (b : Int) : String :=
  let n := (t.hi - t.lo + 1).toNat
  let h := (List.range n).foldl (fun h (i : Nat) => fnv h (irLine t strong b (t.lo + (i : Int)))) fnvInit
  "D " ++ hex64 h

def enumLine (w : Nat) (r : EnumRange) : String :=
  let sg := match r.singular w with
    | .ok b => b01 b
    | .error _ => "ub"
  s!"{showElems (r.elems w (cap + 1))} size={r.size w} es={b01 r.empty}{sg}"

def val (k : Int) : Int := 3 * k + 1

def cycLine (f s start k : Int) : String :=
  let c : Cyc := ⟨start, f, s⟩
  match c.advance k with
  | .error e => e.name
  | .ok a =>
    let st := if k ≥ 0 then iter Cyc.increment k.toNat c else iter Cyc.decrement (-k).toNat c
    let alt := match c.advance (-(-k)) with
      | .ok a' => a' == a
      | .error _ => false
    s!"adv={a.it} val={val a.it} alt={b01 alt} steps={st.it} inb={b01 (decide (f ≤ a.it ∧ a.it < s ∧ f ≤ st.it ∧ st.it < s))} dist={c.distanceTo a}"

def cycWalk (randomAccess : Bool) : List String → Cyc → List String → Option (List String)
  | [], _, acc => some acc.reverse
  | t :: ts, c, acc =>
    let arg := (t.drop 1).toInt?
    match t.get 0, arg with
    | '+', none => let c' := c.increment; cycWalk randomAccess ts c' (toString c'.it :: acc)
    | '-', none => let c' := c.decrement; cycWalk randomAccess ts c' (toString c'.it :: acc)
    -- post-increment returns the old iterator: print its position, then the new one
    | 'p', none => let c' := c.increment; cycWalk randomAccess ts c' (s!"{c.it}>{c'.it}" :: acc)
    | 'm', none => let c' := c.decrement; cycWalk randomAccess ts c' (s!"{c.it}>{c'.it}" :: acc)
    | 'a', some k =>
      if !randomAccess then none else
      match c.apply (.adv k) with
      | .ok c' => cycWalk randomAccess ts c' (toString c'.it :: acc)
      | .error f => some (f.name :: acc).reverse          -- the walk ends at the fault
    | 's', some k =>
      if !randomAccess then none else
      match c.apply (.sub k) with          -- operator-=(d) = *this += -d
      | .ok c' => cycWalk randomAccess ts c' (toString c'.it :: acc)
      | .error f => some (f.name :: acc).reverse
    | 'i', some k =>
      if !randomAccess then none else
      match c.advance k with               -- operator[](d) = *(*this + d)
      | .ok c' => cycWalk randomAccess ts c (s!"v{val c'.it}" :: acc)
      | .error f => some (f.name :: acc).reverse
    | _, _ => none

def showCyc (c : Cyc) : String := s!"{c.it}:{c.first}:{c.second}"

def cycpLine (len : Int) (x y : Cyc) : String :=
  let cmp := b01 (x.equal y) ++ b01 (!x.equal y) ++ b01 (x.lt y) ++ b01 (x.gt y) ++ b01 (x.le y) ++ b01 (x.ge y)
  let self := b01 (x.equal x) ++ b01 (!x.equal x) ++ b01 (x.lt x) ++ b01 (x.gt x) ++ b01 (x.le x) ++ b01 (x.ge x)
  let v := if x.it < len then toString (val x.it) else "-"
  let sw := swapPair (x, y)
  let fsw := swapPair sw
  let ssw := (swapPair (x, x)).1
  let z := y                      -- z{x}; z = y;
  s!"cmp={cmp} d={y.sub x},{x.sub y} self={self},{x.sub x} get={x.it},{y.it} bnd={x.first}:{x.second},{y.first}:{y.second} val={v} " ++
  s!"sw={showCyc sw.1},{showCyc sw.2} fsw={showCyc fsw.1},{showCyc fsw.2} ssw={showCyc ssw} cp={showCyc z}/{b01 (z.equal y)}"

def cyccLine (randomAccess : Bool) (x w : Cyc) (k : Int) : String :=
  let y := Cyc.convert x
  let z := Cyc.default.assignFrom x
  let w' := w.assignFrom x
  let same := (Cyc.default.assignFrom y)          -- operator=<const_iterator>(y) on a const_iterator cyclic iterator
  -- k steps on the converted iterator: `y += k` on a vector, |k| times ++ / -- on a list
  let adv : String :=
    if randomAccess then
      match y.advance k with
      | .ok a => toString a.it
      | .error f => f.name
    else toString (if k ≥ 0 then iter Cyc.increment k.toNat y else iter Cyc.decrement (-k).toNat y).it
  -- the source moves on afterwards, the converted copy does not
  s!"cv={showCyc y} as={showCyc z} ow={showCyc w'} st={showCyc same} eq={b01 (y.equal z)} adv={adv} src={x.increment.it}:{y.it}"

def cyclLine (c : Cyc) (plus : Bool) (k : Int) : String :=
  match (if plus then c.advance64 k else c.subAssign64 k) with
  | .ok a => s!"adv={a.it} alt=1"
  | .error f => f.name

def showIt (n : Nat) (v : Int) : String := if v ≤ n then toString v else "?"

/-- the direct iterator operations; `shw` prints a value (enum iterators cannot show values that are no enumerator) -/
def iterOpsLine (t : IntTy) (shw : Int → String) (a b : Int) : String :=
  let post := match IntIter.postIncr t a with
    | .ok (o, n) => s!"{shw o}>{shw n}"
    | .error _ => "ub"
  let sw := swapPair (a, b)
  let fsw := swapPair sw
  let ssw := (swapPair (a, a)).1
  s!"eq={b01 (IntIter.equal a b)} ne={b01 (IntIter.notEqual a b)} self={b01 (IntIter.equal a a)}{b01 (IntIter.notEqual a a)} d={shw a},{shw b} " ++
  s!"post={post} sw={shw sw.1},{shw sw.2} fsw={shw fsw.1},{shw fsw.2} ssw={shw ssw}"

def iitsDigest (t : IntTy) (a : Int) : String :=
  let n := (t.hi - t.lo + 1).toNat
  let h := (List.range n).foldl (fun h (i : Nat) => fnv h (iterOpsLine t toString a (t.lo + (i : Int)))) fnvInit
  "D " ++ hex64 h

def itriLine (t : IntTy) (b e : Int) : String :=
  if t.trapping && decide (e < b) then "bad-op" else showElems (intIterRange t b e (cap + 1))

def itrisDigest (t : IntTy) (b : Int) : String :=
  let n := (t.hi - t.lo + 1).toNat
  let h := (List.range n).foldl (fun h (i : Nat) => fnv h (itriLine t b (t.lo + (i : Int)))) fnvInit
  "D " ++ hex64 h

def showPos (p : Pos) : String := s!"{p.x}:{p.y}"
def showPosList (l : List Pos) : String := if l.isEmpty then "-" else ",".intercalate (l.map showPos)

def spLine (t : IntTy) (x y d : Int) : String :=
  match spiralRangeT t ⟨x, y⟩ d (spiralCap + 1) with
  | .ok l => s!"n={l.length} p={showPosList l}"
  | .error .fuel => "overrun"
  | .error f => f.name

/-- the states after `0 .. n` increments -/
def spiralStates : Nat → Spiral → List Spiral
  | 0, s => [s]
  | n + 1, s => s :: spiralStates n s.increment

def spiLine (x y d : Int) (n : Nat) : String :=
  let sts := spiralStates n (Spiral.init ⟨x, y⟩ d)
  let endCur : Pos := ⟨x - 1, y - d⟩
  -- step k (1-based) is `++it` for odd k and `it++` for even k; the latter shows the returned copy too
  let steps := (List.range n).map fun k =>
    let o := (sts.getD k (Spiral.init ⟨x, y⟩ d)).cur
    let c := (sts.getD (k + 1) (Spiral.init ⟨x, y⟩ d)).cur
    if (k + 1) % 2 = 1 then showPos c else s!"{showPos o}>{showPos c}"
  let ends := (List.range (n + 1)).filter fun k => (sts.getD k (Spiral.init ⟨x, y⟩ d)).equal (Spiral.init endCur d)
  let last := sts.getD n (Spiral.init ⟨x, y⟩ d)
  let init := Spiral.init ⟨x, y⟩ d
  let s1 := init.increment
  let sw := swapPair (init, last)            -- a{init}; a.swap(it): a holds the walked state, it the initial one
  s!"p={if steps.isEmpty then "-" else ",".intercalate steps} end={if ends.isEmpty then "-" else natList ends} " ++
  s!"eqd={b01 (init.equal (Spiral.init ⟨x, y⟩ (d + 5)))}{b01 (!(init.equal s1))} " ++
  s!"sw={showPos sw.1.cur},{showPos sw.2.cur} next={showPos sw.1.increment.cur},{showPos sw.2.increment.cur}"

def nbLine (t : IntTy) (x y : Int) : String :=
  match neumann t ⟨x, y⟩, moore t ⟨x, y⟩ with
  | .ok a, .ok b => s!"neu={showPosList a} moo={showPosList b}"
  | .error f, _ => f.name
  | _, .error f => f.name

def container (L : Nat) : List Int := (List.range L).map (fun (k : Nat) => val (k : Int))

def itrLine (L i j : Nat) : String :=
  let r := if (i + j) % 3 = 2 then iterFromPair (i, j) else iterMakeRange i j
  s!"{showElems (r.elems (container L) (cap + 1))} size={r.size} es={b01 r.empty}{b01 r.singular}"

def adrLine (L : Nat) : String :=
  let c := container L
  let r := adaptRange c
  s!"{showElems (r.elems c (cap + 1))} size={r.size} es={b01 r.empty}{b01 r.singular}"

def itrcLine (i j k l : Nat) : String :=
  let r1 := iterMakeRange i j
  let r2 := iterMakeRange k l
  s!"eq={b01 (r1.equal r2)} ne={b01 (r1.notEqual r2)} self={b01 (r1.equal r1)}{b01 (r1.notEqual r1)} be={r1.begin_}:{r1.end_}"

def int? (s : String) : Option Int := s.toInt?

def min3 (a b c : Nat) : Nat := min a (min b c)
def max3 (a b c : Nat) : Nat := max a (max b c)

def handle (toks : List String) : String :=
  match toks with
  | ["ir", ty, b, e] =>
    match tyOf ty, int? b, int? e with
    | some (t, st), some b, some e => if t.InRange b ∧ t.InRange e then irLine t st b e else "bad-op"
    | _, _, _ => "bad-op"
  | ["irub", ty, b, e] =>
    match tyOf ty, int? b, int? e with
    | some (t, _), some b, some e =>
      if t.InRange b ∧ t.InRange e then
        match (makeIntRange b e).size t with
        | .ok v => s!"size={v}"
        | .error f => f.name
      else "bad-op"
    | _, _, _ => "bad-op"
  | ["irc", ty, n] =>
    match tyOf ty, int? n with
    | some (t, st), some n => if t.InRange n then rangeLine t st (makeIntRangeCount n) else "bad-op"
    | _, _ => "bad-op"
  | ["irs", ty, b] =>
    match tyOf ty, int? b with
    | some (t, st), some b => if (t.bits = 8 ∨ t.bits = 16) ∧ t.InRange b then irsDigest t st b else "bad-op"
    | _, _ => "bad-op"
  | ["er", n, w, s, e] =>
    match n.toNat?, w.toNat?, s.toNat?, e.toNat? with
    | some n, some w, some s, some e =>
      if s < n ∧ e < n ∧ n ≤ 2 ^ w then enumLine w (makeRangeStartEnd w s e) else "bad-op"
    | _, _, _, _ => "bad-op"
  | ["ers", n, w, s] =>
    match n.toNat?, w.toNat?, s.toNat? with
    | some n, some w, some s => if s < n ∧ n ≤ 2 ^ w then enumLine w (makeRangeStart w n s) else "bad-op"
    | _, _, _ => "bad-op"
  | ["era", n, w] =>
    match n.toNat?, w.toNat? with
    | some n, some w => if 0 < n ∧ n ≤ 2 ^ w then enumLine w (makeRange w n) else "bad-op"
    | _, _ => "bad-op"
  | ["cyc", l, f, s, start, k] =>
    match l.toNat?, f.toNat?, s.toNat?, start.toNat?, int? k with
    | some l, some f, some s, some start, some k =>
      if f < s ∧ s ≤ l ∧ f ≤ start ∧ start < s then cycLine f s start k else "bad-op"
    | _, _, _, _, _ => "bad-op"
  | "cycw" :: kind :: l :: f :: s :: start :: ops =>
    match l.toNat?, f.toNat?, s.toNat?, start.toNat? with
    | some l, some f, some s, some start =>
      if (kind = "v" ∨ kind = "l") ∧ f < s ∧ s ≤ l ∧ f ≤ start ∧ start < s then
        match cycWalk (kind == "v") ops ⟨start, f, s⟩ [] with
        | some tr => if tr.isEmpty then "-" else ",".intercalate tr
        | none => "bad-op"
      else "bad-op"
    | _, _, _, _ => "bad-op"
  | ["sp", ty, x, y, d] =>
    match int? x, int? y, int? d with
    | some x, some y, some d =>
      match tyOf ty with
      | some (t, false) =>
        if (ty = "i32" ∨ ty = "i64") ∧ t.InRange x ∧ t.InRange y ∧ -10000 ≤ d ∧ d ≤ 10000 then spLine t x y d else "bad-op"
      | _ => "bad-op"
    | _, _, _ => "bad-op"
  | ["spi", ty, x, y, d, n] =>
    match tyOf ty, int? x, int? y, int? d, n.toNat? with
    | some (t, false), some x, some y, some d, some n =>
      let lim := t.hi - 20000
      if (ty = "i32" ∨ ty = "i64") ∧ -lim ≤ x ∧ x ≤ lim ∧ -lim ≤ y ∧ y ≤ lim ∧ -10000 ≤ d ∧ d ≤ 10000 ∧ n ≤ 300 then spiLine x y d n else "bad-op"
    | _, _, _, _, _ => "bad-op"
  | ["iit", ty, a, b] =>
    match tyOf ty, int? a, int? b with
    | some (t, _), some a, some b => if t.InRange a ∧ t.InRange b then iterOpsLine t toString a b else "bad-op"
    | _, _, _ => "bad-op"
  | ["iits", ty, a] =>
    match tyOf ty, int? a with
    | some (t, _), some a => if (t.bits = 8 ∨ t.bits = 16) ∧ t.InRange a then iitsDigest t a else "bad-op"
    | _, _ => "bad-op"
  | ["eit", n, w, a, b] =>
    match n.toNat?, w.toNat?, a.toNat?, b.toNat? with
    | some n, some w, some a, some b =>
      if 0 < n ∧ n ≤ 2 ^ w ∧ a ≤ n ∧ b ≤ n ∧ a < 2 ^ w ∧ b < 2 ^ w then iterOpsLine (sizeTy w) (showIt n) a b else "bad-op"
    | _, _, _, _ => "bad-op"
  | ["erd", n, w, b, e] =>
    match n.toNat?, w.toNat?, b.toNat?, e.toNat? with
    | some n, some w, some b, some e =>
      if 0 < n ∧ n ≤ 2 ^ w ∧ b < 2 ^ w ∧ e < 2 ^ w then enumLine w ⟨b, e⟩ else "bad-op"
    | _, _, _, _ => "bad-op"
  | ["itri", ty, b, e] =>
    match tyOf ty, int? b, int? e with
    | some (t, _), some b, some e => if t.InRange b ∧ t.InRange e then itriLine t b e else "bad-op"
    | _, _, _ => "bad-op"
  | ["itris", ty, b] =>
    match tyOf ty, int? b with
    | some (t, _), some b => if (t.bits = 8 ∨ t.bits = 16) ∧ t.InRange b then itrisDigest t b else "bad-op"
    | _, _ => "bad-op"
  | ["itrc", kind, l, i, j, k, m] =>
    match l.toNat?, i.toNat?, j.toNat?, k.toNat?, m.toNat? with
    | some l, some i, some j, some k, some m =>
      if (kind = "v" ∨ kind = "l") ∧ i ≤ j ∧ j ≤ l ∧ k ≤ m ∧ m ≤ l ∧ l ≤ 64 then itrcLine i j k m else "bad-op"
    | _, _, _, _, _ => "bad-op"
  | ["cycp", len, f1, s1, i, f2, s2, j] =>
    match len.toNat?, f1.toNat?, s1.toNat?, i.toNat?, f2.toNat?, s2.toNat?, j.toNat? with
    | some len, some f1, some s1, some i, some f2, some s2, some j =>
      if f1 ≤ s1 ∧ s1 ≤ len ∧ i ≤ len ∧ f2 ≤ s2 ∧ s2 ≤ len ∧ j ≤ len ∧ len ≤ 64 then cycpLine len ⟨i, f1, s1⟩ ⟨j, f2, s2⟩ else "bad-op"
    | _, _, _, _, _, _, _ => "bad-op"
  | "cycx" :: kind :: len :: f :: s :: i :: ops =>
    match len.toNat?, f.toNat?, s.toNat?, i.toNat? with
    | some len, some f, some s, some i =>
      if (kind = "v" ∨ kind = "l") ∧ f ≤ s ∧ len ≤ 64 ∧ 0 < ops.length ∧ ops.length ≤ min3 i f s ∧ max3 i f s + ops.length ≤ len then
        match cycWalk (kind == "v") ops ⟨i, f, s⟩ [] with
        | some tr => if tr.isEmpty then "-" else ",".intercalate tr
        | none => "bad-op"
      else "bad-op"
    | _, _, _, _ => "bad-op"
  | ["cycl", len, f, s, start, sgn, k] =>
    match len.toNat?, f.toNat?, s.toNat?, start.toNat?, int? k with
    | some len, some f, some s, some start, some k =>
      if f < s ∧ s ≤ len ∧ len ≤ 64 ∧ f ≤ start ∧ start < s ∧ (sgn = "+" ∨ sgn = "-") ∧ ptrdiffTy.InRange k then
        cyclLine ⟨start, f, s⟩ (sgn == "+") k
      else "bad-op"
    | _, _, _, _, _ => "bad-op"
  | ["cycc", kind, len, f, s, i, f2, s2, j, k] =>
    match len.toNat?, f.toNat?, s.toNat?, i.toNat?, f2.toNat?, s2.toNat?, j.toNat?, int? k with
    | some len, some f, some s, some i, some f2, some s2, some j, some k =>
      if (kind = "v" ∨ kind = "l") ∧ f < s ∧ s ≤ len ∧ f ≤ i ∧ i < s ∧ f2 ≤ s2 ∧ s2 ≤ len ∧ j ≤ len ∧ len ≤ 64 ∧ -1000 ≤ k ∧ k ≤ 1000 then
        cyccLine (kind == "v") ⟨i, f, s⟩ ⟨j, f2, s2⟩ k
      else "bad-op"
    | _, _, _, _, _, _, _, _ => "bad-op"
  | ["cycd", kind, len, i, f, s] =>
    match len.toNat?, i.toNat?, f.toNat?, s.toNat? with
    | some len, some i, some f, some s =>
      if (kind = "v" ∨ kind = "l") ∧ f ≤ s ∧ s ≤ len ∧ i ≤ len ∧ len ≤ 64 then
        let d := Cyc.default
        let x : Cyc := ⟨i, f, s⟩
        s!"def={b01 (d.it == 0)}{b01 (d.first == 0)}{b01 (d.second == 0)} eq={b01 (d.equal Cyc.default)} asg={showCyc x}"
      else "bad-op"
    | _, _, _, _ => "bad-op"
  | ["nb", ty, x, y] =>
    match tyOf ty, int? x, int? y with
    | some (t, false), some x, some y => if 32 ≤ t.bits ∧ t.InRange x ∧ t.InRange y then nbLine t x y else "bad-op"
    | _, _, _ => "bad-op"
  | ["itr", kind, l, i, j] =>
    match l.toNat?, i.toNat?, j.toNat? with
    | some l, some i, some j => if (kind = "v" ∨ kind = "l") ∧ i ≤ j ∧ j ≤ l then itrLine l i j else "bad-op"
    | _, _, _ => "bad-op"
  | ["adr", kind, l] =>
    match l.toNat? with
    | some l => if kind = "v" ∨ kind = "l" then adrLine l else "bad-op"
    | _ => "bad-op"
  | ["mir", a, b] =>
    match a.toNat?, b.toNat? with
    | some a, some b => if a ≤ b ∧ b ≤ 16 then s!"e={if a = b then "-" else natList (mathIntRange a b)}" else "bad-op"
    | _, _ => "bad-op"
  | ["mirc", n] =>
    match n.toNat? with
    | some n => if n ≤ 16 then s!"e={if n = 0 then "-" else natList (mathIntRangeCount n)}" else "bad-op"
    | _ => "bad-op"
  | _ => "bad-op"

def main : IO Unit := Proto.run handle

end Fcppt.C18.Drv
