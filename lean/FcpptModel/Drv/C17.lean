import FcpptModel.Prelude.Proto
/-! Driver for C17 — placeholder until the property's model is built. -/
namespace Fcppt.C17.Drv
def main : IO Unit := Fcppt.Proto.run (fun _ => "not-built")
end Fcppt.C17.Drv
