import FcpptModel.Prelude.Proto
import FcpptModel.Spec.C17
/-!
Driver for C17.  Operations (one per line):

* `st <ty> <a> <b>`        — ty ∈ i32 u32 i64 u64; every `strong_typedef` operator on operands a, b
                             (`ub` where the underlying operator is undefined: signed overflow)
* `sts <ty> <a> <lo> <hi>` — digest of the `st` lines for b = lo .. hi
* `stself <ty> <a>`        — every binary / assigning operator with the SAME object on both sides; `stselfs ty lo hi` digest
* `stmem <ty> <a> <b>`     — members (non-const `get`, `no_init`, copy, move), `strong_typedef_map/_apply/_construct_cast`,
                             `<<`, `>>`; `stmems ty a lo hi` digest over b
                             (ty additionally i8 u8 i16 u16: integral promotion; binary / unary operators are ill-formed there)
* `rel <type> <a> <b>`     — a, b values of the type as comma separated component lists (`-` = empty);
                             prints `== != < > <= >=` (`-` = not offered by the type), hash agreement, extras
* `rels <type> <maxlen> <a>` — digest of `rel type a b` for every b of the type's domain
                             (valid encodings of length ≤ maxlen with components in {0,1,2})
* `relr <type> <ra> <rb> <a> <b>`, `relsr <type> <maxlen> <ra> <rb> <a>` — the same with the two values built along
                             route ra / rb of the harness (constructor, assignment over another value, element-wise
                             writes, erase after insert, …; + 8: inside a buffer pre-filled with a byte pattern); the model is a
                             value model, the routes do not matter
* `self <type> <ra> <a>`, `selfs <type> <maxlen> <ra>` — the SAME object on both sides
* `relb <type> <base> <pos> <kind>` — digest of `rel` for all pairs (u, v) of boundary values (kind 0: 16-bit, 1: 32-bit)
                             put at position pos of base
* `tri <type> <maxlen> <a>`  — counts, over all b, c of the domain, violations of: `==` symmetric/transitive,
                             `<` transitive, incomparability transitive, `<` compatible with `==`
* `tri1 <type> <a> <b> <c>`  — the same flags for one triple
* `wrap <x>`               — what reference / recursive / unique_ptr / shared_ptr / type_iso expose for x

Value encodings: opt `-`|x; eith k,x (k=0 failure, 1 success); var i,x (i<3); tup/arr/earr/vec3 x,y,z;
rec/vec2/dim2 x,y; sti/recu x; mat22 a,b,c,d (row-major); box2 px,py,sx,sy; sph2 ox,oy,r;
bf3 b0,b1,b2,route (route 0 initializer list, 1 `~` of the complement, 2 `~~`); grid w,h,elements (w*h, row-major);
grid1 w,elements; grid3 w,h,d,elements; vec1 x; vec4 x,y,z,w; dim3 x,y,z; mat23 six cells row-major; box3 p,p,p,s,s,s;
sph3 o,o,o,r; tree pre-order of value,number-of-children; rv elements; ref i (i-th object of an array);
sp i,o (o < 2: pointer to the i-th object, owner o; o = 2: null stored pointer — i = 0 no owner (moved-from), i = 1, 2 owner i-1);
unit `-`; itr i,j (range from the i-th to the j-th element of an array, i ≤ j ≤ 2).
-/
namespace Fcppt.C17.Drv
open Fcppt.Proto

/-! ### strong_typedef operators -/

def tyOf : String → Option IntTy
  | "i32" => some .i32 | "u32" => some .u32 | "i64" => some .i64 | "u64" => some .u64
  | "i8" => some .i8 | "u8" => some .u8 | "i16" => some .i16 | "u16" => some .u16
  | _ => none

/-- narrower than `int`: only the assigning operators, `++`/`--`, comparisons, hash and type_iso are well-formed -/
def narrow (t : IntTy) : Bool := t.bits < 32

def showM (r : M Int) : String := match r with | .ok v => toString v | .error _ => "ub"
def showST (r : M ST) : String := match r with | .ok v => toString v.get | .error _ => "ub"
def showPair (r : M (ST × ST)) : String :=
  match r with | .ok (x, y) => s!"{x.get}/{y.get}" | .error _ => "ub"

def stLine (t : IntTy) (a b : Int) : String :=
  let l : ST := ⟨a⟩
  let r : ST := ⟨b⟩
  let e := ST.eq l r
  let hId : Int → Nat := fun x => x.toNat
  let heq := if e then b01 (ST.hash hId l == ST.hash hId r) else "-"
  (if narrow t then "narrow" else
    s!"add={showST (ST.add t l r)} sub={showST (ST.sub t l r)} mul={showST (ST.mul t l r)} neg={showST (ST.neg t l)}" ++
    s!" and={(ST.band t l r).get} or={(ST.bor t l r).get} xor={(ST.bxor t l r).get} not={(ST.bnot t l).get}") ++
  s!" preinc={showPair (ST.preInc t l)} predec={showPair (ST.preDec t l)} postinc={showPair (ST.postInc t l)} postdec={showPair (ST.postDec t l)}" ++
  s!" addas={showPair (ST.addAssign t l r)} subas={showPair (ST.subAssign t l r)} mulas={showPair (ST.mulAssign t l r)}" ++
  s!" andas={showPair (pure (ST.andAssign t l r))} oras={showPair (pure (ST.orAssign t l r))} xoras={showPair (pure (ST.xorAssign t l r))}" ++
  s!" lt={b01 (ST.lt l r)} le={b01 (ST.le l r)} gt={b01 (ST.gt l r)} ge={b01 (ST.ge l r)} eq={b01 e} ne={b01 (ST.ne l r)}" ++
  s!" heq={heq} iso={ST.undecorate (ST.decorate a)}"

/-- the same object on both sides: in the value model `x op x` is `op` applied to two equal values -/
def stSelfLine (t : IntTy) (a : Int) : String :=
  let x : ST := ⟨a⟩
  let hId : Int → Nat := fun v => v.toNat
  let e := ST.eq x x
  (if narrow t then "narrow" else
    s!"add={showST (ST.add t x x)} sub={showST (ST.sub t x x)} mul={showST (ST.mul t x x)}" ++
    s!" and={(ST.band t x x).get} or={(ST.bor t x x).get} xor={(ST.bxor t x x).get}") ++
  s!" addas={showPair (ST.addAssign t x x)} subas={showPair (ST.subAssign t x x)} mulas={showPair (ST.mulAssign t x x)}" ++
  s!" andas={showPair (pure (ST.andAssign t x x))} oras={showPair (pure (ST.orAssign t x x))} xoras={showPair (pure (ST.xorAssign t x x))}" ++
  s!" asg={showPair (pure (ST.assign x x))} mvasg={showPair (pure (ST.assign x x))}" ++
  s!" lt={b01 (ST.lt x x)} le={b01 (ST.le x x)} gt={b01 (ST.gt x x)} ge={b01 (ST.ge x x)} eq={b01 e} ne={b01 (ST.ne x x)}" ++
  s!" heq={if e then b01 (ST.hash hId x == ST.hash hId x) else "-"}"

/-- members of the class and the helper functions `strong_typedef_map / _apply / _construct_cast`, `<<`, `>>` -/
def stMemLine (t : IntTy) (a b : Int) : String :=
  let x : ST := ⟨a⟩
  let y : ST := ⟨b⟩
  let m := ST.map (fun v => t.bxor v b) x
  let ap := ST.apply2 (fun u v => t.band u (t.bnot v)) x y
  s!"set={(ST.set x b).get} cget={x.get} noinit={(ST.set x a).get}/{(ST.assign x y).1.get}" ++
  s!" copy={x.get}/{(ST.set x b).get} cpas={(ST.assign y x).1.get}/{(ST.set x b).get} mv={(ST.assign y x).1.get} size=1" ++
  s!" map={m.get}/{m.get} apply={ap.get}/{ap.get} apply1={(ST.map t.bnot x).get}" ++
  s!" applyself={(ST.apply2 (fun u v => t.band u (t.bnot v)) x x).get} ccast={(ST.constructCast t.conv b).get} out=1 in=1"

def digestRange (lo hi : Int) (f : Int → String) : String :=
  let cnt := (hi - lo + 1).toNat
  let h := (List.range cnt).foldl (fun h k => fnv h (f (lo + (k : Nat)))) fnvInit
  "D " ++ hex64 h

def stsDigest (t : IntTy) (a lo hi : Int) : String := digestRange lo hi (stLine t a)

/-! ### comparison of the composite types -/

inductive Ty where
  | opt | eith | var | tup | arr | recd | sti | vec2 | vec3 | dim2 | mat22 | box2 | sph2 | bf3 | earr
  | grid | tree | rv | ref | sp | recu
  | vec1 | vec4 | dim3 | mat23 | box3 | sph3 | grid1 | grid3 | unit | itr | bf9 | nest
  deriving DecidableEq, Repr

def tyName : String → Option Ty
  | "opt" => some .opt | "eith" => some .eith | "var" => some .var | "tup" => some .tup | "arr" => some .arr
  | "rec" => some .recd | "sti" => some .sti | "vec2" => some .vec2 | "vec3" => some .vec3 | "dim2" => some .dim2
  | "mat22" => some .mat22 | "box2" => some .box2 | "sph2" => some .sph2 | "bf3" => some .bf3 | "earr" => some .earr
  | "grid" => some .grid | "tree" => some .tree | "rv" => some .rv | "ref" => some .ref | "sp" => some .sp
  | "recu" => some .recu
  | "vec1" => some .vec1 | "vec4" => some .vec4 | "dim3" => some .dim3 | "mat23" => some .mat23 | "box3" => some .box3
  | "sph3" => some .sph3 | "grid1" => some .grid1 | "grid3" => some .grid3 | "unit" => some .unit | "itr" => some .itr | "bf9" => some .bf9 | "nest" => some .nest
  | _ => none

def ieq (a b : Int) : Bool := a == b
def ilt (a b : Int) : Bool := decide (a < b)

def toVec (n : Nat) (l : List Int) : Option (Vector Int n) :=
  if h : l.toArray.size = n then some ⟨l.toArray, h⟩ else none

/-- parse the pre-order encoding of one tree; returns the tree and the rest -/
def parseTree : Nat → List Int → Option (Tree Int × List Int)
  | 0, _ => none
  | fuel + 1, v :: k :: rest =>
    if k < 0 then none else
    let rec kids (fuel' : Nat) (cnt : Nat) (rest : List Int) (acc : List (Tree Int)) : Option (List (Tree Int) × List Int) :=
      match cnt with
      | 0 => some (acc.reverse, rest)
      | c + 1 =>
        match fuel' with
        | 0 => none
        | _ => match parseTree fuel rest with
          | some (t, rest') => kids fuel' c rest' (t :: acc)
          | none => none
    match kids (fuel + 1) k.toNat rest [] with
    | some (cs, rest') => some (Tree.node v cs, rest')
    | none => none
  | _ + 1, _ => none

def toTree (l : List Int) : Option (Tree Int) :=
  match parseTree (l.length + 1) l with
  | some (t, []) => some t
  | _ => none

/-- `n` extents followed by the elements in iteration order (x runs fastest) -/
def toGrid (n : Nat) (l : List Int) : Option (Grid Int n) :=
  let ext := (l.take n).map Int.toNat
  let rest := l.drop n
  if h : ext.toArray.size = n then
    if (l.take n).all (fun x => decide (0 ≤ x)) && rest.length == ext.foldl (· * ·) 1 then some ⟨⟨ext.toArray, h⟩, rest⟩
    else none
  else none

def mvecObs (n : Nat) (a b : List Int) (withMix : Bool) : Option (Bool × Bool × Bool × Bool × Bool × Bool × Bool × String) :=
  match toVec n a, toVec n b with
  | some x, some y =>
    let e := MVec.eq ieq x y
    let b01' := fun (c : Bool) => if c then "1" else "0"
    let mix := if withMix then
        s!" mix={b01' e}{b01' (MVec.ne ieq x y)}{b01' (MVec.eq ieq y x)}{b01' (MVec.ne ieq y x)}" ++
        (if e then b01' (rangeHash (fun p q => p * 31 + q + 7) (fun (v : Int) => (v + 1000).toNat) x.toList ==
                         rangeHash (fun p q => p * 31 + q + 7) (fun (v : Int) => (v + 1000).toNat) y.toList) else "-") ++
        s!" mixord={b01' (MVec.lt ilt x y)}{b01' (MVec.gt ilt x y)}{b01' (MVec.le ilt x y)}{b01' (MVec.ge ilt x y)}" ++
        s!"{b01' (MVec.lt ilt y x)}{b01' (MVec.gt ilt y x)}{b01' (MVec.le ilt y x)}{b01' (MVec.ge ilt y x)} conv=1"
      else ""
    some (e, MVec.ne ieq x y, MVec.lt ilt x y, MVec.gt ilt x y, MVec.le ilt x y, MVec.ge ilt x y,
          MVec.hash (fun p q => p * 31 + q + 7) (fun (v : Int) => (v + 1000).toNat) x ==
          MVec.hash (fun p q => p * 31 + q + 7) (fun (v : Int) => (v + 1000).toNat) y, mix)
  | _, _ => none

/-- a box given as position and size (the `(pos, size)` constructor) -/
def toBox (n : Nat) (l : List Int) : Option (Box Int n) :=
  match toVec n (l.take n), toVec n (l.drop n) with
  | some p, some s =>
    -- pos + size must be an `int` (the class stores the maximum)
    if (List.range n).all (fun i => IntTy.i32.inRange (l.getD i 0 + l.getD (n + i) 0)) && l.length = 2 * n then
      some (Box.ofPosSize (· + ·) p s)
    else none
  | _, _ => none

def isub (a b : Int) : Int := a - b

/-- the bitfield over an `n`-enumerator enum in 8-bit words, built along `route`; the three encoded membership bits
are those of the enumerators `idx` (bf3: 0,1,2; bf9: 0,7,8 — two words) -/
def toBf (n : Nat) (idx : List Nat) (l : List Int) : Option (C10.Words 8) :=
  match l with
  | [b0, b1, b2, route] =>
    if [b0, b1, b2].all (fun b => b == 0 || b == 1) then
      let bits := [b0, b1, b2]
      let isIn := fun (e : Nat) => (List.range 3).any fun i => idx.getD i 0 == e && bits.getD i 0 == 1
      let mem := (List.range n).filter isIn
      let co := (List.range n).filter (fun e => !isIn e)
      if route == 0 then some (C10.ofList n 8 mem)
      else if route == 1 then some (C10.not n (C10.ofList n 8 co))
      else if route == 2 then some (C10.not n (C10.not n (C10.ofList n 8 mem)))
      else none
    else none
  | _ => none

/-- observations of one pair: `none` = operator not offered -/
structure Obs where
  eq : Bool
  ne : Bool
  lt : Option Bool := none
  gt : Option Bool := none
  le : Option Bool := none
  ge : Option Bool := none
  hash : Bool := false        -- the type offers a hash
  hashEq : Bool := true       -- model: hashes of the two values are equal (evaluated when eq)
  extra : String := ""

def ob (o : Option Bool) : String := match o with | some b => b01 b | none => "-"

def Obs.show (o : Obs) : String :=
  let heq := if o.hash && o.eq then b01 o.hashEq else "-"
  s!"eq={b01 o.eq} ne={b01 o.ne} lt={ob o.lt} gt={ob o.gt} le={ob o.le} ge={ob o.ge} heq={heq}{o.extra}"

def hcD (x y : Nat) : Nat := x * 31 + y + 7
def hD (x : Int) : Nat := (x + 1000).toNat

def faultObs (f : Fault) : Except String Obs := .error f.name

/-- run the model's comparison functions on a pair; `.error "bad-op"` for malformed values -/
def relObs (ty : Ty) (a b : List Int) : Except String Obs := do
  let bad : Except String Obs := .error "bad-op"
  match ty with
  | .opt =>
    let dec : List Int → Option (Option Int) := fun l => match l with | [] => some none | [x] => some (some x) | _ => none
    match dec a, dec b with
    | some x, some y => pure { eq := Opt.eq ieq x y, ne := Opt.ne ieq x y, lt := some (Opt.lt ilt x y) }
    | _, _ => bad
  | .eith =>
    let dec : List Int → Option (Sum Int Int) := fun l => match l with
      | [0, x] => some (.inl x) | [1, x] => some (.inr x) | _ => none
    match dec a, dec b with
    | some x, some y => pure { eq := Either.eq ieq ieq x y, ne := Either.ne ieq ieq x y }
    | _, _ => bad
  | .var =>
    -- variant<int, long, short>: the nested sum int ⊕ (long ⊕ short)
    let dec : List Int → Option (Sum Int (Sum Int Int)) := fun l => match l with
      | [0, x] => some (.inl x) | [1, x] => some (.inr (.inl x)) | [2, x] => some (.inr (.inr x)) | _ => none
    -- the one-component-type model (index, value) must say the same
    let decV : List Int → Option (Var Int) := fun l => match l with
      | [i, x] => if 0 ≤ i ∧ i < 3 then some ⟨i.toNat, x⟩ else none | _ => none
    match dec a, dec b, decV a, decV b with
    | some x, some y, some vx, some vy =>
      let e := SumV.eq ieq (SumV.eq ieq ieq) x y
      let n := SumV.ne ieq (SumV.eq ieq ieq) x y
      let l := SumV.lt ilt (SumV.lt ilt ilt) x y
      let ce := SumV.compare ieq (SumV.compare ieq ieq) x y
      let cl := SumV.compare ilt (SumV.compare ilt ilt) x y
      if e == Var.eq ieq vx vy && n == Var.ne ieq vx vy && l == Var.lt ilt vx vy && ce == Var.compare ieq vx vy &&
         cl == Var.compare ilt vx vy then
        pure { eq := e, ne := n, lt := some l, extra := s!" cmp={b01 ce} cmplt={b01 cl}" }
      else .error "model-mismatch"
    | _, _, _, _ => bad
  | .tup =>
    -- tuple<int, long, short>: the nested pair int × (long × short)
    match a, b with
    | [x0, x1, x2], [y0, y1, y2] =>
      let e := Pair.eq ieq (Pair.eq ieq ieq) (x0, x1, x2) (y0, y1, y2)
      -- the index-wise model over one component type must say the same
      match toVec 3 a, toVec 3 b with
      | some va, some vb =>
        if e == equalV ieq va vb then pure { eq := e, ne := Pair.ne ieq (Pair.eq ieq ieq) (x0, x1, x2) (y0, y1, y2) }
        else .error "model-mismatch"
      | _, _ => bad
    | _, _ => bad
  | .arr | .earr =>
    match toVec 3 a, toVec 3 b with
    | some x, some y =>
      let e := equalV ieq x y
      pure { eq := e, ne := !e, hash := ty == .arr, hashEq := rangeHash hcD hD x.toList == rangeHash hcD hD y.toList }
    | _, _ => bad
  | .recd =>
    match a, b with
    | [x0, x1], [y0, y1] =>
      let r1 : Rec Int := [(0, x0), (1, x1)]
      let r2 : Rec Int := [(0, y0), (1, y1)]
      let r2p : Rec Int := [(1, y1), (0, y0)]     -- the same record as a type with permuted elements
      match Rec.eq ieq r1 r2, Rec.ne ieq r1 r2, Rec.eq ieq r1 r2p, Rec.eq ieq r2p r1 with
      | some e, some n, some xe, some ex =>
        -- the two-element model with element types of their own must agree with the label lookup
        if xe == Rec2.eqPermuted ieq ieq (x0, x1) (y1, y0) && ex == Rec2.eqPermuted ieq ieq (y1, y0) (x0, x1) then
          pure { eq := e, ne := n, extra := s!" xeq={b01 xe} exq={b01 ex}" }
        else .error "model-mismatch"
      | _, _, _, _ => .error "ill-formed"
    | _, _ => bad
  | .sti =>
    match a, b with
    | [x], [y] =>
      let l : ST := ⟨x⟩; let r : ST := ⟨y⟩
      pure { eq := ST.eq l r, ne := ST.ne l r, lt := some (ST.lt l r), gt := some (ST.gt l r), le := some (ST.le l r),
             ge := some (ST.ge l r), hash := true, hashEq := ST.hash hD l == ST.hash hD r }
    | _, _ => bad
  | .recu =>
    match a, b with
    | [x], [y] => pure { eq := Recursive.eq ieq x y, ne := Recursive.ne ieq x y }
    | _, _ => bad
  | .vec1 | .vec2 | .vec3 | .vec4 | .dim2 | .dim3 =>
    let n := match ty with | .vec1 => 1 | .vec2 | .dim2 => 2 | .vec3 | .dim3 => 3 | _ => 4
    -- vec2: the same comparisons against the right operand held in a matrix row view (storage does not matter)
    match mvecObs n a b (ty == .vec2) with
    | some (e, ne, lt, gt, le, ge, he, mix) =>
      pure { eq := e, ne := ne, lt := some lt, gt := some gt, le := some le, ge := some ge, hash := true, hashEq := he, extra := mix }
    | none => bad
  | .mat22 | .mat23 =>
    let n := if ty == .mat22 then 4 else 6
    match mvecObs n a b false with
    | some (e, ne, _, _, _, _, he, _) => pure { eq := e, ne := ne, hash := true, hashEq := he }
    | none => bad
  | .box2 | .box3 =>
    let n := if ty == .box2 then 2 else 3
    match toBox n a, toBox n b with
    | some x, some y =>
      let comps := x.min.toList == y.min.toList && x.max.toList == y.max.toList &&
        (x.size isub).toList == (y.size isub).toList
      pure { eq := Box.eq isub ieq x y, ne := Box.ne isub ieq x y, lt := some (Box.lt isub ilt x y), extra := s!" comps={b01 comps}" }
    | _, _ => bad
  | .sph2 | .sph3 =>
    let n := if ty == .sph2 then 2 else 3
    match toVec n (a.take n), toVec n (b.take n), a.drop n, b.drop n with
    | some ao, some bo, [ar], [br] =>
      let x : Sphere Int n := ⟨ao, ar⟩; let y : Sphere Int n := ⟨bo, br⟩
      pure { eq := Sphere.eq ieq x y, ne := Sphere.ne ieq x y }
    | _, _, _, _ => bad
  | .bf3 | .bf9 =>
    let n := if ty == .bf3 then 3 else 9
    let idx := if ty == .bf3 then [0, 1, 2] else [0, 7, 8]
    match toBf n idx a, toBf n idx b with
    | some x, some y =>
      let hw : BitVec 8 → Nat := BitVec.toNat
      pure { eq := C10.eq x y, ne := C10.ne x y, hash := true, hashEq := C10.hash hcD hw x == C10.hash hcD hw y,
             extra := s!" m={(C10.members n x).foldl (fun m i => m + 2 ^ i) 0},{(C10.members n y).foldl (fun m i => m + 2 ^ i) 0}" }
    | _, _ => bad
  | .grid | .grid1 | .grid3 =>
    let n := match ty with | .grid1 => 1 | .grid => 2 | _ => 3
    match toGrid n a, toGrid n b with
    | some x, some y =>
      match Grid.eq ieq x y, Grid.ne ieq x y with
      | .ok e, .ok n =>
        pure { eq := e, ne := n, lt := some (Grid.lt ilt x y), gt := some (Grid.gt ilt x y), le := some (Grid.le ilt x y),
               ge := some (Grid.ge ilt x y) }
      | .error f, _ => faultObs f
      | _, .error f => faultObs f
    | _, _ => bad
  | .tree =>
    match toTree a, toTree b with
    | some x, some y =>
      -- the children of x compared in place with y
      let kids := match x with | .node _ cs => cs
      let sub := kids.foldl (fun acc c =>
        acc ++ b01 (Tree.eq ieq c y) ++ b01 (Tree.eq ieq y c) ++ b01 (Tree.ne ieq c y) ++ b01 (Tree.eq ieq c x)) ""
      pure { eq := Tree.eq ieq x y, ne := Tree.ne ieq x y, extra := " sub=" ++ sub }
    | _, _ => bad
  | .rv =>
    match RawVec.eq ieq a b, RawVec.ne ieq a b with
    | .ok e, .ok n =>
      pure { eq := e, ne := n, lt := some (RawVec.lt ilt a b), gt := some (RawVec.gt ilt a b), le := some (RawVec.le ilt a b),
             ge := some (RawVec.ge ilt a b), hash := true, hashEq := rangeHash hcD hD a == rangeHash hcD hD b }
    | .error f, _ => faultObs f
    | _, .error f => faultObs f
  | .ref =>
    match a, b with
    | [i], [j] =>
      if 0 ≤ i ∧ i < 3 ∧ 0 ≤ j ∧ j < 3 then
        let x : Ref := ⟨i.toNat⟩; let y : Ref := ⟨j.toNat⟩
        pure { eq := Ref.eq x y, ne := Ref.ne x y, lt := some (Ref.lt x y), hash := true,
               hashEq := Ref.hash id x == Ref.hash id y,
               extra := s!" const={b01 (Ref.eq x y)}{b01 (Ref.ne x y)}{b01 (Ref.lt x y)}1" }
      else bad
    | _, _ => bad
  | .sp =>
    -- i,o with o < 2: stored pointer = address of object i (addresses 1, 2, 3), owner o;
    -- o = 2: null stored pointer (address 0, below every object), owner 2 + i (i = 0: no owner at all)
    let dec : List Int → Option SPtr := fun l => match l with
      | [i, o] => if 0 ≤ i ∧ i < 3 ∧ 0 ≤ o ∧ o < 3 then
          some (if o = 2 then ⟨0, 2 + i.toNat⟩ else ⟨i.toNat + 1, o.toNat⟩) else none
      | _ => none
    match dec a, dec b with
    | some x, some y =>
      pure { eq := SPtr.eq x y, ne := SPtr.ne x y, lt := some (SPtr.lt x y), hash := true,
             hashEq := SPtr.hash id x == SPtr.hash id y }
    | _, _ => bad
  | .nest =>
    -- optional< variant< optional<int>, vector<int,2> > >: the model functions composed
    let dec : List Int → Option (Option (Sum (Option Int) (Vector Int 2))) := fun l => match l with
      | [] => some none
      | [0] => some (some (.inl none))
      | [0, x] => some (some (.inl (some x)))
      | [1, x, y] => some (some (.inr ⟨#[x, y], rfl⟩))
      | _ => none
    match dec a, dec b with
    | some x, some y =>
      let e := Opt.eq (SumV.eq (Opt.eq ieq) (MVec.eq ieq)) x y
      pure { eq := e, ne := Opt.ne (SumV.eq (Opt.eq ieq) (MVec.eq ieq)) x y,
             lt := some (Opt.lt (SumV.lt (Opt.lt ilt) (MVec.lt ilt)) x y) }
    | _, _ => bad
  | .unit =>
    match a, b with
    | [], [] => pure { eq := UnitT.eq () (), ne := UnitT.ne () () }
    | _, _ => bad
  | .itr =>
    let dec : List Int → Option (Int × Int) := fun l => match l with
      | [i, j] => if 0 ≤ i ∧ i ≤ j ∧ j ≤ 2 then some (i, j) else none
      | _ => none
    match dec a, dec b with
    | some x, some y => pure { eq := IterRange.eq ieq x y, ne := IterRange.ne ieq x y }
    | _, _ => bad

def relLine (ty : Ty) (a b : List Int) : String :=
  match relObs ty a b with
  | .ok o => o.show
  | .error e => e

/-- is `l` the encoding of a value of the type? -/
def valid (ty : Ty) (l : List Int) : Bool :=
  match relObs ty l l with
  | .ok _ => true
  | .error e => e != "bad-op"

/-- all lists of length k over {0, …, m-1}, first component most significant -/
def allLists (m : Nat) : Nat → List (List Int)
  | 0 => [[]]
  | k + 1 => (List.range m).flatMap fun (x : Nat) => (allLists m k).map fun r => (x : Int) :: r

def domain (ty : Ty) (maxlen : Nat) : List (List Int) :=
  (List.range (maxlen + 1)).flatMap fun k => (allLists 3 k).filter (valid ty)

def relsDigest (ty : Ty) (maxlen : Nat) (a : List Int) : String :=
  let d := domain ty maxlen
  let h := d.foldl (fun h b => fnv h (relLine ty a b)) fnvInit
  s!"D n={d.length} {hex64 h}"

/-- the same object on both sides: in the value model, the value against itself -/
def selfsDigest (ty : Ty) (maxlen : Nat) : String :=
  let d := domain ty maxlen
  let h := d.foldl (fun h a => fnv h (relLine ty a a)) fnvInit
  s!"D n={d.length} {hex64 h}"

def b16 : List Int := [-32768, -32767, -257, -256, -129, -128, -1, 0, 1, 127, 128, 255, 256, 32766, 32767]
def b32 : List Int := [-2147483648, -2147483647, -16777217, -16777216, -65537, -65536, -32769, -32768, -1, 0, 1,
                       32767, 32768, 65535, 65536, 16777216, 16777217, 2147483646, 2147483647]

/-- all pairs (u, v) of boundary values at position `pos`, the other components as in `base` -/
def relbDigest (ty : Ty) (base : List Int) (pos : Nat) (kind : Nat) : String :=
  let vals := if kind = 0 then b16 else b32
  let h := vals.foldl (fun h u => vals.foldl (fun h v => fnv h (relLine ty (base.set pos u) (base.set pos v))) h) fnvInit
  "D " ++ hex64 h

/-- (eq, lt) of a pair as the model sees them; `lt = none` when not offered -/
def eqLt (ty : Ty) (a b : List Int) : Bool × Option Bool :=
  match relObs ty a b with
  | .ok o => (o.eq, o.lt)
  | .error _ => (false, none)

structure TriFlags where
  sym : Bool
  eqt : Bool
  ltt : Bool
  inc : Bool
  cmp : Bool

abbrev EL := Bool × Option Bool

/-- violations on a triple (a, b, c), from the (eq, lt) observations of the six ordered pairs -/
def triFlagsOf (ab ba bc cb ac ca : EL) : TriFlags :=
  let g := fun (o : Option Bool) => o.getD false
  let incomp := fun (x y : Option Bool) => !(g x) && !(g y)
  let lab := ab.2
  { sym := ab.1 != ba.1
    eqt := ab.1 && bc.1 && !ac.1
    ltt := lab.isSome && g lab && g bc.2 && !(g ac.2)
    inc := lab.isSome && incomp lab ba.2 && incomp bc.2 cb.2 && !(incomp ac.2 ca.2)
    cmp := lab.isSome && ab.1 && (g ac.2 != g bc.2 || g ca.2 != g cb.2) }

def triFlags (ty : Ty) (a b c : List Int) : TriFlags :=
  triFlagsOf (eqLt ty a b) (eqLt ty b a) (eqLt ty b c) (eqLt ty c b) (eqLt ty a c) (eqLt ty c a)

def triLine (ty : Ty) (maxlen : Nat) (a : List Int) : String :=
  let d := (domain ty maxlen).toArray
  let n := d.size
  let row := d.map fun b => eqLt ty a b          -- (a, b)
  let col := d.map fun b => eqLt ty b a          -- (b, a)
  let mat := d.map fun b => d.map fun c => eqLt ty b c
  let z := (List.range n).foldl (fun acc i => (List.range n).foldl (fun (acc : Nat × Nat × Nat × Nat × Nat) j =>
      let f := triFlagsOf row[i]! col[i]! (mat[i]!)[j]! (mat[j]!)[i]! row[j]! col[j]!
      let (s, e, l, k, m) := acc
      (s + f.sym.toNat, e + f.eqt.toNat, l + f.ltt.toNat, k + f.inc.toNat, m + f.cmp.toNat)) acc) (0, 0, 0, 0, 0)
  let (s, e, l, i, k) := z
  s!"n={n * n} sym={s} eqt={e} ltt={l} inc={i} cmp={k}"

def tri1Line (ty : Ty) (a b c : List Int) : String :=
  let f := triFlags ty a b c
  s!"n=1 sym={f.sym.toNat} eqt={f.eqt.toNat} ltt={f.ltt.toNat} inc={f.inc.toNat} cmp={f.cmp.toNat}"

/-! ### wrappers -/

/-- `reference::get`, `recursive::get`, `*unique_ptr`, `*shared_ptr`, `undecorate (decorate x)` all show the
wrapped object; the store maps the address of the one object to its value -/
def showMI (r : M Int) : String := match r with | .ok v => toString v | .error f => f.name

def wrapLine (x : Int) : String :=
  let mem : Nat → Int := fun _ => x
  let r : Ref := ⟨0⟩
  let other : Int := IntTy.i32.bxor x 1
  -- recursive: copy, then write the other value through the copy
  let rec0 := RecCell.make x
  let copyThenSet : M (RecCell Int) := do let c ← rec0.copy; c.set other
  let reccopy := s!"{showMI (copyThenSet >>= RecCell.get)}/{showMI rec0.get}"
  -- copy assignment over another value, the source is changed afterwards
  let src := RecCell.make x
  let dst := RecCell.make other
  let dst' := RecCell.assign dst src false
  let src' := src.set other
  let recasg := s!"{showMI (dst' >>= RecCell.get)}/{showMI (src' >>= RecCell.get)}"
  let dstSelf : M (RecCell Int) := do let d ← dst'; RecCell.assign d d true
  let recself := showMI (dstSelf >>= RecCell.get)
  let recmv : M Int := do
    let d ← dstSelf
    let (mv, _) := d.move
    let (mv2, _) := mv.move
    mv2.get
  let sp : SPtr := ⟨1, 0⟩
  let up : UPtr := ⟨some 1⟩
  -- moved twice, released, adopted again by the pointer constructor
  let up2 : UPtr := ⟨(up.move.1.move.1.release).1⟩
  s!"ref={Ref.get mem r} same=1 rec={showMI rec0.get} uniq={showMI (up.get mem)} shared={showMI (SPtr.get mem sp)} iso={ST.undecorate (ST.decorate x)}" ++
  s!" reccopy={reccopy} recasg={recasg} recself={recself} recmv={showMI recmv} recrv={showMI (RecCell.make x).get}" ++
  s!" uniq2={showMI (up2.get mem)}/{x}/{x} sh2={x}/{x}/{x}/{x}/{x}/{x}"

def handle (toks : List String) : String :=
  match toks with
  | ["st", ty, a, b] =>
    match tyOf ty, a.toInt?, b.toInt? with
    | some t, some a, some b => if t.inRange a && t.inRange b then stLine t a b else "bad-op"
    | _, _, _ => "bad-op"
  | ["sts", ty, a, lo, hi] =>
    match tyOf ty, a.toInt?, lo.toInt?, hi.toInt? with
    | some t, some a, some lo, some hi =>
      if t.inRange a && t.inRange lo && t.inRange hi && lo ≤ hi then stsDigest t a lo hi else "bad-op"
    | _, _, _, _ => "bad-op"
  | ["stmem", ty, a, b] =>
    match tyOf ty, a.toInt?, b.toInt? with
    | some t, some a, some b => if t.inRange a && t.inRange b then stMemLine t a b else "bad-op"
    | _, _, _ => "bad-op"
  | ["stmems", ty, a, lo, hi] =>
    match tyOf ty, a.toInt?, lo.toInt?, hi.toInt? with
    | some t, some a, some lo, some hi =>
      if t.inRange a && t.inRange lo && t.inRange hi && lo ≤ hi then digestRange lo hi (stMemLine t a) else "bad-op"
    | _, _, _, _ => "bad-op"
  | ["stself", ty, a] =>
    match tyOf ty, a.toInt? with
    | some t, some a => if t.inRange a then stSelfLine t a else "bad-op"
    | _, _ => "bad-op"
  | ["stselfs", ty, lo, hi] =>
    match tyOf ty, lo.toInt?, hi.toInt? with
    | some t, some lo, some hi =>
      if t.inRange lo && t.inRange hi && lo ≤ hi then digestRange lo hi (stSelfLine t) else "bad-op"
    | _, _, _ => "bad-op"
  | ["rel", ty, a, b] =>
    match tyName ty, parseIntList a, parseIntList b with
    | some ty, some a, some b => relLine ty a b
    | _, _, _ => "bad-op"
  | ["relr", ty, ra, rb, a, b] =>
    -- the routes say how the harness builds the two values; the value does not depend on them
    match tyName ty, ra.toNat?, rb.toNat?, parseIntList a, parseIntList b with
    | some ty, some ra, some rb, some a, some b => if ra ≤ 15 && rb ≤ 15 then relLine ty a b else "bad-op"
    | _, _, _, _, _ => "bad-op"
  | ["relsr", ty, ml, ra, rb, a] =>
    match tyName ty, ml.toNat?, ra.toNat?, rb.toNat?, parseIntList a with
    | some ty, some ml, some ra, some rb, some a =>
      if valid ty a && ml ≤ 8 && ra ≤ 15 && rb ≤ 15 then relsDigest ty ml a else "bad-op"
    | _, _, _, _, _ => "bad-op"
  | ["self", ty, ra, a] =>
    match tyName ty, ra.toNat?, parseIntList a with
    | some ty, some ra, some a => if ra ≤ 15 then relLine ty a a else "bad-op"
    | _, _, _ => "bad-op"
  | ["selfs", ty, ml, ra] =>
    match tyName ty, ml.toNat?, ra.toNat? with
    | some ty, some ml, some ra => if ml ≤ 8 && ra ≤ 15 then selfsDigest ty ml else "bad-op"
    | _, _, _ => "bad-op"
  | ["relb", ty, base, pos, kind] =>
    match tyName ty, parseIntList base, pos.toNat?, kind.toNat? with
    | some ty, some base, some pos, some kind =>
      if valid ty base && pos < base.length && kind ≤ 1 then relbDigest ty base pos kind else "bad-op"
    | _, _, _, _ => "bad-op"
  | ["rels", ty, ml, a] =>
    match tyName ty, ml.toNat?, parseIntList a with
    | some ty, some ml, some a => if valid ty a && ml ≤ 8 then relsDigest ty ml a else "bad-op"
    | _, _, _ => "bad-op"
  | ["tri", ty, ml, a] =>
    match tyName ty, ml.toNat?, parseIntList a with
    | some ty, some ml, some a => if valid ty a && ml ≤ 8 then triLine ty ml a else "bad-op"
    | _, _, _ => "bad-op"
  | ["tri1", ty, a, b, c] =>
    match tyName ty, parseIntList a, parseIntList b, parseIntList c with
    | some ty, some a, some b, some c => if valid ty a && valid ty b && valid ty c then tri1Line ty a b c else "bad-op"
    | _, _, _, _ => "bad-op"
  -- element types whose == is not bit equality and whose order is partial (double, float, a padded struct): the harness
  -- compares the wrapper's operators with the built-in / element-wise ones (`transparent_*`, `std_equal_*`,
  -- `lexicographical_compare_*` are generic in the element type); nothing depends on an input
  | ["fpchk", k] => if k ∈ ["std", "stf", "rvd", "rvp", "cont"] then "ok" else "bad-op"
  | ["wrap", x] =>
    match x.toInt? with
    | some x => if IntTy.i32.inRange x then wrapLine x else "bad-op"
    | none => "bad-op"
  | _ => "bad-op"

def main : IO Unit := Proto.run handle

end Fcppt.C17.Drv
