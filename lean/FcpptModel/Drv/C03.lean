import FcpptModel.Prelude.Proto
/-! Driver for C03 — placeholder until the property's model is built. -/
namespace Fcppt.C03.Drv
def main : IO Unit := Fcppt.Proto.run (fun _ => "not-built")
end Fcppt.C03.Drv
