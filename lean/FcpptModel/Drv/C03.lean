import FcpptModel.Prelude.Proto
import FcpptModel.Model.C03.Shapes
import FcpptModel.Spec.C03
/-!
Driver for C03.  Operations (one per line); in an argument token `~` stands for the empty string and `\\s`, `\\t`, `\\n`,
`\\\\` for a blank, a tab, a line break and a backslash.
`<shape>` is a shape number of `Shapes.lean`, optionally followed by `@` and a comma-separated list of option names
(`--long` / `-short`): the explicit `parse_context` the parser's own `parse` member is called with (default: the parser's
own `option_names()`).

* `run <shape> <tok>*`   — construct the shape, parse the argument vector.
     result  `exc:duplicate-names msg=TEXT` | `exc:options msg=TEXT`      (constructor threw; TEXT = what the exception says)
             `diverge`                                                     (fuel exhausted)
             `P=<ok REC|error msg=TEXT> R=<ok REC rest=TOKS|missing rest=TOKS msg=TEXT|other msg=TEXT>`
                    (`options::parse`, the `error` printed through its `operator<<` / the parser's own `parse` member;
                     `missing` shows the state and the text the `missing_error` carries)
             `H=<help text=TEXT|ok REC|error msg=TEXT> R=…`               (shapes run through `parse_help`)
     TEXT: `\` for a backslash, `\n` for a line break, `~` for the empty text
* `hang <shape> <tok>*`  — the same (the harness runs it under a short watchdog)
* `ex <shape> <n> <k> <alphabet: k tokens> <prefix tokens>*` — FNV digest over the `run` lines of all argument
     vectors of length `n` over the alphabet that start with the prefix (last position varies fastest)
* `perm <shape> <tok>*`  — digest over the `run` lines of all orders of the tokens (every remaining token in turn as the next one)
* `weave <shape> <e> <e tokens> <base tokens>*` — digest over all merges of the two vectors that keep both orders
     (woven-in token first)
* `oncmp <name>*` — `operator==` and `operator<` of `option_name` on every ordered pair of the names (`--long` / `-short`):
     one group per left operand, two characters per right operand (`=`/`.`, `<`/`.`)
* `isopt <tok>*` — `fcppt::options::is_option` of every token (`1`/`0`)
* `info <shape>` — `flag_names()` / `option_names()` of every parser object the harness constructs, in construction order,
     its `usage()` string, and name and help text of every `sub_command` (`F=… O=… U=TEXT | … | C=name T=TEXT|none | …`)
-/
namespace Fcppt.C03.Drv
open Fcppt.Proto

/-- tokens on the lines: `~` = the empty string, `\\s` `\\t` `\\n` `\\\\` = blank, tab, line break, backslash -/
def decodeChars : List Char → List Char
  | '\\' :: c :: r => (if c = 's' then ' ' else if c = 't' then '\t' else if c = 'n' then '\n' else c) :: decodeChars r
  | c :: r => c :: decodeChars r
  | [] => []

def decodeTok (s : String) : String := if s = "~" then "" else String.ofList (decodeChars s.toList)

def encodeTok (s : String) : String :=
  if s = "" then "~" else
  String.join (s.toList.map fun c =>
    if c = ' ' then "\\s" else if c = '\t' then "\\t" else if c = '\n' then "\\n" else if c = '\\' then "\\\\" else c.toString)

/-- insertion sort of record fields by label -/
def insertField (x : String × String) : List (String × String) → List (String × String)
  | [] => [x]
  | y :: r => if x.1 ≤ y.1 then x :: y :: r else y :: insertField x r

def sortFields (l : List (String × String)) : List (String × String) := l.foldr insertField []

partial def showVal : Val → String
  | .int i => toString i
  | .str s => encodeTok s
  | .bool b => if b then "true" else "false"
  | .enm i => s!"e{i}"
  | .unit => "()"
  | .none => "none"
  | .some v => "some(" ++ showVal v ++ ")"
  | .list l => "[" ++ ";".intercalate (l.map showVal) ++ "]"
  | .left v => "L" ++ showVal v
  | .right v => "R" ++ showVal v
  | .recd fs => "{" ++ ",".intercalate ((sortFields (fs.map fun (l, v) => (l, showVal v))).map fun (l, s) => l ++ "=" ++ s) ++ "}"

def showRec (r : Rec) : String := showVal (.recd r)

def showToks (l : List Arg) : String := if l.isEmpty then "-" else ",".intercalate (l.map fun a => encodeTok a.2)

/-- a text on one line -/
def esc (s : String) : String :=
  if s.isEmpty then "~" else
  String.join (s.toList.map fun c => if c = '\\' then "\\\\" else if c = '\n' then "\\n" else c.toString)

def excName (e : Exc) : String :=
  (match e.kind with
  | .duplicateNames => "exc:duplicate-names"
  | .optionsException => "exc:options"
  | _ => "exc:other") ++ " msg=" ++ esc e.msg

def showFlagNames (s : List String) : String :=
  if s.isEmpty then "-" else ",".intercalate (s.map encodeTok)

def showOptionNames (s : Ctx) : String :=
  if s.isEmpty then "-" else ",".intercalate (s.map fun (n, sh) => encodeTok n ++ (if sh then ":s" else ":l"))

/-- the `long_name()` / `short_name()` accessors of `flag`, `switch_`, `unit_switch` -/
def accessorNames : OP → String
  | .flag _ sh lg _ _ _ | .unitSwitch _ sh lg => s!" N={encodeTok lg}/" ++ (match sh with | none => "none" | some s => encodeTok s)
  | _ => ""

def nodeLine : Node → String
  | .parser p => s!"F={showFlagNames p.flagNameSet} O={showOptionNames p.optionNameSet} U={esc p.usage}" ++ accessorNames p
  | .erased p => s!"F={showFlagNames p.flagNameSet} O={showOptionNames p.optionNameSet} U={esc p.usage}"
  | .sub n h => s!"C={encodeTok n} T=" ++ (match h with | none => "none" | some t => esc t)

def rawPart (f : Nat) (p : OP) (args : List String) (ctx : Option Ctx) : String :=
  match parse f p (index args) (ctx.getD p.optionNames) with
  | .ok (st, r, _) => s!"ok {showRec r} rest={showToks st}"
  | .error (.missing st m) => s!"missing rest={showToks st} msg={esc m}"
  | .error (.other m) => s!"other msg={esc m}"
  | .error .diverge => "diverge"

def runLine (s : Shape) (ctx : Option Ctx) (args : List String) : String :=
  match construct s.op with
  | .error k => excName k
  | .ok () =>
    match s.help with
    | none =>
      let f := fuelFor s.op args.length
      match parseTop f s.op args with
      | .error .diverge => "diverge"
      | .error (.error m) => s!"P=error msg={esc m} R={rawPart f s.op args ctx}"
      | .ok (r, _) => s!"P=ok {showRec r} R={rawPart f s.op args ctx}"
    | some (hsh, hlg) =>
      let f := fuelFor (helpSum hsh hlg s.op) args.length
      match parseHelp f hsh hlg s.op args with
      | .error .diverge => "diverge"
      | .error (.error m) => s!"H=error msg={esc m} R={rawPart f s.op args ctx}"
      | .ok (.help t) => s!"H=help text={esc t} R={rawPart f s.op args ctx}"
      | .ok (.result r _) => s!"H=ok {showRec r} R={rawPart f s.op args ctx}"

def infoLine (s : Shape) : String :=
  match construct s.op with
  | .error k => excName k
  | .ok () =>
    let hs := match s.help with
      | none => []
      | some (hsh, hlg) => [Node.parser (.unitSwitch "h" hsh hlg)]
    " | ".intercalate ((s.nodes ++ hs).map nodeLine)

/-- all vectors of length `n` over `alpha` (last position fastest), each appended to `pre` -/
def digestAll (line : List String → String) (alpha : List String) : Nat → List String → UInt64 → UInt64
  | 0, pre, h => fnv h (line pre.reverse)
  | n + 1, pre, h => alpha.foldl (fun h t => digestAll line alpha n (t :: pre) h) h

/-- `l` without its `i`-th element -/
def without (l : List String) (i : Nat) : List String := l.take i ++ l.drop (i + 1)

/-- every remaining token in turn as the next element (fuel = number of remaining tokens) -/
def digestPerm (line : List String → String) : Nat → List String → List String → UInt64 → UInt64
  | 0, pre, _, h => fnv h (line pre.reverse)
  | n + 1, pre, rest, h =>
    (List.range rest.length).foldl (fun h i => digestPerm line n (rest[i]! :: pre) (without rest i) h) h

/-- all merges of `e` (first) and `b` that keep both orders -/
def digestWeave (line : List String → String) : Nat → List String → List String → List String → UInt64 → UInt64
  | 0, pre, _, _, h => fnv h (line pre.reverse)
  | _ + 1, pre, [], [], h => fnv h (line pre.reverse)
  | n + 1, pre, e, b, h =>
    let h1 := match e with
      | [] => h
      | x :: e' => digestWeave line n (x :: pre) e' b h
    match b with
    | [] => h1
    | y :: b' => digestWeave line n (y :: pre) e b' h1

/-- `--long` / `-short` -/
def ctxName (s : String) : Option (String × Bool) :=
  match s.toList with
  | '-' :: '-' :: r => some (String.ofList r, false)
  | '-' :: r => some (String.ofList r, true)
  | _ => none

def isDigits (s : String) : Bool := !s.isEmpty && s.toList.all fun c => '0' ≤ c && c ≤ '9'

/-- `<id>` | `<id>@` | `<id>@--long,-short,…` -/
def getShape (tok : String) : Option (Shape × Option Ctx) :=
  match tok.splitOn "@" with
  | [sid] => if isDigits sid then (shapes[sid.toNat!]?).map fun s => (s, none) else none
  | [sid, names] =>
    if !isDigits sid then none else
    match shapes[sid.toNat!]? with
    | none => none
    | some s =>
      if names = "" then some (s, some [])
      else ((names.splitOn ",").mapM ctxName).map fun c => (s, some c)
  | _ => none

def guarded (s : Shape) (k : Unit → String) : String :=
  match construct s.op with
  | .error e => excName e      -- the constructor throws before anything is enumerated
  | .ok () => k ()

def handle (toks : List String) : String :=
  match toks with
  | "oncmp" :: names =>
    match names.mapM ctxName with
    | none => "bad-op"
    | some ns =>
      String.join ("N" :: ns.map fun a => " " ++ String.join (ns.map fun b =>
        (if a == b then "=" else ".") ++ (if optLt a b then "<" else ".")))
  | "isopt" :: toks => "I " ++ String.join (toks.map fun t => if flagLike (decodeTok t) then "1" else "0")
  | "run" :: sid :: args | "hang" :: sid :: args =>
    match getShape sid with
    | some (s, c) => runLine s c (args.map decodeTok)
    | none => "bad-op"
  | ["info", sid] =>
    match getShape sid with
    | some (s, _) => infoLine s
    | none => "bad-op"
  | "perm" :: sid :: args =>
    match getShape sid with
    | some (s, c) =>
      if args.length > 8 then "bad-op"
      else guarded s fun _ => "D " ++ hex64 (digestPerm (runLine s c) args.length [] (args.map decodeTok) fnvInit)
    | none => "bad-op"
  | "weave" :: sid :: e :: rest =>
    match getShape sid, e.toNat? with
    | some (s, c), some e =>
      if rest.length < e then "bad-op"
      else guarded s fun _ =>
        "D " ++ hex64 (digestWeave (runLine s c) rest.length [] ((rest.take e).map decodeTok) ((rest.drop e).map decodeTok) fnvInit)
    | _, _ => "bad-op"
  | "ex" :: sid :: n :: k :: rest =>
    match getShape sid, n.toNat?, k.toNat? with
    | some (s, c), some n, some k =>
      if k = 0 ∨ rest.length < k then "bad-op" else
      let alpha := (rest.take k).map decodeTok
      let pre := (rest.drop k).map decodeTok
      if pre.length > n then "bad-op"
      else guarded s fun _ => "D " ++ hex64 (digestAll (runLine s c) alpha (n - pre.length) pre.reverse fnvInit)
    | _, _, _ => "bad-op"
  | _ => "bad-op"

def main : IO Unit := Proto.run handle

end Fcppt.C03.Drv
