import FcpptModel.Prelude.Proto
import FcpptModel.Model.C03.Shapes
/-!
Driver for C03.  Operations (one per line); an argument token `~` stands for the empty string:

* `run <shape> <tok>*`   — construct shape number `<shape>` of `Shapes.lean`, parse the argument vector.
     result  `exc:duplicate-names` | `exc:options`                        (constructor threw)
             `diverge`                                                     (fuel exhausted)
             `P=<ok REC|error> R=<ok REC rest=TOKS|missing|other>`         (`parse` / the parser's own `parse` member)
             `H=<help|ok REC|error> R=…`                                   (shapes run through `parse_help`)
* `hang <shape> <tok>*`  — the same (the harness runs it under a short watchdog)
* `ex <shape> <n> <k> <alphabet: k tokens> <prefix tokens>*` — FNV digest over the `run` lines of all argument
     vectors of length `n` over the alphabet that start with the prefix (last position varies fastest)
-/
namespace Fcppt.C03.Drv
open Fcppt.Proto

def decodeTok (s : String) : String := if s = "~" then "" else s
def encodeTok (s : String) : String := if s = "" then "~" else s

/-- insertion sort of record fields by label -/
def insertField (x : String × String) : List (String × String) → List (String × String)
  | [] => [x]
  | y :: r => if x.1 ≤ y.1 then x :: y :: r else y :: insertField x r

def sortFields (l : List (String × String)) : List (String × String) := l.foldr insertField []

partial def showVal : Val → String
  | .int i => toString i
  | .str s => encodeTok s
  | .bool b => if b then "true" else "false"
  | .enm i => s!"e{i}"
  | .unit => "()"
  | .none => "none"
  | .some v => "some(" ++ showVal v ++ ")"
  | .list l => "[" ++ ";".intercalate (l.map showVal) ++ "]"
  | .left v => "L" ++ showVal v
  | .right v => "R" ++ showVal v
  | .recd fs => "{" ++ ",".intercalate ((sortFields (fs.map fun (l, v) => (l, showVal v))).map fun (l, s) => l ++ "=" ++ s) ++ "}"

def showRec (r : Rec) : String := showVal (.recd r)

def showToks (l : List Arg) : String := if l.isEmpty then "-" else ",".intercalate (l.map fun a => encodeTok a.2)

def excName : ExcKind → String
  | .duplicateNames => "exc:duplicate-names"
  | .optionsException => "exc:options"
  | _ => "exc:other"

def rawPart (f : Nat) (p : OP) (args : List String) : String :=
  match parse f p (index args) p.optionNames with
  | .ok (st, r, _) => s!"ok {showRec r} rest={showToks st}"
  | .error (.missing _) => "missing"
  | .error .other => "other"
  | .error .diverge => "diverge"

def runLine (s : Shape) (args : List String) : String :=
  match construct s.op with
  | .error k => excName k
  | .ok () =>
    match s.help with
    | none =>
      let f := fuelFor s.op args.length
      match parseTop f s.op args with
      | .error .diverge => "diverge"
      | .error .error => s!"P=error R={rawPart f s.op args}"
      | .ok (r, _) => s!"P=ok {showRec r} R={rawPart f s.op args}"
    | some (hsh, hlg) =>
      let f := fuelFor (helpSum hsh hlg s.op) args.length
      match parseHelp f hsh hlg s.op args with
      | .error .diverge => "diverge"
      | .error .error => s!"H=error R={rawPart f s.op args}"
      | .ok .help => s!"H=help R={rawPart f s.op args}"
      | .ok (.result r _) => s!"H=ok {showRec r} R={rawPart f s.op args}"

/-- all vectors of length `n` over `alpha` (last position fastest), each appended to `pre` -/
def digestAll (s : Shape) (alpha : List String) : Nat → List String → UInt64 → UInt64
  | 0, pre, h => fnv h (runLine s pre.reverse)
  | n + 1, pre, h => alpha.foldl (fun h t => digestAll s alpha n (t :: pre) h) h

def getShape (sid : String) : Option Shape :=
  match sid.toNat? with
  | some i => shapes[i]?
  | none => none

def handle (toks : List String) : String :=
  match toks with
  | "run" :: sid :: args | "hang" :: sid :: args =>
    match getShape sid with
    | some s => runLine s (args.map decodeTok)
    | none => "bad-op"
  | "ex" :: sid :: n :: k :: rest =>
    match getShape sid, n.toNat?, k.toNat? with
    | some s, some n, some k =>
      if k = 0 ∨ rest.length < k then "bad-op" else
      let alpha := (rest.take k).map decodeTok
      let pre := (rest.drop k).map decodeTok
      if pre.length > n then "bad-op"
      else match construct s.op with
      | .error e => excName e      -- the constructor throws before anything is enumerated
      | .ok () => "D " ++ hex64 (digestAll s alpha (n - pre.length) pre.reverse fnvInit)
    | _, _, _ => "bad-op"
  | _ => "bad-op"

def main : IO Unit := Proto.run handle

end Fcppt.C03.Drv
