import FcpptModel.Prelude.Proto
import FcpptModel.Spec.C10
/-!
Driver for C10.  Operations (one per line; `n` = enum size, `w` = word width):

* `pair n w A B`   — A, B subsets of {0..n-1} given as bit masks; prints members *and words* of
                     `| & ^ ~`, `is_subset_eq == !=`, the exact hash values, the results of the
                     operators applied with the same object on both sides, the canonical-rebuild flag
* `pairs n w A`    — digest of the `pair` lines for all B in [0, 2^n)
* `bit n w A i`    — every way of writing bit `i` of the bitfield A (set, `operator[] =`, copied /
                     moved proxy, re-bound proxy, `|= e`, `| e`) to true and to false: the words after
                     each, what mutable proxies read afterwards, and whether writing the saved value
                     back restores the array
* `bits n w A`     — digest of the `bit` lines for all i < n
* `mask w k` / `test w x k` — `fcppt::bit::shifted_mask<W>(k)`, `fcppt::bit::test(x, shifted_mask<W>(k))`
* `expr n w <rpn> ; <rpn>` — two expressions in reverse Polish notation over
    `L<mask>` initializer list (ascending)      `D<i>.<j>...` initializer list in this order (duplicates allowed, <= 64)
    `I<mask>` init                              `A<x0>.<x1>...` raw-array constructor
    `N` null()                                  `Z` empty initializer list
    `S<i>` `U<i>` set true/false                `T<i>` `F<i>` operator[] = true/false
    `M<i>.<v>` copied+moved proxy = v           `C<i>.<j>.<v>` p = bf[i]; q = bf[j]; p = q; p = v
    `O<i>` bf |= e                              `o<i>` bf = bf | e
    `W<k>.<x>` *(bf.array().begin() + k) = x
    `|` `&` `^` binary                          `|=` `&=` `^=` assigning forms
    `|@` `&@` `^@` x op= x (same object)        `|2` `&2` `^2` x = x op x
    `=@` self-assignment                        `~`
  prints member masks and words of both, `==`, `!=`, exact hashes, subset both ways, canonical flag,
  `underlying_value` (or `-`), `operator<<` output.
-/
namespace Fcppt.C10.Drv
open Fcppt.Proto

def maskToList (n m : Nat) : List Nat := (List.range n).filter (fun i => m.testBit i)
def listToMask (l : List Nat) : Nat := l.foldl (fun m i => m ||| (1 <<< i)) 0

def obs {w : Nat} (n : Nat) (a : Words w) : Nat := listToMask (members n a)

def ws {w : Nat} (a : Words w) : String := natList (a.map BitVec.toNat)

/-- canonical rebuild through `init` from what `get` observes -/
def canon {w : Nat} (n : Nat) (a : Words w) : Words w := init n w (fun i => get a i)

def isCanon {w : Nat} (n : Nat) (a : Words w) : Bool :=
  let c := canon n a
  eq a c && !(ne a c) && (hash64 a == hash64 c)

def mw {w : Nat} (n : Nat) (a : Words w) : String := s!"{obs n a}/{ws a}"

/-- the part of a `pair` line that depends on the first operand only -/
def pairA {w : Nat} (n : Nat) (a : Words w) : String :=
  let c := not n a
  s!"na={mw n c} ha={hash64 a} hc={hash64 c} self={ws (or a a)}/{ws (and a a)}/{ws (xor a a)}/{b01 (eq a a)}{b01 (isSubsetEq a a)} canonc={b01 (isCanon n c)}"

def pairB {w : Nat} (n : Nat) (a : Words w) (B : Nat) : String :=
  let b : Words w := ofList n w (maskToList n B)
  let o := or a b; let n_ := and a b; let x := xor a b
  let e := eq a b
  s!"or={mw n o} and={mw n n_} xor={mw n x} sub={b01 (isSubsetEq a b)} eq={b01 e} ne={b01 (ne a b)} " ++
  s!"hx={hash64 x} canon={b01 (isCanon n o && isCanon n n_ && isCanon n x)} pure=1"

def pairLine (n w A B : Nat) : String :=
  let a : Words w := ofList n w (maskToList n A)
  pairB n a B ++ " " ++ pairA n a

def pairsDigest (n w A : Nat) : String :=
  let a : Words w := ofList n w (maskToList n A)
  let sa := " " ++ pairA n a
  let h := (List.range (2 ^ n)).foldl (fun h B => fnv h (pairB n a B ++ sa)) fnvInit
  "D " ++ hex64 h

def bitLine (n w A i : Nat) : String :=
  let a : Words w := ofList n w (maskToList n A)
  let g := get a i
  let j := (i + 1) % n
  let p : Proxy := Proxy.mk' j
  let q : Proxy := Proxy.mk' i
  let s1 := set a i true
  let s0 := set a i false
  let t1 := Proxy.assignBool a (Proxy.mk' i) true
  let t0 := Proxy.assignBool a (Proxy.mk' i) false
  let c1 := Proxy.assignBool a (Proxy.assignProxy p q) true
  let c0 := Proxy.assignBool a (Proxy.assignProxy p q) false
  let rest := eq (set s1 i g) a && eq (set s0 i g) a
  s!"S1={ws s1} T1={ws t1} M1={ws t1} C1={ws c1} O1={ws (orIdx a i)} o1={ws (orIdx a i)} " ++
  s!"S0={ws s0} T0={ws t0} M0={ws t0} C0={ws c0} rd={obs n s1},{obs n s0} ps={b01 (Proxy.toBool s1 q)}{b01 (Proxy.toBool s0 q)} cr={b01 (Proxy.toBool a (Proxy.assignProxy q p))} rest={b01 rest} g={b01 g}"

def bitsDigest (n w A : Nat) : String :=
  let h := (List.range n).foldl (fun h i => fnv h (bitLine n w A i)) fnvInit
  "D " ++ hex64 h

def parseDots (s : String) : Option (List Nat) := (s.splitOn ".").mapM String.toNat?

/-- evaluate an RPN token list on a stack of bitfields -/
def rpn {w : Nat} (n : Nat) : List String → List (Words w) → Option (Words w)
  | [], [a] => some a
  | [], _ => none
  | t :: ts, st =>
    match t, st with
    | "|", b :: a :: st => rpn n ts (or a b :: st)
    | "&", b :: a :: st => rpn n ts (and a b :: st)
    | "^", b :: a :: st => rpn n ts (xor a b :: st)
    | "|=", b :: a :: st => rpn n ts (or a b :: st)
    | "&=", b :: a :: st => rpn n ts (and a b :: st)
    | "^=", b :: a :: st => rpn n ts (xor a b :: st)
    | "|@", a :: st => rpn n ts (or a a :: st)
    | "&@", a :: st => rpn n ts (and a a :: st)
    | "^@", a :: st => rpn n ts (xor a a :: st)
    | "|2", a :: st => rpn n ts (or a a :: st)
    | "&2", a :: st => rpn n ts (and a a :: st)
    | "^2", a :: st => rpn n ts (xor a a :: st)
    | "=@", a :: st => rpn n ts (a :: st)
    | "~", a :: st => rpn n ts (not n a :: st)
    | "N", st => rpn n ts (null n w :: st)
    | "Z", st => rpn n ts (ofList n w [] :: st)
    | _, st =>
      let args := parseDots (t.drop 1).toString
      match t.front, args, st with
      | 'L', some [m], st => if m < 2 ^ n then rpn n ts (ofList n w (maskToList n m) :: st) else none
      | 'D', some l, st => if l.all (· < n) ∧ l.length ≤ 64 then rpn n ts (ofList n w l :: st) else none
      | 'I', some [m], st => if m < 2 ^ n then rpn n ts (init n w (fun i => m.testBit i) :: st) else none
      | 'A', some l, st =>
        if l.length = nwords n w ∧ l.all (· < 2 ^ w) then rpn n ts (ofArray (l.map (BitVec.ofNat w)) :: st) else none
      | 'S', some [i], a :: st => if i < n then rpn n ts (set a i true :: st) else none
      | 'U', some [i], a :: st => if i < n then rpn n ts (set a i false :: st) else none
      | 'T', some [i], a :: st => if i < n then rpn n ts (Proxy.assignBool a (Proxy.mk' i) true :: st) else none
      | 'F', some [i], a :: st => if i < n then rpn n ts (Proxy.assignBool a (Proxy.mk' i) false :: st) else none
      | 'M', some [i, v], a :: st =>
        if i < n ∧ v < 2 then rpn n ts (Proxy.assignBool a (Proxy.mk' i) (v == 1) :: st) else none
      | 'C', some [i, j, v], a :: st =>
        if i < n ∧ j < n ∧ v < 2 then
          rpn n ts (Proxy.assignBool a (Proxy.assignProxy (Proxy.mk' i) (Proxy.mk' j)) (v == 1) :: st)
        else none
      | 'O', some [i], a :: st => if i < n then rpn n ts (orIdx a i :: st) else none
      | 'o', some [i], a :: st => if i < n then rpn n ts (orIdx a i :: st) else none
      | 'W', some [k, x], a :: st =>
        if k < nwords n w ∧ x < 2 ^ w then rpn n ts (poke a k (BitVec.ofNat w x) :: st) else none
      | _, _, _ => none

def outStr {w : Nat} (n : Nat) (a : Words w) : String :=
  String.join (output (fun i => s!"v{i}") n a)

def uvStr {w : Nat} (a : Words w) : String :=
  match underlyingValue a with
  | some x => toString x.toNat
  | none => "-"

def exprLine (n w : Nat) (toks : List String) : String :=
  let (l, r) := toks.span (· ≠ ";")
  match rpn (w := w) n l [], rpn (w := w) n (r.drop 1) [] with
  | some a, some b =>
    let e := eq a b
    s!"m1={mw n a} m2={mw n b} eq={b01 e} ne={b01 (ne a b)} h1={hash64 a} h2={hash64 b} " ++
    s!"sub={b01 (isSubsetEq a b)} bus={b01 (isSubsetEq b a)} canon={b01 (isCanon n a)}{b01 (isCanon n b)} " ++
    s!"uv={uvStr a},{uvStr b} out={outStr n a}"
  | _, _ => "bad-op"

def handle (toks : List String) : String :=
  match toks with
  | ["pair", n, w, a, b] =>
    match n.toNat?, w.toNat?, a.toNat?, b.toNat? with
    | some n, some w, some a, some b => if 0 < w ∧ a < 2 ^ n ∧ b < 2 ^ n then pairLine n w a b else "bad-op"
    | _, _, _, _ => "bad-op"
  | ["pairs", n, w, a] =>
    match n.toNat?, w.toNat?, a.toNat? with
    | some n, some w, some a => if 0 < w ∧ a < 2 ^ n then pairsDigest n w a else "bad-op"
    | _, _, _ => "bad-op"
  | ["bit", n, w, a, i] =>
    match n.toNat?, w.toNat?, a.toNat?, i.toNat? with
    | some n, some w, some a, some i => if 0 < w ∧ a < 2 ^ n ∧ i < n then bitLine n w a i else "bad-op"
    | _, _, _, _ => "bad-op"
  | ["bits", n, w, a] =>
    match n.toNat?, w.toNat?, a.toNat? with
    | some n, some w, some a => if 0 < w ∧ a < 2 ^ n then bitsDigest n w a else "bad-op"
    | _, _, _ => "bad-op"
  | ["mask", w, k] =>
    match w.toNat?, k.toNat? with
    | some w, some k => if w ∈ [8, 16, 32, 64] ∧ k < w then toString (mask w k).toNat else "bad-op"
    | _, _ => "bad-op"
  | ["test", w, x, k] =>
    match w.toNat?, x.toNat?, k.toNat? with
    | some w, some x, some k =>
      if w ∈ [8, 16, 32, 64] ∧ k < w ∧ x < 2 ^ w then b01 (bitTest (BitVec.ofNat w x) (mask w k)) else "bad-op"
    | _, _, _ => "bad-op"
  | "expr" :: n :: w :: rest =>
    match n.toNat?, w.toNat? with
    | some n, some w => if 0 < w then exprLine n w rest else "bad-op"
    | _, _ => "bad-op"
  | _ => "bad-op"

def main : IO Unit := Proto.run handle

end Fcppt.C10.Drv
