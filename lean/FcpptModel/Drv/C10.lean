import FcpptModel.Prelude.Proto
import FcpptModel.Spec.C10
/-!
Driver for C10.  Operations (one per line):

* `pair n w A B`   — A, B subsets of {0..n-1} given as bit masks; prints the observations of
                     `| & ^ ~ is_subset_eq == != hash` on the two bitfields
* `pairs n w A`    — digest of the `pair` lines for all B in [0, 2^n)
* `expr n w <rpn> ; <rpn>` — two expressions in reverse Polish notation over
                     `L<mask>` (initializer list) `I<mask>` (init) `S<i>` `U<i>` (set true/false)
                     `| & ^ ~`; prints both member masks, `==`, `!=`, hash agreement, subset
-/
namespace Fcppt.C10.Drv
open Fcppt.Proto

def maskToList (n m : Nat) : List Nat := (List.range n).filter (fun i => m.testBit i)
def listToMask (l : List Nat) : Nat := l.foldl (fun m i => m ||| (1 <<< i)) 0

def obs {w : Nat} (n : Nat) (a : Words w) : Nat := listToMask (members n a)

/-- canonical rebuild through `init` from what `get` observes -/
def canon {w : Nat} (n : Nat) (a : Words w) : Words w := init n w (fun i => get a i)

def isCanon {w : Nat} (n : Nat) (a : Words w) : Bool :=
  let c := canon n a
  eq a c && !(ne a c) && (hash (fun x y => x * 31 + y) BitVec.toNat a == hash (fun x y => x * 31 + y) BitVec.toNat c)

def pairLine (n w A B : Nat) : String :=
  let a : Words w := ofList n w (maskToList n A)
  let b : Words w := ofList n w (maskToList n B)
  let o := or a b; let n_ := and a b; let x := xor a b; let c := not n a
  let e := eq a b
  s!"or={obs n o} and={obs n n_} xor={obs n x} na={obs n c} sub={b01 (isSubsetEq a b)} eq={b01 e} ne={b01 (ne a b)} heq={if e then "1" else "-"} canon={b01 (isCanon n o && isCanon n n_ && isCanon n x && isCanon n c)}"

def pairsDigest (n w A : Nat) : String :=
  let h := (List.range (2 ^ n)).foldl (fun h B => fnv h (pairLine n w A B)) fnvInit
  "D " ++ hex64 h

/-- evaluate an RPN token list on a stack of bitfields -/
def rpn {w : Nat} (n : Nat) : List String → List (Words w) → Option (Words w)
  | [], [a] => some a
  | [], _ => none
  | t :: ts, st =>
    let arg := (t.drop 1).toNat?
    match t.get 0, arg, st with
    | 'L', some m, st => rpn n ts (ofList n w (maskToList n m) :: st)
    | 'I', some m, st => rpn n ts (init n w (fun i => m.testBit i) :: st)
    | 'S', some i, a :: st => if i < n then rpn n ts (set a i true :: st) else none
    | 'U', some i, a :: st => if i < n then rpn n ts (set a i false :: st) else none
    | '|', _, b :: a :: st => rpn n ts (or a b :: st)
    | '&', _, b :: a :: st => rpn n ts (and a b :: st)
    | '^', _, b :: a :: st => rpn n ts (xor a b :: st)
    | '~', _, a :: st => rpn n ts (not n a :: st)
    | _, _, _ => none

def exprLine (n w : Nat) (toks : List String) : String :=
  let (l, r) := toks.span (· ≠ ";")
  match rpn (w := w) n l [], rpn (w := w) n (r.drop 1) [] with
  | some a, some b =>
    let e := eq a b
    s!"m1={obs n a} m2={obs n b} eq={b01 e} ne={b01 (ne a b)} heq={if e then "1" else "-"} sub={b01 (isSubsetEq a b)} canon={b01 (isCanon n a && isCanon n b)}"
  | _, _ => "bad-op"

def handle (toks : List String) : String :=
  match toks with
  | ["pair", n, w, a, b] =>
    match n.toNat?, w.toNat?, a.toNat?, b.toNat? with
    | some n, some w, some a, some b => if 0 < w ∧ a < 2 ^ n ∧ b < 2 ^ n then pairLine n w a b else "bad-op"
    | _, _, _, _ => "bad-op"
  | ["pairs", n, w, a] =>
    match n.toNat?, w.toNat?, a.toNat? with
    | some n, some w, some a => if 0 < w ∧ a < 2 ^ n then pairsDigest n w a else "bad-op"
    | _, _, _ => "bad-op"
  | "expr" :: n :: w :: rest =>
    match n.toNat?, w.toNat? with
    | some n, some w => if 0 < w then exprLine n w rest else "bad-op"
    | _, _ => "bad-op"
  | _ => "bad-op"

def main : IO Unit := Proto.run handle

end Fcppt.C10.Drv
