import FcpptModel.Prelude.Proto
/-! Driver for C13 — placeholder until the property's model is built. -/
namespace Fcppt.C13.Drv
def main : IO Unit := Fcppt.Proto.run (fun _ => "not-built")
end Fcppt.C13.Drv
