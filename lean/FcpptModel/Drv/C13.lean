import FcpptModel.Prelude.Proto
import FcpptModel.Spec.C13
/-!
Driver for C13.  `T` is `i` (`int`), `u` (`unsigned`), `l` (`long`, 64 bit), `m` (`unsigned long`, 64 bit);
`n` ∈ {0,…,4}; vectors are `x,y,z` (`-` for the empty vector of n = 0).

* `pair T n amin amax bmin bmax lo hi` — observations on the two boxes A, B: `intersects`, `contains` both ways,
      `intersection`, `extend_bounding_box(A,B)`, `== != <` both ways, `distance` both ways, and a digest over all lattice points
      p ∈ [lo,hi]^n of (p∈A, p∈B, p∈A∩B, p∈bbox)
* `pt T n amin amax bmin bmax p`       — the four memberships of one point
* `pairs T n amin amax lo hi clo chi`  — digest of the `pair` lines for every box B with both corners in [clo,chi]^n
* `cmp T n amin amax bmin bmax`        — only the functions without arithmetic: `intersects`, `contains` both ways, `intersection`,
      `extend_bounding_box`, `interval`s (usable at the ends of the type's range)
* `unary T n min max lo hi`            — `size pos max left… corner_points center null`, constructor / `init_max` / `init_dim`
      round trips, self comparisons, `interval`s, `operator<<`, calls whose arguments alias (same box twice, the box's own corner as
      the vector argument), `structure_cast` to the three other coordinate types, digest over v ∈ [lo,hi]^n of
      `shrink`/`stretch_absolute`, digest over p ∈ [lo,hi]^n of `extend_bounding_box(box, p)` and `contains_point`, digest over the
      factor lattice of `stretch_relative`
* `shr T n min max v`                  — `shrink`, `stretch_absolute`, and `stretch_absolute(shrink(b,v),v)`
* `extp T n min max p`                 — `extend_bounding_box(box, p)`, `contains_point(box, p)` (p as a static vector and as a row view of a matrix)
* `strel T n min max f`                — `stretch_relative(box, f)`
* `prog T n amin amax bmin bmax v P`   — run the statement sequence P (`,`-separated codes of `Instr`, `-` = empty) on the
      objects A, B, V; print the final objects and observations
* `progs T n amin amax bmin bmax v k`  — digest of the `prog` lines of all statement sequences of length k
* `foldp T n min max p1 … pk`          — `b = extend_bounding_box(b, p_j)` for j = 1…k
* `foldb T n amin amax b1min b1max …`  — `a = extend_bounding_box(a, b_j)` and `a = intersection(a, b_j)` over the list
* `idist T a1 a2 b1 b2`                — `interval_distance((a1,a2),(b1,b2))`
-/
namespace Fcppt.C13.Drv
open Fcppt.Proto

def Ty.long : Ty := ⟨true, 64⟩
def Ty.ulong : Ty := ⟨false, 64⟩

def parseTy : String → Option Ty
  | "i" => some Ty.int
  | "u" => some Ty.uint
  | "l" => some Ty.long
  | "m" => some Ty.ulong
  | _ => none

/-- destination types of the three `structure_cast`s printed by `unary`, in print order -/
def castTargets : String → List Ty
  | "i" => [Ty.uint, Ty.long, Ty.ulong]
  | "u" => [Ty.int, Ty.ulong, Ty.long]
  | "l" => [Ty.ulong, Ty.int, Ty.uint]
  | "m" => [Ty.long, Ty.uint, Ty.int]
  | _ => []

def parseDim (s : String) : Option Nat :=
  match s.toNat? with
  | some n => if n ≤ 4 then some n else none
  | none => none

def inTy (t : Ty) (x : Int) : Bool := decide (t.Rep x)

def parseScalar (t : Ty) (s : String) : Option Int :=
  match s.toInt? with
  | some x => if inTy t x then some x else none
  | none => none

def mkVec (n : Nat) (l : List Int) : Option (Vec n) :=
  if h : l.length = n then some ⟨l.toArray, by simp [h]⟩ else none

def parseVec (t : Ty) (n : Nat) (s : String) : Option (Vec n) :=
  if s = "-" then mkVec n []
  else match parseIntList s with
    | some l => if l.all (inTy t) && l.length != 0 then mkVec n l else none
    | none => none

def parseBox (t : Ty) (n : Nat) (mn mx : String) : Option (Box n) := do
  let a ← parseVec t n mn
  let b ← parseVec t n mx
  pure ⟨a, b⟩

def showVec {n : Nat} (v : Vec n) : String := if n = 0 then "-" else intList v.toList
def showBox {n : Nat} (b : Box n) : String := showVec b.min ++ "/" ++ showVec b.max
def showM {α : Type} (f : α → String) : M α → String
  | .ok a => f a
  | .error e => e.name

/-- all points of [lo,hi]^n, coordinate 0 outermost -/
def cubeL (lo hi : Int) : Nat → List (List Int)
  | 0 => [[]]
  | n + 1 =>
    let xs := (List.range (hi - lo + 1).toNat).map (fun (k : Nat) => lo + Int.ofNat k)
    let rest := cubeL lo hi n
    xs.flatMap fun x => rest.map fun r => x :: r

def cube (lo hi : Int) (n : Nat) : List (Vec n) := (cubeL lo hi n).filterMap (mkVec n)

def mix (h : UInt64) (x : UInt64) : UInt64 := (h ^^^ x) * 1099511628211
def u64 (x : Int) : UInt64 := UInt64.ofNat (x % 18446744073709551616).toNat
def mixVec {n : Nat} (h : UInt64) (v : Vec n) : UInt64 := v.toList.foldl (fun h x => mix h (u64 x)) h
def mixBox {n : Nat} (h : UInt64) (b : Box n) : UInt64 := mixVec (mixVec h b.min) b.max
def mixMBox {n : Nat} (h : UInt64) : M (Box n) → UInt64
  | .ok b => mixBox h b
  | .error _ => mix h 0xDEAD

def bit (b : Bool) (k : UInt64) : UInt64 := if b then k else 0

def ptNibble {n : Nat} (a b e : Box n) (i : M (Box n)) (p : Vec n) : UInt64 :=
  bit (containsPoint a p) 1 ||| bit (containsPoint b p) 2 |||
  (match i with | .ok ib => bit (containsPoint ib p) 4 | .error _ => 16) ||| bit (containsPoint e p) 8

def pairLine (t : Ty) {n : Nat} (a b : Box n) (lat : List (Vec n)) : String :=
  let i := intersection t a b
  let e := extendBox a b
  let h := lat.foldl (fun h p => mix h (ptNibble a b e i p)) fnvInit
  s!"int={b01 (intersects a b)}{b01 (intersects b a)} cont={b01 (contains a b)}{b01 (contains b a)} isect={showM showBox i} ext={showBox e} " ++
  s!"eq={showM b01 (eq t a b)} ne={showM b01 (ne t a b)} lt={showM b01 (lt t a b)} gt={showM b01 (lt t b a)} " ++
  s!"dist={showM showVec (distance t a b)} rdist={showM showVec (distance t b a)} pts={hex64 h}"

def ptLine (t : Ty) {n : Nat} (a b : Box n) (p : Vec n) : String :=
  let i := intersection t a b
  let e := extendBox a b
  s!"a={b01 (containsPoint a p)} b={b01 (containsPoint b p)} i={showM (fun ib => b01 (containsPoint ib p)) i} e={b01 (containsPoint e p)}"

def pairsDigest (t : Ty) {n : Nat} (a : Box n) (lo hi clo chi : Int) : String :=
  let lat := cube lo hi n
  let cs := cube clo chi n
  let h := cs.foldl (fun h bmin => cs.foldl (fun h bmax => fnv h (pairLine t a ⟨bmin, bmax⟩ lat)) h) fnvInit
  "D " ++ hex64 h

def intervals {n : Nat} (b : Box n) : String :=
  if n = 0 then "-" else
  ";".intercalate ((List.finRange n).map fun i => let iv := interval b i; s!"{iv.1}:{iv.2}")

def cmpLine (t : Ty) {n : Nat} (a b : Box n) : String :=
  s!"int={b01 (intersects a b)}{b01 (intersects b a)} cont={b01 (contains a b)}{b01 (contains b a)} " ++
  s!"isect={showM showBox (intersection t a b)} ext={showBox (extendBox a b)} iv={intervals a}|{intervals b}"

def shrLine (t : Ty) {n : Nat} (b : Box n) (v : Vec n) : String :=
  let s := shrink t b v
  let back := match s with | .ok sb => stretchAbsolute t sb v | .error e => .error e
  s!"shrink={showM showBox s} stretch={showM showBox (stretchAbsolute t b v)} back={showM showBox back}"

def extpLine {n : Nat} (b : Box n) (p : Vec n) : String :=
  s!"ext={showBox (extendPoint b p)} in={b01 (containsPoint b p)}{b01 (containsPoint b p)}"

def strelLine (t : Ty) {n : Nat} (b : Box n) (f : Vec n) : String :=
  s!"strel={showM showBox (stretchRelative t b f)}"

def sides {n : Nat} (b : Box n) : String :=
  (if h : 0 < n then s!" l={left b h} r={right b h}" else "") ++
  (if h : 1 < n then s!" t={top b h} b={bottom b h}" else "") ++
  (if h : 2 < n then s!" f={front b h} k={back b h}" else "")

/-- the factor lattice of `stretch_relative` inside `unary` -/
def factorRange (t : Ty) : Int × Int := if t.signed then (-2, 2) else (0, 3)

/-- calls whose arguments are the same object / a part of the first argument -/
def aliasPart (t : Ty) {n : Nat} (b : Box n) : String :=
  s!"{showM showBox (intersection t b b)}|{showBox (extendBox b b)}|{showM showVec (distance t b b)}|" ++
  s!"{showBox (extendPoint b b.min)}|{showBox (extendPoint b b.max)}|{b01 (containsPoint b b.min)}{b01 (containsPoint b b.max)}|" ++
  s!"{showM showBox (shrink t b b.min)}|{showM showBox (shrink t b b.max)}|" ++
  s!"{showM showBox (stretchAbsolute t b b.min)}|{showM showBox (stretchAbsolute t b b.max)}"

def unaryLine (tl : String) (t : Ty) {n : Nat} (b : Box n) (lo hi : Int) : String :=
  let lat := cube lo hi n
  let sz := size t b
  -- round trips: (pos,size) constructor, init_max, init_dim reproduce the box
  let rt1 := match sz with | .ok s => mkPosSize t b.min s | .error e => .error e
  let rt2 : Box n := initMax fun i => (b.min[i], b.max[i])
  let rt3 := match sz with | .ok s => initDim t (n := n) (fun i => (b.min[i], s[i])) | .error e => .error e
  let hs := lat.foldl (fun h v => mixMBox (mixMBox h (shrink t b v)) (stretchAbsolute t b v)) fnvInit
  -- contains_point twice: static vector and matrix-row view
  let hp := lat.foldl (fun h p => mix (mixBox h (extendPoint b p)) (bit (containsPoint b p) 3)) fnvInit
  let (flo, fhi) := factorRange t
  let hr := (cube flo fhi n).foldl (fun h f => mixMBox h (stretchRelative t b f)) fnvInit
  let corners := if n = 0 then "n/a" else showM (fun l => ";".intercalate (l.map showVec)) (cornerPoints t b)
  let casts := "|".intercalate ((castTargets tl).map fun d => showM showBox (structureCast t d b))
  s!"size={showM showVec sz} pos={showVec b.min} max={showVec b.max}{sides b} corners={corners} " ++
  s!"center={showM showVec (center t b)} null={showM showBox (null t n)} rt={showM showBox rt1}|{showBox rt2}|{showM showBox rt3} " ++
  s!"self={showM b01 (eq t b b)}{showM b01 (ne t b b)}{showM b01 (lt t b b)}{b01 (contains b b)}{b01 (intersects b b)} " ++
  s!"calls={natList (initTrace n)}|{natList (initTrace n)} iv={intervals b} out={showM id (output t b)} alias={aliasPart t b} cast={casts} " ++
  s!"sh={hex64 hs} xp={hex64 hp} sr={hex64 hr}"

def Instr.ofCode (s : String) : Option Instr := Instr.all.find? (fun i => i.code == s)

def parseProg (s : String) : Option (List Instr) :=
  if s = "-" then some [] else (s.splitOn ",").mapM Instr.ofCode

def showProg (p : List Instr) : String := if p.isEmpty then "-" else ",".intercalate (p.map Instr.code)

def progLine (t : Ty) {n : Nat} (s : St n) (p : List Instr) : String :=
  match run t s p with
  | .error e => e.name
  | .ok r =>
    s!"A={showBox r.a} B={showBox r.b} V={showVec r.v} size={showM showVec (size t r.a)} " ++
    s!"obs={b01 (containsPoint r.a r.v)}{b01 (intersects r.a r.b)}{b01 (contains r.a r.b)}{showM b01 (eq t r.a r.b)}{showM b01 (lt t r.a r.b)}"

/-- all statement sequences of length k, first statement outermost, in the order of `Instr.all` -/
def allProgs : Nat → List (List Instr)
  | 0 => [[]]
  | k + 1 => Instr.all.flatMap fun i => (allProgs k).map fun r => i :: r

def progsDigest (t : Ty) {n : Nat} (s : St n) (k : Nat) : String :=
  "D " ++ hex64 ((allProgs k).foldl (fun h p => fnv h (progLine t s p)) fnvInit)

def foldpLine {n : Nat} (b : Box n) (ps : List (Vec n)) : String :=
  let r := foldPoints b ps
  s!"box={showBox r} in={"".intercalate (ps.map fun p => b01 (containsPoint r p))}"

def pairUp : List String → Option (List (String × String))
  | [] => some []
  | a :: b :: r => (pairUp r).map ((a, b) :: ·)
  | [_] => none

def foldbLine (t : Ty) {n : Nat} (a : Box n) (bs : List (Box n)) : String :=
  s!"ext={showBox (foldBoxes a bs)} isect={showM showBox (foldIntersection t a bs)}"

def handleN (op tl : String) (t : Ty) (n : Nat) (rest : List String) : Option String :=
  match op, rest with
  | "pair", [amin, amax, bmin, bmax, lo, hi] => do
    let a ← parseBox t n amin amax
    let b ← parseBox t n bmin bmax
    let lo ← parseScalar t lo
    let hi ← parseScalar t hi
    pure (pairLine t a b (cube lo hi n))
  | "pt", [amin, amax, bmin, bmax, p] => do
    let a ← parseBox t n amin amax
    let b ← parseBox t n bmin bmax
    let p ← parseVec t n p
    pure (ptLine t a b p)
  | "pairs", [amin, amax, lo, hi, clo, chi] => do
    let a ← parseBox t n amin amax
    let lo ← parseScalar t lo
    let hi ← parseScalar t hi
    let clo ← parseScalar t clo
    let chi ← parseScalar t chi
    pure (pairsDigest t a lo hi clo chi)
  | "cmp", [amin, amax, bmin, bmax] => do
    let a ← parseBox t n amin amax
    let b ← parseBox t n bmin bmax
    pure (cmpLine t a b)
  | "unary", [mn, mx, lo, hi] => do
    let b ← parseBox t n mn mx
    let lo ← parseScalar t lo
    let hi ← parseScalar t hi
    pure (unaryLine tl t b lo hi)
  | "shr", [mn, mx, v] => do
    let b ← parseBox t n mn mx
    let v ← parseVec t n v
    pure (shrLine t b v)
  | "extp", [mn, mx, p] => do
    let b ← parseBox t n mn mx
    let p ← parseVec t n p
    pure (extpLine b p)
  | "strel", [mn, mx, f] => do
    let b ← parseBox t n mn mx
    let f ← parseVec t n f
    pure (strelLine t b f)
  | "prog", [amin, amax, bmin, bmax, v, p] => do
    let a ← parseBox t n amin amax
    let b ← parseBox t n bmin bmax
    let v ← parseVec t n v
    let p ← parseProg p
    pure (progLine t ⟨a, b, v⟩ p)
  | "progs", [amin, amax, bmin, bmax, v, k] => do
    let a ← parseBox t n amin amax
    let b ← parseBox t n bmin bmax
    let v ← parseVec t n v
    let k ← k.toNat?
    if k ≤ 3 then pure (progsDigest t ⟨a, b, v⟩ k) else none
  | "foldp", mn :: mx :: ps => do
    let b ← parseBox t n mn mx
    let ps ← ps.mapM (parseVec t n)
    pure (foldpLine b ps)
  | "foldb", amin :: amax :: bs => do
    let a ← parseBox t n amin amax
    let bs ← pairUp bs
    let bs ← bs.mapM fun (x, y) => parseBox t n x y
    pure (foldbLine t a bs)
  | _, _ => none

def handle (toks : List String) : String :=
  match toks with
  | ["idist", t, a1, a2, b1, b2] =>
    match parseTy t with
    | some t =>
      match parseScalar t a1, parseScalar t a2, parseScalar t b1, parseScalar t b2 with
      | some a1, some a2, some b1, some b2 => showM toString (intervalDistance t (a1, a2) (b1, b2))
      | _, _, _, _ => "bad-op"
    | none => "bad-op"
  | op :: tl :: nl :: rest =>
    match parseTy tl, parseDim nl with
    | some t, some n => (handleN op tl t n rest).getD "bad-op"
    | _, _ => "bad-op"
  | _ => "bad-op"

def main : IO Unit := Proto.run handle

end Fcppt.C13.Drv
