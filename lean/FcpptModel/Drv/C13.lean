import FcpptModel.Prelude.Proto
import FcpptModel.Spec.C13
/-!
Driver for C13.  `T` is `i` (`int`) or `u` (`unsigned`), `n` ∈ {1,2,3}, vectors are `x,y,z`.

* `pair T n amin amax bmin bmax lo hi` — observations on the two boxes A, B: `intersects`, `contains` both ways,
      `intersection`, `extend_bounding_box(A,B)`, `== != <` both ways, `distance` both ways, and a digest over all lattice points
      p ∈ [lo,hi]^n of (p∈A, p∈B, p∈A∩B, p∈bbox)
* `pt T n amin amax bmin bmax p`       — the four memberships of one point
* `pairs T n amin amax lo hi clo chi`  — digest of the `pair` lines for every box B with both corners in [clo,chi]^n
* `unary T n min max lo hi`            — `size pos max left… corner_points center null`, constructor / `init_max` / `init_dim`
      round trips, digest over v ∈ [lo,hi]^n of `shrink`/`stretch_absolute`, digest over p ∈ [lo,hi]^n of
      `extend_bounding_box(box, p)` and `contains_point`
* `shr T n min max v`                  — `shrink`, `stretch_absolute`, and `stretch_absolute(shrink(b,v),v)`
* `extp T n min max p`                 — `extend_bounding_box(box, p)`, `contains_point(box, p)`
* `idist T a1 a2 b1 b2`                — `interval_distance((a1,a2),(b1,b2))`
-/
namespace Fcppt.C13.Drv
open Fcppt.Proto

def parseTy : String → Option Ty
  | "i" => some Ty.int
  | "u" => some Ty.uint
  | _ => none

def parseDim (s : String) : Option Nat :=
  match s.toNat? with
  | some n => if 1 ≤ n ∧ n ≤ 3 then some n else none
  | none => none

def inTy (t : Ty) (x : Int) : Bool := decide (t.Rep x)

def parseScalar (t : Ty) (s : String) : Option Int :=
  match s.toInt? with
  | some x => if inTy t x then some x else none
  | none => none

def mkVec (n : Nat) (l : List Int) : Option (Vec n) :=
  if h : l.length = n then some ⟨l.toArray, by simp [h]⟩ else none

def parseVec (t : Ty) (n : Nat) (s : String) : Option (Vec n) :=
  match parseIntList s with
  | some l => if l.all (inTy t) then mkVec n l else none
  | none => none

def showVec {n : Nat} (v : Vec n) : String := intList v.toList
def showBox {n : Nat} (b : Box n) : String := showVec b.min ++ "/" ++ showVec b.max
def showM {α : Type} (f : α → String) : M α → String
  | .ok a => f a
  | .error e => e.name

/-- all points of [lo,hi]^n, coordinate 0 outermost -/
def cubeL (lo hi : Int) : Nat → List (List Int)
  | 0 => [[]]
  | n + 1 =>
    let xs := (List.range (hi - lo + 1).toNat).map (fun (k : Nat) => lo + Int.ofNat k)
    let rest := cubeL lo hi n
    xs.flatMap fun x => rest.map fun r => x :: r

def cube (lo hi : Int) (n : Nat) : List (Vec n) := (cubeL lo hi n).filterMap (mkVec n)

def mix (h : UInt64) (x : UInt64) : UInt64 := (h ^^^ x) * 1099511628211
def u64 (x : Int) : UInt64 := UInt64.ofNat (x % 18446744073709551616).toNat
def mixVec {n : Nat} (h : UInt64) (v : Vec n) : UInt64 := v.toList.foldl (fun h x => mix h (u64 x)) h
def mixBox {n : Nat} (h : UInt64) (b : Box n) : UInt64 := mixVec (mixVec h b.min) b.max
def mixMBox {n : Nat} (h : UInt64) : M (Box n) → UInt64
  | .ok b => mixBox h b
  | .error _ => mix h 0xDEAD

def bit (b : Bool) (k : UInt64) : UInt64 := if b then k else 0

def ptNibble {n : Nat} (a b e : Box n) (i : M (Box n)) (p : Vec n) : UInt64 :=
  bit (containsPoint a p) 1 ||| bit (containsPoint b p) 2 |||
  (match i with | .ok ib => bit (containsPoint ib p) 4 | .error _ => 16) ||| bit (containsPoint e p) 8

def pairLine (t : Ty) {n : Nat} (a b : Box n) (lat : List (Vec n)) : String :=
  let i := intersection t a b
  let e := extendBox a b
  let h := lat.foldl (fun h p => mix h (ptNibble a b e i p)) fnvInit
  s!"int={b01 (intersects a b)}{b01 (intersects b a)} cont={b01 (contains a b)}{b01 (contains b a)} isect={showM showBox i} ext={showBox e} " ++
  s!"eq={showM b01 (eq t a b)} ne={showM b01 (ne t a b)} lt={showM b01 (lt t a b)} gt={showM b01 (lt t b a)} " ++
  s!"dist={showM showVec (distance t a b)} rdist={showM showVec (distance t b a)} pts={hex64 h}"

def ptLine (t : Ty) {n : Nat} (a b : Box n) (p : Vec n) : String :=
  let i := intersection t a b
  let e := extendBox a b
  s!"a={b01 (containsPoint a p)} b={b01 (containsPoint b p)} i={showM (fun ib => b01 (containsPoint ib p)) i} e={b01 (containsPoint e p)}"

def pairsDigest (t : Ty) {n : Nat} (a : Box n) (lo hi clo chi : Int) : String :=
  let lat := cube lo hi n
  let cs := cube clo chi n
  let h := cs.foldl (fun h bmin => cs.foldl (fun h bmax => fnv h (pairLine t a ⟨bmin, bmax⟩ lat)) h) fnvInit
  "D " ++ hex64 h

def shrLine (t : Ty) {n : Nat} (b : Box n) (v : Vec n) : String :=
  let s := shrink t b v
  let back := match s with | .ok sb => stretchAbsolute t sb v | .error e => .error e
  s!"shrink={showM showBox s} stretch={showM showBox (stretchAbsolute t b v)} back={showM showBox back}"

def extpLine {n : Nat} (b : Box n) (p : Vec n) : String :=
  s!"ext={showBox (extendPoint b p)} in={b01 (containsPoint b p)}"

def sides {n : Nat} (b : Box n) : String :=
  (if h : 0 < n then s!" l={left b h} r={right b h}" else "") ++
  (if h : 1 < n then s!" t={top b h} b={bottom b h}" else "") ++
  (if h : 2 < n then s!" f={front b h} k={back b h}" else "")

def unaryLine (t : Ty) {n : Nat} (b : Box n) (lo hi : Int) : String :=
  let lat := cube lo hi n
  let sz := size t b
  -- round trips: (pos,size) constructor, init_max, init_dim reproduce the box
  let rt1 := match sz with | .ok s => mkPosSize t b.min s | .error e => .error e
  let rt2 : Box n := initMax fun i => (b.min[i], b.max[i])
  let rt3 := match sz with | .ok s => initDim t (n := n) (fun i => (b.min[i], s[i])) | .error e => .error e
  let hs := lat.foldl (fun h v => mixMBox (mixMBox h (shrink t b v)) (stretchAbsolute t b v)) fnvInit
  let hp := lat.foldl (fun h p => mix (mixBox h (extendPoint b p)) (bit (containsPoint b p) 1)) fnvInit
  s!"size={showM showVec sz} pos={showVec b.min} max={showVec b.max}{sides b} corners={showM (fun l => ";".intercalate (l.map showVec)) (cornerPoints t b)} " ++
  s!"center={showM showVec (center t b)} null={showM showBox (null t n)} rt={showM showBox rt1}|{showBox rt2}|{showM showBox rt3} " ++
  s!"self={showM b01 (eq t b b)}{showM b01 (ne t b b)}{showM b01 (lt t b b)}{b01 (contains b b)}{b01 (intersects b b)} sh={hex64 hs} xp={hex64 hp}"

def handle (toks : List String) : String :=
  match toks with
  | ["pair", t, n, amin, amax, bmin, bmax, lo, hi] =>
    match parseTy t, parseDim n, lo.toInt?, hi.toInt? with
    | some t, some n, some lo, some hi =>
      match parseVec t n amin, parseVec t n amax, parseVec t n bmin, parseVec t n bmax with
      | some amin, some amax, some bmin, some bmax =>
        if inTy t lo && inTy t hi then pairLine t ⟨amin, amax⟩ ⟨bmin, bmax⟩ (cube lo hi n) else "bad-op"
      | _, _, _, _ => "bad-op"
    | _, _, _, _ => "bad-op"
  | ["pt", t, n, amin, amax, bmin, bmax, p] =>
    match parseTy t, parseDim n with
    | some t, some n =>
      match parseVec t n amin, parseVec t n amax, parseVec t n bmin, parseVec t n bmax, parseVec t n p with
      | some amin, some amax, some bmin, some bmax, some p => ptLine t ⟨amin, amax⟩ ⟨bmin, bmax⟩ p
      | _, _, _, _, _ => "bad-op"
    | _, _ => "bad-op"
  | ["pairs", t, n, amin, amax, lo, hi, clo, chi] =>
    match parseTy t, parseDim n, lo.toInt?, hi.toInt?, clo.toInt?, chi.toInt? with
    | some t, some n, some lo, some hi, some clo, some chi =>
      match parseVec t n amin, parseVec t n amax with
      | some amin, some amax =>
        if inTy t lo && inTy t hi && inTy t clo && inTy t chi then pairsDigest t ⟨amin, amax⟩ lo hi clo chi else "bad-op"
      | _, _ => "bad-op"
    | _, _, _, _, _, _ => "bad-op"
  | ["unary", t, n, mn, mx, lo, hi] =>
    match parseTy t, parseDim n, lo.toInt?, hi.toInt? with
    | some t, some n, some lo, some hi =>
      match parseVec t n mn, parseVec t n mx with
      | some mn, some mx => if inTy t lo && inTy t hi then unaryLine t ⟨mn, mx⟩ lo hi else "bad-op"
      | _, _ => "bad-op"
    | _, _, _, _ => "bad-op"
  | ["shr", t, n, mn, mx, v] =>
    match parseTy t, parseDim n with
    | some t, some n =>
      match parseVec t n mn, parseVec t n mx, parseVec t n v with
      | some mn, some mx, some v => shrLine t ⟨mn, mx⟩ v
      | _, _, _ => "bad-op"
    | _, _ => "bad-op"
  | ["extp", t, n, mn, mx, p] =>
    match parseTy t, parseDim n with
    | some t, some n =>
      match parseVec t n mn, parseVec t n mx, parseVec t n p with
      | some mn, some mx, some p => extpLine (⟨mn, mx⟩ : Box n) p
      | _, _, _ => "bad-op"
    | _, _ => "bad-op"
  | ["idist", t, a1, a2, b1, b2] =>
    match parseTy t with
    | some t =>
      match parseScalar t a1, parseScalar t a2, parseScalar t b1, parseScalar t b2 with
      | some a1, some a2, some b1, some b2 => showM toString (intervalDistance t (a1, a2) (b1, b2))
      | _, _, _, _ => "bad-op"
    | none => "bad-op"
  | _ => "bad-op"

def main : IO Unit := Proto.run handle

end Fcppt.C13.Drv
