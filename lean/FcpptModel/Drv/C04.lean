import FcpptModel.Prelude.Proto
/-! Driver for C04 — placeholder until the property's model is built. -/
namespace Fcppt.C04.Drv
def main : IO Unit := Fcppt.Proto.run (fun _ => "not-built")
end Fcppt.C04.Drv
