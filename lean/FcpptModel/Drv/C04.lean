import FcpptModel.Prelude.Proto
import FcpptModel.Model.C04
/-!
Driver for C04.  One call of one combinator per line; the result line is

    <result> | <call log>

`<call log>` lists every continuation call in order as `site(arg,…)` separated by `;` (`-` if no call).
A fault prints its kind (`empty-deref`, `exc:E2`, …) in place of the result.

Value syntax (prefix-free, no blanks): `0 1 2` element of D; `N` / `J<v>` optional; `F<v>` / `S<v>` either;
`A<d> B<d> C<d>` variant<A,B,C>; `[<v>…]` container; `t f` bool; `u` void; `R<d>` returns, `X<d>` throws the caught
exception type with payload d, `Y` throws another type.  A function D^k → T is its table: the 3^k values in
row-major order, concatenated.  `L` / `C` / `R` in front of the arguments is the value category used on the C++ side
(lvalue / const lvalue / rvalue); the model's answer does not depend on it.

`all9 <op> … * …` prints the digest of the result lines of `<op>` with `*` replaced by each of the 3^9 tables D×D → D.

The operations are listed in `handle1`.
-/
namespace Fcppt.C04.Drv
open Fcppt.Proto Fcppt.C04

/-! ### state of the continuations -/
structure DS where
  log : Array String := #[]
  queue : List (Either Nat Nat) := []
  calls : Nat := 0

abbrev KD := K DS

def lg (site : String) (args : List Nat) : KD Unit := fun s =>
  (.ok (), { s with log := s.log.push (site ++ "(" ++ ",".intercalate (args.map toString) ++ ")") })

/-- the exception a table entry `X` / a thunk `X` throws -/
def excE2 : Fault := .exception (.other "E2")

/-- a table entry: `none` = the continuation throws `E2` there -/
def look {β : Type} (tbl : Array (Option β)) (i : Nat) : KD β :=
  match tbl[i]? with
  | some (some v) => pure v
  | some none => K.fault excE2
  | none => K.fault .oob

def fn1 {β : Type} (site : String) (tbl : Array (Option β)) : Nat → KD β := fun x => do
  lg site [x]
  look tbl x
def fn2 {β : Type} (site : String) (tbl : Array (Option β)) : Nat → Nat → KD β := fun x y => do
  lg site [x, y]
  look tbl (x * 3 + y)
def fn3 {β : Type} (site : String) (tbl : Array (Option β)) : Nat → Nat → Nat → KD β := fun x y z => do
  lg site [x, y, z]
  look tbl ((x * 3 + y) * 3 + z)
/-- a thunk: `none` = it throws `E2` -/
def thunk {β : Type} (site : String) (v : Option β) : Unit → KD β := fun _ => do
  lg site []
  match v with
  | some x => pure x
  | none => K.fault excE2

/-! ### reading and printing values -/
abbrev P (α : Type) := List Char → Option (α × List Char)
class Rd (α : Type) where rd : P α
class Sh (α : Type) where sh : α → String
open Rd Sh

abbrev V3 := Var 3 (fun _ => Nat)

inductive Outcome where
  | ret (d : Nat) | throwCaught (d : Nat) | throwDerived (d : Nat) | throwOther

instance : Rd Nat := ⟨fun
  | c :: r => if c = '0' ∨ c = '1' ∨ c = '2' then some (c.toNat - 48, r) else none
  | [] => none⟩
instance {α : Type} [Rd α] : Rd (Option α) := ⟨fun
  | 'N' :: r => some (none, r)
  | 'J' :: r => (rd r).map fun (x, r') => (some x, r')
  | _ => none⟩
instance {φ α : Type} [Rd φ] [Rd α] : Rd (Either φ α) := ⟨fun
  | 'F' :: r => (rd r).map fun (x, r') => (.failure x, r')
  | 'S' :: r => (rd r).map fun (x, r') => (.success x, r')
  | _ => none⟩
instance : Rd V3 := ⟨fun
  | 'A' :: r => (rd (α := Nat) r).map fun (x, r') => (⟨0, x⟩, r')
  | 'B' :: r => (rd (α := Nat) r).map fun (x, r') => (⟨1, x⟩, r')
  | 'C' :: r => (rd (α := Nat) r).map fun (x, r') => (⟨2, x⟩, r')
  | _ => none⟩
/-- a reference / the address of one of the three cells -/
structure Ref where
  idx : Nat
  deriving DecidableEq

instance : Rd Ref := ⟨fun
  | '&' :: r => (rd (α := Nat) r).map fun (i, r') => (⟨i⟩, r')
  | _ => none⟩
instance : Rd (Ptr Ref) := ⟨fun
  | 'P' :: '-' :: r => some (.null, r)
  | 'P' :: r => (rd (α := Ref) r).map fun (x, r') => (.to x, r')
  | _ => none⟩

/-- an entry of the function table of `sequence_error`: success (`u`) or a failure -/
instance : Rd (Either Nat Unit) := ⟨fun
  | 'u' :: r => some (.success (), r)
  | cs => (rd (α := Nat) cs).map fun (x, r') => (.failure x, r')⟩

instance : Rd Unit := ⟨fun
  | 'u' :: r => some ((), r)
  | _ => none⟩
instance : Rd Bool := ⟨fun
  | 't' :: r => some (true, r)
  | 'f' :: r => some (false, r)
  | _ => none⟩
instance : Rd Outcome := ⟨fun
  | 'R' :: r => (rd (α := Nat) r).map fun (x, r') => (.ret x, r')
  | 'X' :: r => (rd (α := Nat) r).map fun (x, r') => (.throwCaught x, r')
  | 'Z' :: r => (rd (α := Nat) r).map fun (x, r') => (.throwDerived x, r')
  | 'Y' :: r => some (.throwOther, r)
  | _ => none⟩

def rdListGo {α : Type} [Rd α] : Nat → List Char → List α → Option (List α × List Char)
  | 0, _, _ => none
  | _ + 1, ']' :: r, acc => some (acc.reverse, r)
  | n + 1, cs, acc =>
    match rd cs with
    | some (x, r) => rdListGo n r (x :: acc)
    | none => none
instance {α : Type} [Rd α] : Rd (List α) := ⟨fun
  | '[' :: r => rdListGo (r.length + 1) r []
  | _ => none⟩

/-- a value or `X` -/
structure OrX (α : Type) where
  val : Option α

instance {α : Type} [Rd α] : Rd (OrX α) := ⟨fun
  | 'X' :: r => some (⟨none⟩, r)
  | cs => (rd cs).map fun (x, r') => (⟨some x⟩, r')⟩

def rdN {α : Type} [Rd α] : Nat → List Char → List (Option α) → Option (List (Option α) × List Char)
  | 0, cs, acc => some (acc.reverse, cs)
  | n + 1, 'X' :: r, acc => rdN n r (none :: acc)
  | n + 1, cs, acc =>
    match rd cs with
    | some (x, r) => rdN n r (some x :: acc)
    | none => none

/-- a whole token as one value -/
def tok (α : Type) [Rd α] (s : String) : Option α :=
  match rd s.toList with
  | some (x, []) => some x
  | _ => none

/-- a whole token as one value or `X` -/
def tokx (α : Type) [Rd α] (s : String) : Option (Option α) :=
  if s = "X" then some none else (tok α s).map some

/-- a whole token as a table of `n` entries (value or `X`) -/
def tbl (α : Type) [Rd α] (n : Nat) (s : String) : Option (Array (Option α)) :=
  match rdN n s.toList [] with
  | some (l, []) => some l.toArray
  | _ => none

/-- value categories: one letter for all arguments -/
def cat? (s : String) : Option Unit := if s = "L" ∨ s = "C" ∨ s = "R" then some () else none
/-- lvalue categories only -/
def catLC? (s : String) : Option Unit := if s = "L" ∨ s = "C" then some () else none
/-- one letter per argument (all nine combinations), or one for both -/
def cat2? (s : String) : Option Unit :=
  if s.length = 1 then cat? s
  else if s.length = 2 ∧ s.toList.all (fun c => c = 'L' ∨ c = 'C' ∨ c = 'R') then some () else none
/-- one letter per argument (the combinations the harness instantiates), or one for all three -/
def cat3? (s : String) : Option Unit :=
  if s.length = 1 then cat? s
  else if ["LLL", "CCC", "RRR", "RLL", "LRL", "LLR", "RRL", "RLR", "LRR"].contains s then some () else none

instance : Sh Nat := ⟨toString⟩
instance {α : Type} [Sh α] : Sh (Option α) := ⟨fun | none => "N" | some x => "J" ++ sh x⟩
instance {φ α : Type} [Sh φ] [Sh α] : Sh (Either φ α) := ⟨fun | .failure x => "F" ++ sh x | .success x => "S" ++ sh x⟩
instance : Sh V3 := ⟨fun v => (if v.idx.val = 0 then "A" else if v.idx.val = 1 then "B" else "C") ++ toString (show Nat from v.val)⟩
instance : Sh Bool := ⟨fun b => if b then "t" else "f"⟩
instance : Sh Unit := ⟨fun _ => "u"⟩
instance : Sh String := ⟨id⟩
instance : Sh Ref := ⟨fun r => "&" ++ toString r.idx⟩
instance : Sh (Ptr Ref) := ⟨fun | .null => "P-" | .to r => "P" ++ sh r⟩
instance {α : Type} [Sh α] : Sh (List α) := ⟨fun l => "[" ++ String.join (l.map sh) ++ "]"⟩

def showLog (l : Array String) : String := if l.isEmpty then "-" else ";".intercalate l.toList

def runWith {ρ : Type} [Sh ρ] (s0 : DS) (m : KD ρ) : String :=
  let (r, s) := m s0
  (match r with
   | .ok v => sh v
   | .error e => e.name) ++ " | " ++ showLog s.log

def run1 {ρ : Type} [Sh ρ] (m : KD ρ) : String := runWith {} m

def run2 {ρ : Type} [Sh ρ] (m₁ m₂ : KD ρ) : String := run1 m₁ ++ " || " ++ run1 m₂

/-! ### continuations that need more than a table -/

/-- the `k`-th thunk of `first_success` -/
def nthThunk (i : Nat) (e : OrX (Either Nat Nat)) : Unit → KD (Either Nat Nat) := fun _ => do
  lg "n" [i]
  match e.val with
  | some r => pure r
  | none => K.fault excE2

/-- the body of `loop`: logs; throws where the table says `X` -/
def loopBody (tbl : Array (Option Unit)) : Nat → KD Unit := fun x => do
  lg "b" [x]
  look tbl x

/-- `next` of `loop`: pops the queue; throws the uncaught exception type when it is empty -/
def popNext : Unit → KD (Either Nat Nat) := fun _ s =>
  let s1 := { s with log := s.log.push ("n(" ++ toString s.calls ++ ")"), calls := s.calls + 1 }
  match s1.queue with
  | e :: r => (.ok e, { s1 with queue := r })
  | [] => (.error (.exception (.other "E2")), s1)

def outcomeThunk (o : Outcome) : Unit → KD Nat := fun _ => do
  lg "f" []
  match o with
  | .ret d => pure d
  | .throwCaught d => K.fault (.exception (.other ("E1:" ++ toString d)))
  | .throwDerived d => K.fault (.exception (.other ("E1d:" ++ toString d)))
  | .throwOther => K.fault (.exception (.other "E2"))

/-- which exception kinds `try_call<E1>` catches -/
def catchesE1 : ExcKind → Option Nat
  | .other s =>
    if s.startsWith "E1:" then (s.drop 3).toString.toNat?
    -- derived from E1: caught by `E1 const &`; the converter is handed the thrown object itself, so what it observes
    -- (the virtual `code()`) is the derived class's answer `(d + 1) % 3`, not that of a sliced base copy
    else if s.startsWith "E1d:" then (s.drop 4).toString.toNat?.map (fun d => (d + 1) % 3)
    else none
  | _ => none

def natEq (a b : Nat) : Bool := a == b
def natLt (a b : Nat) : Bool := decide (a < b)

def fin3 (s : String) : Option (Fin 3) :=
  match s with
  | "0" => some 0
  | "1" => some 1
  | "2" => some 2
  | _ => none

/-- copy / move construction and assignment, `std::swap`, also of an object with itself -/
def asgOp {τ : Type} [Sh τ] (k : String) (a b : τ) : Option String :=
  match k with
  | "copy" | "cctor" => let (x, y) := assignObj a b; some s!"{sh x} {sh y}"
  | "move" | "mctor" => some (sh (assignObj a b).1)
  | "swap" => let (x, y) := swapObj a b; some s!"{sh x} {sh y}"
  | "self" | "selfmove" => some (sh (assignObj a a).1)
  | "selfswap" => some (sh (swapObj a a).1)
  | _ => none

/-! ### continuations that write through their (reference) argument: the source shows the new value afterwards -/
def bumpN (x : Nat) : Nat := (x + 1) % 3
/-- what the source looks like afterwards: bumped iff the continuation was called (the log is not empty) -/
def afterCall {τ : Type} [Sh τ] (called : Bool) (src bumped : τ) : String := if called then sh bumped else sh src
def bumpE : Either Nat Nat → Either Nat Nat
  | .success x => .success (bumpN x)
  | .failure x => .failure (bumpN x)
def bumpV (v : V3) : V3 := ⟨v.idx, bumpN (show Nat from v.val)⟩

/-- run `m`, then print the sources as they are after it: `bumped` if the continuation named `site` was called -/
def runMut {ρ : Type} [Sh ρ] (m : KD ρ) (sites : List String) (srcs : List (String × String)) : String :=
  let (r, s) := m {}
  let called := s.log.any fun e => sites.any fun site => e.startsWith (site ++ "(")
  let res := match r with
    | .ok v => sh v ++ String.join (srcs.map fun (a, b) => " " ++ (if called then b else a))
    | .error e => e.name
  res ++ " | " ++ showLog s.log

def handleMut (toks : List String) : Option String :=
  match toks with
  | ["o.map.mut", o, f] => do
    let o ← tok (Option Nat) o; let f ← tbl Nat 3 f
    pure (runMut (Opt.map o (fn1 "f" f)) ["f"] [(sh o, sh (o.map bumpN))])
  | ["o.bind.mut", o, f] => do
    let o ← tok (Option Nat) o; let f ← tbl (Option Nat) 3 f
    pure (runMut (Opt.bind o (fn1 "f" f)) ["f"] [(sh o, sh (o.map bumpN))])
  | ["o.maybe.mut", o, d, t] => do
    let o ← tok (Option Nat) o; let d ← tokx Nat d; let t ← tbl Nat 3 t
    pure (runMut (Opt.maybe o (thunk "d" d) (fn1 "t" t)) ["t"] [(sh o, sh (o.map bumpN))])
  | ["o.maybe_void.mut", o] => do
    let o ← tok (Option Nat) o
    pure (runMut (Opt.maybeVoid o (fun x => lg "t" [x])) ["t"] [(sh o, sh (o.map bumpN))])
  | ["o.apply2.mut", o1, o2, f] => do
    let o1 ← tok (Option Nat) o1; let o2 ← tok (Option Nat) o2; let f ← tbl Nat 9 f
    pure (runMut (Opt.apply2 (fn2 "f" f) o1 o2) ["f"] [(sh o1, sh (o1.map bumpN)), (sh o2, sh (o2.map bumpN))])
  | ["o.mm2.mut", o1, o2, d, t] => do
    let o1 ← tok (Option Nat) o1; let o2 ← tok (Option Nat) o2; let d ← tokx Nat d; let t ← tbl Nat 9 t
    pure (runMut (Opt.maybeMulti2 (thunk "d" d) (fn2 "t" t) o1 o2) ["t"] [(sh o1, sh (o1.map bumpN)), (sh o2, sh (o2.map bumpN))])
  | ["e.map.mut", e, f] => do
    let e ← tok (Either Nat Nat) e; let f ← tbl Nat 3 f
    pure (runMut (Either.map e (fn1 "f" f)) ["f"] [(sh e, sh (bumpE e))])
  | ["e.bind.mut", e, f] => do
    let e ← tok (Either Nat Nat) e; let f ← tbl (Either Nat Nat) 3 f
    pure (runMut (Either.bind e (fn1 "f" f)) ["f"] [(sh e, sh (bumpE e))])
  | ["e.mapf.mut", e, f] => do
    let e ← tok (Either Nat Nat) e; let f ← tbl Nat 3 f
    pure (runMut (Either.mapFailure e (fn1 "f" f)) ["f"] [(sh e, sh (bumpE e))])
  | ["e.match.mut", e, ff, fs] => do
    let e ← tok (Either Nat Nat) e; let ff ← tbl Nat 3 ff; let fs ← tbl Nat 3 fs
    pure (runMut (Either.match_ e (fn1 "ff" ff) (fn1 "fs" fs)) ["ff", "fs"] [(sh e, sh (bumpE e))])
  | ["e.apply2.mut", e1, e2, f] => do
    let e1 ← tok (Either Nat Nat) e1; let e2 ← tok (Either Nat Nat) e2; let f ← tbl Nat 9 f
    pure (runMut (Either.apply2 (fn2 "f" f) e1 e2) ["f"] [(sh e1, sh (bumpE e1)), (sh e2, sh (bumpE e2))])
  | ["v.match.mut", v, fa, fb, fc] => do
    let v ← tok V3 v; let fa ← tbl Nat 3 fa; let fb ← tbl Nat 3 fb; let fc ← tbl Nat 3 fc
    pure (runMut (Var.match_ v (fun i (x : Nat) =>
      if i.val = 0 then fn1 "a" fa x else if i.val = 1 then fn1 "b" fb x else fn1 "c" fc x)) ["a", "b", "c"] [(sh v, sh (bumpV v))])
  | ["v.apply1.mut", v, f] => do
    let v ← tok V3 v; let f ← tbl Nat 9 f
    pure (runMut (Var.apply (fun i (x : Nat) => fn2 "f" f i.val x) v) ["f"] [(sh v, sh (bumpV v))])
  | _ => none

/-- `variant<A, thrower>` that may be valueless: `A<d>`, `T`, `V` -/
abbrev V2 := VarV 2 (fun _ => Nat)

instance : Rd V2 := ⟨fun
  | 'A' :: r => (rd (α := Nat) r).map fun (x, r') => (some ⟨0, x⟩, r')
  | 'T' :: r => some (some ⟨1, (0 : Nat)⟩, r)
  | 'V' :: r => some (none, r)
  | _ => none⟩
def shV2 (v : V2) : String :=
  match v with
  | none => "V"
  | some w => if w.idx.val = 0 then "A" ++ toString (show Nat from w.val) else "T"

/-- the visitor of the `vv.obs` operations -/
def visit2 : (i : Fin 2) → Nat → KD Nat := fun i x =>
  if i.val = 0 then do lg "a" [x]; pure x else do lg "t" []; pure 7

def handleVV (toks : List String) : Option String :=
  match toks with
  | ["vv.assign", d, s, armed] => do
    let d ← tok V2 d; let s ← tok V2 s; let armed ← tok Bool armed
    if armed ∧ !VarV.holdsType 1 s then none
    let (x, threw) := VarV.assign d s armed
    pure s!"{shV2 x} {sh threw} | -"
  | ["vv.obs", v, k] => do
    let v ← tok V2 v
    match k with
    | "invalid" => pure (run1 (pure (VarV.isInvalid v)))
    | "index" => pure (run1 (pure (match VarV.typeIndex v with | none => "npos" | some i => toString i)))
    | "holds" => pure (run1 (pure [VarV.holdsType 0 v, VarV.holdsType 1 v]))
    | "to_opt" | "to_opt_ref" => pure (run1 (ρ := Option Nat) (VarV.toOptional 0 v))
    | "apply" | "match" => pure (run1 (VarV.apply visit2 v))
    | "tinfo" => pure (run1 (VarV.apply (fun i _ => (pure i.val : KD Nat)) v))
    | "out" => pure (run1 (VarV.apply (fun i x => (pure (if i.val = 0 then toString x else "T") : KD String)) v))
    | _ => none
  | ["vv.cmp", l, r] => do
    let l ← tok V2 l; let r ← tok V2 r
    let e := VarV.eq (fun _ => natEq) l r
    -- all throwers are equal and none is smaller than another
    let lt := VarV.lt (fun i a b => if i.val = 0 then natLt a b else false) l r
    pure (run1 (pure [e, !e, lt]))
  | ["vv.compare", l, r, res] => do
    let l ← tok V2 l; let r ← tok V2 r; let res ← tok Bool res
    pure (run1 (VarV.compare l r (fun i _ _ => do lg "c" [i.val]; pure res)))
  | _ => handleMut toks

/-! ### operations -/
/-- `e.looplong n f`: `next` succeeds `n` times (value = call index mod 3) and then fails with `f`; the body adds the value
to a sum.  State = (calls of next, sum).  The model's `Either.loop` runs the `n + 1` iterations (it is tail recursive). -/
def loopLongLine (n f : Nat) : String :=
  let next : Unit → K (Nat × Nat) (Either Nat Nat) := fun _ s =>
    let c := s.1
    (.ok (if c < n then Either.success (c % 3) else Either.failure f), (c + 1, s.2))
  let body : Nat → K (Nat × Nat) Unit := fun v s => (.ok (), (s.1, s.2 + v))
  match Either.loop (n + 2) next body (0, 0) with
  | (.ok r, (c, sum)) => s!"F{r} calls={c} sum={sum} | -"   -- the harness appends its (empty) call log to every line
  | (.error e, _) => e.name

def handle1 (toks : List String) : Option String :=
  match toks with
  -- optional -------------------------------------------------------------------------------
  | ["o.map", c, o, f] => do
    cat? c; let o ← tok (Option Nat) o; let f ← tbl Nat 3 f
    pure (run1 (Opt.map o (fn1 "f" f)))
  | ["o.bind", c, o, f] => do
    cat? c; let o ← tok (Option Nat) o; let f ← tbl (Option Nat) 3 f
    pure (run1 (Opt.bind o (fn1 "f" f)))
  | ["o.mbind", c, o, f] => do
    cat? c; let o ← tok (Option Nat) o; let f ← tbl (Option Nat) 3 f
    pure (run1 (monadBindOpt o (fn1 "f" f)))
  | ["o.join", c, oo] => do
    cat? c; let oo ← tok (Option (Option Nat)) oo
    pure (run1 (Opt.join (σ := DS) oo))
  | ["o.apply1", c, o1, f] => do
    cat? c; let o1 ← tok (Option Nat) o1; let f ← tbl Nat 3 f
    pure (run1 (Opt.apply1 (fn1 "f" f) o1))
  | ["o.apply2", c, o1, o2, f] => do
    cat2? c; let o1 ← tok (Option Nat) o1; let o2 ← tok (Option Nat) o2; let f ← tbl Nat 9 f
    pure (run1 (Opt.apply2 (fn2 "f" f) o1 o2))
  | ["o.apply3", c, o1, o2, o3, f] => do
    cat3? c; let o1 ← tok (Option Nat) o1; let o2 ← tok (Option Nat) o2; let o3 ← tok (Option Nat) o3
    let f ← tbl Nat 27 f
    pure (run1 (Opt.apply3 (fn3 "f" f) o1 o2 o3))
  | ["o.filter", c, o, p] => do
    cat? c; let o ← tok (Option Nat) o; let p ← tbl Bool 3 p
    pure (run1 (Opt.filter o (fn1 "p" p)))
  | ["o.alt", c, o, a] => do
    cat? c; let o ← tok (Option Nat) o; let a ← tokx (Option Nat) a
    pure (run1 (Opt.alternative o (thunk "a" a)))
  | ["o.combine", c, o1, o2, f] => do
    cat2? c; let o1 ← tok (Option Nat) o1; let o2 ← tok (Option Nat) o2; let f ← tbl Nat 9 f
    pure (run1 (Opt.combine o1 o2 (fn2 "f" f)))
  | ["o.cat", c, l] => do
    cat? c; let l ← tok (List (Option Nat)) l
    pure (run1 (Opt.cat (σ := DS) l))
  | ["o.seq", c, l] => do
    cat? c; let l ← tok (List (Option Nat)) l
    pure (run1 (Opt.sequence (σ := DS) l))
  | ["o.from", c, o, d] => do
    cat? c; let o ← tok (Option Nat) o; let d ← tokx Nat d
    pure (run1 (Opt.from o (thunk "d" d)))
  | ["o.maybe", c, o, d, t] => do
    cat? c; let o ← tok (Option Nat) o; let d ← tokx Nat d; let t ← tbl Nat 3 t
    pure (run1 (Opt.maybe o (thunk "d" d) (fn1 "t" t)))
  | ["o.maybe_void", c, o] => do
    cat? c; let o ← tok (Option Nat) o
    pure (run1 (Opt.maybeVoid o (fun x => lg "t" [x])))
  | ["o.mm1", c, o1, d, t] => do
    cat? c; let o1 ← tok (Option Nat) o1; let d ← tokx Nat d; let t ← tbl Nat 3 t
    pure (run1 (Opt.maybeMulti1 (thunk "d" d) (fn1 "t" t) o1))
  | ["o.mm2", c, o1, o2, d, t] => do
    cat2? c; let o1 ← tok (Option Nat) o1; let o2 ← tok (Option Nat) o2; let d ← tokx Nat d; let t ← tbl Nat 9 t
    pure (run1 (Opt.maybeMulti2 (thunk "d" d) (fn2 "t" t) o1 o2))
  | ["o.mm3", c, o1, o2, o3, d, t] => do
    cat3? c; let o1 ← tok (Option Nat) o1; let o2 ← tok (Option Nat) o2; let o3 ← tok (Option Nat) o3
    let d ← tokx Nat d; let t ← tbl Nat 27 t
    pure (run1 (Opt.maybeMulti3 (thunk "d" d) (fn3 "t" t) o1 o2 o3))
  | ["o.make_if", b, v] => do
    let b ← tok Bool b; let v ← tokx Nat v
    pure (run1 (Opt.makeIf b (thunk "f" v)))
  | ["o.cmp", a, b] => do
    let a ← tok (Option Nat) a; let b ← tok (Option Nat) b
    pure (run1 do
      let e ← Opt.eq natEq a b; let n ← Opt.ne natEq a b; let l ← Opt.lt natLt a b
      pure [e, n, l])
  | ["o.assoc", c, o, f, g] => do
    cat? c; let o ← tok (Option Nat) o; let f ← tbl (Option Nat) 3 f; let g ← tbl (Option Nat) 3 g
    pure (run2
      (do let r ← Opt.bind o (fn1 "f" f); Opt.bind r (fn1 "g" g))
      (Opt.bind o fun x => do let r ← fn1 "f" f x; Opt.bind r (fn1 "g" g)))
  | ["o.mapcomp", c, o, f, g] => do
    cat? c; let o ← tok (Option Nat) o; let f ← tbl Nat 3 f; let g ← tbl Nat 3 g
    pure (run2
      (do let r ← Opt.map o (fn1 "f" f); Opt.map r (fn1 "g" g))
      (Opt.map o fun x => do let r ← fn1 "f" f x; fn1 "g" g r))
  -- either ---------------------------------------------------------------------------------
  | ["e.match", c, e, ff, fs] => do
    cat? c; let e ← tok (Either Nat Nat) e; let ff ← tbl Nat 3 ff; let fs ← tbl Nat 3 fs
    pure (run1 (Either.match_ e (fn1 "ff" ff) (fn1 "fs" fs)))
  | ["e.map", c, e, f] => do
    cat? c; let e ← tok (Either Nat Nat) e; let f ← tbl Nat 3 f
    pure (run1 (Either.map e (fn1 "f" f)))
  | ["e.bind", c, e, f] => do
    cat? c; let e ← tok (Either Nat Nat) e; let f ← tbl (Either Nat Nat) 3 f
    pure (run1 (Either.bind e (fn1 "f" f)))
  | ["e.mbind", c, e, f] => do
    cat? c; let e ← tok (Either Nat Nat) e; let f ← tbl (Either Nat Nat) 3 f
    pure (run1 (monadBindEither e (fn1 "f" f)))
  | ["e.join", c, ee] => do
    cat? c; let ee ← tok (Either Nat (Either Nat Nat)) ee
    pure (run1 (Either.join (σ := DS) ee))
  | ["e.apply1", c, e1, f] => do
    cat? c; let e1 ← tok (Either Nat Nat) e1; let f ← tbl Nat 3 f
    pure (run1 (Either.apply1 (fn1 "f" f) e1))
  | ["e.apply2", c, e1, e2, f] => do
    cat2? c; let e1 ← tok (Either Nat Nat) e1; let e2 ← tok (Either Nat Nat) e2; let f ← tbl Nat 9 f
    pure (run1 (Either.apply2 (fn2 "f" f) e1 e2))
  | ["e.apply3", c, e1, e2, e3, f] => do
    cat3? c; let e1 ← tok (Either Nat Nat) e1; let e2 ← tok (Either Nat Nat) e2; let e3 ← tok (Either Nat Nat) e3
    let f ← tbl Nat 27 f
    pure (run1 (Either.apply3 (fn3 "f" f) e1 e2 e3))
  | ["e.mapf", c, e, f] => do
    cat? c; let e ← tok (Either Nat Nat) e; let f ← tbl Nat 3 f
    pure (run1 (Either.mapFailure e (fn1 "f" f)))
  | ["e.seq", "R", l] => do   -- either::sequence accepts rvalue sources only
    let l ← tok (List (Either Nat Nat)) l
    pure (run1 (Either.sequence (σ := DS) l))
  | ["e.first", l] => do
    let l ← tok (List (OrX (Either Nat Nat))) l
    pure (run1 (Either.firstSuccess ((List.range l.length).zipWith nthThunk l)))
  | ["e.looplong", n, f] => do
    let n ← n.toNat?; let f ← f.toNat?
    if n ≤ 2000000 ∧ f < 3 then pure (loopLongLine n f) else none
  | ["e.loop", l] => do
    let l ← tok (List (Either Nat Nat)) l
    pure (runWith { queue := l } (Either.loop (l.length + 2) popNext (fun x => lg "b" [x])))
  | ["e.loop", l, body] => do
    let l ← tok (List (Either Nat Nat)) l; let body ← tbl Unit 3 body
    pure (runWith { queue := l } (Either.loop (l.length + 2) popNext (loopBody body)))
  | ["e.from_opt", c, o, f] => do
    cat? c; let o ← tok (Option Nat) o; let f ← tokx Nat f
    pure (run1 (Either.fromOptional o (thunk "f" f)))
  | ["e.try", r, t] => do
    let r ← tok Outcome r; let t ← tbl Nat 3 t
    pure (run1 (Either.tryCall catchesE1 (outcomeThunk r) (fn1 "t" t)))
  | ["e.sopt", c, e] => do
    cat? c; let e ← tok (Either Nat Nat) e
    pure (run1 (Either.successOpt (σ := DS) e))
  | ["e.fopt", c, e] => do
    cat? c; let e ← tok (Either Nat Nat) e
    pure (run1 (Either.failureOpt (σ := DS) e))
  | ["e.assoc", c, e, f, g] => do
    cat? c; let e ← tok (Either Nat Nat) e; let f ← tbl (Either Nat Nat) 3 f; let g ← tbl (Either Nat Nat) 3 g
    pure (run2
      (do let r ← Either.bind e (fn1 "f" f); Either.bind r (fn1 "g" g))
      (Either.bind e fun x => do let r ← fn1 "f" f x; Either.bind r (fn1 "g" g)))
  -- variant --------------------------------------------------------------------------------
  | ["v.match", c, v, fa, fb, fc] => do
    cat? c; let v ← tok V3 v; let fa ← tbl Nat 3 fa; let fb ← tbl Nat 3 fb; let fc ← tbl Nat 3 fc
    pure (run1 (Var.match_ v (fun i (x : Nat) =>
      if i.val = 0 then fn1 "a" fa x else if i.val = 1 then fn1 "b" fb x else fn1 "c" fc x)))
  | ["v.apply1", c, v, f] => do
    cat? c; let v ← tok V3 v; let f ← tbl Nat 9 f
    pure (run1 (Var.apply (fun i (x : Nat) => fn2 "f" f i.val x) v))
  | ["v.apply2", c, v1, v2, f] => do
    cat2? c; let v1 ← tok V3 v1; let v2 ← tok V3 v2; let f ← tbl Nat 81 f
    pure (run1 (Var.apply2 (fun i (x : Nat) j (y : Nat) => do
      lg "f" [i.val, x, j.val, y]
      look f (((i.val * 3 + x) * 3 + j.val) * 3 + y)) v1 v2))
  | ["v.to_opt", c, j, v] => do
    cat? c; let j ← fin3 j; let v ← tok V3 v
    pure (run1 (ρ := Option Nat) (Var.toOptional j v))
  | ["v.compare", l, r, cmp] => do
    let l ← tok V3 l; let r ← tok V3 r; let cmp ← tbl Bool 27 cmp
    pure (run1 (Var.compare l r (fun i (x y : Nat) => fn3 "c" cmp i.val x y)))
  | ["v.cmp", l, r] => do
    let l ← tok V3 l; let r ← tok V3 r
    pure (run1 (pure [Var.eq (fun _ => natEq) l r, Var.ne (fun _ => natEq) l r, Var.lt (fun _ => natLt) l r]))
  | ["v.holds", j, v] => do
    let j ← fin3 j; let v ← tok V3 v
    pure (run1 (pure (Var.holdsType j v)))
  | ["v.index", v] => do
    let v ← tok V3 v
    pure (run1 (pure (Var.typeIndex v)))
  -- the same object as both operands -------------------------------------------------------
  | ["o.combine.same", c, o, f] => do
    catLC? c; let o ← tok (Option Nat) o; let f ← tbl Nat 9 f
    pure (run1 (Opt.combine o o (fn2 "f" f)))
  | ["o.apply2.same", c, o, f] => do
    catLC? c; let o ← tok (Option Nat) o; let f ← tbl Nat 9 f
    pure (run1 (Opt.apply2 (fn2 "f" f) o o))
  | ["o.mm2.same", c, o, d, t] => do
    catLC? c; let o ← tok (Option Nat) o; let d ← tokx Nat d; let t ← tbl Nat 9 t
    pure (run1 (Opt.maybeMulti2 (thunk "d" d) (fn2 "t" t) o o))
  | ["o.alt.same", c, o] => do
    catLC? c; let o ← tok (Option Nat) o
    pure (run1 (Opt.alternative o (thunk "a" (some o))))
  | ["o.cmp.same", a] => do
    let a ← tok (Option Nat) a
    pure (run1 do
      let e ← Opt.eq natEq a a; let n ← Opt.ne natEq a a; let l ← Opt.lt natLt a a
      pure [e, n, l])
  | ["e.apply2.same", c, e, f] => do
    catLC? c; let e ← tok (Either Nat Nat) e; let f ← tbl Nat 9 f
    pure (run1 (Either.apply2 (fn2 "f" f) e e))
  | ["v.cmp.same", l] => do
    let l ← tok V3 l
    pure (run1 (pure [Var.eq (fun _ => natEq) l l, Var.ne (fun _ => natEq) l l, Var.lt (fun _ => natLt) l l]))
  | ["v.compare.same", l, cmp] => do
    let l ← tok V3 l; let cmp ← tbl Bool 27 cmp
    pure (run1 (Var.compare l l (fun i (x y : Nat) => fn3 "c" cmp i.val x y)))
  -- continuations returning a reference into their argument ----------------------------------
  | ["o.maybe_ref", c, o, d] => do
    catLC? c; let o ← tok (Option Nat) o; let d ← tok Nat d
    pure (run1 (Opt.maybe o (fun _ => do lg "d" []; pure s!"d:{d}") (fun x => do lg "t" [x]; pure s!"in:{x}")))
  | ["e.match_ref", c, e] => do
    catLC? c; let e ← tok (Either Nat Nat) e
    pure (run1 (Either.match_ e (fun x => do lg "ff" [x]; pure s!"in:{x}") (fun x => do lg "fs" [x]; pure s!"in:{x}")))
  | ["v.match_ref", c, v] => do
    catLC? c; let v ← tok V3 v
    pure (run1 (Var.match_ v (fun i (x : Nat) => do
      lg (if i.val = 0 then "a" else if i.val = 1 then "b" else "c") [x]; pure s!"in:{x}")))
  | ["v.apply_ref", c, v] => do
    catLC? c; let v ← tok V3 v
    pure (run1 (Var.apply (fun i (x : Nat) => do lg "f" [i.val, x]; pure s!"in:{x}") v))
  -- other container types --------------------------------------------------------------------
  | ["o.cat.ld", c, l] => do
    cat? c; let l ← tok (List (Option Nat)) l
    pure (run1 (Opt.cat (σ := DS) l))
  | ["o.seq.dl", c, l] => do
    cat? c; let l ← tok (List (Option Nat)) l
    pure (run1 (Opt.sequence (σ := DS) l))
  | ["v.apply3", c, v1, v2, v3, f] => do
    cat3? c; let v1 ← tok V3 v1; let v2 ← tok V3 v2; let v3 ← tok V3 v3; let f ← tbl Nat 27 f
    pure (run1 (Var.apply3 (fun i (x : Nat) j (y : Nat) k (z : Nat) => do
      lg "f" [i.val, x, j.val, y, k.val, z]
      look f ((x * 3 + y) * 3 + z)) v1 v2 v3))
  -- the rest of the public API: optional ------------------------------------------------------
  | ["o.to_cont", c, o] => do
    cat? c; let o ← tok (Option Nat) o
    pure (run1 (Opt.toContainer (σ := DS) o))
  | ["o.copy_value", c, o, cells] => do
    catLC? c; let o ← tok (Option Ref) o; let cells ← tbl Nat 3 cells
    pure (run1 (Opt.copyValue (fun (r : Ref) => look cells r.idx) o))
  | ["o.deref", k, o, cells] => do
    if k ≠ "p" ∧ k ≠ "i" then none
    let o ← tok (Option Ref) o; let cells ← tbl Nat 3 cells
    -- the result is a reference: it is printed with the value its cell has after every cell was bumped
    pure (run1 do
      let r ← Opt.deref (fun (p : Ref) => (pure p : KD Ref)) o
      match r with
      | none => pure "N"
      | some ref => do
        let v ← look cells ref.idx
        pure s!"J{sh ref}={(v + 1) % 3}")
  | ["o.deref_up", o] => do
    let o ← tok (Option Nat) o
    pure (run1 do
      let r ← Opt.deref (fun (x : Nat) => (pure x : KD Nat)) o
      pure (match r with | none => "N" | some v => s!"J&u={v}"))
  | ["o.mvm1", c, o1] => do
    cat? c; let o1 ← tok (Option Nat) o1
    pure (run1 (Opt.maybeVoidMulti1 (fun x => lg "t" [x]) o1))
  | ["o.mvm2", c, o1, o2] => do
    cat2? c; let o1 ← tok (Option Nat) o1; let o2 ← tok (Option Nat) o2
    pure (run1 (Opt.maybeVoidMulti2 (fun x y => lg "t" [x, y]) o1 o2))
  | ["o.mvm3", c, o1, o2, o3] => do
    cat3? c; let o1 ← tok (Option Nat) o1; let o2 ← tok (Option Nat) o2; let o3 ← tok (Option Nat) o3
    pure (run1 (Opt.maybeVoidMulti3 (fun x y z => lg "t" [x, y, z]) o1 o2 o3))
  | ["o.assign", o, v] => do
    let o ← tok (Option Nat) o; let v ← tok Nat v
    pure (run1 do
      let (o', r) ← Opt.assign (σ := DS) o v
      pure s!"{sh o'} {r} in")
  | ["o.set", o, v] => do
    let o ← tok (Option Nat) o; let v ← tok Nat v
    if o.isNone then none   -- precondition of get_unsafe: not generated
    pure (run1 (Opt.setUnsafe (σ := DS) o v))
  | ["o.from_ptr", p, cells] => do
    let p ← tok (Ptr Ref) p; let _ ← tbl Nat 3 cells
    pure (run1 (Opt.fromPointer (σ := DS) p))
  | ["o.to_ptr", o, cells] => do
    let o ← tok (Option Ref) o; let _ ← tbl Nat 3 cells
    pure (run1 (Opt.toPointer (σ := DS) o))
  | ["o.to_exc", c, o] => do
    cat? c; let o ← tok (Option Nat) o
    pure (run1 (Opt.toException o (fun _ => do lg "m" []; pure (.other "E2"))))
  | ["o.make", c, v] => do
    cat? c; let v ← tok Nat v
    pure (run1 (pure (Opt.make v)))
  | ["o.out", o] => do
    let o ← tok (Option Nat) o
    let (_, st) := Opt.output (σ := String) (fun ch s => (.ok (), s.push ch)) (fun (v : Nat) s => (.ok (), s ++ toString v)) o ""
    pure (st ++ " | -")
  | ["o.nothing"] => pure (run1 (pure (Opt.nothing : Option Nat)))
  -- either -----------------------------------------------------------------------------------
  | ["e.cmp", a, b] => do
    let a ← tok (Either Nat Nat) a; let b ← tok (Either Nat Nat) b
    pure (run1 do
      let e ← Either.eq natEq natEq a b; let n ← Either.ne natEq natEq a b
      pure [e, n])
  | ["e.cmp.same", a] => do
    let a ← tok (Either Nat Nat) a
    pure (run1 do
      let e ← Either.eq natEq natEq a a; let n ← Either.ne natEq natEq a a
      pure [e, n])
  | ["e.construct", b, s, f] => do
    let b ← tok Bool b; let s ← tokx Nat s; let f ← tokx Nat f
    pure (run1 (Either.construct (φ := Nat) b (thunk "s" s) (thunk "f" f)))
  | ["e.err_from_opt", c, o] => do
    cat? c; let o ← tok (Option Nat) o
    pure (run1 (Either.errorFromOptional (σ := DS) o))
  | ["e.mk_fail", c, v] => do
    cat? c; let v ← tok Nat v
    pure (run1 (pure (Either.makeFailure v : Either Nat Nat)))
  | ["e.mk_succ", c, v] => do
    cat? c; let v ← tok Nat v
    pure (run1 (pure (Either.makeSuccess v : Either Nat Nat)))
  | ["e.out", e] => do
    let e ← tok (Either Nat Nat) e
    let put : Nat → K String Unit := fun v s => (.ok (), s ++ toString v)
    let (_, st) := Either.output put put e ""
    pure (st ++ " | -")
  | ["e.seq_err", c, l, f] => do
    cat? c; let l ← tok (List Nat) l; let f ← tbl (Either Nat Unit) 3 f
    pure (run1 (Either.sequenceError l (fn1 "f" f)))
  | ["e.to_exc", c, e] => do
    cat? c; let e ← tok (Either Nat Nat) e
    pure (run1 (Either.toException e (fun f => do lg "m" [f]; pure (.other s!"E1:{f}"))))
  | ["e.set", e, v] => do
    let e ← tok (Either Nat Nat) e; let v ← tok Nat v
    pure (run1 (match e with
      | .success _ => Either.setSuccessUnsafe (σ := DS) e v
      | .failure _ => Either.setFailureUnsafe (σ := DS) e v))
  -- variant ----------------------------------------------------------------------------------
  | ["v.to_opt_ref", c, j, v, nv] => do
    catLC? c; let j ← fin3 j; let v ← tok V3 v; let nv ← tok Nat nv
    pure (run1 do
      let r ← Var.toOptionalRef (τ := fun _ => Nat) j v
      match r with
      | none => pure s!"N - {sh v}"
      | some x =>
        if c = "L" then do
          -- written through the reference, then read through it
          let v' ← Var.setUnsafe (τ := fun _ => Nat) j v nv
          let r' ← Var.getUnsafe (τ := fun _ => Nat) j v'
          pure s!"J{r'} in {sh v'}"
        else pure s!"J{x} in {sh v}")
  | ["v.get", v, nv] => do
    let v ← tok V3 v; let nv ← tok Nat nv
    pure (run1 do
      let x ← Var.getUnsafe (τ := fun _ => Nat) v.idx v
      let v' ← Var.setUnsafe (τ := fun _ => Nat) v.idx v nv
      pure s!"{x} {sh v'}")
  | ["v.out", v] => do
    let v ← tok V3 v
    let (_, st) := Var.output (σ := String) (τ := fun _ => Nat) (fun _ (x : Nat) s => (.ok (), s ++ toString x)) v ""
    pure (st ++ " | -")
  | ["v.tinfo", v] => do
    let v ← tok V3 v
    pure (run1 (pure s!"{Var.typeIndex v}{Var.typeIndex v}f"))
  | ["v.dyn", c, types, dyn] => do
    let dyn ← tok Nat dyn <|> (if dyn = "3" then some 3 else none)
    let ok := if c = "L" then ["1", "2", "12", "21", "32", "123", "231", "321"].contains types
              else if c = "C" then ["12", "21"].contains types else false
    if !ok then none
    let tys := types.toList.map fun ch => ch.toNat - 48
    -- dynamic type 0 = base, 1 = d1, 2 = d2 (derived from d1), 3 = d3
    let isA (ty : Nat) : Bool := (dyn = ty) || (dyn = 2 && ty = 1)
    pure (run1 do
      let r ← dynamicCast (tys.map fun ty (_ : Unit) => (pure (if isA ty then some ty else none) : KD (Option Nat)))
      pure (match r with
        | none => "N"
        | some (i, ty) => s!"J{i}:{ty}=obj"))
  -- special members, std::swap -----------------------------------------------------------------
  | ["o.asg", k, a, b] => do
    let a ← tok (Option Nat) a; let b ← tok (Option Nat) b
    (asgOp k a b).map fun r => r ++ " | -"
  | ["e.asg", k, a, b] => do
    let a ← tok (Either Nat Nat) a; let b ← tok (Either Nat Nat) b
    (asgOp k a b).map fun r => r ++ " | -"
  | ["v.asg", k, a, b] => do
    let a ← tok V3 a; let b ← tok V3 b
    (asgOp k a b).map fun r => r ++ " | -"
  | ["o.assign.own", o] => do
    let o ← tok (Option Nat) o
    let x ← o     -- precondition of get_unsafe: not generated for nothing
    pure (run1 do
      let (o', r) ← Opt.assign (σ := DS) o x
      pure s!"{sh o'} {r} in")
  -- constructors ------------------------------------------------------------------------------
  | ["o.ctor", c, v] => do
    cat? c; let v ← tok Nat v
    pure (run1 (pure (some v)))
  | ["e.ctor", c, k, v] => do
    cat? c; let v ← tok Nat v
    if k = "S" then pure (run1 (pure (Either.success v : Either Nat Nat)))
    else if k = "F" then pure (run1 (pure (Either.failure v : Either Nat Nat)))
    else none
  | ["v.ctor", c, v] => do
    cat? c; let v ← tok V3 v
    pure (run1 (pure v))
  | ["o.to_exc_ref", c, o] => do
    catLC? c; let o ← tok (Option Nat) o
    pure (run1 do
      let x ← Opt.toException o (fun _ => do lg "m" []; pure (.other "E2"))
      pure s!"in:{x}")
  | ["e.to_exc_ref", c, e] => do
    catLC? c; let e ← tok (Either Nat Nat) e
    pure (run1 do
      let x ← Either.toException e (fun f => do lg "m" [f]; pure (.other s!"E1:{f}"))
      pure s!"in:{x}")
  -- monad ------------------------------------------------------------------------------------
  | ["m.chain2.o", c, o, f, g] => do
    cat? c; let o ← tok (Option Nat) o; let f ← tbl (Option Nat) 3 f; let g ← tbl (Option Nat) 3 g
    pure (run1 (chainOpt2 o (fn1 "f" f) (fn1 "g" g)))
  | ["m.chain2.e", c, e, f, g] => do
    cat? c; let e ← tok (Either Nat Nat) e; let f ← tbl (Either Nat Nat) 3 f; let g ← tbl (Either Nat Nat) 3 g
    pure (run1 (chainEither2 e (fn1 "f" f) (fn1 "g" g)))
  | ["m.chain0.o", c, o] => do
    cat? c; let o ← tok (Option Nat) o
    pure (run1 (chainOptN (σ := DS) o []))
  | ["m.do3.o", c, o, f, g] => do
    cat? c; let o ← tok (Option Nat) o; let f ← tbl (Option Nat) 3 f; let g ← tbl (Option Nat) 9 g
    pure (run1 (doOpt3 o (fn1 "f" f) (fn2 "g" g)))
  | ["m.do3.e", c, e, f, g] => do
    cat? c; let e ← tok (Either Nat Nat) e; let f ← tbl (Either Nat Nat) 3 f; let g ← tbl (Either Nat Nat) 9 g
    pure (run1 (doEither3 e (fn1 "f" f) (fn2 "g" g)))
  | ["m.ret.o", v] => do
    let v ← tok Nat v
    pure (run1 (pure (returnOpt v)))
  | ["m.ret.e", v] => do
    let v ← tok Nat v
    pure (run1 (pure (returnEither v : Either Nat Nat)))
  | _ => handleVV toks

/-- the `i`-th table D×D → D in counting order (most significant digit first) -/
def table9 (i : Nat) : String :=
  String.ofList ((List.range 9).reverse.map fun k => Char.ofNat (48 + (i / 3 ^ k) % 3))

def handle (toks : List String) : String :=
  match toks with
  | "all9" :: rest =>
    if rest.count "*" ≠ 1 then "bad-op"
    else if (handle1 (rest.map fun x => if x = "*" then "000000000" else x)).isNone then "bad-op"
    else
      let h := (List.range (3 ^ 9)).foldl (fun h i =>
        let t := table9 i
        fnv h ((handle1 (rest.map fun x => if x = "*" then t else x)).getD "bad-op")) fnvInit
      "D " ++ hex64 h
  | _ => (handle1 toks).getD "bad-op"

def main : IO Unit := Proto.run handle

end Fcppt.C04.Drv
