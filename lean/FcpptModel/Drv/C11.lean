import FcpptModel.Prelude.Proto
import FcpptModel.Spec.C11
/-!
Driver for C11.  A history starts with `reset`; every line prints `<status> <dump>`.

Intrusive lists (`k` < 8 list ids, `e` < 16 element ids):

* `L k`      `new list`                      * `E e k`   `new elem(list_k)`
* `d e`      `delete e`                      * `u e`     `e->unlink()`
* `M e2 e`   `new elem(std::move(*e))`       * `A a b`   `*a = std::move(*b)`
* `LM k2 k`  `new list(std::move(*k))`       * `LA k k2` `*k = std::move(*k2)`
* `LD k`     `delete list k`

dump: for every live list `Lk=<forward walk>|<backward walk>|<empty()>`, then for every live node
`name:prev,next`.

Signals (`s` < 8, connections `x` < 16; callbacks `f`, unregister ids `u`, combiner ids `c` numbers):

* `SN s c`        `new object<int(int), unregister::base>(combiner_c)`
* `PN s c`        `new object<int(int), signal::base>(combiner_c)`      (no unregister functions)
* `SC x s f u`    `x = s.connect(callback_f, unregister_u)`   (`PC x s f` for the plain base)
* `SX x`          `x.reset()`
* `SM s2 s`, `SA s s2`, `SD s`   move-construct, move-assign, destroy
* `call s init arg`

dump: for every live signal `Ss=<invoked callbacks>:<result>|<empty()>` (called with init 1, arg 2),
then `unreg=<u>:<count>,…`.

The suffix ` #spec=…` is the judge: `ok` when the abstract state `Spec.run` predicts exactly the walks
the model produced, `-` once an operation was not `Spec.valid` (cannot happen: lifetimes are checked first), `BAD` otherwise (a `BAD` is a violation, see props/c11.py).
-/
namespace Fcppt.C11.Drv
open Fcppt.Proto Fcppt.C11

def maxLists : Nat := 8
def maxElems : Nat := 16
def walkCap : Nat := 64

def nodeName : Node → String
  | .head k => s!"h{k}"
  | .elem e => s!"e{e}"

def names (l : List Node) : String := if l.isEmpty then "-" else ",".intercalate (l.map nodeName)

def walkStr (r : M (List Node)) : String :=
  match r with
  | .ok l => names l
  | .error .fuel => "overrun"
  | .error f => "fault:" ++ f.name

structure St where
  sig : Sig.State := Sig.State.empty
  spec : Option Spec.Rings := some []
  dead : Bool := false
  plain : List Nat := []         -- signals created with `PN` (bookkeeping only: which harness table)

def allNodes : List Node := (List.range maxLists).map Node.head ++ (List.range maxElems).map Node.elem

def cbFn (f arg : Nat) : Nat := (f * 7 + arg) % 1000
def combFn (c acc x : Nat) : Nat := (acc * 31 + x + c) % 1000003

def listDump (σ : Store) : String :=
  let ls := (List.range maxLists).filter (fun k => σ.live (.head k))
  let a := ls.map fun k =>
    let e := match listEmpty σ (.head k) with | .ok b => b01 b | .error f => "fault:" ++ f.name
    s!"L{k}={walkStr (walk σ (.head k) walkCap)}|{walkStr (walkBack σ (.head k) walkCap)}|{e}"
  let nm := fun n => if σ.live n then nodeName n else "?"      -- a dangling link has no name
  let b := (allNodes.filter σ.live).map fun n => s!"{nodeName n}:{nm (σ.prev n)},{nm (σ.next n)}"
  " ".intercalate (a ++ b)

def callStr (st : Sig.State) (s init arg : Nat) : String :=
  match Sig.call cbFn combFn st s walkCap init arg with
  | .ok (fs, r) => s!"{if fs.isEmpty then "-" else natList fs}:{r}"
  | .error .fuel => "overrun"
  | .error .emptyDeref => "nocomb"
  | .error f => "fault:" ++ f.name

def sigDump (st : Sig.State) : String :=
  let ss := (List.range maxLists).filter (fun s => st.store.live (.head s))
  let a := ss.map fun s =>
    let e := match listEmpty st.store (.head s) with | .ok b => b01 b | .error f => "fault:" ++ f.name
    s!"S{s}={callStr st s 1 2}|{e}"
  let us := (List.range 64).filter (fun u => st.unregCount u > 0)
  let b := "unreg=" ++ (if us.isEmpty then "-" else ",".intercalate (us.map fun u => s!"{u}:{st.unregCount u}"))
  " ".intercalate (a ++ [b])

/-- what every live signal would invoke in state `st` (the harness asks this from inside the
unregister function, i.e. between `unlink()` and `~base()` of the dying connection) -/
def sigCalls (st : Sig.State) : String :=
  let ss := (List.range maxLists).filter (fun s => st.store.live (.head s))
  if ss.isEmpty then "-" else ",".intercalate (ss.map fun s => s!"S{s}={callStr st s 1 2}")

def sawSuffix (st : Sig.State) : Sig.Op → String
  | .disconnect x =>
    match st.conn x with
    | some ⟨_, some _⟩ =>
      match baseUnlink st.store (.elem x) with
      | .ok σ => " saw=" ++ sigCalls { st with store := σ }
      | .error f => " saw=fault:" ++ f.name
    | _ => " saw=-"
  | _ => ""

/-- the judge: does the abstract state predict the model's walks and liveness? -/
def specAgrees (σ : Store) (R : Spec.Rings) : Bool :=
  (allNodes.all fun n => σ.live n == decide (n ∈ Spec.nodes R)) &&
  ((List.range maxLists).all fun k =>
    match Spec.members R k with
    | none => !σ.live (.head k)
    | some m => σ.live (.head k) && walk σ (.head k) walkCap == .ok m
                && walkBack σ (.head k) walkCap == .ok m.reverse)

def specSuffix (st : St) : String :=
  match st.spec with
  | none => " #spec=-"
  | some R => if specAgrees st.sig.store R then " #spec=ok" else " #spec=BAD"

def parseListOp (t : List String) : Option Op :=
  match t with
  | ["L", k] => do let k ← k.toNat?; guard (k < maxLists); pure (.newList k)
  | ["E", e, k] => do let e ← e.toNat?; let k ← k.toNat?; guard (e < maxElems ∧ k < maxLists); pure (.newElem e k)
  | ["d", e] => do let e ← e.toNat?; guard (e < maxElems); pure (.delElem e)
  | ["u", e] => do let e ← e.toNat?; guard (e < maxElems); pure (.unlink e)
  | ["M", e2, e] => do let e2 ← e2.toNat?; let e ← e.toNat?; guard (e2 < maxElems ∧ e < maxElems); pure (.moveCtor e2 e)
  | ["A", a, b] => do let a ← a.toNat?; let b ← b.toNat?; guard (a < maxElems ∧ b < maxElems); pure (.moveAssign a b)
  | ["LM", k2, k] => do let k2 ← k2.toNat?; let k ← k.toNat?; guard (k2 < maxLists ∧ k < maxLists); pure (.listMoveCtor k2 k)
  | ["LA", k, k2] => do let k ← k.toNat?; let k2 ← k2.toNat?; guard (k < maxLists ∧ k2 < maxLists); pure (.listMoveAssign k k2)
  | ["LD", k] => do let k ← k.toNat?; guard (k < maxLists); pure (.delList k)
  | _ => none

/-- signal operation + whether it addresses the plain (`P…`) family -/
def parseSigOp (t : List String) : Option (Sig.Op × Bool) :=
  match t with
  | ["SN", s, c] => do let s ← s.toNat?; let c ← c.toNat?; guard (s < maxLists ∧ c < 64); pure (.newSig s c, false)
  | ["PN", s, c] => do let s ← s.toNat?; let c ← c.toNat?; guard (s < maxLists ∧ c < 64); pure (.newSig s c, true)
  | ["SC", x, s, f, u] => do
    let x ← x.toNat?; let s ← s.toNat?; let f ← f.toNat?; let u ← u.toNat?
    guard (x < maxElems ∧ s < maxLists ∧ f < 100 ∧ u < 64); pure (.connect x s f (some u), false)
  | ["PC", x, s, f] => do
    let x ← x.toNat?; let s ← s.toNat?; let f ← f.toNat?
    guard (x < maxElems ∧ s < maxLists ∧ f < 100); pure (.connect x s f none, true)
  | ["SX", x] => do let x ← x.toNat?; guard (x < maxElems); pure (.disconnect x, false)
  | ["SM", s2, s] => do let s2 ← s2.toNat?; let s ← s.toNat?; guard (s2 < maxLists ∧ s < maxLists); pure (.moveCtor s2 s, false)
  | ["SA", s, s2] => do let s ← s.toNat?; let s2 ← s2.toNat?; guard (s < maxLists ∧ s2 < maxLists); pure (.moveAssign s s2, false)
  | ["SD", s] => do let s ← s.toNat?; guard (s < maxLists); pure (.delSig s, false)
  | _ => none

/-- signals of the two families are different C++ types: an operation may not mix them -/
def familyOk (st : St) : Sig.Op → Bool → Bool
  | .newSig _ _, _ => true
  | .connect _ s _ _, p => st.plain.contains s == p
  | .moveCtor _ _, _ => true
  | .moveAssign s s2, _ => st.plain.contains s == st.plain.contains s2
  | _, _ => true

def advanceSpec (st : St) (op : Op) : Option Spec.Rings :=
  match st.spec with
  | some R => if Spec.valid R op then some (Spec.step R op) else none
  | none => none

def handle (st : St) (t : List String) : St × String :=
  if t = ["reset"] then ({}, "ok") else
  if st.dead then (st, "dead") else
  match parseListOp t with
  | some op =>
    if !lifetimeOk st.sig.store op then (st, "bad-op") else
    match step st.sig.store op with
    | .ok σ =>
      let st' := { st with sig := { st.sig with store := σ }, spec := advanceSpec st op }
      (st', "ok" ++ (if (listDump σ).isEmpty then "" else " " ++ listDump σ) ++ specSuffix st')
    | .error f => ({ st with dead := true }, "fault:" ++ f.name)
  | none =>
  match parseSigOp t with
  | some (op, p) =>
    if !Sig.lifetimeOk st.sig op || !familyOk st op p then (st, "bad-op") else
    match Sig.step st.sig op with
    | .ok s' =>
      let plain := match op with
        | .newSig s _ => if p then s :: st.plain.erase s else st.plain.erase s
        | .moveCtor s2 s => if st.plain.contains s then s2 :: st.plain.erase s2 else st.plain.erase s2
        | _ => st.plain
      let st' := { st with sig := s', spec := advanceSpec st op.toList, plain := plain }
      (st', "ok " ++ sigDump s' ++ sawSuffix st.sig op ++ specSuffix st')
    | .error f => ({ st with dead := true }, "fault:" ++ f.name)
  | none =>
  match t with
  | ["call", s, i, a] =>
    match s.toNat?, i.toNat?, a.toNat? with
    | some s, some i, some a =>
      if s < maxLists ∧ st.sig.store.live (.head s) ∧ i < 1000 ∧ a < 1000 then (st, "ok " ++ callStr st.sig s i a) else (st, "bad-op")
    | _, _, _ => (st, "bad-op")
  | _ => (st, "bad-op")

def main : IO Unit := Proto.runState ({} : St) handle

end Fcppt.C11.Drv
