import FcpptModel.Prelude.Proto
import FcpptModel.Spec.C11
/-!
Driver for C11.  A history starts with `reset`; every line prints `<status> <dump>`.

Intrusive lists (`k` < 8 list ids, `e` < 16 element ids):

* `L k`      `new list`                      * `E e k`   `new elem(list_k)`
* `d e`      `delete e`                      * `u e`     `e->unlink()`
* `M e2 e`   `new elem(std::move(*e))`       * `A a b`   `*a = std::move(*b)`
* `LM k2 k`  `new list(std::move(*k))`       * `LA k k2` `*k = std::move(*k2)`
* `LD k`     `delete list k`
* `LS k k2`  `std::swap(*k, *k2)`            * `ES a b`  `std::swap(*a, *b)`   (the generic `std::swap`: move-construct a
  temporary, two move assignments, destroy the temporary — list id 7 / element id 15 are reserved for it; `k = k2`, `a = b`: self-swap)

Iterator objects (`i`, `j` < 8 slots; a slot holds a `list::iterator` or a `list::const_iterator`):

* `IB i k` / `IE i k`   `it_i = list_k.begin()` / `.end()`       * `CB i k` / `CE i k`  the same through `list const &`
* `IP i e` / `CP i e`   `it_i = iterator{&elem_e}` / `const_iterator{…}`   * `IN i` / `CN i`  `it_i = iterator{}` / `const_iterator{}`
* `IC i j`  `it_i = it_j` (copy)       * `IX i`  drop the slot
* `I+ i` `I- i`  `++it_i`, `--it_i`    * `Ip i` `Im i`  `it_i++`, `it_i--` (prints ` ret=<position of the returned iterator>`)
* `IS i j`  `it_i.swap(it_j)` (same constness only; `i = j`: self-swap)
* `I= i j`  prints ` eq=<it_i == it_j> ne=<it_i != it_j>` (same constness only)
* `I* i`    prints ` deref=<element>` (`*it` and `it.operator->()` must agree)

A slot whose node is destroyed (`d`, `LD`) is dropped on both sides (the caller may not use it any more).

dump: for every live list `Lk=<forward walk>|<backward walk>|<empty()>`, then for every live node
`name:prev,next`, then for every iterator slot `i<n>=<node name | null>[c]`.

Signals (`s` < 8, connections `x` < 16; callbacks `f`, unregister ids `u`, combiner ids `c` numbers).  Four
instantiations: `S` = `object<int(int), unregister::base>`, `P` = `object<int(int), signal::base>`,
`V` = `object<void(int), unregister::base>`, `W` = `object<void(int), signal::base>`:

* `SN s c` / `PN s c` / `VN s` / `WN s`     construct
* `SC x s f u` / `PC x s f` / `VC x s f u` / `WC x s f`   `holder_x = optional_auto_connection{s.connect(callback_f [, unregister_u])}`
* `SX h`          `holder_h = optional_auto_connection{}`       (the connection it holds dies)
* `SM s2 s`, `SA s s2`, `SD s`   move-construct, move-assign, destroy;  `SS s s2`  `std::swap(s, s2)` (temporary: signal id 7)
* `call s init arg` (int signals), `vcall s arg` (void signals)
* owners: `HA a b` `holder_a = std::move(holder_b)`; `HW a b` `std::swap(holder_a, holder_b)`;
  `KP c h` `container_c.push_back(std::move(*holder_h))`; `KO c h` `holder_h = std::move(container_c.back()); pop_back()`;
  `KE c i` `container_c.erase(begin() + i)`; `KC c` `container_c.clear()`; `KA c c2` `container_c = std::move(container_c2)`
  (`c` < 4 containers = owners 16..19 of the model; holders = owners 0..15)

* callbacks with effects: `AN f` callback `f` does nothing besides returning its value (default); `AR f h` it also resets
  `holder_h`; `AK f c` it clears `container_c`; `AC f h s f2 u` it connects callback `f2` (unregister `u` where the base has
  one) to signal `s` into `holder_h` if that holder is free and `s` alive.  The effects happen only inside
  `rcall s init arg` / `rvcall s arg` (prints `<invoked>:<result | v>` and then the dump of the state the call left behind).

dump: for every live signal `Ss=<invoked callbacks>:<result | v>|<empty()>|<callbacks met iterating connections() backwards>`
(called with init 1, arg 2), then `unreg=<u>:<count>,…`; operations that can destroy connections append
` saw=` + for every unregister function that ran, in order, `u<id>@<what every live signal would invoke from inside it>` joined by `;`.

The suffix ` #spec=…` is the judge: `ok` when the abstract state `Spec.run` predicts exactly the walks
the model produced, `-` once an operation was not `Spec.valid` (cannot happen: lifetimes are checked first), `BAD` otherwise (a `BAD` is a violation, see props/c11.py).
-/
namespace Fcppt.C11.Drv
open Fcppt.Proto Fcppt.C11

def maxLists : Nat := 8
def maxElems : Nat := 16
def maxIters : Nat := 8
def maxConts : Nat := 4
def walkCap : Nat := 64

def nodeName : Node → String
  | .head k => s!"h{k}"
  | .elem e => s!"e{e}"

def names (l : List Node) : String := if l.isEmpty then "-" else ",".intercalate (l.map nodeName)

def walkStr (r : M (List Node)) : String :=
  match r with
  | .ok l => names l
  | .error .fuel => "overrun"
  | .error f => "fault:" ++ f.name

structure ItSlot where
  cur : Iter
  isConst : Bool

structure St where
  hold : Hold.State := Hold.State.empty
  spec : Option Spec.Rings := some []
  dead : Bool := false
  fam : List (Nat × Nat) := []        -- signal id → 0 `S`, 1 `P`, 2 `V`, 3 `W` (bookkeeping: which C++ type)
  its : List (Nat × ItSlot) := []     -- iterator slots, sorted by slot number
  acts : List (Nat × List Nat) := []  -- callback id → [kind, params…] (1 reset owner, 2 connect h s f2 u)

def St.sig (st : St) : Sig.State := st.hold.sig
def St.store (st : St) : Store := st.hold.sig.store

def allNodes : List Node := (List.range maxLists).map Node.head ++ (List.range maxElems).map Node.elem

def cbFn (f arg : Nat) : Nat := (f * 7 + arg) % 1000
def combFn (c acc x : Nat) : Nat := (acc * 31 + x + c) % 1000003

def iterName (σ : Store) : Iter → String
  | none => "null"
  | some n => if σ.live n then nodeName n else "?"

def itsDump (σ : Store) (its : List (Nat × ItSlot)) : List String :=
  its.map fun (i, s) => s!"i{i}={iterName σ s.cur}{if s.isConst then "c" else ""}"

def listDump (σ : Store) (its : List (Nat × ItSlot)) : String :=
  let ls := (List.range maxLists).filter (fun k => σ.live (.head k))
  let a := ls.map fun k =>
    let e := match listEmpty σ (.head k) with | .ok b => b01 b | .error f => "fault:" ++ f.name
    s!"L{k}={walkStr (walk σ (.head k) walkCap)}|{walkStr (walkBack σ (.head k) walkCap)}|{e}"
  let nm := fun n => if σ.live n then nodeName n else "?"      -- a dangling link has no name
  let b := (allNodes.filter σ.live).map fun n => s!"{nodeName n}:{nm (σ.prev n)},{nm (σ.next n)}"
  " ".intercalate (a ++ b ++ itsDump σ its)

def famOf (st : St) (s : Nat) : Nat := ((st.fam.find? (·.1 == s)).map (·.2)).getD 0
def famVoid (f : Nat) : Bool := f ≥ 2
def famUnreg (f : Nat) : Bool := f % 2 == 0

def idsStr (l : List Nat) : String := if l.isEmpty then "-" else natList l

def callStr (st : Sig.State) (s init arg : Nat) : String :=
  match Sig.call cbFn combFn st s walkCap init arg with
  | .ok (fs, r) => s!"{idsStr fs}:{r}"
  | .error .fuel => "overrun"
  | .error .emptyDeref => "nocomb"
  | .error f => "fault:" ++ f.name

def vcallStr (st : Sig.State) (s : Nat) : String :=
  match Sig.callVoid st s walkCap with
  | .ok fs => s!"{idsStr fs}:v"
  | .error .fuel => "overrun"
  | .error f => "fault:" ++ f.name

def anyCallStr (fam : List (Nat × Nat)) (st : Sig.State) (s : Nat) : String :=
  if famVoid (((fam.find? (·.1 == s)).map (·.2)).getD 0) then vcallStr st s else callStr st s 1 2

/-- the callbacks of the connections met when iterating `connections()` from `end()` backwards -/
def bwdStr (st : Sig.State) (s : Nat) : String :=
  match walkBack st.store (.head s) walkCap with
  | .ok ns =>
    match ns.mapM (fun n => match n with
        | .elem x => (st.conn x).map (·.callback)
        | .head _ => none) with
    | some fs => idsStr fs
    | none => "fault:oob"
  | .error .fuel => "overrun"
  | .error f => "fault:" ++ f.name

def sigDump (fam : List (Nat × Nat)) (st : Sig.State) : String :=
  let ss := (List.range maxLists).filter (fun s => st.store.live (.head s))
  let a := ss.map fun s =>
    let e := match listEmpty st.store (.head s) with | .ok b => b01 b | .error f => "fault:" ++ f.name
    s!"S{s}={anyCallStr fam st s}|{e}|{bwdStr st s}"
  let us := (List.range 64).filter (fun u => st.unregCount u > 0)
  let b := "unreg=" ++ (if us.isEmpty then "-" else ",".intercalate (us.map fun u => s!"{u}:{st.unregCount u}"))
  " ".intercalate (a ++ [b])

/-- what every live signal would invoke in state `st` (the harness asks this from inside the
unregister function, i.e. between `unlink()` and `~base()` of the dying connection) -/
def sigCalls (fam : List (Nat × Nat)) (st : Sig.State) : String :=
  let ss := (List.range maxLists).filter (fun s => st.store.live (.head s))
  if ss.isEmpty then "-" else ",".intercalate (ss.map fun s => s!"S{s}={anyCallStr fam st s}")

/-- the `saw` entries of the deaths `xs` (in order), starting in state `st` -/
def sawEntries (fam : List (Nat × Nat)) : Sig.State → List Nat → List String
  | _, [] => []
  | st, x :: xs =>
    let e := match st.conn x with
      | some ⟨_, some u⟩ =>
        match baseUnlink st.store (.elem x) with
        | .ok σ => [s!"u{u}@{sigCalls fam { st with store := σ }}"]
        | .error f => [s!"u{u}@fault:{f.name}"]
      | _ => []
    match Sig.step st (.disconnect x) with
    | .ok st' => e ++ sawEntries fam st' xs
    | .error _ => e

def sawSuffix (l : List String) : String := " saw=" ++ (if l.isEmpty then "-" else ";".intercalate l)

/-- the judge: does the abstract state predict the model's walks and liveness? -/
def specAgrees (σ : Store) (R : Spec.Rings) : Bool :=
  (allNodes.all fun n => σ.live n == decide (n ∈ Spec.nodes R)) &&
  ((List.range maxLists).all fun k =>
    match Spec.members R k with
    | none => !σ.live (.head k)
    | some m => σ.live (.head k) && walk σ (.head k) walkCap == .ok m
                && walkBack σ (.head k) walkCap == .ok m.reverse)

def specSuffix (st : St) : String :=
  match st.spec with
  | none => " #spec=-"
  | some R => if specAgrees st.store R then " #spec=ok" else " #spec=BAD"

def parseListOp (t : List String) : Option Op :=
  match t with
  | ["L", k] => do let k ← k.toNat?; guard (k < maxLists); pure (.newList k)
  | ["E", e, k] => do let e ← e.toNat?; let k ← k.toNat?; guard (e < maxElems ∧ k < maxLists); pure (.newElem e k)
  | ["d", e] => do let e ← e.toNat?; guard (e < maxElems); pure (.delElem e)
  | ["u", e] => do let e ← e.toNat?; guard (e < maxElems); pure (.unlink e)
  | ["M", e2, e] => do let e2 ← e2.toNat?; let e ← e.toNat?; guard (e2 < maxElems ∧ e < maxElems); pure (.moveCtor e2 e)
  | ["A", a, b] => do let a ← a.toNat?; let b ← b.toNat?; guard (a < maxElems ∧ b < maxElems); pure (.moveAssign a b)
  | ["LM", k2, k] => do let k2 ← k2.toNat?; let k ← k.toNat?; guard (k2 < maxLists ∧ k < maxLists); pure (.listMoveCtor k2 k)
  | ["LA", k, k2] => do let k ← k.toNat?; let k2 ← k2.toNat?; guard (k < maxLists ∧ k2 < maxLists); pure (.listMoveAssign k k2)
  | ["LD", k] => do let k ← k.toNat?; guard (k < maxLists); pure (.delList k)
  | _ => none

/-- signal operation (other than the owner operations) + the family it addresses (`none`: any) -/
def parseSigOp (t : List String) : Option (Sig.Op × Option Nat) :=
  match t with
  | ["SN", s, c] => do let s ← s.toNat?; let c ← c.toNat?; guard (s < maxLists ∧ c < 64); pure (.newSig s (some c), some 0)
  | ["PN", s, c] => do let s ← s.toNat?; let c ← c.toNat?; guard (s < maxLists ∧ c < 64); pure (.newSig s (some c), some 1)
  | ["VN", s] => do let s ← s.toNat?; guard (s < maxLists); pure (.newSig s none, some 2)
  | ["WN", s] => do let s ← s.toNat?; guard (s < maxLists); pure (.newSig s none, some 3)
  | [o, x, s, f, u] => do
    let fm ← (if o = "SC" then some 0 else if o = "VC" then some 2 else none)
    let x ← x.toNat?; let s ← s.toNat?; let f ← f.toNat?; let u ← u.toNat?
    guard (x < maxElems ∧ s < maxLists ∧ f < 100 ∧ u < 64); pure (.connect x s f (some u), some fm)
  | [o, x, s, f] => do
    let fm ← (if o = "PC" then some 1 else if o = "WC" then some 3 else none)
    let x ← x.toNat?; let s ← s.toNat?; let f ← f.toNat?
    guard (x < maxElems ∧ s < maxLists ∧ f < 100); pure (.connect x s f none, some fm)
  | ["SM", s2, s] => do let s2 ← s2.toNat?; let s ← s.toNat?; guard (s2 < maxLists ∧ s < maxLists); pure (.moveCtor s2 s, none)
  | ["SA", s, s2] => do let s ← s.toNat?; let s2 ← s2.toNat?; guard (s < maxLists ∧ s2 < maxLists); pure (.moveAssign s s2, none)
  | ["SD", s] => do let s ← s.toNat?; guard (s < maxLists); pure (.delSig s, none)
  | _ => none

/-- signals of different families are different C++ types: an operation may not mix them -/
def familyOk (st : St) : Sig.Op → Option Nat → Bool
  | .connect _ s _ _, some f => famOf st s == f
  | .moveAssign s s2, _ => famOf st s == famOf st s2
  | _, _ => true

/-- the owner operations (`Hold.Op`s, in order) a line stands for; `none`: not an owner line or refused -/
def parseHoldOps (st : St) (t : List String) : Option (List Hold.Op) :=
  let own := st.hold.own
  match t with
  | ["SX", h] => do let h ← h.toNat?; guard (h < maxElems ∧ (own h).length = 1); pure [.release h 0]
  | ["HA", a, b] => do
    let a ← a.toNat?; let b ← b.toNat?
    guard (a < maxElems ∧ b < maxElems ∧ (own b).length = 1)
    -- self-move-assignment of an `optional<unique_ptr>` leaves the connection alone
    pure (if a = b then [] else [.clear a, .transfer b 0 a])
  | ["HW", a, b] => do let a ← a.toNat?; let b ← b.toNat?; guard (a < maxElems ∧ b < maxElems); pure [.swap a b]
  | ["KP", c, h] => do
    let c ← c.toNat?; let h ← h.toNat?
    guard (c < maxConts ∧ h < maxElems ∧ (own h).length = 1); pure [.transfer h 0 (16 + c)]
  | ["KO", c, h] => do
    let c ← c.toNat?; let h ← h.toNat?
    guard (c < maxConts ∧ h < maxElems ∧ (own h).isEmpty ∧ !(own (16 + c)).isEmpty)
    pure [.transfer (16 + c) ((own (16 + c)).length - 1) h]
  | ["KE", c, i] => do
    let c ← c.toNat?; let i ← i.toNat?
    guard (c < maxConts ∧ i < (own (16 + c)).length); pure [.release (16 + c) i]
  | ["KC", c] => do let c ← c.toNat?; guard (c < maxConts); pure [.clear (16 + c)]
  | ["KA", c, c2] => do
    let c ← c.toNat?; let c2 ← c2.toNat?
    guard (c < maxConts ∧ c2 < maxConts ∧ c ≠ c2); pure [.clear (16 + c), .swap (16 + c) (16 + c2)]
  | _ => none

def advanceSpec (spec : Option Spec.Rings) (op : Op) : Option Spec.Rings :=
  match spec with
  | some R => if Spec.valid R op then some (Spec.step R op) else none
  | none => none

def setIt (its : List (Nat × ItSlot)) (i : Nat) (s : ItSlot) : List (Nat × ItSlot) :=
  let l := its.filter (·.1 != i)
  (l.filter (·.1 < i)) ++ [(i, s)] ++ (l.filter (·.1 > i))

def getIt (its : List (Nat × ItSlot)) (i : Nat) : Option ItSlot := (its.find? (·.1 == i)).map (·.2)

/-- the iterator lines; `none`: not an iterator line.  `some (st', extra)`: new state, text after the dump;
`some none`… refusal is `bad-op` -/
def handleIter (st : St) (t : List String) : Option (Option (St × String)) :=
  let σ := st.store
  let slot := fun (s : String) => (s.toNat?).bind fun i => if i < maxIters then some i else none
  let liveCur := fun (s : ItSlot) => match s.cur with | some n => σ.live n | none => false
  let ok := fun (its : List (Nat × ItSlot)) (extra : String) => some (some ({ st with its := its }, extra))
  match t with
  | [o, i, k] =>
    if o = "IB" ∨ o = "IE" ∨ o = "CB" ∨ o = "CE" then
      match slot i, k.toNat? with
      | some i, some k =>
        if k < maxLists ∧ σ.live (.head k) then
          let c := o = "CB" ∨ o = "CE"
          if o = "IB" ∨ o = "CB" then
            match listBegin σ (.head k) with
            | .ok it => ok (setIt st.its i ⟨it, c⟩) ""
            | .error _ => some none
          else ok (setIt st.its i ⟨listEnd (.head k), c⟩) ""
        else some none
      | _, _ => some none
    else if o = "IP" ∨ o = "CP" then
      match slot i, k.toNat? with
      | some i, some e =>
        if e < maxElems ∧ σ.live (.elem e) then ok (setIt st.its i ⟨iterAt (.elem e), o = "CP"⟩) "" else some none
      | _, _ => some none
    else if o = "IC" then
      match slot i, slot k with
      | some i, some j => match getIt st.its j with
        | some s => ok (setIt st.its i s) ""
        | none => some none
      | _, _ => some none
    else if o = "IS" then
      match slot i, slot k with
      | some i, some j => match getIt st.its i, getIt st.its j with
        | some a, some b =>
          if a.isConst == b.isConst then ok (setIt (setIt st.its i b) j a) "" else some none
        | _, _ => some none
      | _, _ => some none
    else if o = "I=" then
      match slot i, slot k with
      | some i, some j => match getIt st.its i, getIt st.its j with
        | some a, some b =>
          if a.isConst == b.isConst then ok st.its s!" eq={b01 (iterEqual a.cur b.cur)} ne={b01 (!iterEqual a.cur b.cur)}"
          else some none
        | _, _ => some none
      | _, _ => some none
    else none
  | [o, i] =>
    if o = "IN" ∨ o = "CN" then
      match slot i with
      | some i => ok (setIt st.its i ⟨iterDefault, o = "CN"⟩) ""
      | none => some none
    else if o = "IX" then
      match slot i with
      | some i => if (getIt st.its i).isSome then ok (st.its.filter (·.1 != i)) "" else some none
      | none => some none
    else if o = "I+" ∨ o = "I-" ∨ o = "Ip" ∨ o = "Im" then
      match slot i with
      | some i => match getIt st.its i with
        | some s =>
          if liveCur s then
            if o = "I+" then match iterIncrement σ s.cur with
              | .ok it => ok (setIt st.its i { s with cur := it }) ""
              | .error _ => some none
            else if o = "I-" then match iterDecrement σ s.cur with
              | .ok it => ok (setIt st.its i { s with cur := it }) ""
              | .error _ => some none
            else if o = "Ip" then match iterPostInc σ s.cur with
              | .ok (r, it) => ok (setIt st.its i { s with cur := it }) s!" ret={iterName σ r}"
              | .error _ => some none
            else match iterPostDec σ s.cur with
              | .ok (r, it) => ok (setIt st.its i { s with cur := it }) s!" ret={iterName σ r}"
              | .error _ => some none
          else some none
        | none => some none
      | none => some none
    else if o = "I*" then
      match slot i with
      | some i => match getIt st.its i with
        | some s => match iterDeref σ s.cur with
          | .ok e => ok st.its s!" deref=e{e}"
          | .error _ => some none
        | none => some none
      | none => some none
    else none
  | _ => none

def withDump (d : String) : String := if d.isEmpty then "" else " " ++ d

def handle (st : St) (t : List String) : St × String :=
  if t = ["reset"] then ({}, "ok") else
  if st.dead then (st, "dead") else
  match parseListOp t with
  | some op =>
    if !lifetimeOk st.store op then (st, "bad-op") else
    match step st.store op with
    | .ok σ =>
      let its := match op with
        | .delElem e => st.its.filter fun p => p.2.cur != some (.elem e)
        | .delList k => st.its.filter fun p => p.2.cur != some (.head k)
        | _ => st.its
      let st' := { st with hold := { st.hold with sig := { st.sig with store := σ } }, spec := advanceSpec st.spec op, its := its }
      (st', "ok" ++ withDump (listDump σ its) ++ specSuffix st')
    | .error f => ({ st with dead := true }, "fault:" ++ f.name)
  | none =>
  match handleIter st t with
  | some none => (st, "bad-op")
  | some (some (st', extra)) => (st', "ok" ++ withDump (listDump st'.store st'.its) ++ extra ++ specSuffix st')
  | none =>
  match parseSigOp t with
  | some (op, p) =>
    let hop : Hold.Op := match op with
      | .connect x s f u => .connect x x s f u          -- the new connection goes into holder `x`
      | op => .sig op
    let holderFree := match op with
      | .connect x _ _ _ => (st.hold.own x).isEmpty
      | _ => true
    if !Sig.lifetimeOk st.sig op || !familyOk st op p || !holderFree then (st, "bad-op") else
    match Hold.step st.hold hop with
    | .ok h' =>
      let fam := match op, p with
        | .newSig s _, some f => (s, f) :: st.fam.filter (·.1 != s)
        | .moveCtor s2 s, _ => (s2, famOf st s) :: st.fam.filter (·.1 != s2)
        | _, _ => st.fam
      let st' := { st with hold := h', spec := advanceSpec st.spec op.toList, fam := fam }
      (st', "ok " ++ sigDump fam h'.sig ++ specSuffix st')
    | .error f => ({ st with dead := true }, "fault:" ++ f.name)
  | none =>
  match parseHoldOps st t with
  | some hops =>
    -- run the owner operations in order; collect what the unregister functions see
    let r := hops.foldl (fun (acc : Except Fault (Hold.State × Option Spec.Rings × List String)) hop =>
      match acc with
      | .error f => .error f
      | .ok (h, spec, saw) =>
        let ds := Hold.deaths h hop
        match Hold.step h hop with
        | .ok h' => .ok (h', ds.foldl (fun sp x => advanceSpec sp (.delElem x)) spec, saw ++ sawEntries st.fam h.sig ds)
        | .error f => .error f) (.ok (st.hold, st.spec, []))
    match r with
    | .ok (h', spec, saw) =>
      let st' := { st with hold := h', spec := spec }
      (st', "ok " ++ sigDump st.fam h'.sig ++ sawSuffix saw ++ specSuffix st')
    | .error f => ({ st with dead := true }, "fault:" ++ f.name)
  | none =>
  match t with
  | ["call", s, i, a] =>
    match s.toNat?, i.toNat?, a.toNat? with
    | some s, some i, some a =>
      if s < maxLists ∧ st.store.live (.head s) ∧ !famVoid (famOf st s) ∧ i < 1000 ∧ a < 1000 then (st, "ok " ++ callStr st.sig s i a) else (st, "bad-op")
    | _, _, _ => (st, "bad-op")
  | ["vcall", s, a] =>
    match s.toNat?, a.toNat? with
    | some s, some a =>
      if s < maxLists ∧ st.store.live (.head s) ∧ famVoid (famOf st s) ∧ a < 1000 then (st, "ok " ++ vcallStr st.sig s) else (st, "bad-op")
    | _, _ => (st, "bad-op")
  | _ => (st, "bad-op")

/-- the action table of an `rcall`, with the unregister id dropped where the signal's base has none -/
def actOf (st : St) (f : Nat) : Hold.Act :=
  match (st.acts.find? (·.1 == f)).map (·.2) with
  | some [1, o] => .reset o
  | some [2, h, s, f2, u] => .connect h s f2 (if famUnreg (famOf st s) then some u else none)
  | _ => .none

def handleAct (st : St) (t : List String) : Option (Option St) :=
  let setA := fun (f : Nat) (a : List Nat) => some (some { st with acts := (f, a) :: st.acts.filter (·.1 != f) })
  match t with
  | ["AN", f] => match f.toNat? with
    | some f => if f < 100 then setA f [0] else some none
    | none => some none
  | ["AR", f, h] => match f.toNat?, h.toNat? with
    | some f, some h => if f < 100 ∧ h < maxElems then setA f [1, h] else some none
    | _, _ => some none
  | ["AK", f, c] => match f.toNat?, c.toNat? with
    | some f, some c => if f < 100 ∧ c < maxConts then setA f [1, 16 + c] else some none
    | _, _ => some none
  | ["AC", f, h, s, f2, u] => match f.toNat?, h.toNat?, s.toNat?, f2.toNat?, u.toNat? with
    | some f, some h, some s, some f2, some u =>
      if f < 100 ∧ h < maxElems ∧ s < maxLists ∧ f2 < 100 ∧ u < 64 then setA f [2, h, s, f2, u] else some none
    | _, _, _, _, _ => some none
  | _ => none

def handleRcall (st : St) (s init arg : Nat) (isVoid : Bool) : St × String :=
  if !(s < maxLists ∧ st.store.live (.head s) ∧ famVoid (famOf st s) == isVoid ∧ init < 1000 ∧ arg < 1000) then (st, "bad-op") else
  match Hold.rcall (actOf st) cbFn combFn isVoid st.hold s walkCap init arg with
  | .ok r =>
    let st' := { st with hold := r.st, spec := r.trace.foldl advanceSpec st.spec }
    let res := if isVoid then "v" else toString r.acc
    (st', s!"ok {idsStr r.log}:{res} " ++ sigDump st.fam r.st.sig ++ specSuffix st')
  | .error .fuel => ({ st with dead := true }, "ok overrun")
  | .error .emptyDeref => (st, "ok nocomb")
  | .error f => ({ st with dead := true }, "fault:" ++ f.name)

def tmpList : Nat := 7
def tmpElem : Nat := 15

/-- `std::swap` of two lists / elements / signals: the operations the generic `std::swap` performs, in order -/
def parseSwap (t : List String) : Option (List String × List (List String)) :=
  match t with
  | ["LS", k, k2] => some ([k, k2], [["LM", "7", k], ["LA", k, k2], ["LA", k2, "7"], ["LD", "7"]])
  | ["ES", a, b] => some ([a, b], [["M", "15", a], ["A", a, b], ["A", b, "15"], ["d", "15"]])
  | ["SS", s, s2] => some ([s, s2], [["SM", "7", s], ["SA", s, s2], ["SA", s2, "7"], ["SD", "7"]])
  | _ => none

def handle2 (st : St) (t : List String) : St × String :=
  match parseSwap t with
  | some (args, steps) =>
    -- the reserved ids may not be named by the caller
    let lim := if t.head? == some "ES" then tmpElem else tmpList
    if st.dead then (st, "dead") else
    if !(args.all fun a => match a.toNat? with | some n => n < lim | none => false) then (st, "bad-op") else
    let r := steps.foldl (fun (acc : St × String) step =>
      if acc.2 == "bad-op" || acc.2.startsWith "fault" then acc else handle acc.1 step) (st, "")
    if r.2 == "bad-op" then (st, "bad-op") else r
  | none =>
  match handleAct st t with
  | some none => (st, "bad-op")
  | some (some st') => (st', "ok")
  | none =>
  match t with
  | ["rcall", s, i, a] =>
    match s.toNat?, i.toNat?, a.toNat? with
    | some s, some i, some a => if st.dead then (st, "dead") else handleRcall st s i a false
    | _, _, _ => (st, "bad-op")
  | ["rvcall", s, a] =>
    match s.toNat?, a.toNat? with
    | some s, some a => if st.dead then (st, "dead") else handleRcall st s 0 a true
    | _, _ => (st, "bad-op")
  | _ => handle st t

def main : IO Unit := Proto.runState ({} : St) handle2

end Fcppt.C11.Drv
