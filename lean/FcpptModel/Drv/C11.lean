import FcpptModel.Prelude.Proto
/-! Driver for C11 — placeholder until the property's model is built. -/
namespace Fcppt.C11.Drv
def main : IO Unit := Fcppt.Proto.run (fun _ => "not-built")
end Fcppt.C11.Drv
