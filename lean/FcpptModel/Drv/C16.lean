import FcpptModel.Prelude.Proto
/-! Driver for C16 — placeholder until the property's model is built. -/
namespace Fcppt.C16.Drv
def main : IO Unit := Fcppt.Proto.run (fun _ => "not-built")
end Fcppt.C16.Drv
