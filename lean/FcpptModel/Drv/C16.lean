import FcpptModel.Prelude.Proto
import FcpptModel.Model.C16
/-!
Driver for C16.  Elements are 0,1,2.  A sequence token is a digit string (`-` = empty).

* `s <fn> <src> <params…> <seq>`  one evaluation of `<fn>` on the source container of kind `<src>` holding `<seq>`
* `d <fn> <src> <params…> <len>`  FNV digest of the result lines of `s …` for all sequences of length `<len>`
                                  (base-3 counting order, most significant digit first)
  source kinds: `v` vector `l` list `d` deque `f` forward_list (no `size()`) `s` set (sorted, unique)
  `m` map position→value (iterated values) `a` fcppt::array `t` fcppt::tuple (len ≤ 3) `p` mpl list (len ≤ 2)
  `i` int_range `[b,e)` and `e` enum range — for these the "sequence" is the two digits `be` (0..3)
  and `d … <len>` enumerates the pairs with `max(e-b,0) = len`.
* `split <K> <str>` / `dsplit <K> <len>`, `joinstr <D> <n> <p1> … <pn>` / `djoin <D> <n>` strings over a,b and delimiter c
* `m <fn> <params…> <M>` / `dm <fn> <params…>` maps {0,1,2} → {0,1,2} coded base 4 (digit 0 = key absent)
* `setop <U|I|D> <A> <B>` (comma lists) / `dset <U|I|D>` (all pairs of subsets of {0,1,2})
* `repeat <C>`, `genn <T> <N>`, `ainit <N>`
* history ops for `index_map`: `reset`, `imget <i>`, `imidx <i>`

Parameters: `P` predicate table 0..7 (bit x = p x), `V` value, `F` function table 0..26 (base 3), `G` optional-valued
table 0..63 (base 4, digit 0 = none), `H` sequence-valued table 0..63, `B` break table 0..7, `R` relation 0..511.
-/
namespace Fcppt.C16.Drv
open Fcppt.Proto Fcppt.C16

def ds (l : List Nat) : String := if l.isEmpty then "-" else String.join (l.map toString)

def parseSeq (s : String) : Option (List Nat) :=
  if s = "-" then some [] else
    s.toList.mapM fun c => if '0' ≤ c ∧ c ≤ '9' then some (c.toNat - '0'.toNat) else none

def bit (m x : Nat) : Bool := m.testBit x
def tblF (F x : Nat) : Nat := (F / 3 ^ x) % 3
def tblG (G x : Nat) : Option Nat := let d := (G / 4 ^ x) % 4; if d = 0 then none else some (d - 1)
def tblH (H x : Nat) : List Nat :=
  match (H / 4 ^ x) % 4 with
  | 0 => [] | 1 => [x] | 2 => [x, (x + 1) % 3] | _ => [2, x, x]
def rel (R a b : Nat) : Bool := R.testBit (3 * a + b)

/-- the elements the source container of kind `k` presents, given the token -/
def toSource (k : String) (tok : String) : Option (List Nat) := do
  let xs ← parseSeq tok
  match k with
  | "v" | "l" | "d" | "f" | "m" => if xs.all (· < 3) then some xs else none
  | "a" => if xs.all (· < 3) ∧ xs.length ≤ 6 then some xs else none
  | "t" => if xs.all (· < 3) ∧ xs.length ≤ 3 then some xs else none
  | "p" => if xs.all (· < 3) ∧ xs.length ≤ 3 then some xs else none
  | "s" => if xs.all (· < 3) then some (setOfList xs) else none
  | "i" => match xs with
    | [b, e] => if b ≤ 3 ∧ e ≤ 3 then some ((List.range (e - b)).map (· + b)) else none
    | _ => none
  | "e" => match xs with
    | [b, e] => if b ≤ e ∧ e ≤ 3 then some ((List.range (e - b)).map (· + b)) else none
    | _ => none
  | _ => none

def hasSize (k : String) : Bool := k != "f"

def optIdx (xs : List Nat) : Option Nat → String
  | none => "none"
  | some i => match xs[i]? with
    | some v => s!"{i}:{v}"
    | none => s!"{i}:oob"

def exc {α : Type} (f : α → String) : Except Fault α → String
  | .ok a => f a
  | .error e => e.name

def cutParts (xs : List Nat) (c1 c2 : Nat) : List Nat × List Nat × List Nat :=
  (xs.take c1, (xs.take c2).drop c1, xs.drop c2)

def readonlyKinds : List String := ["v", "l", "d", "f", "s", "m", "i", "e"]
def seqKinds : List String := ["v", "l", "d"]

/-- one evaluation; `none` = malformed -/
def evalFn (fn k : String) (ps : List Nat) (raw xs : List Nat) : Option String :=
  let ro := readonlyKinds.contains k
  let sq := seqKinds.contains k
  match fn, ps with
  | "map", [t, F] =>
    if !(ro || k == "a" || k == "p") || t > 4 || F ≥ 27 || ((k == "a" || k == "p") && t != 0 && t != 4) then none else
    if t == 4 then
      -- probe target with a logging `reserve`: every source kind except forward_list has `size()` or random access
      let (c, log) := mapSeq (if hasSize k then some xs.length else none) xs (tblF F)
      some s!"{ds c.elems}|{ds log}|{c.cap}"
    else
    let (r, log) :=
      if t == 3 then let (c, log) := mapSet xs (tblF F); (c.elems, log)
      else let (c, log) := mapSeq (if t == 0 && hasSize k then some xs.length else none) xs (tblF F); (c.elems, log)
    some s!"{ds r}|{ds log}"
  | "mapopt", [t, G] =>
    if !ro || t > 3 || G ≥ 64 then none else
    let (r, log) := mapOptional xs (tblG G)
    some s!"{ds (if t == 3 then setOfList r else r)}|{ds log}"
  | "mapcat", [t, H] =>
    if !ro || t > 3 || H ≥ 64 then none else
    let (r, log) := mapConcat xs (tblH H)
    some s!"{ds (if t == 3 then setOfList r else r)}|{ds log}"
  | "fold", [] =>
    if !(ro || k == "a" || k == "t" || k == "p") then none else
    -- tuples and mpl lists are folded through the index recursion of `tuple_loop_break` / `for_each_break`
    if k == "t" || k == "p" then some (toString (tupleLoopBreak xs (fun e st => (Loop.continue_, st * 4 + e + 1)) 0 0)) else
    some (toString (fold xs 0 (fun e st => st * 4 + e + 1)))
  | "foldbrk", [B] =>
    if !ro || B ≥ 8 then none else
    some (toString (foldBreak xs 0 (fun e st => (if bit B e then .break_ else .continue_, st * 4 + e + 1))))
  | "loopbrk", [B] =>
    if !(ro || k == "a" || k == "t" || k == "p") || B ≥ 8 then none else
    let body : Nat → Unit → Loop × Unit := fun e _ => (if bit B e then .break_ else .continue_, ())
    let r := if k == "t" || k == "p" then tupleLoopBreak xs (logged body) 0 ((), []) else loopBreak xs (logged body) ((), [])
    some (ds r.2)
  | "loop", [] =>
    if !(ro || k == "a" || k == "t" || k == "p") then none else
    if k == "t" || k == "p" then some (ds (tupleLoopBreak xs (fun e (log : List Nat) => (Loop.continue_, log ++ [e])) 0 [])) else
    some (ds (loop xs (fun e log => log ++ [e]) []))
  | "allof", [P] =>
    if !ro || P ≥ 8 then none else
    let (r, log) := allOf xs (bit P); some s!"{b01 r}|{ds log}"
  | "containsif", [P] =>
    if !ro || P ≥ 8 then none else
    let (r, log) := containsIf xs (bit P); some s!"{b01 r}|{ds log}"
  | "contains", [V] =>
    if !ro || k == "m" || V ≥ 3 then none else some (b01 (contains xs V))
  | "findopt", [V] =>
    if !ro || k == "m" || V ≥ 3 then none else some (optIdx xs (findOpt xs V))
  | "findifopt", [P] =>
    if !ro || P ≥ 8 then none else some (optIdx xs (findIfOpt xs (bit P)))
  | "findbyopt", [G] =>
    if !ro || G ≥ 64 then none else
    let (r, log) := findByOpt xs (tblG G)
    some s!"{match r with | none => "none" | some v => toString v}|{ds log}"
  | "indexof", [V] =>
    if !(k == "v" || k == "d" || k == "a") || V ≥ 3 then none else
    some (match indexOf xs V with | none => "none" | some i => toString i)
  | "eqrange", [V] =>
    if !(sq || k == "s") || V ≥ 3 then none else
    some (exc (fun r => s!"{r.1},{r.2}") (equalRange (fun a b => decide (a < b)) xs V))
  | "bsearch", [V] =>
    if !(sq || k == "s") || V ≥ 3 then none else
    some (exc (optIdx xs) (binarySearch (fun a b => decide (a < b)) xs V))
  | "removeif", [P] =>
    if !sq || P ≥ 8 then none else
    let (r, c) := removeIf xs xs (bit P); some s!"{b01 r}|{ds c}"
  | "remove", [V] =>
    if !sq || V ≥ 3 then none else
    let (r, c) := remove xs xs V; some s!"{b01 r}|{ds c}"
  | "unique", [] => if !sq then none else some (ds (unique xs xs))
  | "uniqueif", [R] => if !sq || R ≥ 512 then none else some (ds (uniqueIf xs xs (rel R)))
  | "reverse", [] =>
    if !sq then none else
    let a := exc ds (reverse xs); let b := exc ds (reverseRvalue xs)
    some (if a == b then a else s!"{a}!={b}")
  | "seqiter", [R] =>
    if !sq || R ≥ 16 then none else
    let (c, log) := seqIteration xs (fun e (log : List Nat) => (bit (R % 8) ((e + (if R ≥ 8 then log.length else 0)) % 3), log ++ [e])) []
    some s!"{ds c}|{ds log}"
  | "atopt", [I] =>
    if !(k == "v" || k == "d" || k == "a") || I > 1005 then none else
    let big : List Nat := [2 ^ 31, 2 ^ 32, 2 ^ 32 + 1, 2 ^ 63, 2 ^ 64 - 1, 2 ^ 33 + 2]
    let I := if I < 1000 then I else big.getD (I - 1000) 0
    some (match atOptional xs I with | none => "none" | some r => exc toString r)
  | "join", [K, c1, c2] =>
    -- the parts are cut from the raw sequence (each part becomes its own container)
    let xs := raw
    if !(sq || k == "s") || K < 1 || K > 5 || c1 > c2 || c2 > xs.length then none else
    if K == 4 || K == 5 then
      -- the same container as every argument
      let args := if K == 4 then [xs] else [xs, xs]
      if k == "s" then some (ds (joinSet (setOfList xs) (args.map setOfList))) else some (ds (join xs args))
    else
    let (a, b, c) := cutParts xs c1 c2
    -- for K = 1 the whole sequence, for K = 2 the parts [0,c1) and [c1,len)
    let parts : List (List Nat) := if K == 1 then [xs] else if K == 2 then [a, b ++ c] else [a, b, c]
    match parts with
    | [] => none
    | p :: rest =>
      if k == "s" then some (ds (joinSet (setOfList p) (rest.map setOfList)))
      else some (ds (join p rest))
  | "amap", [F] =>
    if k != "a" || F ≥ 27 then none else
    let a := exc ds (arrayMap xs (tblF F)); let b := exc ds (mapArray xs (tblF F))
    some (if a == b then a else s!"{a}!={b}")
  | "aappend", [c1] =>
    if k != "a" || c1 > xs.length || c1 > 3 || xs.length - c1 > 3 then none else some (exc ds (arrayAppend (xs.take c1) (xs.drop c1)))
  | "ajoin", [c1, c2] =>
    if k != "a" || c1 > c2 || c2 > xs.length || c1 > 2 || c2 - c1 > 2 || xs.length - c2 > 2 then none else
    let (a, b, c) := cutParts xs c1 c2
    some (exc ds (arrayJoin a [b, c]))
  | "apush", [V] =>
    if k != "a" || xs.length > 5 || V ≥ 3 then none else some (exc ds (arrayPushBack xs V))
  | "afrom", [N] =>
    if !(k == "v" || k == "d") || N > 4 then none else
    some (match arrayFromRange N xs with | none => "none" | some r => exc ds r)
  | "tmap", [F] =>
    if k != "t" || F ≥ 27 then none else
    let a := exc ds (tupleMap xs (tblF F)); let b := exc ds (mapTuple xs (tblF F))
    some (if a == b then a else s!"{a}!={b}")
  | "tpush", [V] =>
    if k != "t" || xs.length > 2 || V ≥ 3 then none else some (exc ds (tuplePushBack xs V))
  | "tconcat", [c1, c2] =>
    if k != "t" || c1 > c2 || c2 > xs.length then none else
    let (a, b, c) := cutParts xs c1 c2
    some (ds (tupleConcat [a, b, c]))
  -- aliasing, references
  | "removeat", [I] =>
    if !sq || I > 8 then none else
    match xs[I]? with
    | none => some "skip"
    | some e => let (r, c) := remove xs xs e; some s!"{b01 r}|{ds c}"
  | "loopmut", [B] =>
    if !(sq || k == "a") || B > 8 then none else
    if B == 8 then some (ds (loopRef xs (fun e => (e + 1) % 3)))
    else some (ds (loopBreakRef xs (fun e => (if bit B e then .break_ else .continue_, (e + 1) % 3))))
  | "singular", [i, j] =>
    if !(sq || k == "s") then none else
    if i > j || j > raw.length || j > xs.length then some "skip" else some (b01 (singular (i, j)))
  | "singularc", [] =>
    if !(sq || k == "s" || k == "f") then none else some (b01 (rangeSingular xs))
  -- the value argument is (a reference to) element I of the same container: the code copies it or only reads, so the
  -- model is the plain function applied to `xs[I]`
  | "containsat", [I] =>
    if !(sq || k == "f" || k == "s") || I > 8 then none else
    match xs[I]? with | none => some "skip" | some e => some (b01 (contains xs e))
  | "findoptat", [I] =>
    if !(sq || k == "f" || k == "s") || I > 8 then none else
    match xs[I]? with | none => some "skip" | some e => some (optIdx xs (findOpt xs e))
  | "indexofat", [I] =>
    if !(k == "v" || k == "d" || k == "a") || I > 8 then none else
    match xs[I]? with
    | none => some "skip"
    | some e => some (match indexOf xs e with | none => "none" | some i => toString i)
  | "eqrangeat", [I] =>
    if !(sq || k == "s") || I > 8 then none else
    match xs[I]? with
    | none => some "skip"
    | some e => some (exc (fun r => s!"{r.1},{r.2}") (equalRange (fun a b => decide (a < b)) xs e))
  | "bsearchat", [I] =>
    if !(sq || k == "s") || I > 8 then none else
    match xs[I]? with
    | none => some "skip"
    | some e => some (exc (optIdx xs) (binarySearch (fun a b => decide (a < b)) xs e))
  | "apushat", [I] =>
    if k != "a" || I > 8 then none else
    if xs.length > 5 then some "skip" else
    match xs[I]? with
    | none => some "skip"
    | some e => some (exc (fun r => ds r.1) (arrayPushBackVC false false 9 xs e))
  | "aappendself", [] =>
    if k != "a" then none else
    if xs.length > 3 then some "skip" else some (exc (fun r => ds r.1) (arrayAppendVC false false 9 xs xs))
  | "ajoinself", [] =>
    if k != "a" then none else
    if xs.length > 2 then some "skip" else some (exc (fun r => ds r.1) (arrayJoin3VC false false false 9 xs xs xs))
  | "tpushat", [I] =>
    if k != "t" || I > 2 then none else
    if xs.length > 2 then some "skip" else
    match xs[I]? with
    | none => some "skip"
    | some e => some (exc (fun r => ds r.1) (tuplePushBackVC false false 9 xs e))
  | "tconcatself", [] =>
    if k != "t" then none else some (ds (tupleConcatVC 9 [(false, xs), (false, xs)]).1)
  -- arities
  | "ajoin1", [] => if k != "a" then none else some (exc ds (arrayJoin xs []))
  | "ajoin2", [c1] =>
    if k != "a" then none else
    if c1 > xs.length || c1 > 3 || xs.length - c1 > 3 then some "skip" else some (exc ds (arrayJoin (xs.take c1) [xs.drop c1]))
  | "ajoin4", [mask] =>
    if k != "a" || mask > 15 then none else
    let sz : Nat → Nat := fun i => if mask.testBit i then 1 else 0
    if sz 0 + sz 1 + sz 2 + sz 3 != xs.length then some "skip" else
    let a1 := xs.take (sz 0); let r1 := xs.drop (sz 0)
    let a2 := r1.take (sz 1); let r2 := r1.drop (sz 1)
    let a3 := r2.take (sz 2); let a4 := r2.drop (sz 2)
    some (exc ds (arrayJoin a1 [a2, a3, a4]))
  | "tconcatn", [K, c1] =>
    if k != "t" || K > 2 then none else
    if c1 > xs.length || (K == 0 && !xs.isEmpty) || (K ≤ 1 && c1 != 0) then some "skip" else
    if K == 0 then some (ds (tupleConcat ([] : List (List Nat))))
    else if K == 1 then some (ds (tupleConcat [xs]))
    else some (ds (tupleConcat [xs.take c1, xs.drop c1]))
  -- value categories: 9 = moved-from
  | "vcmap", [cat] =>
    if cat > 2 then none else
    if k == "a" || k == "t" then
      if xs.length > 3 then some "skip" else
      some (exc (fun r => s!"{ds r.1}|{ds r.2}") (if k == "a" then arrayMapVC (cat == 2) 9 xs id else tupleMapVC (cat == 2) 9 xs id))
    else if !sq then none else
    let (r, src) := mapVC (cat == 2) 9 xs id
    some s!"{ds r}|{ds src}"
  | "vcfold", [cat] =>
    if cat > 2 || !sq then none else some s!"{fold xs 0 (fun e st => st * 4 + e + 1)}|{ds xs}"
  | "vcmapopt", [cat] =>
    if cat > 2 || !sq then none else some s!"{ds (mapOptional xs some).1}|{ds xs}"
  | "vcmapcat", [cat] =>
    if cat > 2 || !sq then none else some s!"{ds (mapConcat xs (fun e => [e, e])).1}|{ds xs}"
  | "vcjoin", [cat1, cat2, cat3, c1, c2] =>
    if !sq || cat1 > 2 || cat2 < 1 || cat2 > 2 || cat3 < 1 || cat3 > 2 then none else
    if c1 > c2 || c2 > xs.length then some "skip" else
    let (a, b, c) := cutParts xs c1 c2
    let (r, after) := joinVC 9 a [(cat2 == 2, b), (cat3 == 2, c)]
    some s!"{ds r}|{if cat1 == 2 then "*" else ds a}|{"|".intercalate (after.map ds)}"
  | "vcappend", [cat1, cat2, c1] =>
    if k != "a" || cat1 > 2 || cat2 > 2 then none else
    if c1 > xs.length || c1 > 2 || xs.length - c1 > 2 then some "skip" else
    some (exc (fun r => s!"{ds r.1}|{ds r.2.1}|{ds r.2.2}") (arrayAppendVC (cat1 == 2) (cat2 == 2) 9 (xs.take c1) (xs.drop c1)))
  | "vcpush", [cat, catx, V] =>
    if k != "a" || cat > 2 || catx > 2 || V ≥ 3 then none else
    if xs.length > 3 then some "skip" else
    some (exc (fun r => s!"{ds r.1}|{ds r.2.1}|{r.2.2}") (arrayPushBackVC (cat == 2) (catx == 2) 9 xs V))
  | "vcajoin", [cat1, cat2, cat3, c1, c2] =>
    if k != "a" || cat1 > 2 || cat2 < 1 || cat2 > 2 || cat3 < 1 || cat3 > 2 then none else
    if c1 > c2 || c2 > xs.length || c1 > 1 || c2 - c1 > 1 || xs.length - c2 > 1 then some "skip" else
    let (a, b, c) := cutParts xs c1 c2
    some (exc (fun r => s!"{ds r.1}|{ds r.2.1}|{ds r.2.2.1}|{ds r.2.2.2}") (arrayJoin3VC (cat1 == 2) (cat2 == 2) (cat3 == 2) 9 a b c))
  | "vcfrom", [cat, N] =>
    if !(k == "v" || k == "d") || cat > 2 || N > 3 then none else
    some (match arrayFromRangeVC (cat == 2) 9 N xs with
      | none => s!"none|{ds xs}"
      | some r => exc (fun r => s!"{ds r.1}|{ds r.2}") r)
  | "vctpush", [cat, catx, V] =>
    if k != "t" || cat > 2 || catx > 2 || V ≥ 3 then none else
    if xs.length > 2 then some "skip" else
    some (exc (fun r => s!"{ds r.1}|{ds r.2.1}|{r.2.2}") (tuplePushBackVC (cat == 2) (catx == 2) 9 xs V))
  | "vctconcat", [cat1, cat2, cat3, c1, c2] =>
    if k != "t" || cat1 < 1 || cat1 > 2 || cat2 < 1 || cat2 > 2 || cat3 < 1 || cat3 > 2 then none else
    if c1 > c2 || c2 > xs.length || c1 > 1 || c2 - c1 > 1 || xs.length - c2 > 1 then some "skip" else
    let (a, b, c) := cutParts xs c1 c2
    let (r, after) := tupleConcatVC 9 [(cat1 == 2, a), (cat2 == 2, b), (cat3 == 2, c)]
    some s!"{ds r}|{"|".intercalate (after.map ds)}"
  | "make", [t] =>
    if k != "v" || t > 3 then none else
    if xs.length > 4 then some "skip" else
    some (exc (fun r => s!"{ds (if t == 3 then setOfList r.1 else r.1)}|{ds r.2}") (makeContainer 9 xs))
  | "mvrange", [] =>
    if !sq then none else
    let (before, read, after) := moveRange 9 xs
    some s!"{ds before}|{ds read}|{ds after}"
  | "mmiter", [R] =>
    if k != "v" || R ≥ 8 then none else
    let m : Map := (List.range xs.length).zipWith (fun i v => (i / 2, v)) xs
    let (m', log) := mapIteration m (fun e log => (bit R e.2, log ++ [e.2])) []
    some s!"{if m'.isEmpty then "-" else ",".intercalate (m'.map fun e => s!"{e.1}>{e.2}")}|{ds log}"
  | "setiter", [R] =>
    if k != "s" || R ≥ 8 then none else
    let (c, log) := seqIteration xs (fun e log => (bit R e, log ++ [e])) []
    some s!"{ds c}|{ds log}"
  -- equal, size, front/back, pop, data, output
  | "equal", [k2, c1] =>
    if !(sq || k == "f") || k2 > 3 then none else
    if c1 > xs.length then some "skip" else
    let ra := (k == "v" || k == "d") && (k2 == 0 || k2 == 2)
    some (b01 (equal ra (xs.take c1) (xs.drop c1)))
  | "equalself", [] =>
    if !(sq || k == "f") then none else some (b01 (equal (k == "v" || k == "d") xs xs))
  | "csize", [] => if !ro then none else some (toString (containerSize (hasSize k) xs))
  | "mfront", [] =>
    if !(sq || k == "f") then none else some (match maybeFront xs with | none => "none" | some r => exc toString r)
  | "mback", [] =>
    if !sq then none else some (match maybeBack xs with | none => "none" | some r => exc toString r)
  | "popback", [] =>
    if !sq then none else
    let (o, c) := popBack xs
    some s!"{match o with | none => "none" | some r => exc toString r}|{ds c}"
  | "popfront", [] =>
    if !(k == "l" || k == "d" || k == "f") then none else
    let (o, c) := popFront xs
    some s!"{match o with | none => "none" | some r => exc toString r}|{ds c}"
  | "data", [] =>
    if !(k == "v" || k == "a") then none else
    let showP : Ptr → String := fun p => match p with | none => "null" | some i => toString i
    some s!"{showP (data xs)}|{exc showP (dataEnd xs)}"
  | "output", [] =>
    if !(sq || k == "f" || k == "s") then none else
    -- the harness prints the element x as the integer 50*x - 3
    let w : List Int := xs.map fun (x : Nat) => Int.ofNat x * 50 - 3
    some (String.ofList (output (fun (x : Int) => (toString x).toList) w))
  -- user functions that observe / throw at their T-th call (T = 0: never); state = (calls, log)
  | "loopbrkx", [B, T] =>
    if !(ro || k == "a" || k == "t" || k == "p") || B ≥ 8 || T > 8 then none else
    let body := fun (e : Nat) => throwAt T (fun (log : List Nat) => log ++ [e]) (fun log => ((if bit B e then Loop.break_ else Loop.continue_), log))
    let r := if k == "t" || k == "p" then tupleLoopBreakE xs body 0 (0, []) else loopBreakE xs body (0, [])
    some (match r.1 with | .ok _ => ds r.2.2 | .error _ => s!"exc|{ds r.2.2}")
  | "foldx", [B, T] =>
    if !(ro || k == "a" || k == "t" || k == "p") || B ≥ 8 || T > 8 then none else
    let r := foldE xs 0 (fun e st => throwAt T (fun (log : List Nat) => log ++ [e]) (fun log => (st * 4 + e + 1, log))) (0, [])
    some (match r.1 with | .ok st => s!"{st}|{ds r.2.2}" | .error _ => s!"exc|{ds r.2.2}")
  | "foldbrkx", [B, T] =>
    if !(ro || k == "a" || k == "t" || k == "p") || B ≥ 8 || T > 8 then none else
    let r := foldBreakE xs 0 (fun e st => throwAt T (fun (log : List Nat) => log ++ [e])
      (fun log => (((if bit B e then Loop.break_ else Loop.continue_), st * 4 + e + 1), log))) (0, [])
    some (match r.1 with | .ok st => s!"{st}|{ds r.2.2}" | .error _ => s!"exc|{ds r.2.2}")
  | "mapx", [t, T] =>
    if !ro || t > 3 || T > 8 then none else
    let r := mapE xs (fun e => throwAt T (fun (log : List Nat) => log ++ [e]) (fun log => ((e + 1) % 3, log))) (0, [])
    some (match r.1 with | .ok c => s!"{ds (if t == 3 then setOfList c else c)}|{ds r.2.2}" | .error _ => s!"exc|{ds r.2.2}")
  | "findbyoptx", [G, T] =>
    if !ro || G ≥ 64 || T > 8 then none else
    let r := findByOptE xs (fun e => throwAt T (fun (log : List Nat) => log ++ [e]) (fun log => (tblG G e, log))) (0, [])
    some (match r.1 with
      | .ok o => s!"{match o with | none => "none" | some v => toString v}|{ds r.2.2}"
      | .error _ => s!"exc|{ds r.2.2}")
  | "findifoptx", [P, T] =>
    if !ro || P ≥ 8 || T > 8 then none else
    let r := stdFindIfE xs (fun e => throwAt T (fun (log : List Nat) => log ++ [e]) (fun log => (bit P e, log))) (0, [])
    some (match r.1 with
      | .ok pos => s!"{optIdx xs (if pos == xs.length then none else some pos)}|{ds r.2.2}"
      | .error _ => s!"exc|{ds r.2.2}")
  | "seqiterx", [R, T] =>
    if !sq || R ≥ 8 || T > 8 then none else
    -- the action sees the sequence with the current element still in it: size, and "my element is inside" = 1
    let r := iterateE (fun cont e => throwAt T (fun (log : List (Nat × Nat)) => log ++ [(e, cont.length * 2 + (if cont.contains e then 1 else 0))])
      (fun log => (bit R e, log))) [] xs (0, [])
    let logs := if r.2.2.2.isEmpty then "-" else ",".intercalate (r.2.2.2.map fun p => s!"{p.1}:{p.2}")
    some s!"{match r.1 with | .ok _ => "" | .error _ => "exc|"}{ds r.2.1}|{logs}"
  | "removeifx", [P, T] =>
    if !sq || P ≥ 8 || T > 8 then none else
    -- std::remove_if tests every element exactly once; on an exception only the size is specified
    let total := xs.length
    let seen := if total == 0 then 0 else xs.length
    if T != 0 && T ≤ total then some s!"exc|{xs.length}|{T}|{seen}" else
    let (r, c) := removeIf xs xs (bit P); some s!"{b01 r}|{ds c}|{total}|{seen}"
  | "uniqueifx", [R, T] =>
    if !sq || R ≥ 512 || T > 8 then none else
    -- std::unique compares every element but the first exactly once with the last kept one
    let total := xs.length - 1
    if T != 0 && T ≤ total then some s!"exc|{xs.length}|{T}" else some s!"{ds (uniqueIf xs xs (rel R))}|{total}"
  | "amapx", [T] =>
    if k != "a" || T > 8 then none else
    if xs.length > 4 then some "skip" else
    let r := arrayInitX (fun i (st : Nat × List Nat) => match xs[i]? with
      | some e => throwAt T (fun (log : List Nat) => log ++ [e]) (fun log => ((e + 1) % 3, log)) st
      | none => (.error .oob, st)) xs.length (0, [])
    some s!"{match r.1 with | .ok c => ds c | .error _ => "exc"}|{ds r.2.2}|dc=0|live=0"
  | "ainitx", [T] =>
    if k != "a" || T > 8 then none else
    if xs.length > 5 then some "skip" else
    let r := arrayInitX (fun i => throwAt T (fun (log : List Nat) => log ++ [i]) (fun log => ((i * i + 1) % 7, log))) xs.length (0, [])
    some s!"{match r.1 with | .ok c => ds c | .error _ => "exc"}|{ds r.2.2}|dc=0|live=0"
  | "gennx", [t, T] =>
    if k != "v" || t > 2 || T > 8 then none else
    -- the generator returns (number of this call)^2 mod 3
    let r2 := generateNE xs.length (fun (st : Nat × Unit) => throwAt T (fun (u : Unit) => u) (fun u => (((st.1 + 1) * (st.1 + 1)) % 3, u)) st) (0, ())
    some (match r2.1 with | .ok c => s!"{ds c}|{r2.2.1}" | .error _ => s!"exc|{r2.2.1}")
  | _, _ => none

/-- all source tokens of "length" `len` for kind `k`, in the order both sides enumerate them -/
def enumTokens (k : String) (len : Nat) : List String :=
  if k == "i" || k == "e" then
    (List.range 4).flatMap fun b => (List.range 4).filterMap fun e =>
      if (e - b) = len ∧ (k == "i" ∨ b ≤ e) then some s!"{b}{e}" else none
  else
    (List.range (3 ^ len)).map fun n =>
      if len = 0 then "-" else String.join ((List.range len).map fun i => toString ((n / 3 ^ (len - 1 - i)) % 3))

def evalS (fn k : String) (ps : List String) (tok : String) : Option String := do
  let ps ← ps.mapM String.toNat?
  let xs ← toSource k tok
  let raw ← parseSeq tok
  evalFn fn k ps raw xs

def evalD (fn k : String) (ps : List String) (len : Nat) : Option String := do
  let lines ← (enumTokens k len).mapM (evalS fn k ps)
  pure ("D " ++ hex64 (lines.foldl fnv fnvInit))

/-! strings -/

def parseStr (s : String) : Option (List Char) :=
  if s = "-" then some [] else if s.toList.all (fun c => c == 'a' || c == 'b' || c == 'c') then some s.toList else none

def showStr (l : List Char) : String := if l.isEmpty then "-" else String.ofList l

def splitLine (s : List Char) : String :=
  let pieces := splitString s 'c'
  let rt := joinStrings pieces ['c'] == s
  s!"{pieces.length}:{"/".intercalate (pieces.map String.ofList)} rt={b01 rt}"

def allStrings (alpha : List Char) (len : Nat) : List (List Char) :=
  let k := alpha.length
  (List.range (k ^ len)).map fun n => (List.range len).map fun i => alpha.getD ((n / k ^ (len - 1 - i)) % k) 'a'

def pieceChoices : List (List Char) := (List.range 3).flatMap (allStrings ['a', 'b'])

def allPieceTuples : Nat → List (List (List Char))
  | 0 => [[]]
  | n + 1 => (allPieceTuples n).flatMap fun t => pieceChoices.map fun p => t ++ [p]

def splitAtLine (i : Nat) (s : List Char) : String :=
  match s[i]? with
  | none => "skip"
  | some delim =>
    let pieces := splitString s delim
    s!"{pieces.length}:{"/".intercalate (pieces.map String.ofList)}"

def joinAtLine (i : Nat) (pieces : List (List Char)) : String :=
  match pieces[i]? with
  | none => "skip"
  | some delim => showStr (joinStrings pieces delim)

def joinLine (d : List Char) (pieces : List (List Char)) : String :=
  let joined := joinStrings pieces d
  match d with
  | [c] => s!"{showStr joined} rt={b01 (splitString joined c == pieces)}"
  | _ => showStr joined

/-! maps over {0,1,2} -/

def decodeMap (M : Nat) : Map :=
  (List.range 3).filterMap fun k => let d := (M / 4 ^ k) % 4; if d = 0 then none else some (k, d - 1)

def encodeMap (m : Map) : String :=
  if m.isEmpty then "-" else ",".intercalate (m.map fun e => s!"{e.1}>{e.2}")

def evalM (fn : String) (ps : List Nat) (M : Nat) : Option String :=
  if M ≥ 64 then none else
  -- the container is built by emplacing the pairs in descending key order (the result is sorted all the same)
  let m := mapOfList (decodeMap M).reverse
  match fn, ps with
  | "findmapped", [K] => if K ≥ 3 then none else
    some (match findOptMapped m K with | none => "none" | some v => toString v)
  | "getorins", [K] => if K ≥ 3 then none else
    let create := fun k (calls : List Nat) => ((k + 1) % 3, calls ++ [k])
    let (r, m', calls) := getOrInsert m K create []
    -- get_or_insert (without result) must return the same element, leave the same container and call `create` equally often
    let (r2, m2, calls2) := getOrInsertPlain m K create []
    let same := (r.map (·.1)) == r2 && m2 == m' && calls2 == calls
    some s!"{exc (fun r => s!"{r.1},{b01 r.2}") r}{if same then "" else "!get_or_insert"}|{encodeMap m'}|{ds calls}"
  | "contains", [K] => if K ≥ 4 then none else some (b01 (containerContains (m.map (·.1)) K))
  | "findit", [K] => if K ≥ 4 then none else
    some (match findOptIterator m K with | none => "none" | some i => toString i)
  | "findopt", [K] => if K ≥ 4 then none else
    some (match containerFindOpt m K with | none => "none" | some r => exc (fun e => s!"{e.1}>{e.2}") r)
  | "insert", [KV] => if KV ≥ 12 then none else
    let (r, m') := mapInsert m (KV / 3, KV % 3)
    some s!"{b01 r}|{encodeMap m'}"
  | "valsref", [D] => if D ≥ 3 then none else
    -- the references are positions of mapped objects; every mapped value is changed after they were taken
    let refs := mapValuesRef m
    let m' : Map := m.map fun e => (e.1, (e.2 + D) % 3)
    let vals := refs.map fun i => match m'[i]? with | some e => toString e.2 | none => "oob"
    some (if vals.isEmpty then "-" else String.join vals)
  | "findmappedat", [J] => if J > 2 then none else
    match m[J]? with
    | none => some "skip"
    | some e => some (match findOptMapped m e.1 with | none => "none" | some v => toString v)
  | "containsat", [J] => if J > 2 then none else
    match m[J]? with | none => some "skip" | some e => some (b01 (containerContains (m.map (·.1)) e.1))
  | "insertat", [J] => if J > 2 then none else
    match m[J]? with
    | none => some "skip"
    | some e => let (r, m') := mapInsert m e; some s!"{b01 r}|{encodeMap m'}"
  | "getorinsat", [J] => if J > 2 then none else
    match m[J]? with
    | none => some "skip"
    | some e =>
      let (r, m', calls) := getOrInsert m e.1 (fun k (calls : List Nat) => ((k + 1) % 3, calls ++ [k])) []
      some s!"{exc (fun r => s!"{r.1},{b01 r.2}") r}|{encodeMap m'}|{ds calls}"
  | "getorinsatv", [J] => if J > 2 then none else
    match m[J]? with
    | none => some "skip"
    | some e =>
      let (r, m', calls) := getOrInsert m e.2 (fun k (calls : List Nat) => ((k + 1) % 3, calls ++ [k])) []
      some s!"{exc (fun r => s!"{r.1},{b01 r.2}") r}|{encodeMap m'}|{ds calls}"
  | "goicb", [K, T] => if K ≥ 4 || T > 2 then none else
    -- create records (size of the map, is the key in it) and throws at its T-th call; after an exception one retry
    let create := fun (mm : Map) (k : Nat) => throwAt T (fun (seen : List (Nat × Nat)) => seen ++ [(mm.length, (mm.map (·.1)).count k)])
      (fun seen => ((k + 1) % 3, seen))
    let showR := fun (r : Except Fault (Nat × Bool)) (mm : Map) => match r with
      | .ok r => s!"{r.1},{b01 r.2}|{encodeMap mm}"
      | .error _ => s!"exc|{encodeMap mm};"
    let (r1, m1, s1) := getOrInsertE m K create (0, [])
    let (out, sF) := match r1 with
      | .ok _ => (showR r1 m1, s1)
      | .error _ => let (r2, m2, s2) := getOrInsertE m1 K create s1; (showR r1 m1 ++ showR r2 m2, s2)
    let seen := if sF.2.isEmpty then "-" else ",".intercalate (sF.2.map fun p => s!"{p.1}.{p.2}")
    some s!"{out}|{sF.1}|{seen}"
  | "mapiterx", [R, T] => if R ≥ 8 || T > 4 then none else
    let r := iterateE (fun (cont : Map) (e : Nat × Nat) => throwAt T
      (fun (log : List String) => log ++ [s!"{e.2}:{cont.length}.{(cont.map (·.1)).count e.1}"]) (fun log => (bit R e.2, log))) [] m (0, [])
    some s!"{match r.1 with | .ok _ => "" | .error _ => "exc|"}{encodeMap r.2.1}|{if r.2.2.2.isEmpty then "-" else ",".intercalate r.2.2.2}"
  | "mapiter2x", [R, T] => if R ≥ 8 || T > 4 then none else
    let r := iterateE (fun (cont : Map) (e : Nat × Nat) => throwAt T
      (fun (log : List String) => log ++ [s!"{e.2}:{cont.length}.1"]) (fun log => (bit R e.2, log))) [] m (0, [])
    some s!"{match r.1 with | .ok _ => "" | .error _ => "exc|"}{encodeMap r.2.1}|{if r.2.2.2.isEmpty then "-" else ",".intercalate r.2.2.2}"
  | "keyset", [] => some (ds (keySet m))
  | "mapvals", [] => some (ds (mapValues m))
  | "mapiter", [R] => if R ≥ 64 then none else
    -- remove iff bit (3*(k%2) + v)… kept simple: bit (k + v) % 6 of R
    let (m', log) := mapIteration m (fun e log => (bit R ((e.1 + 2 * e.2) % 6), log ++ [e.1])) []
    some s!"{encodeMap m'}|{ds log}"
  | "mapiter2", [R] => if R ≥ 8 then none else
    let (m', log) := mapIterationSecond m (fun v log => (bit R v, log ++ [v])) []
    some s!"{encodeMap m'}|{ds log}"
  | _, _ => none

def maskList (m : Nat) : List Nat := (List.range 3).filter (bit m)

def setopLine (op : String) (a b : List Nat) : Option String :=
  let a := setOfList a; let b0 := b; let b := setOfList b
  match op with
  | "U" => some (natList (setUnion a b))
  | "I" => some (natList (setIntersection a b))
  | "D" => some (natList (setDifference a b))
  | "u" => some (natList (setUnion a a))
  | "i" => some (natList (setIntersection a a))
  | "d" => some (natList (setDifference a a))
  | "C" => match b0 with
    | [x] => some (b01 (containerContains a x))
    | _ => none
  | "c" => match b0 with
    | [j] => (match a[j]? with | none => some "skip" | some x => some (b01 (containerContains a x)))
    | _ => none
  | "n" => match b0 with
    | [j] => (match a[j]? with
      | none => some "skip"
      | some x => let (r, s') := setInsertFlag a x; some s!"{b01 r}|{if s'.isEmpty then "-" else natList s'}")
    | _ => none
  | "N" => match b0 with
    | [x] => let (r, s') := setInsertFlag a x; some s!"{b01 r}|{if s'.isEmpty then "-" else natList s'}"
    | _ => none
  | _ => none

def nl (l : List Nat) : String := if l.isEmpty then "-" else natList l

/-- generator used by `genn`, `imget`, `ainit`: k-th call returns k*k % 7 -/
def gen (g : Nat) : Nat × Nat := (g * g % 7, g + 1)

structure St where
  impl : List Nat := []
  g : Nat := 0
  m : Map := []
  calls : Nat := 0

def stateless (toks : List String) : String :=
  let r : Option String :=
    match toks with
    | "s" :: fn :: k :: rest =>
      match rest.getLast? with
      | some tok => evalS fn k rest.dropLast tok
      | none => none
    | "d" :: fn :: k :: rest =>
      match rest.getLast? with
      | some l => do let len ← l.toNat?; if len > 8 then none else evalD fn k rest.dropLast len
      | none => none
    | ["split", _, s] => (parseStr s).map splitLine
    | ["dsplit", _, l] => do
      let len ← l.toNat?
      if len > 9 then none else
      pure ("D " ++ hex64 ((allStrings ['a', 'b', 'c'] len).foldl (fun h s => fnv h (splitLine s)) fnvInit))
    | ["splitat", _, i, s] => do
      let i ← i.toNat?
      let s ← parseStr s
      pure (splitAtLine i s)
    | ["dsplitat", _, i, l] => do
      let i ← i.toNat?
      let len ← l.toNat?
      if len > 9 then none else
      pure ("D " ++ hex64 ((allStrings ['a', 'b', 'c'] len).foldl (fun h s => fnv h (splitAtLine i s)) fnvInit))
    | "joinstrat" :: i :: n :: ps => do
      let i ← i.toNat?
      let n ← n.toNat?
      if ps.length ≠ n ∨ n > 6 then none else
      let ps ← ps.mapM parseStr
      pure (joinAtLine i ps)
    | ["djoinat", i, n] => do
      let i ← i.toNat?
      let n ← n.toNat?
      if n > 4 then none else
      pure ("D " ++ hex64 ((allPieceTuples n).foldl (fun h t => fnv h (joinAtLine i t)) fnvInit))
    | "joinstr" :: d :: n :: ps => do
      let d ← parseStr d
      let n ← n.toNat?
      if ps.length ≠ n then none else
      let ps ← ps.mapM parseStr
      pure (joinLine d ps)
    | ["djoin", d, n] => do
      let d ← parseStr d
      let n ← n.toNat?
      if n > 4 then none else
      pure ("D " ++ hex64 ((allPieceTuples n).foldl (fun h t => fnv h (joinLine d t)) fnvInit))
    | "m" :: fn :: rest =>
      match rest.getLast? with
      | some M => do
        let ps ← rest.dropLast.mapM String.toNat?
        let M ← M.toNat?
        evalM fn ps M
      | none => none
    | "dm" :: fn :: rest => do
      let ps ← rest.mapM String.toNat?
      let lines ← (List.range 64).mapM (evalM fn ps)
      pure ("D " ++ hex64 (lines.foldl fnv fnvInit))
    | ["setop", op, a, b] => do
      let a ← parseNatList a
      let b ← parseNatList b
      (setopLine op a b).map fun s => if s.isEmpty then "-" else s
    | ["dset", op] => do
      let single := op == "N" || op == "C" || op == "n" || op == "c"
      let lines ← ((List.range 64).mapM fun n => setopLine op (maskList (n / 8)) (if single then [n % 4] else maskList (n % 8)))
      pure ("D " ++ hex64 (lines.foldl (fun h s => fnv h (if s.isEmpty then "-" else s)) fnvInit))
    | ["repeat", c] => do
      let c ← c.toInt?
      if c < -1000 ∨ c > 1000 then none else
      pure (toString (repeatLoop c (· + 1) 0 (0 : Nat)))
    | ["genn", t, n] => do
      let n ← n.toNat?
      if n > 64 ∨ !(["v", "l", "d", "r"].contains t) then none else
      let c := (generateN n gen 0).1
      pure (if t == "r" then s!"{nl c.elems}|{c.cap}" else nl c.elems)
    | ["dyn", n] => do
      let n ← n.toNat?
      if n > 64 then none else
      let a : DynArray Nat := DynArray.mk' n
      pure s!"{a.size}|{a.extent}|{exc nl (DynArray.fillRead n (fun i => (i * i + 1) % 7))}"
    | ["ainit", n] => do
      let n ← n.toNat?
      if n > 6 then none else
      let (r, log) := arrayInitS (fun i (log : List Nat) => ((i * i + 1) % 7, log ++ [i])) n []
      pure s!"{nl r}|{nl log}"
    | _ => none
  r.getD "bad-op"

def step (st : St) (toks : List String) : St × String :=
  match toks with
  | ["reset"] => ({}, "ok")
  | ["imget", i] =>
    match i.toNat? with
    | some i =>
      if i > 64 then (st, "bad-op") else
      match indexMapGet st.impl i gen st.g with
      | .ok (v, impl, g) => ({ impl, g }, s!"{v} {impl.length}|{nl impl}")
      | .error e => (st, e.name)
    | none => (st, "bad-op")
  | ["imidx", i] =>
    match i.toNat? with
    | some i =>
      if i > 64 then (st, "bad-op") else
      match indexMapGet st.impl i (fun (u : Unit) => (0, u)) () with
      | .ok (v, impl, _) => ({ st with impl }, s!"{v} {impl.length}|{nl impl}")
      | .error e => (st, e.name)
    | none => (st, "bad-op")
  | ["imgetx", i, T] =>
    match i.toNat?, T.toNat? with
    | some i, some T =>
      if i > 64 || T > 8 then (st, "bad-op") else
      -- insert() records the size of the vector it sees; only a call that does not throw draws from the generator
      let ins := fun (impl : List Nat) => throwAt T (fun (gs : Nat × List Nat) => (gs.1, gs.2 ++ [impl.length]))
        (fun gs => let r := gen gs.1; (r.1, (r.2, gs.2)))
      let (r, impl, s') := indexMapGetE st.impl i ins (0, (st.g, []))
      let seen := if s'.2.2.isEmpty then "-" else natList s'.2.2
      let st' := { st with impl := impl, g := s'.2.1 }
      match r with
      | .ok v => (st', s!"{v} {impl.length}|{nl impl}|{seen}")
      | .error (.exception _) => (st', s!"exc {impl.length}|{nl impl}|{seen}")
      | .error e => (st', e.name)
    | _, _ => (st, "bad-op")
  | ["hgoi", K] =>
    match K.toNat? with
    | some K =>
      if K > 3 then (st, "bad-op") else
      let (r, m', calls') := getOrInsert st.m K (fun k (calls : Nat) => ((k + calls) % 3, calls + 1)) st.calls
      ({ st with m := m', calls := calls' }, s!"{exc (fun r => s!"{r.1},{b01 r.2}") r}|{encodeMap m'}|{calls' - st.calls}")
    | none => (st, "bad-op")
  | ["hins", K, V] =>
    match K.toNat?, V.toNat? with
    | some K, some V =>
      if K > 3 || V > 2 then (st, "bad-op") else
      let (r, m') := mapInsert st.m (K, V)
      ({ st with m := m' }, s!"{b01 r}|{encodeMap m'}")
    | _, _ => (st, "bad-op")
  | ["hfind", K] =>
    match K.toNat? with
    | some K => if K > 3 then (st, "bad-op") else
      (st, match findOptMapped st.m K with | none => "none" | some v => toString v)
    | none => (st, "bad-op")
  | ["hcont", K] =>
    match K.toNat? with
    | some K => if K > 3 then (st, "bad-op") else (st, b01 (containerContains (st.m.map (·.1)) K))
    | none => (st, "bad-op")
  | ["hiter", R] =>
    match R.toNat? with
    | some R => if R > 7 then (st, "bad-op") else
      let (m', log) := mapIterationSecond st.m (fun v log => (bit R v, log ++ [v])) []
      ({ st with m := m' }, s!"{encodeMap m'}|{ds log}")
    | none => (st, "bad-op")
  | ["hset", K, V] =>
    match K.toNat?, V.toNat? with
    | some K, some V =>
      if K > 3 || V > 2 then (st, "bad-op") else
      -- get_or_insert(m, K, create) = V: assignment through the returned reference
      let (_, m', calls') := getOrInsertPlain st.m K (fun _ (calls : Nat) => (0, calls + 1)) st.calls
      let m'' : Map := m'.map fun e => if e.1 == K then (e.1, V) else e
      ({ st with m := m'', calls := calls' }, encodeMap m'')
    | _, _ => (st, "bad-op")
  | _ => (st, stateless toks)

def main : IO Unit := Proto.runState ({} : St) step

end Fcppt.C16.Drv
