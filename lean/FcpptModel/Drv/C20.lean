import FcpptModel.Prelude.Proto
/-! Driver for C20 — placeholder until the property's model is built. -/
namespace Fcppt.C20.Drv
def main : IO Unit := Fcppt.Proto.run (fun _ => "not-built")
end Fcppt.C20.Drv
