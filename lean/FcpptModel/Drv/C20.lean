import FcpptModel.Prelude.Proto
import FcpptModel.Spec.C20
/-!
Driver for C20.  One operation per line (`harness/c20.cpp` runs the same lines against the real templates).

A *segment* is one token `act:p1:p2:n[:tape]`: `act` ∈ `new` (construct a new distribution / variate on the
same generator), `set` (`basic::param(p)`), `rst` (`basic::reset()`); `p1`,`p2` the two parameters in the base
type (floating point: bit pattern as a decimal number); `n` draws; `tape` the `n` values the equivalent
`std::` engine/distribution pair produced at this point of the same history (`-` if `n = 0`).

* `I <T> <deco> <eng> <seed> <ctor> <seg>+` — `basic<uniform_int<R>>`, R = `deco` over `T` ∈ s,i,l;
  deco ∈ p, s, ss, e1..e9 (enum of that size, bounds are enumerator indices), se3; ctor ∈ v (variate from a
  distribution), v2 (two-argument constructor of `basic`), vp (variate from parameters), mk (`make_basic`,
  `make_variate`), d (distribution called directly; the only mode with `set`/`rst`)
* `EN <k> <eng> <seed> <ctor> <n>:<tape>` — `make_uniform_enum<enum of size k>()`
* `C <ctype> <eng> <seed> <elems|-> <n>:<tape>` — `make_uniform_indices`, `make_uniform_container`
* `R <ur|no> <f|d> <p|s> <eng> <seed> <ctor> <seg>+` — `uniform_real`, `normal`
* `G <eng> <v|q> <seed> <n>:<min>:<max>:<tape>` — raw output of `generator::basic_pseudo` (`ctr`: predicted)
* `X <T> <deco> <seed> <ctor> <act:a:b:n>+`, `XE <k> <seed> <ctor> <n>`, `XC <seed> <elems|-> <n>` — the same
  templates over the exactly specified pair `ctrEngine` / `modDist`: everything is predicted, no tape

Result: per segment `seq=<decorated values> min= max= a= b= cf=<convert_from> eq= ne= [ends=]`, segments
joined by ` | `.  `ends=1` is the prediction "both ends of the interval were drawn" for ≥ 400 draws from an
interval of at most 17 values (`-` otherwise).
-/
namespace Fcppt.C20.Drv
open Fcppt.Proto Fcppt.C20

def showD {β : Type} (sh : β → String) : DVal β → String
  | .base x => sh x
  | .strong v => "S(" ++ showD sh v ++ ")"
  | .enum x => "E(" ++ sh x ++ ")"

def joinOr (l : List String) : String := if l.isEmpty then "-" else ",".intercalate l

inductive SegAct | new | set | rst
  deriving DecidableEq

structure Seg (β : Type) where
  act : SegAct
  a : β
  b : β
  n : Nat
  tape : List β

/-- one engine/distribution instance of the model's parameters, with the glue the driver needs -/
structure Inst (β δ γ : Type) where
  D : StdDist β δ
  G : Gen γ
  load : Basic δ → List β → Basic δ       -- put the recorded outputs into the replaying distribution
  sh : β → String
  ends : β → β → Nat → List (DVal β) → String

def parseList {β : Type} (rd : String → Option β) (s : String) : Option (List β) :=
  if s = "-" then some [] else (s.splitOn ",").mapM rd

def parseSeg {β : Type} (rd : String → Option β) (withTape : Bool) (tok : String) : Option (Seg β) :=
  let f := tok.splitOn ":"
  let act? : Option SegAct := match f[0]? with
    | some "new" => some .new | some "set" => some .set | some "rst" => some .rst | _ => none
  match act?, f[1]? >>= rd, f[2]? >>= rd, f[3]? >>= String.toNat? with
  | some act, some a, some b, some n =>
    if n > 100000 then none
    else if withTape then
      if f.length ≠ 5 then none
      else match f[4]? >>= parseList rd with
        | some tape => if tape.length = n then some ⟨act, a, b, n, tape⟩ else none
        | none => none
    else if f.length ≠ 4 then none else some ⟨act, a, b, n, []⟩
  | _, _, _, _ => none

section run
variable {β δ γ : Type}

def readbacks (I : Inst β δ γ) (ty : Ty) (d : Basic δ) (p : Param2 β) (fresh : Bool := true) : String :=
  let e := Basic.eq I.D (Basic.ctor I.D p) d
  -- `==` is only observed on a distribution nothing was drawn from yet (std `==` may compare internal state)
  let (eq, ne) := if fresh then (b01 e, b01 (!e)) else ("-", "-")
  s!" min={showD I.sh (Basic.min I.D ty d)} max={showD I.sh (Basic.max I.D ty d)} a={I.sh (I.D.param d.dist).1} b={I.sh (I.D.param d.dist).2} cf={I.sh p.convertFrom.1},{I.sh p.convertFrom.2} eq={eq} ne={ne}"

def segLine (I : Inst β δ γ) (s : Seg β) (seq : List (DVal β)) (rb : String) : String :=
  "seq=" ++ joinOr (seq.map (showD I.sh)) ++ rb ++ I.ends s.a s.b s.n seq

/-- run the segments; `held` is the distribution object of ctor mode `d` together with its parameters -/
def runSegs (I : Inst β δ γ) (ty : Ty) (ctor : String) :
    List (Seg β) → Bool → γ → Option (Basic δ × Param2 β) → List String → Option (List String)
  | [], _, _, _, acc => some acc.reverse
  | s :: rest, first, g, held, acc =>
    let p : Param2 β := ⟨decorate ty s.a, decorate ty s.b⟩
    if first && s.act ≠ .new then none
    else if !first && ctor ≠ "d" && s.act ≠ .new then none
    else if ctor = "d" then
      let st : Option (Basic δ × Param2 β) := match s.act, held with
        | .new, _ => some (Basic.ctor I.D p, p)
        | .set, some (d, _) => some (Basic.setParam I.D d p, p)
        | .rst, some (d, q) => some (Basic.reset I.D d, q)
        | _, none => none
      match st with
      | none => none
      | some (d, q) =>
        let rb := readbacks I ty d q (s.act == .new)
        let r := runF I.D ty I.G (List.replicate s.n Op.draw) (I.load d s.tape) g
        runSegs I ty ctor rest false r.2.2 (some (r.2.1, q)) (segLine I s r.1 rb :: acc)
    else
      let dv : Option (Basic δ × Variate δ) :=
        if ctor = "v" || ctor = "mk" then
          let d := Basic.ctor I.D p
          some (d, Variate.ctor (I.load d s.tape))
        else if ctor = "v2" then
          let d := Basic.ctor2 I.D (decorate ty s.a) (decorate ty s.b)
          some (d, Variate.ctor (I.load d s.tape))
        else if ctor = "vp" then
          let v := Variate.ctorParam I.D p
          some (Basic.ctor I.D p, ⟨I.load v.distribution s.tape⟩)
        else none
      match dv with
      | none => none
      | some (d, v) =>
        let rb := readbacks I ty d p
        let r := Variate.draws I.D ty I.G s.n v g
        runSegs I ty ctor rest false r.2.2 none (segLine I s r.1 rb :: acc)

def runOp (I : Inst β δ γ) (ty : Ty) (ctor : String) (segs : List (Seg β)) (g : γ) : String :=
  if segs.isEmpty then "bad-op"
  else match runSegs I ty ctor segs true g none [] with
    | some ls => " | ".intercalate ls
    | none => "bad-op"

end run

/-! ### instances -/

/-- the real standard distribution: "both ends were drawn" is predicted (statistically) for ≥ 400 draws from at
most 17 values -/
def intEnds (a b : Int) (n : Nat) (_ : List (DVal Int)) : String :=
  if n ≥ 400 ∧ b - a ≤ 16 then " ends=1" else " ends=-"

/-- the exactly specified pair: whether both ends were drawn is computed from the predicted sequence -/
def exactEnds (a b : Int) (n : Nat) (seq : List (DVal Int)) : String :=
  if n ≥ 400 ∧ b - a ≤ 16 then
    " ends=" ++ b01 (seq.any (fun v => undecorate v == a) && seq.any (fun v => undecorate v == b))
  else " ends=-"

abbrev RD (β : Type) := (β × β) × List β

def loadTape {β : Type} (b : Basic (RD β)) (tape : List β) : Basic (RD β) := Basic.load b tape

/-- replay of `std::uniform_int_distribution` -/
def instInt : Inst Int (RD Int) Unit :=
  ⟨replayDist 0 (·.1) (·.2), basicPseudo unitGen, loadTape, toString, intEnds⟩

/-- replay of `std::uniform_real_distribution` on bit patterns: `min() = a`, `max() = b` -/
def instReal : Inst Nat (RD Nat) Unit :=
  ⟨replayDist 0 (·.1) (·.2), basicPseudo unitGen, loadTape, toString, fun _ _ _ _ => ""⟩

/-- replay of `std::normal_distribution`: `min() = numeric_limits::lowest()`, `max() = numeric_limits::max()` -/
def instNormal (lowest max : Nat) : Inst Nat (RD Nat) Unit :=
  ⟨replayDist 0 (fun _ => lowest) (fun _ => max), basicPseudo unitGen, loadTape, toString, fun _ _ _ _ => ""⟩

/-- the exactly specified pair -/
def instExact : Inst Int ((Int × Int) × Nat) Nat :=
  ⟨modDist, basicPseudo ctrEngine, fun b _ => b, toString, exactEnds⟩

/-! ### parsing of type codes -/

def intRange : String → Option (Int × Int)
  | "s" => some (-32768, 32767)
  | "i" => some (-2147483648, 2147483647)
  | "l" => some (-9223372036854775808, 9223372036854775807)
  | _ => none

/-- deco code → (type shape, size of the enum if the innermost type is an enum) -/
def parseDeco (d : String) : Option (Ty × Option Nat) :=
  if d = "p" then some (.base, none)
  else if d = "s" then some (.strong .base, none)
  else if d = "ss" then some (.strong (.strong .base), none)
  else if d = "se3" then some (.strong .enum, some 3)
  else if d.length = 2 ∧ d.front = 'e' then
    match (d.drop 1).toNat? with
    | some k => if 1 ≤ k ∧ k ≤ 9 then some (.enum, some k) else none
    | none => none
  else none

def segsInRange (lo hi : Int) (segs : List (Seg Int)) : Bool :=
  -- the recorded std values must satisfy the standard's contract `a ≤ x ≤ b` (a tape that does not is
  -- rejected, which shows up as a difference)
  segs.all fun s => lo ≤ s.a && s.a ≤ s.b && s.b ≤ hi && s.tape.all (fun x => s.a ≤ x && x ≤ s.b)

def isEng (e : String) : Bool := e = "minstd" || e = "mt"

def seedOk (eng : String) (seed : Nat) : Bool :=
  if eng = "minstd" then seed < 18446744073709551616 else seed < 18446744073709551616

def opI (t d eng seed ctor : String) (segToks : List String) : String :=
  match intRange t, parseDeco d, seed.toNat?, segToks.mapM (parseSeg String.toInt? true) with
  | some (lo, hi), some (ty, en), some sd, some segs =>
    let (lo, hi) : Int × Int := match en with
      | some k => (0, Int.ofNat k - 1)
      | none => (lo, hi)
    if !isEng eng || !seedOk eng sd || (en.isSome && t ≠ "i") || !segsInRange lo hi segs then "bad-op"
    else runOp instInt ty ctor segs ()
  | _, _, _, _ => "bad-op"

def opX (t d seed ctor : String) (segToks : List String) : String :=
  match intRange t, seed.toNat?, segToks.mapM (parseSeg String.toInt? false) with
  | some (lo, hi), some sd, some segs =>
    let ty? : Option (Ty × Int × Int) :=
      if d = "p" then some (.base, lo, hi) else if d = "s" then some (.strong .base, lo, hi)
      else if d = "e5" ∧ t = "i" then some (.enum, 0, 4) else none
    match ty? with
    | some (ty, lo, hi) =>
      if sd ≥ 4294967296 || !segsInRange lo hi segs || !segs.all (fun s => s.b - s.a < 2147483648) then "bad-op"
      else runOp instExact ty ctor segs (basicPseudoSeed (fun s => s) (DVal.strong (.base sd)))
    | none => "bad-op"
  | _, _, _ => "bad-op"

def floatBits (t : String) : Option Nat := if t = "f" then some 32 else if t = "d" then some 64 else none

def opR (kind t d eng seed ctor : String) (segToks : List String) : String :=
  match floatBits t, parseDeco d, seed.toNat?, segToks.mapM (parseSeg String.toNat? true) with
  | some bits, some (ty, none), some sd, some segs =>
    if !isEng eng || !seedOk eng sd || (d ≠ "p" ∧ d ≠ "s")
        || !segs.all (fun s => s.a < 2 ^ bits && s.b < 2 ^ bits && s.tape.all (· < 2 ^ bits)) then "bad-op"
    else if kind = "ur" then runOp instReal ty ctor segs ()
    else if kind = "no" then
      let inst := if bits = 32 then instNormal 4286578687 2139095039 else instNormal 18442240474082181119 9218868437227405311
      runOp inst ty ctor segs ()
    else "bad-op"
  | _, _, _, _ => "bad-op"

/-- one `n[:tape]` token of the single-segment operations -/
def parseNTape (withTape : Bool) (tok : String) : Option (Nat × List Int) :=
  let f := tok.splitOn ":"
  match f[0]? >>= String.toNat? with
  | some n =>
    if n > 100000 then none
    else if withTape then
      if f.length ≠ 2 then none
      else match f[1]? >>= parseList String.toInt? with
        | some tape => some (n, tape)
        | none => none
    else if f.length ≠ 1 then none else some (n, [])
  | none => none

/-- enum factory: the model computes the interval from the enum's size -/
def enumOp {δ γ : Type} (I : Inst Int δ γ) (k : Nat) (ctor : String) (n : Nat) (tape : List Int) (g : γ) : String :=
  let p := makeUniformEnum (k - 1)
  let ty := Ty.enum
  let d := Basic.ctor I.D p
  let rb := readbacks I ty d p
  let seq? : Option (List (DVal Int)) :=
    if ctor = "d" then some (runF I.D ty I.G (List.replicate n Op.draw) (I.load d tape) g).1
    else if ctor = "v" then some (Variate.draws I.D ty I.G n (Variate.ctor (I.load d tape)) g).1
    else if ctor = "vp" then some (Variate.draws I.D ty I.G n ⟨I.load (Variate.ctorParam I.D p).distribution tape⟩ g).1
    else none
  match seq? with
  | some seq => "seq=" ++ joinOr (seq.map (showD I.sh)) ++ rb ++ I.ends 0 (Int.ofNat k - 1) n seq
  | none => "bad-op"

def opEN (k eng seed ctor tok : String) : String :=
  match k.toNat?, seed.toNat?, parseNTape true tok with
  | some k, some sd, some (n, tape) =>
    if k < 1 || k > 9 || !isEng eng || !seedOk eng sd || tape.length ≠ n
        || !tape.all (fun x => 0 ≤ x && x < Int.ofNat k) then "bad-op"
    else enumOp instInt k ctor n tape ()
  | _, _, _ => "bad-op"

def opXE (k seed ctor tok : String) : String :=
  match k.toNat?, seed.toNat?, parseNTape false tok with
  | some k, some sd, some (n, _) =>
    if (k ≠ 1 ∧ k ≠ 5 ∧ k ≠ 9) || sd ≥ 4294967296 then "bad-op"
    else enumOp instExact k ctor n [] (basicPseudoSeed (fun s => s) (DVal.strong (.base sd)))
  | _, _, _ => "bad-op"

/-- container factories -/
def containerOp {δ γ : Type} (I : Inst Int δ γ) (elems : List Int) (n : Nat) (tape : List Int) (g : γ) : String :=
  let ind := match makeUniformIndices elems with
    | none => "none"
    | some p => s!"{p.convertFrom.1},{p.convertFrom.2}"
  match makeUniformContainer I.D elems with
  | none => s!"ind={ind} cont=none"
  | some u =>
    match UniformContainer.draws I.D I.G n ⟨u.container, I.load u.distribution tape⟩ g with
    | .ok r => s!"ind={ind} cont=some seq={joinOr (r.1.map (fun e => toString e.1))} idx={joinOr (r.1.map (fun e => toString e.2))}"
    | .error f => s!"ind={ind} cont=some {f.name}"

def elemRange (ct : String) : Option (Int × Int) :=
  if ct = "vm" then intRange "l" else if ct = "vc" ∨ ct = "dq" ∨ ct = "adv" then intRange "i" else none

def opC (ct eng seed elems tok : String) : String :=
  match elemRange ct, seed.toNat?, parseIntList elems, parseNTape true tok with
  | some (lo, hi), some sd, some es, some (n, tape) =>
    if !isEng eng || !seedOk eng sd || !es.all (fun x => lo ≤ x && x ≤ hi) then "bad-op"
    else if es.isEmpty then containerOp instInt es n [] ()
    else if tape.length ≠ n || !tape.all (fun x => 0 ≤ x && x < Int.ofNat es.length) then "bad-op"
    else containerOp instInt es n tape ()
  | _, _, _, _ => "bad-op"

def opXC (seed elems tok : String) : String :=
  match seed.toNat?, parseIntList elems, parseNTape false tok with
  | some sd, some es, some (n, _) =>
    if sd ≥ 4294967296 || !es.all (fun x => -2147483648 ≤ x && x ≤ 2147483647) then "bad-op"
    else containerOp instExact es n [] (basicPseudoSeed (fun s => s) (DVal.strong (.base sd)))
  | _, _, _ => "bad-op"

/-- raw generator output: `basic_pseudo` over a replayed engine (or over `ctrEngine`) -/
def rawDraws {γ : Type} (G : Gen γ) : Nat → γ → List Nat
  | 0, _ => []
  | n + 1, g => let r := G.next g; r.1 :: rawDraws G n r.2

def tapeEngine (mn mx : Nat) : Gen (List Nat) :=
  ⟨fun t => match t with | [] => (0, []) | x :: r => (x, r), mn, mx⟩

def opG (eng mode seed tok : String) : String :=
  let f := tok.splitOn ":"
  match seed.toNat?, f[0]? >>= String.toNat?, f[1]? >>= String.toNat?, f[2]? >>= String.toNat?, f[3]? >>= parseNatList with
  | some sd, some n, some mn, some mx, some tape =>
    if f.length ≠ 4 || n > 100000 then "bad-op"
    else if eng = "ctr" then
      if mode ≠ "v" || sd ≥ 4294967296 || !tape.isEmpty then "bad-op"
      else
        let G := basicPseudo ctrEngine
        s!"seq={joinOr ((rawDraws G n (basicPseudoSeed (fun s => s) (DVal.strong (.base sd)))).map toString)} min={G.min} max={G.max}"
    else if !isEng eng || (mode ≠ "v" ∧ mode ≠ "q") || tape.length ≠ n || !seedOk eng sd then "bad-op"
    else
      let G := basicPseudo (tapeEngine mn mx)
      s!"seq={joinOr ((rawDraws G n tape).map toString)} min={G.min} max={G.max}"
  | _, _, _, _, _ => "bad-op"

/-! ### scripts (`XS`, `IS`, `RS`): several distributions / variates on one generator

`XS <T> <deco> <seed> <act>+` (exact pair), `IS <T> <deco> <eng> <seed> <act>+`, `RS <ur|no> <f|d> <p|s> <eng> <seed> <act>+`.
Actions: `n:i:a:b` `n2:i:a:b` `mk:i:a:b` (construct `D_i`), `cc:i:j` `mc:i:j` (copy / move construction), `ca:i:j`
`ma:i:j` (copy / move assignment; `ca:i:i` is self-assignment), `sw:i:j`, `d:i:n[:tape]` (n draws from `D_i`), `r:i`,
`p:i:a:b`, `e:i:j` (`==`, `!=`), `q:i` (`min/max/a/b/operator<<`), `v:k:i` `vm:k:i` (variate / `make_variate` from
`D_i`), `vp:k:a:b` (all on the first generator; `d1` `v1` `vm1` `vp1` `g1`: the same on the second generator, seeded
with `seed + 1000003`), `vc:k:l` `vx:k:l` (copy / move construction of a variate), `va:k:l` `vy:k:l` (assignment), `w:k:n[:tape]` (n draws from `V_k`), `g:n[:tape]` (the generator itself).
Result: `ok` followed by one field per observing action. -/

structure SInst (β δ γ : Type) where
  D : StdDist β δ
  out : δ → String
  G : Gen γ
  sh : β → String
  enc : β → Nat                    -- how a recorded value is put on the generator tape
  feed : γ → List Nat → γ          -- load the tape of one action (exact pair: nothing to load)
  osText : Bool

inductive Fmt | none | vals (name : String) | eq | look
  deriving DecidableEq

structure PTok (β : Type) where
  acts : List (Act β)
  fmt : Fmt
  tape : List Nat

def distSlots : Nat := 4
/-- the second generator of a script line is seeded with `seed + secondSeedOffset` -/
def secondSeedOffset : Nat := 1000003
def varSlots : Nat := 3

def slot? (lim : Nat) (s : String) : Option Nat :=
  if s.length = 0 ∨ s.length > 2 then none
  else match s.toNat? with
    | some n => if n < lim then some n else none
    | none => none

def count? (s : String) : Option Nat :=
  if s.length = 0 ∨ s.length > 6 then none
  else match s.toNat? with
    | some n => if n ≤ 100000 then some n else none
    | none => none

/-- `ok a b`: are these parameters acceptable for the distribution (type range, `a ≤ b`, …)? -/
def parseTok {β : Type} (rd : String → Option β) (okP : β → β → Bool) (enc : β → Nat) (ty : Ty) (withTape : Bool)
    (tok : String) : Option (PTok β) :=
  let f := tok.splitOn ":"
  let par (x y : String) : Option (Param2 β) :=
    match rd x, rd y with
    | some a, some b => if okP a b then some ⟨decorate ty a, decorate ty b⟩ else none
    | _, _ => none
  let tapeOf (n : Nat) (rdT : String → Option Nat) (t? : Option String) : Option (List Nat) :=
    if withTape then
      match t? with
      | some t => match parseList rdT t with
        | some l => if l.length = n then some l else none
        | none => none
      | none => none
    else some []
  match f with
  | [name, i, x, y] =>
    if name = "n" ∨ name = "mk" then do
      let i ← slot? distSlots i; let p ← par x y
      some ⟨[.newP i p], .none, []⟩
    else if name = "n2" then do
      let i ← slot? distSlots i; let p ← par x y
      some ⟨[.new2 i p.fst p.snd], .none, []⟩
    else if name = "p" then do
      let i ← slot? distSlots i; let p ← par x y
      some ⟨[.setParam i p], .none, []⟩
    else if name = "vp" ∨ name = "vp1" then do
      let k ← slot? varSlots i; let p ← par x y
      some ⟨[.varP k p (name = "vp1")], .none, []⟩
    else if (name = "d" ∨ name = "d1" ∨ name = "w") ∧ withTape then do
      let i ← slot? (if name = "w" then varSlots else distSlots) i
      let n ← count? x
      let tape ← tapeOf n (fun s => (rd s).map enc) (some y)
      some ⟨List.replicate n (if name = "w" then .vdraw i else .draw i (name = "d1")), .vals name, tape⟩
    else none
  | [name, i, j] =>
    if name = "cc" ∨ name = "mc" then do
      let i ← slot? distSlots i; let j ← slot? distSlots j
      if i = j then none else some ⟨[.copy i j false], .none, []⟩
    else if name = "ca" then do
      let i ← slot? distSlots i; let j ← slot? distSlots j
      some ⟨[.copy i j true], .none, []⟩
    else if name = "ma" then do
      let i ← slot? distSlots i; let j ← slot? distSlots j
      if i = j then none else some ⟨[.copy i j true], .none, []⟩
    else if name = "sw" then do
      let i ← slot? distSlots i; let j ← slot? distSlots j
      some ⟨[.swap i j], .none, []⟩
    else if name = "e" then do
      let i ← slot? distSlots i; let j ← slot? distSlots j
      some ⟨[.eq i j], .eq, []⟩
    else if name = "v" ∨ name = "vm" ∨ name = "v1" ∨ name = "vm1" then do
      let k ← slot? varSlots i; let i ← slot? distSlots j
      some ⟨[.varD k i (name = "v1" ∨ name = "vm1")], .none, []⟩
    else if name = "vc" ∨ name = "vx" then do
      let k ← slot? varSlots i; let l ← slot? varSlots j
      if k = l then none else some ⟨[.varCopy k l false], .none, []⟩
    else if name = "va" then do
      let k ← slot? varSlots i; let l ← slot? varSlots j
      some ⟨[.varCopy k l true], .none, []⟩
    else if name = "vy" then do
      let k ← slot? varSlots i; let l ← slot? varSlots j
      if k = l then none else some ⟨[.varCopy k l true], .none, []⟩
    else if (name = "d" ∨ name = "d1" ∨ name = "w") ∧ !withTape then do
      let i ← slot? (if name = "w" then varSlots else distSlots) i
      let n ← count? j
      some ⟨List.replicate n (if name = "w" then .vdraw i else .draw i (name = "d1")), .vals name, []⟩
    else if (name = "g" ∨ name = "g1") ∧ withTape then do
      let n ← count? i
      let tape ← tapeOf n String.toNat? (some j)
      some ⟨List.replicate n (.raw (name = "g1")), .vals name, tape⟩
    else none
  | [name, i] =>
    if name = "r" then do
      let i ← slot? distSlots i
      some ⟨[.reset i], .none, []⟩
    else if name = "q" then do
      let i ← slot? distSlots i
      some ⟨[.look i], .look, []⟩
    else if (name = "g" ∨ name = "g1") ∧ !withTape then do
      let n ← count? i
      some ⟨List.replicate n (.raw (name = "g1")), .vals name, []⟩
    else none
  | _ => none

def underscored (s : String) : String := s.map (fun c => if c = ' ' then '_' else c)

def showEvs {β δ γ : Type} (I : SInst β δ γ) (fmt : Fmt) (evs : List (Ev (DVal β) β)) : String :=
  match fmt with
  | .none => ""
  | .vals name =>
    s!" {name}=" ++ joinOr (evs.filterMap fun e => match e with
      | .val v => some (showD I.sh v) | .raw n => some (toString n) | _ => none)
  | .eq => "".intercalate (evs.map fun e => match e with | .eq b => s!" e={b01 b}{b01 (!b)}" | _ => "")
  | .look => "".intercalate (evs.map fun e => match e with
      | .look mn mx p o => s!" q={showD I.sh mn}/{showD I.sh mx}/{I.sh p.1}/{I.sh p.2}/{if I.osText then underscored o else "="}"
      | _ => "")

/-- token by token: the whole line is `runScriptF` of the concatenated actions (the tape of an action is loaded
into the replaying generator right before it) -/
def runToks {β δ γ : Type} (I : SInst β δ γ) (ty : Ty) :
    List (PTok β) → ObjsF δ → γ × γ → String → String
  | [], _, _, acc => acc
  | t :: rest, s, g, acc =>
    -- the tape of an action is offered to both generators; only the one the action uses consumes it
    match runScriptF I.D I.out ty I.G t.acts s (I.feed g.1 t.tape, I.feed g.2 t.tape) with
    | .ok r => runToks I ty rest r.2.1 r.2.2 (acc ++ showEvs I t.fmt r.1)
    | .error _ => "bad-op"

def sExact : SInst Int ((Int × Int) × Nat) Nat :=
  ⟨modDist, modOut, basicPseudo ctrEngine, toString, fun _ => 0, fun g _ => g, true⟩

/-- `std::uniform_int_distribution`: `operator<<` prints `a b` -/
def sInt : SInst Int (Int × Int) (List Nat) :=
  ⟨tapeDist unzigzag (·.1) (·.2), fun d => s!"{d.1} {d.2}", basicPseudo tapeGen, toString, zigzag, fun _ t => t, true⟩

def sReal : SInst Nat (Nat × Nat) (List Nat) :=
  ⟨tapeDist id (·.1) (·.2), fun _ => "", basicPseudo tapeGen, toString, id, fun _ t => t, false⟩

def sNormal (lowest max : Nat) : SInst Nat (Nat × Nat) (List Nat) :=
  ⟨tapeDist id (fun _ => lowest) (fun _ => max), fun _ => "", basicPseudo tapeGen, toString, id, fun _ t => t, false⟩

def opXS (t d seed : String) (toks : List String) : String :=
  match intRange t, seed.toNat? with
  | some (lo, hi), some sd =>
    let ty? : Option (Ty × Int × Int) :=
      if d = "p" then some (.base, lo, hi) else if d = "s" then some (.strong .base, lo, hi)
      else if d = "ss" then some (.strong (.strong .base), lo, hi)
      else if d = "e5" ∧ t = "i" then some (.enum, 0, 4) else none
    match ty? with
    | some (ty, lo, hi) =>
      let okP := fun (a b : Int) => lo ≤ a && a ≤ b && b ≤ hi && b - a < 2147483648
      match toks.mapM (parseTok String.toInt? okP (fun _ => 0) ty false) with
      | some ps =>
        if sd ≥ 4294967296 || ps.isEmpty then "bad-op"
        else runToks sExact ty ps ObjsF.empty
          (basicPseudoSeed (fun s => s) (DVal.strong (.base sd)),
           basicPseudoSeed (fun s => s) (DVal.strong (.base ((sd + secondSeedOffset) % 4294967296)))) "ok"
      | none => "bad-op"
    | none => "bad-op"
  | _, _ => "bad-op"

def opIS (t d eng seed : String) (toks : List String) : String :=
  let ty? : Option (Ty × Option Nat) :=
    if (t = "s" ∧ (d = "p" ∨ d = "s")) ∨ (t = "i" ∧ (d = "p" ∨ d = "ss" ∨ d = "e3" ∨ d = "se3")) ∨ (t = "l" ∧ (d = "p" ∨ d = "s"))
    then parseDeco d else none
  match intRange t, ty?, seed.toNat? with
  | some (lo, hi), some (ty, en), some sd =>
    let (lo, hi) : Int × Int := match en with
      | some k => (0, Int.ofNat k - 1)
      | none => (lo, hi)
    let okP := fun (a b : Int) => lo ≤ a && a ≤ b && b ≤ hi
    let rd := fun (s : String) => (s.toInt?).bind fun x => if lo ≤ x && x ≤ hi then some x else none
    match toks.mapM (parseTok rd okP zigzag ty true) with
    | some ps =>
      if !isEng eng || !seedOk eng sd || ps.isEmpty then "bad-op"
      else runToks sInt ty ps ObjsF.empty ([], []) "ok"
    | none => "bad-op"
  | _, _, _ => "bad-op"

def opRS (kind t d eng seed : String) (toks : List String) : String :=
  match floatBits t, parseDeco d, seed.toNat? with
  | some bits, some (ty, none), some sd =>
    let rd := fun (s : String) => (s.toNat?).bind fun x => if x < 2 ^ bits then some x else none
    match toks.mapM (parseTok rd (fun _ _ => true) id ty true) with
    | some ps =>
      if !isEng eng || !seedOk eng sd || (d ≠ "p" ∧ d ≠ "s") || ps.isEmpty then "bad-op"
      else if kind = "ur" then runToks sReal ty ps ObjsF.empty ([], []) "ok"
      else if kind = "no" then
        let inst := if bits = 32 then sNormal 4286578687 2139095039 else sNormal 18442240474082181119 9218868437227405311
        runToks inst ty ps ObjsF.empty ([], []) "ok"
      else "bad-op"
    | none => "bad-op"
  | _, _, _ => "bad-op"

/-! ### container scripts: `XU <c|m> <seed> <elems|-> <act>+`

`f:i` (factory), `k:i:lo:hi` (constructor with an index interval inside the container), `cc:i:j`, `ca:i:j`, `mc:i:j`, `ma:i:j`,
`d:i:n` (n draws: `element@index`), `w:pos:x` (the program overwrites an element), `t:i:x` (writes through the
reference a draw returned; mutable container only), `g:n` (the program calls the generator itself).  The final container is printed last. -/

structure CTok where
  acts : List (CAct Int)
  name : String

def parseCTok (mutable : Bool) (size : Nat) (tok : String) : Option CTok :=
  let f := tok.splitOn ":"
  let elem? (s : String) : Option Int := (s.toInt?).bind fun x => if -2147483648 ≤ x && x ≤ 2147483647 then some x else none
  match f with
  | ["f", i] => do let i ← slot? 3 i; some ⟨[.make i], "f"⟩
  | ["k", i, lo, hi] => do
    let i ← slot? 3 i; let lo ← lo.toNat?; let hi ← hi.toNat?
    if lo ≤ hi ∧ hi < size then some ⟨[.ctor i ⟨.base (Int.ofNat lo), .base (Int.ofNat hi)⟩], "k"⟩ else none
  | ["cc", i, j] => do let i ← slot? 3 i; let j ← slot? 3 j; if i = j then none else some ⟨[.copy i j false], "cc"⟩
  | ["mc", i, j] => do let i ← slot? 3 i; let j ← slot? 3 j; if i = j then none else some ⟨[.copy i j false], "mc"⟩
  | ["ca", i, j] => do let i ← slot? 3 i; let j ← slot? 3 j; some ⟨[.copy i j true], "ca"⟩
  | ["ma", i, j] => do let i ← slot? 3 i; let j ← slot? 3 j; if i = j then none else some ⟨[.copy i j true], "ma"⟩
  | ["d", i, n] => do let i ← slot? 3 i; let n ← count? n; some ⟨List.replicate n (.draw i), "d"⟩
  | ["w", pos, x] => do let pos ← count? pos; let x ← elem? x; if pos < size then some ⟨[.write pos x], "w"⟩ else none
  | ["t", i, x] => do let i ← slot? 3 i; let x ← elem? x; if mutable then some ⟨[.drawWrite i x], "t"⟩ else none
  | ["g", n] => do let n ← count? n; some ⟨List.replicate n .raw, "g"⟩
  | _ => none

def showCEvs (name : String) (evs : List (CEv Int)) : String :=
  if name = "f" then "".intercalate (evs.map fun e => match e with | .made b => if b then " f=some" else " f=none" | _ => "")
  else if name = "d" then " d=" ++ joinOr (evs.filterMap fun e => match e with | .elem x i => some s!"{x}@{i}" | _ => none)
  else if name = "t" then "".intercalate (evs.map fun e => match e with | .elem _ i => s!" t={i}" | _ => "")
  else if name = "g" then " g=" ++ joinOr (evs.filterMap fun e => match e with | .raw n => some (toString n) | _ => none)
  else ""

def runCToks : List CTok → List Int → (Nat → Option (Basic ((Int × Int) × Nat))) → Nat → String → String
  | [], c, _, _, acc => acc ++ " st=" ++ joinOr (c.map toString)
  | t :: rest, c, s, g, acc =>
    match runCScript modDist (basicPseudo ctrEngine) t.acts c s g with
    | .ok r => runCToks rest r.2.1 r.2.2.1 r.2.2.2 (acc ++ showCEvs t.name r.1)
    | .error _ => "bad-op"

def opXU (cm seed elems : String) (toks : List String) : String :=
  match seed.toNat?, parseIntList elems with
  | some sd, some es =>
    if (cm ≠ "c" ∧ cm ≠ "m") || sd ≥ 4294967296 || !es.all (fun x => -2147483648 ≤ x && x ≤ 2147483647) || toks.isEmpty then "bad-op"
    else match toks.mapM (parseCTok (cm = "m") es.length) with
      | some ps => runCToks ps es (fun _ => none) (basicPseudoSeed (fun s => s) (DVal.strong (.base sd))) "ok"
      | none => "bad-op"
  | _, _ => "bad-op"

/-! ### `G2 <eng> <seed0> <seed1> <g*n,...> <tape|->`: two generators of one type, drawn from alternately -/

def parsePattern (s : String) : Option (List (Nat × Nat)) :=
  (s.splitOn ",").mapM fun part =>
    match part.splitOn "*" with
    | [g, n] => do
      let g ← g.toNat?; let n ← count? n
      if g ≤ 1 ∧ g.repr = toString g then some (g, n) else none
    | _ => none

def runPattern {γ : Type} (G : Gen γ) : List (Nat × Nat) → γ → γ → List Nat
  | [], _, _ => []
  | (w, n) :: rest, g0, g1 =>
    let rec go : Nat → γ → List Nat × γ
      | 0, g => ([], g)
      | k + 1, g => let r := G.next g; let rs := go k r.2; (r.1 :: rs.1, rs.2)
    if w = 0 then let r := go n g0; r.1 ++ runPattern G rest r.2 g1
    else let r := go n g1; r.1 ++ runPattern G rest g0 r.2

/-- the part of the recorded output that belongs to generator `w` -/
def splitTape (w : Nat) : List (Nat × Nat) → List Nat → List Nat
  | [], _ => []
  | (v, n) :: rest, tape => (if v = w then tape.take n else []) ++ splitTape w rest (tape.drop n)

def opG2 (eng s0 s1 pat tape : String) : String :=
  match s0.toNat?, s1.toNat?, parsePattern pat, parseNatList tape with
  | some a, some b, some p, some tp =>
    let total := (p.map (·.2)).foldl (· + ·) 0
    if eng = "ctr" then
      if a ≥ 4294967296 || b ≥ 4294967296 || !tp.isEmpty then "bad-op"
      else "seq=" ++ joinOr ((runPattern (basicPseudo ctrEngine) p (basicPseudoSeed (fun s => s) (DVal.strong (.base a)))
        (basicPseudoSeed (fun s => s) (DVal.strong (.base b)))).map toString)
    else if !isEng eng || !seedOk eng a || !seedOk eng b || tp.length ≠ total then "bad-op"
    else "seq=" ++ joinOr ((runPattern (basicPseudo (tapeEngine 0 0)) p (splitTape 0 p tp) (splitTape 1 p tp)).map toString)
  | _, _, _, _ => "bad-op"

/-! ### `TI <T> <deco> <x>`: `type_iso::decorate` / `undecorate`, `decorated_value`, `base_value` called directly;
`SC <eng>`: a generator seeded by `seed_from_chrono` is the standard engine seeded with the value inside the seed -/

def opTI (t d x : String) : String :=
  match intRange t, parseDeco d, x.toInt? with
  | some (lo, hi), some (ty, en), some v =>
    let (lo, hi) : Int × Int := match en with
      | some k => (0, Int.ofNat k - 1)
      | none => (lo, hi)
    if (en.isSome && t ≠ "i") || v < lo || v > hi then "bad-op"
    else
      let dv := decorate ty v
      s!"dec={showD toString dv} dv={showD toString (Basic.makeResult ty v)} und={undecorate dv} bv={(Param2.mk dv dv).convertFrom.1}"
  | _, _, _ => "bad-op"

def opSC (eng : String) : String :=
  if isEng eng || eng = "ctr" then
    -- `basic_pseudo(seed)` is `wrapped_(seed.get())` (`basicPseudoSeed_eq`), `operator()` is the wrapped one
    let s : Nat := 12345
    s!"same={b01 (rawDraws (basicPseudo ctrEngine) 16 (basicPseudoSeed (fun x => x) (DVal.strong (.base s))) == rawDraws ctrEngine 16 s)}"
  else "bad-op"

def handle (toks : List String) : String :=
  match toks with
  | "I" :: t :: d :: eng :: seed :: ctor :: segs => opI t d eng seed ctor segs
  | "X" :: t :: d :: seed :: ctor :: segs => opX t d seed ctor segs
  | "R" :: kind :: t :: d :: eng :: seed :: ctor :: segs => opR kind t d eng seed ctor segs
  | ["EN", k, eng, seed, ctor, tok] => opEN k eng seed ctor tok
  | ["XE", k, seed, ctor, tok] => opXE k seed ctor tok
  | ["C", ct, eng, seed, elems, tok] => opC ct eng seed elems tok
  | ["XC", seed, elems, tok] => opXC seed elems tok
  | ["G", eng, mode, seed, tok] => opG eng mode seed tok
  | "XS" :: t :: d :: seed :: toks => opXS t d seed toks
  | "IS" :: t :: d :: eng :: seed :: toks => opIS t d eng seed toks
  | "RS" :: kind :: t :: d :: eng :: seed :: toks => opRS kind t d eng seed toks
  | "XU" :: cm :: seed :: elems :: toks => opXU cm seed elems toks
  | ["G2", eng, s0, s1, pat, tape] => opG2 eng s0 s1 pat tape
  | ["TI", t, d, x] => opTI t d x
  | ["SC", eng] => opSC eng
  | _ => "bad-op"

def main : IO Unit := Proto.run handle

end Fcppt.C20.Drv
