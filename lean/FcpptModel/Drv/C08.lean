import FcpptModel.Prelude.Proto
import FcpptModel.Spec.C08
/-!
Driver for C08.  `T` is `u` (std::size_t instantiation, components ≥ 0) or `s` (long).  Lists are
`a,b,c` (length N ∈ {1,2,3}).  A grid "`d k`" is `object<long,N>(d, enc k)` with
`enc k p = 1000*k + 1 + p0 + 10*p1 + 100*p2`.

* `off T d p`                 offset / in_range_dim / contents
* `offs T d m`                digest of `off` over all p with `lo ≤ p_i < d_i + m` (lo = 0 for u, -m for s)
* `next T cur mn sp`          next_position
* `nexts T mn sp lo hi`       digest of `next` over all cur in [lo,hi]^N
* `range T mn sp`             min_less_sup, range_dim, range_size/size(), end_position, the visited positions
* `ranges T mn lo hi`         digest of `range` over all sp in [lo,hi]^N
* `mk d k` / `mkc d v`        function / value constructor: content, empty, cells in storage order
* `all d`                     make_pos_range(d): size and positions
* `refall d k`                make_pos_ref_range(grid): (pos,value) pairs
* `at d k p`, `ats d k m`     in_range + at_optional (digest over 0 ≤ p_i < d_i + m)
* `resize d k nd k2`          resize to nd with init = enc k2
* `map d k a b`               map (x ↦ a*x+b)
* `apply d1 k1 d2 k2 [d3 k3]` apply (a, bs ↦ fold (acc*1009 + b))
* `fill d v k`                mkc d v, then fill with enc k
* `out d k`                   operator<< of the grid
* `interp d k fl q`           interpolate at the position fl + q/4 (0 ≤ fl_i, fl_i + 1 < d_i, q_i ∈ 0..3), interpolator
                              `ip f a b = (4f+1)*1000003 + 7a + 13b`; `interps d k`: digest over all such fl, q
* `rows w h k`                static_row constructor (N = 2), 1 ≤ w, h ≤ 4
* `regs d0 k0 d1 k1 d2 k2 P`  three objects, `P` = special-member calls `xxDS` joined by `.` (`-` = none): `cc` copy ctor,
                              `mc` move ctor, `dcD` default ctor, `ca` copy assign, `ma` move assign, `sm` member swap, `sf` free swap; D, S slot digits
* `cmp d1 c1 d2 c2`           `== != < > <= >=` of the grids with sizes d1, d2 and cell lists c1, c2 (`-` = no cell)
* `fillself d k mode`         fill whose function reads the grid itself: first / last / previous / next / current cell, + 7
* `clamp d p`                 clamped_min p, clamped_sup_signed p d, clamped_sup (clamped_min p) d
* `clamps d m`                digest of `clamp` over all p with -m ≤ p_i ≤ d_i + m
* `refsub d k smin ssup`      pos_ref_range(grid, clamped_min smin, clamped_sup_signed ssup d)
* `refsubs d k smin m`        digest of `refsub` over all ssup with -m ≤ ssup_i ≤ d_i + m
-/
namespace Fcppt.C08.Drv
open Fcppt.Proto

def il (l : List Int) : String := if l.isEmpty then "-" else intList l

def posList (ps : List Pos) : String :=
  if ps.isEmpty then "-" else "|".intercalate (ps.map il)

def enc (k : Int) (p : Pos) : Int :=
  1000 * k + 1 + (p.zipIdx.foldl (fun acc xi => acc + xi.1 * (10 : Int) ^ xi.2) 0)

def exc {α : Type} (r : Except Fault α) (f : α → String) : String :=
  match r with
  | .ok a => f a
  | .error e => e.name

def gridStr (g : Grid Int) : String :=
  s!"size={il g.size} cont={g.content} empty={b01 g.isEmpty} cells={il g.cells}"

def mkGrid (d : List Int) (k : Int) : Except Fault (Grid Int) := Grid.mkFn d fun p => pure (enc k p)

def refStr (l : List (Pos × Int)) : String :=
  if l.isEmpty then "-" else "|".intercalate (l.map fun pv => il pv.1 ++ ":" ++ toString pv.2)

/-- all tuples with `lo_i ≤ x_i < hi_i`, index 0 fastest (the enumeration order of the digests) -/
def tuples (lo hi : List Int) : List Pos := box lo hi

def digest (lines : List String) : String :=
  "D " ++ hex64 (lines.foldl fnv fnvInit)

/-- `u`: `std::size_t` arithmetic (modulo 2^64); `s`: `long`, exercised without overflow only -/
def offLine (t : String) (d p : List Int) : String :=
  if t == "u" then s!"off={offsetW 64 p d} in={b01 (inRangeDim d p)} cont={contentsW 64 d}"
  else s!"off={offset p d} in={b01 (inRangeDim d p)} cont={contents d}"

/-- the single-step op runs the literal fold (`nextFold`); the iterator loop of `posRange` runs `next` -/
def nextLine (cur mn sp : Pos) : String := s!"next={il (nextFold cur mn sp)}"

def rangeLine (mn sp : Pos) : String :=
  let hd := s!"mls={b01 (minLessSup mn sp)} dim={il (rangeDim mn sp)} size={rangeSize mn sp} end={il (endPos mn sp)}"
  match posRange mn sp with
  | .ok ps => s!"{hd} n={ps.length} ps={posList ps}"
  | .error e => s!"{hd} {e.name}"

def atLine (d : List Int) (k : Int) (p : Pos) : String :=
  exc (mkGrid d k) fun g =>
    exc (g.atOptional p) fun r =>
      s!"in={b01 (g.inRange p)} at={match r with | some v => toString v | none => "none"}"

def refsubLine (d : List Int) (k : Int) (smin ssup : Pos) : String :=
  exc (mkGrid d k) fun g =>
    let mn := clampedMin smin
    exc (clampedSupSigned ssup d) fun sp =>
      exc (g.posRefRange mn sp) fun l =>
        exc (g.fillRange mn sp (enc 5)) fun g2 =>
          s!"mn={il mn} sp={il sp} size={rangeSize mn sp} n={l.length} ref={refStr l} w={il g2.cells}"

def clampLine (d : List Int) (p : Pos) : String :=
  exc (clampedSupSigned p d) fun css =>
    s!"cmin={il (clampedMin p)} csups={il css} csup={il (clampedSup (clampedMin p) d)}"

/-- `rows w h k`: the static_row constructor with `h` rows of `w` cells, row `y` = `enc k (0,y) … enc k (w-1,y)` -/
def rowsLine (w h : Nat) (k : Int) : String :=
  let row (y : Nat) : List Int := (List.range w).map fun (x : Nat) => enc k [(x : Int), (y : Int)]
  match (List.range h).map row with
  | [] => "bad-op"
  | r1 :: rs => gridStr (Grid.mkRows r1 rs)

def parseRegOp (s : String) : Option RegOp :=
  let dig (ch : Char) : Option Nat := if '0' ≤ ch ∧ ch ≤ '9' then some (ch.toNat - 48) else none
  match s.toList with
  | ['d', 'c', c] => (dig c).map RegOp.defaultCtor
  | [a, b, c, d] =>
    match dig c, dig d with
    | some i, some j =>
      if a == 'c' && b == 'c' then some (.copyCtor i j)
      else if a == 'm' && b == 'c' then some (.moveCtor i j)
      else if a == 'c' && b == 'a' then some (.copyAssign i j)
      else if a == 'm' && b == 'a' then some (.moveAssign i j)
      else if a == 's' && b == 'm' then some (.swapMember i j)
      else if a == 's' && b == 'f' then some (.swapFree i j)
      else none
    | _, _ => none
  | _ => none

def parseProg (s : String) : Option (List RegOp) :=
  if s == "-" then some [] else (s.splitOn ".").mapM parseRegOp

def slotStr (x : Slot Int) : String :=
  if x.moved then s!"moved size={il x.g.size}" else gridStr x.g

/-- `regs d0 k0 d1 k1 d2 k2 prog`: three objects, a history of special-member calls, then all three printed -/
def regsLine (n : Nat) (dks : List (List Int × Int)) (prog : List RegOp) : String :=
  exc (dks.mapM fun dk => mkGrid dk.1 dk.2) fun gs =>
    match regRun n (gs.map fun g => ⟨g, false⟩) prog with
    | none => "bad-op"
    | some st => " ; ".intercalate (st.map slotStr)

/-- `cmp d1 c1 d2 c2`: the six comparison operators on the grids with the given sizes and cells -/
def cmpLine (a b : Grid Int) : String :=
  exc (a.eq b) fun e => exc (a.ne b) fun n =>
    s!"eq={b01 e} ne={b01 n} lt={b01 (a.lt b)} gt={b01 (a.gt b)} le={b01 (a.le b)} ge={b01 (a.ge b)}"

def interpIp (q a b : Int) : Int := (q + 1) * 1000003 + 7 * a + 13 * b

def interpLine (g : Grid Int) (fl q : List Int) : String :=
  exc (g.interpolate fl q interpIp) fun r => s!"ip={r}"

def interpOk (d fl q : List Int) : Bool :=
  (List.zip d (List.zip fl q)).all fun x => 0 ≤ x.2.1 && x.2.1 + 1 < x.1 && 0 ≤ x.2.2 && x.2.2 ≤ 3

/-- `fillself d k mode`: fill with a function that returns one of the grid's own cells + 7, read at call time:
    mode 0 the first cell, 1 the last cell, 2 the cell before the current one in storage order (the first: itself),
    3 the cell after it (the last: itself), 4 the current cell -/
def fillSelfLine (d : List Int) (k : Int) (mode : Nat) : String :=
  exc (mkGrid d k) fun g =>
    let b := box (zeros d) d
    let src (p : Pos) : Pos :=
      let i := b.idxOf p
      match mode with
      | 0 => zeros d
      | 1 => d.map (· - 1)
      | 2 => (b[i - 1]?).getD p
      | 3 => (b[i + 1]?).getD p
      | _ => p
    exc (g.fillDep fun g' p => (· + 7) <$> g'.getUnsafe (src p)) gridStr

def applyF (a : Int) (bs : List Int) : Int := bs.foldl (fun acc b => acc * 1009 + b) a

def okDims (ls : List (List Int)) : Bool :=
  match ls with
  | [] => true
  | l :: _ => 1 ≤ l.length && l.length ≤ 3 && ls.all (·.length == l.length)

def nonneg (l : List Int) : Bool := l.all (0 ≤ ·)

/-- unsigned instantiation: every component must be representable -/
def okT (t : String) (ls : List (List Int)) : Bool :=
  (t == "s") || (t == "u" && ls.all nonneg)

def handle (toks : List String) : String :=
  let L := parseIntList
  let I := String.toInt?
  match toks with
  | ["off", t, d, p] =>
    match L d, L p with
    | some d, some p => if okDims [d, p] && okT t [d, p] then offLine t d p else "bad-op"
    | _, _ => "bad-op"
  | ["offs", t, d, m] =>
    match L d, I m with
    | some d, some m =>
      if okDims [d] && okT t [d] && 0 ≤ m && (t == "u" || t == "s") then
        let lo := d.map fun _ => if t == "u" then 0 else -m
        digest ((tuples lo (d.map (· + m))).map (offLine t d))
      else "bad-op"
    | _, _ => "bad-op"
  | ["next", t, c, mn, sp] =>
    match L c, L mn, L sp with
    | some c, some mn, some sp => if okDims [c, mn, sp] && okT t [c, mn, sp] then nextLine c mn sp else "bad-op"
    | _, _, _ => "bad-op"
  | ["nexts", t, mn, sp, lo, hi] =>
    match L mn, L sp, I lo, I hi with
    | some mn, some sp, some lo, some hi =>
      if okDims [mn, sp] && okT t [mn, sp, [lo]] then
        digest ((tuples (mn.map fun _ => lo) (mn.map fun _ => hi + 1)).map fun c => nextLine c mn sp)
      else "bad-op"
    | _, _, _, _ => "bad-op"
  | ["range", t, mn, sp] =>
    match L mn, L sp with
    | some mn, some sp => if okDims [mn, sp] && okT t [mn, sp] then rangeLine mn sp else "bad-op"
    | _, _ => "bad-op"
  | ["ranges", t, mn, lo, hi] =>
    match L mn, I lo, I hi with
    | some mn, some lo, some hi =>
      if okDims [mn] && okT t [mn, [lo]] then
        digest ((tuples (mn.map fun _ => lo) (mn.map fun _ => hi + 1)).map fun sp => rangeLine mn sp)
      else "bad-op"
    | _, _, _ => "bad-op"
  | ["mk", d, k] =>
    match L d, I k with
    | some d, some k => if okDims [d] && nonneg d then exc (mkGrid d k) gridStr else "bad-op"
    | _, _ => "bad-op"
  | ["mkc", d, v] =>
    match L d, I v with
    | some d, some v => if okDims [d] && nonneg d then gridStr (Grid.mkConst d v) else "bad-op"
    | _, _ => "bad-op"
  | ["all", d] =>
    match L d with
    | some d =>
      if okDims [d] && nonneg d then
        exc (posRangeAll d) fun ps => s!"size={rangeSize (zeros d) d} n={ps.length} ps={posList ps}"
      else "bad-op"
    | _ => "bad-op"
  | ["refall", d, k] =>
    match L d, I k with
    | some d, some k =>
      if okDims [d] && nonneg d then
        exc (mkGrid d k) fun g => exc g.posRefRangeAll fun l => s!"n={l.length} ref={refStr l}"
      else "bad-op"
    | _, _ => "bad-op"
  | ["at", d, k, p] =>
    match L d, I k, L p with
    | some d, some k, some p => if okDims [d, p] && nonneg d && nonneg p then atLine d k p else "bad-op"
    | _, _, _ => "bad-op"
  | ["ats", d, k, m] =>
    match L d, I k, I m with
    | some d, some k, some m =>
      if okDims [d] && nonneg d && 0 ≤ m then
        digest ((tuples (zeros d) (d.map (· + m))).map (atLine d k))
      else "bad-op"
    | _, _, _ => "bad-op"
  | ["resize", d, k, nd, k2] =>
    match L d, I k, L nd, I k2 with
    | some d, some k, some nd, some k2 =>
      if okDims [d, nd] && nonneg d && nonneg nd then
        exc (mkGrid d k) fun g => exc (g.resize nd (enc k2)) gridStr
      else "bad-op"
    | _, _, _, _ => "bad-op"
  | ["map", d, k, a, b] =>
    match L d, I k, I a, I b with
    | some d, some k, some a, some b =>
      if okDims [d] && nonneg d then
        exc (mkGrid d k) fun g => exc (g.map fun x => a * x + b) gridStr
      else "bad-op"
    | _, _, _, _ => "bad-op"
  | ["apply", d1, k1, d2, k2] =>
    match L d1, I k1, L d2, I k2 with
    | some d1, some k1, some d2, some k2 =>
      if okDims [d1, d2] && nonneg d1 && nonneg d2 then
        exc (mkGrid d1 k1) fun g1 => exc (mkGrid d2 k2) fun g2 => exc (Grid.apply applyF g1 [g2]) gridStr
      else "bad-op"
    | _, _, _, _ => "bad-op"
  | ["apply", d1, k1, d2, k2, d3, k3] =>
    match L d1, I k1, L d2, I k2, L d3, I k3 with
    | some d1, some k1, some d2, some k2, some d3, some k3 =>
      if okDims [d1, d2, d3] && nonneg d1 && nonneg d2 && nonneg d3 then
        exc (mkGrid d1 k1) fun g1 => exc (mkGrid d2 k2) fun g2 => exc (mkGrid d3 k3) fun g3 =>
          exc (Grid.apply applyF g1 [g2, g3]) gridStr
      else "bad-op"
    | _, _, _, _, _, _ => "bad-op"
  | ["fill", d, v, k] =>
    match L d, I v, I k with
    | some d, some v, some k =>
      if okDims [d] && nonneg d then exc ((Grid.mkConst d v).fill (enc k)) gridStr else "bad-op"
    | _, _, _ => "bad-op"
  | ["out", d, k] =>
    match L d, I k with
    | some d, some k =>
      if okDims [d] && nonneg d then exc (mkGrid d k) fun g => exc (g.output toString) fun o => s!"out={o}" else "bad-op"
    | _, _ => "bad-op"
  | ["interp", d, k, fl, q] =>
    match L d, I k, L fl, L q with
    | some d, some k, some fl, some q =>
      if okDims [d, fl, q] && nonneg d && interpOk d fl q then exc (mkGrid d k) fun g => interpLine g fl q else "bad-op"
    | _, _, _, _ => "bad-op"
  | ["interps", d, k] =>
    match L d, I k with
    | some d, some k =>
      if okDims [d] && d.all (2 ≤ ·) then
        exc (mkGrid d k) fun g =>
          digest ((tuples (zeros d) (d.map (· - 1))).flatMap fun fl =>
            (tuples (zeros d) (d.map fun _ => 4)).map fun q => interpLine g fl q)
      else "bad-op"
    | _, _ => "bad-op"
  | ["rows", w, h, k] =>
    match String.toNat? w, String.toNat? h, I k with
    | some w, some h, some k => if 1 ≤ w && w ≤ 4 && 1 ≤ h && h ≤ 4 then rowsLine w h k else "bad-op"
    | _, _, _ => "bad-op"
  | ["regs", d0, k0, d1, k1, d2, k2, prog] =>
    match L d0, I k0, L d1, I k1, L d2, I k2, parseProg prog with
    | some d0, some k0, some d1, some k1, some d2, some k2, some prog =>
      if okDims [d0, d1, d2] && nonneg d0 && nonneg d1 && nonneg d2 then regsLine d0.length [(d0, k0), (d1, k1), (d2, k2)] prog
      else "bad-op"
    | _, _, _, _, _, _, _ => "bad-op"
  | ["cmp", d1, c1, d2, c2] =>
    match L d1, L c1, L d2, L c2 with
    | some d1, some c1, some d2, some c2 =>
      if okDims [d1, d2] && nonneg d1 && nonneg d2 && (c1.length : Int) == contents d1 && (c2.length : Int) == contents d2 then
        cmpLine ⟨d1, c1⟩ ⟨d2, c2⟩
      else "bad-op"
    | _, _, _, _ => "bad-op"
  | ["fillself", d, k, mode] =>
    match L d, I k, String.toNat? mode with
    | some d, some k, some mode => if okDims [d] && nonneg d && mode ≤ 4 then fillSelfLine d k mode else "bad-op"
    | _, _, _ => "bad-op"
  | ["clamp", d, p] =>
    match L d, L p with
    | some d, some p =>
      if okDims [d, p] && nonneg d then clampLine d p else "bad-op"
    | _, _ => "bad-op"
  | ["clamps", d, m] =>
    match L d, I m with
    | some d, some m =>
      if okDims [d] && nonneg d && 0 ≤ m then
        digest ((tuples (d.map fun _ => -m) (d.map (· + m + 1))).map (clampLine d))
      else "bad-op"
    | _, _ => "bad-op"
  | ["refsub", d, k, smin, ssup] =>
    match L d, I k, L smin, L ssup with
    | some d, some k, some smin, some ssup =>
      if okDims [d, smin, ssup] && nonneg d then refsubLine d k smin ssup else "bad-op"
    | _, _, _, _ => "bad-op"
  | ["refsubs", d, k, smin, m] =>
    match L d, I k, L smin, I m with
    | some d, some k, some smin, some m =>
      if okDims [d, smin] && nonneg d && 0 ≤ m then
        digest ((tuples (d.map fun _ => -m) (d.map (· + m + 1))).map (refsubLine d k smin))
      else "bad-op"
    | _, _, _, _ => "bad-op"
  | _ => "bad-op"

def main : IO Unit := Proto.run handle

end Fcppt.C08.Drv
