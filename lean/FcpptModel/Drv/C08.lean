import FcpptModel.Prelude.Proto
/-! Driver for C08 — placeholder until the property's model is built. -/
namespace Fcppt.C08.Drv
def main : IO Unit := Fcppt.Proto.run (fun _ => "not-built")
end Fcppt.C08.Drv
