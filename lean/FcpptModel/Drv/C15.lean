import FcpptModel.Prelude.Proto
import FcpptModel.Model.C15
/-!
Driver for C15.  One operation per line (the harness `harness/c15.cpp` implements the same protocol).
Byte strings travel as lowercase hex (`-` = empty); values of integer types as decimal; `float`/`double`
as the unsigned decimal value of their bit pattern.

binary part (types `u8 i8 u16 i16 u32 i32 u64 i64 f32 f64`, byte order `L`/`B`):
* `native`                → the machine's byte order (the model is run with `little`)
* `bin T E v`             → `w=<bytes written> r=<read back> r2=<second read> s=<swap> ss=<swap swap> c=<convert> cc=<convert convert>`
* `bins T E lo n`         → digest of the `bin` lines for `v = lo … lo+n-1`
* `seq T E v1,v2,…`       → all values written to one stream, its bytes, all read back plus one read too many
* `rd T E <hex>`          → `io::read` until it fails: the values, then `none`
* `revmem <hex>`          → `reverse_mem` on a buffer of exactly that size

textual part (destination types `c8 u8 i8` = `char`, `unsigned char`, `signed char`; `u16 … i64` numbers; `W` = through
`std::wstring`, `N` = through `std::string`):
* `ots D v`               → `output_to_std_string(v)` as hex
* `efs N|W D <hex>`       → `extract_from_string<D>` of that text: `some v` / `none`
* `rtd N|W D v`           → `s=<output_to_string> r=<extract_from_string of it>`
* `rtds N|W D lo n`       → digest of the `rtd` lines for `v = lo … lo+n-1`
* `enum K e`              → enumerator `e` of test enum `K`: `ts=<to_string> fs=<from_string of it> out=<stream output> in=<stream input of it> eof= fail=`
* `efrom K <hex>`         → `from_string<K>` of that text
* `ein K <hex>`           → `stream >> e` repeated (at most 8 times) on that text: the enumerators, then `eof= fail= rest=<unread characters>`
* `vec T N v1,…,vN`       → `out=<stream output of vector<T,N>> in=<read back> eof= fail= rest=`
* `vin T N <hex>`         → `stream >> vector<T,N>` on that text: `<the N elements afterwards, 77 = never stored> eof= fail= rest=`
* `vecw` / `vinw`         → the same through `std::wostringstream` / `std::wistringstream`
* `vinm T N <hex>`        → `stream >> vector<T,N>` repeated (at most 4 times) on one stream, results separated by `;`
* `mat T R C v1,…`        → `stream << matrix<T,R,C>` (row-major values): the text as hex
* `earr K v1,…`           → `stream << enum_::array<K,int>`: the text as hex
* `enumw K e`, `einw K <whex>` → `enum` / `ein` through wide streams (text as 8 hex digits per character)
* `efb N|W <hex>`, `rtb N|W v` → `extract_from_string<bool>`, round trip of `false`/`true`
* `efstr N|W <hex>`, `rtstr N|W <hex>` → `extract_from_string<std::(w)string>`, output then extract
* `otsl T v`              → `output_to_string_locale(v, Lg)` and back through `Lg` (`numpunct` with grouping 3, separator `,`)
* `efsx T <hex>`          → `extract_from_string_locale<T>(text, Lx)` (`ctype<char>` with `x` as additional white space)
* `tst N|W <hex> s1,s2,…` → steps on ONE input stream: `g` get, `p` peek, `c` clear, `xc` / `xs` / `xb` / `x<T>`
                            `io::extract` of a character / word / bool / number, `eHH` `io::expect` of character HH, `n3` / `n5` `enum_::input`
                            (the variable afterwards), `v1` / `v2` `>> vector<int,N>` (the elements afterwards);
                            each prints its result and `e<eof>f<fail>`, at the end `|rest=<unread>`
* `bst s1,s2,…`           → steps on ONE `std::stringstream`: `w.T.E.v` io::write, `r.T.E` io::read, `wc.<hex>` write_chars,
                            `rc.N` read_chars, `p` peek, `c` clear; at the end `|rest=<unread bytes>`
* `strconv <hex>`         → `from_std_string(_locale)` and `to_std_string(_locale)` of that text
* `literals`              → `FCPPT_STRING_LITERAL` / `FCPPT_CHAR_LITERAL` for `char` and `wchar_t`
* `nwlong <whex pattern> n` → narrow then widen of the pattern repeated n times: lengths, a digest of the bytes, whether it came back
* `toy D F M C <input>`   → `narrow_locale` (D = `out`, input whex) / `widen_locale` (D = `in`, input hex) with the scripted facet
                            `Model/C15/Toy.lean`: F = flag bits (1 stash, 2 okFull, 4 okLeft, 8 a call without output leaves to_next alone),
                            M = `max_length()`, C = units per call (0 = unlimited)
* `toys D F M C L`        → digest of the `toy` results for every input over {01,02,03,0f,ee,fd} up to length L
-/
namespace Fcppt.C15.Drv
open Fcppt.Proto

def native : Endian := .little

def hexByte (b : Nat) : String := String.ofList [hexDigit (b / 16), hexDigit (b % 16)]
def hexOf (l : List Nat) : String := if l.isEmpty then "-" else String.join (l.map hexByte)

def hexVal (c : Char) : Option Nat :=
  if '0' ≤ c ∧ c ≤ '9' then some (c.toNat - 48) else if 'a' ≤ c ∧ c ≤ 'f' then some (c.toNat - 87) else none

def parseHexAux : List Char → Option (List Nat)
  | [] => some []
  | a :: b :: r => do
    let x ← hexVal a; let y ← hexVal b; let t ← parseHexAux r
    pure ((16 * x + y) :: t)
  | _ => none

def parseHex (s : String) : Option (List Nat) := if s = "-" then some [] else parseHexAux s.toList

def toByte (n : Nat) : Byte := ⟨n % 256, Nat.mod_lt _ (by decide)⟩
def bytesHex (l : List Byte) : String := hexOf (l.map Fin.val)

def parseTy : String → Option IntTy
  | "u8" => some ⟨1, false⟩ | "i8" => some ⟨1, true⟩
  | "u16" => some ⟨2, false⟩ | "i16" => some ⟨2, true⟩
  | "u32" => some ⟨4, false⟩ | "i32" => some ⟨4, true⟩
  | "u64" => some ⟨8, false⟩ | "i64" => some ⟨8, true⟩
  | "f32" => some ⟨4, false⟩ | "f64" => some ⟨8, false⟩
  -- `bool` (values 0, 1), `char`, `wchar_t`, `char8_t`, `char16_t`, `char32_t`, `long long`, `unsigned long long`
  | "b1" => some ⟨1, false⟩ | "ch" => some ⟨1, true⟩ | "wc" => some ⟨4, true⟩ | "c8t" => some ⟨1, false⟩
  | "c16" => some ⟨2, false⟩ | "c32" => some ⟨4, false⟩ | "ll" => some ⟨8, true⟩ | "ull" => some ⟨8, false⟩
  -- `long double` (x87 extended: 10 value bytes in a 16-byte object) as the unsigned number of its 80 bits
  | "f80" => some ⟨16, false⟩
  | _ => none

/-- the values of the C++ type behind the token (a subset of the `IntTy`'s for `bool` and `long double`) -/
def tyOk (ty : String) (t : IntTy) (v : Int) : Bool :=
  decide (t.InRange v) && (ty != "b1" || decide (v ≤ 1)) && (ty != "f80" || decide (v < 2 ^ 80))

def parseEndian : String → Option Endian
  | "L" => some .little | "B" => some .big | _ => none

def showE {α : Type} (f : α → String) : Except Fault α → String
  | .ok a => f a
  | .error e => "fault:" ++ e.name

def optInt : Option Int → String
  | some v => toString v | none => "none"

def binLine (t : IntTy) (e : Endian) (v : Int) : String :=
  let w := write native t [] v e
  let r : Except Fault (Option Int × Option Int) := do
    let out ← w
    let (a, rest) ← read native t out e
    let (b, _) ← read native t rest e
    pure (a, b)
  let s := swap native t v
  let ss := s >>= swap native t
  let c := convert native t v e
  let cc := c >>= fun x => convert native t x e
  s!"w={showE bytesHex w} r={showE (fun p => optInt p.1) r} r2={showE (fun p => optInt p.2) r} s={showE toString s} ss={showE toString ss} c={showE toString c} cc={showE toString cc}"

/-- `long double`: the padding bytes of `swap(v)` / `convert(v)` are indeterminate, only the round trips are printed -/
def binLine80 (t : IntTy) (e : Endian) (v : Int) : String :=
  let w := write native t [] v e
  let r : Except Fault (Option Int × Option Int) := do
    let out ← w
    let (a, rest) ← read native t out e
    let (b, _) ← read native t rest e
    pure (a, b)
  let ss := swap native t v >>= swap native t
  let cc := convert native t v e >>= fun x => convert native t x e
  -- `swap` does not depend on the byte order and belongs to the non-native case: it is only printed there
  let ssText := if e = native then "" else s!" ss={showE toString ss}"
  s!"w={showE bytesHex w} r={showE (fun p => optInt p.1) r} r2={showE (fun p => optInt p.2) r}{ssText} cc={showE toString cc}"

def binsDigest (t : IntTy) (e : Endian) (lo : Int) (n : Nat) : String :=
  let h := (List.range n).foldl (fun h (i : Nat) => fnv h (binLine t e (lo + (i : Int)))) fnvInit
  "D " ++ hex64 h

/-- read until failure (at most `fuel` values) -/
def readAll (t : IntTy) (e : Endian) : Nat → List Byte → List String → List String
  | 0, _, acc => acc.reverse
  | fuel + 1, s, acc =>
    match read native t s e with
    | .ok (some v, rest) => readAll t e fuel rest (toString v :: acc)
    | .ok (none, _) => ("none" :: acc).reverse
    | .error f => (("fault:" ++ f.name) :: acc).reverse

def seqLine (t : IntTy) (e : Endian) (vs : List Int) : String :=
  match vs.foldlM (fun s v => write native t s v e) [] with
  | .ok out => s!"w={bytesHex out} r={",".intercalate (readAll t e (vs.length + 1) out [])}"
  | .error f => "fault:" ++ f.name

def handleBin (toks : List String) : Option String :=
  match toks with
  | ["native"] => some (match native with | .little => "little" | .big => "big")
  | ["bin", ty, e, v] => do
    let t ← parseTy ty; let e ← parseEndian e; let v ← v.toInt?
    if tyOk ty t v then some (if ty = "f80" then binLine80 t e v else binLine t e v) else none
  | ["bins", ty, e, lo, n] => do
    let t ← parseTy ty; let e ← parseEndian e; let lo ← lo.toInt?; let n ← n.toNat?
    if n = 0 ∨ ty = "f80" ∨ ¬ tyOk ty t lo ∨ ¬ tyOk ty t (lo + n - 1) then none else some (binsDigest t e lo n)
  | ["seq", ty, e, vs] => do
    let t ← parseTy ty; let e ← parseEndian e; let vs ← parseIntList vs
    if ty ≠ "f80" ∧ vs.all (fun v => tyOk ty t v) then some (seqLine t e vs) else none
  | ["rd", ty, e, hx] => do
    let t ← parseTy ty; let e ← parseEndian e; let bs ← parseHex hx
    -- reading arbitrary bytes into a `bool` / `long double` is not a value of the type
    if ty = "b1" ∨ ty = "f80" then none else
    some (",".intercalate (readAll t e (bs.length + 1) (bs.map toByte) []))
  | ["revmem", hx] => do
    let bs ← parseHex hx
    some (showE hexOf (reverseMem bs))
  | _ => none


/-! ### textual part -/

def parseDest : String → Option Dest
  | "c8" => some (.char true) | "i8" => some (.char true) | "u8" => some (.char false)
  | "u16" => some (.num ⟨2, false⟩) | "i16" => some (.num ⟨2, true⟩)
  | "u32" => some (.num ⟨4, false⟩) | "i32" => some (.num ⟨4, true⟩)
  | "u64" => some (.num ⟨8, false⟩) | "i64" => some (.num ⟨8, true⟩)
  | _ => none

def destTy : Dest → IntTy
  | .char sg => ⟨1, sg⟩
  | .num t => t

def optSome : Option Int → String
  | some v => s!"some {v}" | none => "none"

def rtdLine (d : Dest) (v : Int) : String :=
  let s := outputToString d v
  s!"s={hexOf s} r={optSome (extractFromString d s)}"

def rtdsDigest (d : Dest) (lo : Int) (n : Nat) : String :=
  let h := (List.range n).foldl (fun h (i : Nat) => fnv h (rtdLine d (lo + (i : Int)))) fnvInit
  "D " ++ hex64 h

def str (s : String) : List Ch := s.toList.map Char.toNat


def whexOf (l : List Nat) : String :=
  if l.isEmpty then "-" else String.join (l.map fun c => String.join ((List.range 4).reverse.map fun i => hexByte (c / 256 ^ i % 256)))

def group4 : List Nat → Option (List Nat)
  | [] => some []
  | a :: b :: c :: d :: r => (group4 r).map (fun t => ((((a * 256 + b) * 256 + c) * 256 + d) :: t))
  | _ => none

def parseWhex (s : String) : Option (List Nat) := (parseHex s).bind group4


def enumNames : Nat → Option (List (List Ch))
  | 1 => some [str "test1", str "test2", str "test3"]
  | 2 => some [str "foo", str "bar", str "baz", str "fo", str "foobar"]
  | 3 => some [str "a", str "b", str "a"]
  | 4 => some [str "only"]
  -- an empty name, a name with a blank inside, with an embedded NUL, with a leading blank, a one-letter prefix of others
  | 5 => some [[], str "a b", [120, 0, 121], str " z", str "x", str "a"]
  | _ => none

def optNat : Option Nat → String
  | some v => toString v | none => "none"

/-- `var` = the variable handed to `input` afterwards (it held `init` before): untouched on failure -/
def enumLine (wide : Bool) (names : List (List Ch)) (e : Nat) : String :=
  match enumToString names e, enumOutput names [] e with
  | .ok n, .ok out =>
    let (s, r) := (if wide then enumInputW else enumInput) names (IStream.ofString out)
    let init := names.length - 1 - e
    s!"ts={hexOf n} fs={optNat (enumFromString names n)} out={hexOf out} in={optNat r} var={r.getD init} eof={b01 s.eof} fail={b01 s.fail}"
  | _, _ => "bad-op"

def einLoop (wide : Bool) (names : List (List Ch)) : Nat → IStream → List String → IStream × List String
  | 0, s, acc => (s, acc.reverse)
  | fuel + 1, s, acc =>
    let (s, r) := (if wide then enumInputW else enumInput) names s
    match r with
    | some e => einLoop wide names fuel s (toString e :: acc)
    | none => (s, acc.reverse)

def einLine (wide : Bool) (names : List (List Ch)) (text : List Ch) : String :=
  let (s, es) := einLoop wide names 8 (IStream.ofString text) []
  -- the variable of the last call: the enumerator read, or what it held before (`fcppt_maximum`)
  let var := if s.fail then toString (names.length - 1) else (es.getLast?.getD "-")
  s!"{if es.isEmpty then "-" else ",".intercalate es} var={var} eof={b01 s.eof} fail={b01 s.fail} rest={s.buf.length}"

def vecTy : String → Option IntTy
  | "i32" => some ⟨4, true⟩ | "u16" => some ⟨2, false⟩ | "i64" => some ⟨8, true⟩ | "u32" => some ⟨4, false⟩
  | _ => none

/-- the `n` elements of the vector afterwards: what was stored, `77` (the initial content) for the others -/
def vinShow (n : Nat) (p : IStream × List Int) : String :=
  let (s, vs) := p
  s!"{intList (vs ++ List.replicate (n - vs.length) 77)} eof={b01 s.eof} fail={b01 s.fail} rest={s.buf.length}"

def vinmLoop (t : IntTy) (n : Nat) : Nat → IStream → List String → List String
  | 0, _, acc => acc.reverse
  | fuel + 1, s, acc =>
    let p := vecInput t n s
    if p.1.fail then (vinShow n p :: acc).reverse else vinmLoop t n fuel p.1 (vinShow n p :: acc)

def chunksOf {α : Type} (c : Nat) : Nat → List α → List (List α)
  | 0, _ => []
  | r + 1, l => l.take c :: chunksOf c r (l.drop c)

def optBool : Option Bool → String
  | some b => s!"some {b01 b}" | none => "none"

def optWord (f : List Nat → String) : Option (List Nat) → String
  | some w => "some " ++ f w | none => "none"

/-! #### steps on one input stream -/

def numDest : String → Option IntTy
  | "u16" => some ⟨2, false⟩ | "i16" => some ⟨2, true⟩ | "u32" => some ⟨4, false⟩ | "i32" => some ⟨4, true⟩
  | "u64" => some ⟨8, false⟩ | "i64" => some ⟨8, true⟩ | _ => none

def optCh : Option Nat → String
  | some c => toString c | none => "none"

/-- one step: the stream afterwards and the text printed, `none` = malformed step -/
def tstStep (wide : Bool) (s : IStream) (step : String) : Option (IStream × String) :=
  if step = "g" then let (s, r) := ioGet s; some (s, s!"g={optCh r}")
  else if step = "p" then let (s, r) := peek s; some (s, s!"p={optCh r}")
  else if step = "c" then some ({ s with eof := false, fail := false }, "c")
  else if step = "xc" then
    -- `char` is signed, `wchar_t` holds the code
    let (s, r) := extract (.char (!wide)) s
    let r := if wide then r.map (fun v => if v < 0 then v + 256 else v) else r
    some (s, s!"xc={optInt r}")
  else if step = "xs" then let (s, r) := extractString s; some (s, s!"xs={optWord (if wide then whexOf else hexOf) r}")
  else if step = "xb" then let (s, r) := extractBool s; some (s, s!"xb={optBool r}")
  else if step = "n3" ∨ step = "n5" then do
    let names ← enumNames (if step = "n3" then 3 else 5)
    let (s, r) := (if wide then enumInputW else enumInput) names s
    -- the variable held enumerator 1 (`b`) resp. 3 (`lead`) before
    some (s, s!"{step}={r.getD (if step = "n3" then 1 else 3)}")
  else if step = "v1" ∨ step = "v2" then
    let n := if step = "v1" then 1 else 2
    let (s, vs) := vecInput ⟨4, true⟩ n s
    some (s, s!"{step}={intList (vs ++ List.replicate (n - vs.length) 77)}")
  else if step.startsWith "x" then do
    let t ← numDest (step.drop 1).toString
    let (s, r) := extract (.num t) s
    some (s, s!"{step}={optInt r}")
  else if step.startsWith "e" then do
    match parseHex (step.drop 1).toString with
    | some [c] => some (expect s c, "e")
    | _ => none
  else none

def tstLine (wide : Bool) (text : List Ch) (steps : List String) : Option String := do
  let (s, outs) ← steps.foldlM (fun (acc : IStream × List String) step => do
    let (s, o) ← tstStep wide acc.1 step
    some (s, s!"{o} e{b01 s.eof}f{b01 s.fail}" :: acc.2)) (IStream.ofString text, [])
  some s!"{";".intercalate outs.reverse}|rest={s.buf.length}"

def parseW (w : String) : Option Bool := if w = "N" then some false else if w = "W" then some true else none

def handleText (toks : List String) : Option String :=
  match toks with
  | ["ots", d, v] => do
    let d ← parseDest d; let v ← v.toInt?
    if (destTy d).InRange v then some (hexOf (outputToString d v)) else none
  | ["efs", w, d, hx] => do
    let d ← parseDest d; let bs ← parseHex hx
    if w = "N" ∨ w = "W" then some (optSome (extractFromString d bs)) else none
  | ["rtd", w, d, v] => do
    let d ← parseDest d; let v ← v.toInt?
    if (w = "N" ∨ w = "W") ∧ (destTy d).InRange v then some (rtdLine d v) else none
  | ["rtds", w, d, lo, n] => do
    let d ← parseDest d; let lo ← lo.toInt?; let n ← n.toNat?
    if (w = "N" ∨ w = "W") ∧ n ≠ 0 ∧ (destTy d).InRange lo ∧ (destTy d).InRange (lo + n - 1) then some (rtdsDigest d lo n) else none
  | ["efb", w, hx] => do
    let _ ← parseW w; let bs ← parseHex hx
    some (optBool (extractFromStringG extractBool bs))
  | ["rtb", w, v] => do
    let _ ← parseW w; let v ← v.toNat?
    if v ≤ 1 then
      let s := putBool (v == 1)
      some s!"s={hexOf s} r={optBool (extractFromStringG extractBool s)}"
    else none
  | ["efstr", w, hx] => do
    let wide ← parseW w; let bs ← (if wide then parseWhex hx else parseHex hx)
    some (optWord (if wide then whexOf else hexOf) (extractFromStringG extractString bs))
  | ["rtstr", w, hx] => do
    let wide ← parseW w; let bs ← (if wide then parseWhex hx else parseHex hx)
    -- `os << string` writes the string itself
    let f := if wide then whexOf else hexOf
    some s!"s={f bs} r={optWord f (extractFromStringG extractString bs)}"
  | ["otsl", ty, v] => do
    let t ← numDest ty; let v ← v.toInt?
    if t.InRange v then
      let s := putIntGrouped v
      some s!"s={hexOf s} r={optSome (extractFromString (.num t) (s.filter (· != 44)))}"
    else none
  | ["efsx", ty, hx] => do
    let t ← numDest ty; let bs ← parseHex hx
    some (optSome (extractFromStringX 120 t bs))
  | ["tst", w, hx, steps] => do
    let wide ← parseW w; let bs ← (if wide then parseWhex hx else parseHex hx)
    tstLine wide bs (steps.splitOn ",")
  | ["enum", k, e] => do
    let names ← enumNames (← k.toNat?); let e ← e.toNat?
    if e < names.length then some (enumLine false names e) else none
  | ["enumw", k, e] => do
    let names ← enumNames (← k.toNat?); let e ← e.toNat?
    if e < names.length then some (enumLine true names e) else none
  | ["efrom", k, hx] => do
    let names ← enumNames (← k.toNat?); let bs ← parseHex hx
    some (optNat (enumFromString names bs))
  | ["ein", k, hx] => do
    let names ← enumNames (← k.toNat?); let bs ← parseHex hx
    some (einLine false names bs)
  | ["einw", k, hx] => do
    let names ← enumNames (← k.toNat?); let bs ← parseWhex hx
    some (einLine true names bs)
  | ["earr", k, vs] => do
    let names ← enumNames (← k.toNat?); let vs ← parseIntList vs
    if vs.length = names.length ∧ vs.all (fun v => IntTy.InRange ⟨4, true⟩ v) then some (hexOf (enumArrayOutput names vs [])) else none
  | [op, ty, n, vs] => do
    if op = "vec" ∨ op = "vecw" then
      let t ← vecTy ty; let n ← n.toNat?; let vs ← parseIntList vs
      if 1 ≤ n ∧ n ≤ 4 ∧ vs.length = n ∧ vs.all (fun v => t.InRange v) then
        let out := vecOutput vs []
        some s!"out={hexOf out} in={vinShow n (vecInput t n (IStream.ofString out))}"
      else none
    else if op = "vin" ∨ op = "vinw" then
      let t ← vecTy ty; let n ← n.toNat?; let bs ← parseHex vs
      if 1 ≤ n ∧ n ≤ 4 then some (vinShow n (vecInput t n (IStream.ofString bs))) else none
    else if op = "vinm" then
      let t ← vecTy ty; let n ← n.toNat?; let bs ← parseHex vs
      if 1 ≤ n ∧ n ≤ 4 then some (";".intercalate (vinmLoop t n 4 (IStream.ofString bs) [])) else none
    else none
  | ["mat", ty, r, c, vs] => do
    let t ← vecTy ty; let r ← r.toNat?; let c ← c.toNat?; let vs ← parseIntList vs
    if 1 ≤ r ∧ r ≤ 3 ∧ 1 ≤ c ∧ c ≤ 3 ∧ vs.length = r * c ∧ vs.all (fun v => t.InRange v) then
      some (hexOf (matOutput (chunksOf c r vs) []))
    else none
  | ["strconv", hx] => do
    let bs ← parseHex hx
    some s!"f={hexOf (fromStdString bs)} t={optWord hexOf (toStdString bs)}"
  | ["literals"] =>
    -- the same characters in both widths: `"ab(" 'x'`
    let l := str "ab("
    some s!"{hexOf l} {whexOf l} {hexOf [120]} {whexOf [120]}"
  | _ => none

/-! #### steps on one binary stream -/

def optBytes : Option (List Byte) → String
  | some l => bytesHex l | none => "none"

def stBits (s : BStream) : String := s!"e{b01 s.eof}f{b01 s.fail}"

def bstStep (s : BStream) (step : String) : Option (BStream × String) :=
  match step.splitOn "." with
  | ["w", ty, e, v] => do
    let t ← parseTy ty; let e ← parseEndian e; let v ← v.toInt?
    if ty ≠ "f80" ∧ tyOk ty t v then
      match ioWrite native t s v e with
      | .ok s1 => some (s1, "w")
      | .error f => some (s, "fault:" ++ f.name)
    else none
  | ["r", ty, e] => do
    let t ← parseTy ty; let e ← parseEndian e
    if ty = "b1" ∨ ty = "f80" then none else
    match ioRead native t s e with
    | .ok (s1, r) => some (s1, s!"r={optInt r}")
    | .error f => some (s, "fault:" ++ f.name)
  | ["wc", hx] => do
    let bs ← parseHex hx
    let (s1, ok) := writeChars s (bs.map toByte)
    some (s1, s!"wc={b01 ok}")
  | ["rc", n] => do
    let n ← n.toNat?
    if n > 64 then none else
    let (s1, r) := readChars s n
    some (s1, s!"rc={optBytes r}")
  | ["p"] => let (s1, r) := s.peekB; some (s1, s!"p={optCh (r.map Fin.val)}")
  | ["c"] => some (s.clear, "c")
  | _ => none

def bstLine (steps : List String) : Option String := do
  let (s, outs) ← steps.foldlM (fun (acc : BStream × List String) step => do
    let (s, o) ← bstStep acc.1 step
    some (s, s!"{o} {stBits s}" :: acc.2)) (({} : BStream), [])
  some s!"{";".intercalate outs.reverse}|rest={bytesHex s.buf}"

/-! ### UTF-8 part -/

def resName : CvtResult → String
  | .ok => "ok" | .part => "partial" | .error => "error" | .noconv => "noconv"

def optHex (f : List Nat → String) (none_ : String) : Except Fault (Option (List Nat)) → String
  | .ok (some l) => "some " ++ f l
  | .ok none => none_
  | .error e => "fault:" ++ e.name

def nwLine (ws : List Nat) : String :=
  let n := narrowLocale ws
  let w := match n with
    | .ok (some bs) => optHex whexOf "exc" (widenLocale bs)
    | _ => "-"
  s!"n={optHex hexOf "none" n} w={w}"

def nwsDigest (lo n : Nat) : String :=
  let h := (List.range n).foldl (fun h (i : Nat) => fnv h (nwLine [lo + i])) fnvInit
  "D " ++ hex64 h

def parseDir (d : String) : Option Bool := if d = "out" then some true else if d = "in" then some false else none

def parseToy (f m c : String) : Option Toy := do
  let f ← f.toNat?; let m ← m.toNat?; let c ← c.toNat?
  if f < 16 ∧ m ≤ 8 ∧ c ≤ 8 then some { stash := f % 2 = 1, okFull := f / 2 % 2 = 1, okLeft := f / 4 % 2 = 1, maxLen := m, chunk := c }
  else none

def toyLine (p : Toy) (wide : Bool) (inp : List Nat) : String :=
  optHex (if wide then hexOf else whexOf) "none" (toyCodecvt p wide inp)

def toyAlphabet : List Nat := [0x01, 0x02, 0x03, 0x0F, 0xEE, 0xFD]

/-- the `i`-th string of length `len` over the alphabet: the base-6 digits of `i`, most significant first -/
def toyInput (len i : Nat) : List Nat :=
  (List.range len).map fun k => toyAlphabet.getD (i / 6 ^ (len - 1 - k) % 6) 0

def toysDigest (p : Toy) (wide : Bool) (maxLen : Nat) : String :=
  let h := (List.range (maxLen + 1)).foldl (fun h len =>
    (List.range (6 ^ len)).foldl (fun h i => fnv h (toyLine p wide (toyInput len i))) h) fnvInit
  "D " ++ hex64 h

def handleUtf (toks : List String) : Option String :=
  match toks with
  | ["facet"] => some s!"{utf8In.maxLength} 0"
  | ["cvt", "out", w, "-", inp] => do
    let w ← w.toNat?; let inp ← parseWhex inp
    let r := utf8Out.step () inp w
    some s!"{resName r.res} consumed={r.consumed} out={hexOf r.produced} init={if r.res == .error then "-" else "1"}"
  | ["cvt", "in", w, pend, inp] => do
    let w ← w.toNat?; let pend ← parseHex pend; let inp ← parseHex inp
    -- the state can only hold a proper prefix of a sequence
    if pend.isEmpty ∨ classify pend == .pref then
      let r := utf8In.step pend inp w
      some s!"{resName r.res} consumed={r.consumed} out={whexOf r.produced} init={if r.res == .error then "-" else b01 (utf8In.isInit r.state)}"
    else none
  | ["narrow", inp] => do
    let inp ← parseWhex inp
    some (optHex hexOf "none" (narrowLocale inp))
  | ["widen", inp] => do
    let inp ← parseHex inp
    some (optHex whexOf "exc" (widenLocale inp))
  | ["nw", inp] => do
    let inp ← parseWhex inp
    some (nwLine inp)
  | ["nwenv", inp] => do
    let inp ← parseWhex inp
    some (nwLine inp)
  | ["nws", lo, n] => do
    let lo ← lo.toNat?; let n ← n.toNat?
    if n = 0 ∨ lo + n > 2 ^ 32 then none else some (nwsDigest lo n)
  | ["nwlong", pat, n] => do
    let pat ← parseWhex pat; let n ← n.toNat?
    if pat.isEmpty ∨ n = 0 ∨ pat.length * n > 200000 then none else
    let ws := (List.replicate n pat).flatten
    match narrowLocale ws with
    | .ok (some bs) =>
      let w := match widenLocale bs with
        | .ok (some back) => s!"w=some len={back.length} eq={b01 (back == ws)}"
        | .ok none => "w=exc"
        | .error e => "fault:" ++ e.name
      some s!"n=some len={bs.length} h={hex64 (fnv fnvInit (hexOf bs))} {w}"
    | .ok none => some "n=none"
    | .error e => some ("fault:" ++ e.name)
  | ["toy", d, f, m, c, inp] => do
    let wide ← parseDir d; let p ← parseToy f m c
    let inp ← (if wide then parseWhex inp else parseHex inp)
    some (toyLine p wide inp)
  | ["toys", d, f, m, c, l] => do
    let wide ← parseDir d; let p ← parseToy f m c; let l ← l.toNat?
    if l > 6 then none else some (toysDigest p wide l)
  | ["bst", steps] => bstLine (steps.splitOn ",")
  | _ => none

def handle (toks : List String) : String :=
  match handleUtf toks with
  | some r => r
  | none =>
  match handleBin toks with
  | some r => r
  | none =>
    match handleText toks with
    | some r => r
    | none => "bad-op"

def main : IO Unit := Proto.run handle

end Fcppt.C15.Drv
