import FcpptModel.Prelude.Proto
/-! Driver for C15 — placeholder until the property's model is built. -/
namespace Fcppt.C15.Drv
def main : IO Unit := Fcppt.Proto.run (fun _ => "not-built")
end Fcppt.C15.Drv
