import FcpptModel.Prelude.Proto
import FcpptModel.Model.C15
/-!
Driver for C15.  One operation per line (the harness `harness/c15.cpp` implements the same protocol).
Byte strings travel as lowercase hex (`-` = empty); values of integer types as decimal; `float`/`double`
as the unsigned decimal value of their bit pattern.

binary part (types `u8 i8 u16 i16 u32 i32 u64 i64 f32 f64`, byte order `L`/`B`):
* `native`                → the machine's byte order (the model is run with `little`)
* `bin T E v`             → `w=<bytes written> r=<read back> r2=<second read> s=<swap> ss=<swap swap> c=<convert> cc=<convert convert>`
* `bins T E lo n`         → digest of the `bin` lines for `v = lo … lo+n-1`
* `seq T E v1,v2,…`       → all values written to one stream, its bytes, all read back plus one read too many
* `rd T E <hex>`          → `io::read` until it fails: the values, then `none`
* `revmem <hex>`          → `reverse_mem` on a buffer of exactly that size

textual part (destination types `c8 u8 i8` = `char`, `unsigned char`, `signed char`; `u16 … i64` numbers; `W` = through
`std::wstring`, `N` = through `std::string`):
* `ots D v`               → `output_to_std_string(v)` as hex
* `efs N|W D <hex>`       → `extract_from_string<D>` of that text: `some v` / `none`
* `rtd N|W D v`           → `s=<output_to_string> r=<extract_from_string of it>`
* `rtds N|W D lo n`       → digest of the `rtd` lines for `v = lo … lo+n-1`
* `enum K e`              → enumerator `e` of test enum `K`: `ts=<to_string> fs=<from_string of it> out=<stream output> in=<stream input of it> eof= fail=`
* `efrom K <hex>`         → `from_string<K>` of that text
* `ein K <hex>`           → `stream >> e` repeated (at most 8 times) on that text: the enumerators, then `eof= fail= rest=<unread characters>`
* `vec T N v1,…,vN`       → `out=<stream output of vector<T,N>> in=<read back> eof= fail= rest=`
* `vin T N <hex>`         → `stream >> vector<T,N>` on that text: `<values|fail> eof= fail= rest=`
-/
namespace Fcppt.C15.Drv
open Fcppt.Proto

def native : Endian := .little

def hexByte (b : Nat) : String := String.ofList [hexDigit (b / 16), hexDigit (b % 16)]
def hexOf (l : List Nat) : String := if l.isEmpty then "-" else String.join (l.map hexByte)

def hexVal (c : Char) : Option Nat :=
  if '0' ≤ c ∧ c ≤ '9' then some (c.toNat - 48) else if 'a' ≤ c ∧ c ≤ 'f' then some (c.toNat - 87) else none

def parseHexAux : List Char → Option (List Nat)
  | [] => some []
  | a :: b :: r => do
    let x ← hexVal a; let y ← hexVal b; let t ← parseHexAux r
    pure ((16 * x + y) :: t)
  | _ => none

def parseHex (s : String) : Option (List Nat) := if s = "-" then some [] else parseHexAux s.toList

def toByte (n : Nat) : Byte := ⟨n % 256, Nat.mod_lt _ (by decide)⟩
def bytesHex (l : List Byte) : String := hexOf (l.map Fin.val)

def parseTy : String → Option IntTy
  | "u8" => some ⟨1, false⟩ | "i8" => some ⟨1, true⟩
  | "u16" => some ⟨2, false⟩ | "i16" => some ⟨2, true⟩
  | "u32" => some ⟨4, false⟩ | "i32" => some ⟨4, true⟩
  | "u64" => some ⟨8, false⟩ | "i64" => some ⟨8, true⟩
  | "f32" => some ⟨4, false⟩ | "f64" => some ⟨8, false⟩
  | _ => none

def parseEndian : String → Option Endian
  | "L" => some .little | "B" => some .big | _ => none

def showE {α : Type} (f : α → String) : Except Fault α → String
  | .ok a => f a
  | .error e => "fault:" ++ e.name

def optInt : Option Int → String
  | some v => toString v | none => "none"

def binLine (t : IntTy) (e : Endian) (v : Int) : String :=
  let w := write native t [] v e
  let r : Except Fault (Option Int × Option Int) := do
    let out ← w
    let (a, rest) ← read native t out e
    let (b, _) ← read native t rest e
    pure (a, b)
  let s := swap native t v
  let ss := s >>= swap native t
  let c := convert native t v e
  let cc := c >>= fun x => convert native t x e
  s!"w={showE bytesHex w} r={showE (fun p => optInt p.1) r} r2={showE (fun p => optInt p.2) r} s={showE toString s} ss={showE toString ss} c={showE toString c} cc={showE toString cc}"

def binsDigest (t : IntTy) (e : Endian) (lo : Int) (n : Nat) : String :=
  let h := (List.range n).foldl (fun h (i : Nat) => fnv h (binLine t e (lo + (i : Int)))) fnvInit
  "D " ++ hex64 h

/-- read until failure (at most `fuel` values) -/
def readAll (t : IntTy) (e : Endian) : Nat → List Byte → List String → List String
  | 0, _, acc => acc.reverse
  | fuel + 1, s, acc =>
    match read native t s e with
    | .ok (some v, rest) => readAll t e fuel rest (toString v :: acc)
    | .ok (none, _) => ("none" :: acc).reverse
    | .error f => (("fault:" ++ f.name) :: acc).reverse

def seqLine (t : IntTy) (e : Endian) (vs : List Int) : String :=
  match vs.foldlM (fun s v => write native t s v e) [] with
  | .ok out => s!"w={bytesHex out} r={",".intercalate (readAll t e (vs.length + 1) out [])}"
  | .error f => "fault:" ++ f.name

def handleBin (toks : List String) : Option String :=
  match toks with
  | ["native"] => some (match native with | .little => "little" | .big => "big")
  | ["bin", ty, e, v] => do
    let t ← parseTy ty; let e ← parseEndian e; let v ← v.toInt?
    if t.InRange v then some (binLine t e v) else none
  | ["bins", ty, e, lo, n] => do
    let t ← parseTy ty; let e ← parseEndian e; let lo ← lo.toInt?; let n ← n.toNat?
    if n = 0 ∨ ¬ t.InRange lo ∨ ¬ t.InRange (lo + n - 1) then none else some (binsDigest t e lo n)
  | ["seq", ty, e, vs] => do
    let t ← parseTy ty; let e ← parseEndian e; let vs ← parseIntList vs
    if vs.all (fun v => t.InRange v) then some (seqLine t e vs) else none
  | ["rd", ty, e, hx] => do
    let t ← parseTy ty; let e ← parseEndian e; let bs ← parseHex hx
    some (",".intercalate (readAll t e (bs.length + 1) (bs.map toByte) []))
  | ["revmem", hx] => do
    let bs ← parseHex hx
    some (showE hexOf (reverseMem bs))
  | _ => none

/-! ### textual part -/

def parseDest : String → Option Dest
  | "c8" => some (.char true) | "i8" => some (.char true) | "u8" => some (.char false)
  | "u16" => some (.num ⟨2, false⟩) | "i16" => some (.num ⟨2, true⟩)
  | "u32" => some (.num ⟨4, false⟩) | "i32" => some (.num ⟨4, true⟩)
  | "u64" => some (.num ⟨8, false⟩) | "i64" => some (.num ⟨8, true⟩)
  | _ => none

def destTy : Dest → IntTy
  | .char sg => ⟨1, sg⟩
  | .num t => t

def optSome : Option Int → String
  | some v => s!"some {v}" | none => "none"

def rtdLine (d : Dest) (v : Int) : String :=
  let s := outputToString d v
  s!"s={hexOf s} r={optSome (extractFromString d s)}"

def rtdsDigest (d : Dest) (lo : Int) (n : Nat) : String :=
  let h := (List.range n).foldl (fun h (i : Nat) => fnv h (rtdLine d (lo + (i : Int)))) fnvInit
  "D " ++ hex64 h

def str (s : String) : List Ch := s.toList.map Char.toNat

def enumNames : Nat → Option (List (List Ch))
  | 1 => some [str "test1", str "test2", str "test3"]
  | 2 => some [str "foo", str "bar", str "baz", str "fo", str "foobar"]
  | 3 => some [str "a", str "b", str "a"]
  | 4 => some [str "only"]
  | _ => none

def optNat : Option Nat → String
  | some v => toString v | none => "none"

def enumLine (names : List (List Ch)) (e : Nat) : String :=
  match enumToString names e, enumOutput names [] e with
  | .ok n, .ok out =>
    let (s, r) := enumInput names (IStream.ofString out)
    s!"ts={hexOf n} fs={optNat (enumFromString names n)} out={hexOf out} in={optNat r} eof={b01 s.eof} fail={b01 s.fail}"
  | _, _ => "bad-op"

def einLoop (names : List (List Ch)) : Nat → IStream → List String → IStream × List String
  | 0, s, acc => (s, acc.reverse)
  | fuel + 1, s, acc =>
    let (s, r) := enumInput names s
    match r with
    | some e => einLoop names fuel s (toString e :: acc)
    | none => (s, acc.reverse)

def einLine (names : List (List Ch)) (text : List Ch) : String :=
  let (s, es) := einLoop names 8 (IStream.ofString text) []
  s!"{if es.isEmpty then "-" else ",".intercalate es} eof={b01 s.eof} fail={b01 s.fail} rest={s.buf.length}"

def vecTy : String → Option IntTy
  | "i32" => some ⟨4, true⟩ | "u16" => some ⟨2, false⟩ | "i64" => some ⟨8, true⟩ | "u32" => some ⟨4, false⟩
  | _ => none

def vinShow (p : IStream × List Int) : String :=
  let (s, vs) := p
  s!"{if s.fail then "fail" else intList vs} eof={b01 s.eof} fail={b01 s.fail} rest={s.buf.length}"

def handleText (toks : List String) : Option String :=
  match toks with
  | ["ots", d, v] => do
    let d ← parseDest d; let v ← v.toInt?
    if (destTy d).InRange v then some (hexOf (outputToString d v)) else none
  | ["efs", w, d, hx] => do
    let d ← parseDest d; let bs ← parseHex hx
    if w = "N" ∨ w = "W" then some (optSome (extractFromString d bs)) else none
  | ["rtd", w, d, v] => do
    let d ← parseDest d; let v ← v.toInt?
    if (w = "N" ∨ w = "W") ∧ (destTy d).InRange v then some (rtdLine d v) else none
  | ["rtds", w, d, lo, n] => do
    let d ← parseDest d; let lo ← lo.toInt?; let n ← n.toNat?
    if (w = "N" ∨ w = "W") ∧ n ≠ 0 ∧ (destTy d).InRange lo ∧ (destTy d).InRange (lo + n - 1) then some (rtdsDigest d lo n) else none
  | ["enum", k, e] => do
    let names ← enumNames (← k.toNat?); let e ← e.toNat?
    if e < names.length then some (enumLine names e) else none
  | ["efrom", k, hx] => do
    let names ← enumNames (← k.toNat?); let bs ← parseHex hx
    some (optNat (enumFromString names bs))
  | ["ein", k, hx] => do
    let names ← enumNames (← k.toNat?); let bs ← parseHex hx
    some (einLine names bs)
  | ["vec", ty, n, vs] => do
    let t ← vecTy ty; let n ← n.toNat?; let vs ← parseIntList vs
    if 1 ≤ n ∧ n ≤ 4 ∧ vs.length = n ∧ vs.all (fun v => t.InRange v) then
      let out := vecOutput vs []
      some s!"out={hexOf out} in={vinShow (vecInput t n (IStream.ofString out))}"
    else none
  | ["vin", ty, n, hx] => do
    let t ← vecTy ty; let n ← n.toNat?; let bs ← parseHex hx
    if 1 ≤ n ∧ n ≤ 4 then some (vinShow (vecInput t n (IStream.ofString bs))) else none
  | _ => none

/-! ### UTF-8 part -/

def whexOf (l : List Nat) : String :=
  if l.isEmpty then "-" else String.join (l.map fun c => String.join ((List.range 4).reverse.map fun i => hexByte (c / 256 ^ i % 256)))

def group4 : List Nat → Option (List Nat)
  | [] => some []
  | a :: b :: c :: d :: r => (group4 r).map (fun t => ((((a * 256 + b) * 256 + c) * 256 + d) :: t))
  | _ => none

def parseWhex (s : String) : Option (List Nat) := (parseHex s).bind group4

def resName : CvtResult → String
  | .ok => "ok" | .part => "partial" | .error => "error" | .noconv => "noconv"

def optHex (f : List Nat → String) (none_ : String) : Except Fault (Option (List Nat)) → String
  | .ok (some l) => "some " ++ f l
  | .ok none => none_
  | .error e => "fault:" ++ e.name

def nwLine (ws : List Nat) : String :=
  let n := narrowLocale ws
  let w := match n with
    | .ok (some bs) => optHex whexOf "exc" (widenLocale bs)
    | _ => "-"
  s!"n={optHex hexOf "none" n} w={w}"

def nwsDigest (lo n : Nat) : String :=
  let h := (List.range n).foldl (fun h (i : Nat) => fnv h (nwLine [lo + i])) fnvInit
  "D " ++ hex64 h

def handleUtf (toks : List String) : Option String :=
  match toks with
  | ["facet"] => some s!"{utf8In.maxLength} 0"
  | ["cvt", "out", w, "-", inp] => do
    let w ← w.toNat?; let inp ← parseWhex inp
    let r := utf8Out.step () inp w
    some s!"{resName r.res} consumed={r.consumed} out={hexOf r.produced} init={if r.res == .error then "-" else "1"}"
  | ["cvt", "in", w, pend, inp] => do
    let w ← w.toNat?; let pend ← parseHex pend; let inp ← parseHex inp
    -- the state can only hold a proper prefix of a sequence
    if pend.isEmpty ∨ classify pend == .pref then
      let r := utf8In.step pend inp w
      some s!"{resName r.res} consumed={r.consumed} out={whexOf r.produced} init={if r.res == .error then "-" else b01 (utf8In.isInit r.state)}"
    else none
  | ["narrow", inp] => do
    let inp ← parseWhex inp
    some (optHex hexOf "none" (narrowLocale inp))
  | ["widen", inp] => do
    let inp ← parseHex inp
    some (optHex whexOf "exc" (widenLocale inp))
  | ["nw", inp] => do
    let inp ← parseWhex inp
    some (nwLine inp)
  | ["nwenv", inp] => do
    let inp ← parseWhex inp
    some (nwLine inp)
  | ["nws", lo, n] => do
    let lo ← lo.toNat?; let n ← n.toNat?
    if n = 0 ∨ lo + n > 2 ^ 32 then none else some (nwsDigest lo n)
  | _ => none

def handle (toks : List String) : String :=
  match handleUtf toks with
  | some r => r
  | none =>
  match handleBin toks with
  | some r => r
  | none =>
    match handleText toks with
    | some r => r
    | none => "bad-op"

def main : IO Unit := Proto.run handle

end Fcppt.C15.Drv
