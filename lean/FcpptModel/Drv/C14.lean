import FcpptModel.Prelude.Proto
import FcpptModel.Spec.C14
/-!
Driver for C14.  Scalars are integers with `|e| ≤ 1000` (the harness asserts the same bound so that nothing
overflows `long`); vectors are `a,b,c`; matrices are given as their row-major element list and printed
row by row (`a,b;c,d`), read through `at_r_c`.  Storage modes: `s` static storage, `b` a view into a larger
buffer, `r` (vectors only) a row view of a static 3×n matrix.

* `vec K LR n a b k i`   — K ∈ {v,d} (vector / dim), LR two storage modes: every operator of `arithmetic.hpp`, `dot`,
                           `length_square`, the comparisons, `narrow_cast` to every smaller dimension, `push_back`,
                           `structure_cast` (two converters), `null`, `fill`, `at<I>`, `x y z w`, `get_unsafe(i)`, copy
* `cross LR a b`         — `cross`, `dot` with both operands, `cross(b,a)`, Lagrange identity flag
* `mat LR r c A B k j i` — `+ -`, both scalar products, `transpose`, `== !=`, `structure_cast`, rebuild through `row`s,
                           `to_array`, `get_unsafe(j).get_unsafe(i)`, `get_unsafe(j)`
* `mul LR m n p A B`     — `A*B`, `transpose(A*B)`, `transpose(B)*transpose(A)`
* `mv M V r c A v`       — matrix · vector
* `sq M n A`             — `determinant` (also of the transpose), `adjugate`, `A*adj`, `adj*A`, `inverse`, `identity`, `det*identity`
* `del M r c dr dc A`    — `delete_row_and_column<dr, dc>`
* `pair M n A B`         — `A*B`, `(AB)ᵀ`, `BᵀAᵀ`, `A+B`, `A-B`, `det(AB)`, `det A`, `det B`, `==`
* `pairs M a`            — digest of the `pair` lines of the 2×2 matrix number `a` with every 2×2 matrix over {-1,0,1,2}
* `trio M n A B C`       — `(AB)C`, `A(BC)`, `A(B+C)`, `AB+AC`, `(A+B)C`, `AC+BC`
* `trios M a b`          — digest of the `trio` results of the 2×2 matrices number `a`, `b` with every 2×2 matrix `C`
* `builders x y z a b d` — `translation`, `scaling` (both overloads), `identity` 1…4, `vector::init`, `matrix::init`, `matrix::row` + row constructor
* `bits n`               — `bit_strings<long, n>`
* `det0`                 — determinant of the 0×0 matrix
-/
namespace Fcppt.C14.Drv
open Fcppt.Proto

def bound : Int := 1000

def showL (l : List Int) : String := if l.isEmpty then "-" else intList l
def showV {n : Nat} (v : Storage n) : String := showL v.toList
def showM {r c : Nat} (m : Mat r c) : String :=
  if r = 0 then "-" else ";".intercalate ((List.finRange r).map fun i => showL ((List.finRange c).map fun j => m.atRC i j))
def showO {α : Type} (f : α → String) : Option α → String
  | some a => f a
  | none => "none"
def showE {α : Type} (f : α → String) : M α → String
  | .ok a => f a
  | .error e => e.name

def mkVector (n : Nat) (l : List Int) : Option (Vector Int n) :=
  if h : l.length = n then some ⟨l.toArray, by simp [h]⟩ else none

def parseInts (s : String) : Option (List Int) :=
  match parseIntList s with
  | some l => if l.all (fun e => decide (-bound ≤ e ∧ e ≤ bound)) then some l else none
  | none => none

def parseScalar (s : String) : Option Int :=
  match s.toInt? with
  | some e => if -bound ≤ e ∧ e ≤ bound then some e else none
  | none => none

def parseDim (lo hi : Nat) (s : String) : Option Nat :=
  match s.toNat? with
  | some n => if lo ≤ n ∧ n ≤ hi then some n else none
  | none => none

/-- the storage of `n` elements `l` in mode `s` / `b` (two junk elements in front, three behind) -/
def mkStorage (mode : Char) (n : Nat) (l : List Int) : Option (Storage n) :=
  if mode = 's' then (mkVector n l).map Storage.static
  else if mode = 'b' then
    if hl : l.length = n then
      match mkVector (n + 5) ([101, 102] ++ l ++ [103, 104, 105]) with
      | some buf => some (Storage.buffer (n + 5) buf 2 (by omega))
      | none => none
    else none
  else none

/-- a vector operand: `s`, `b`, or `r` = row 1 of the static 3×n matrix `[201…; l; 301…]` -/
def mkVec (mode : Char) (n : Nat) (l : List Int) : Option (Vec n) :=
  if mode = 'r' then
    if l.length = n then
      let junk1 := (List.range n).map fun (k : Nat) => (201 : Int) + Int.ofNat k
      let junk2 := (List.range n).map fun (k : Nat) => (301 : Int) + Int.ofNat k
      match mkVector (3 * n) (junk1 ++ l ++ junk2) with
      | some a => some ((⟨Storage.static a⟩ : Mat 3 n).atR 1)
      | none => none
    else none
  else mkStorage mode n l

def mkMat (mode : Char) (r c : Nat) (l : List Int) : Option (Mat r c) := (mkStorage mode (r * c) l).map Mat.mk

def modeChars (s : String) : Option (Char × Char) :=
  match s.toList with
  | [a, b] => some (a, b)
  | _ => none

def modeChar (s : String) : Option Char :=
  match s.toList with
  | [a] => some a
  | _ => none

/-! ## lines -/

def narrowAll {n : Nat} (a : Vec n) : String :=
  let parts := (List.range n).filterMap fun m =>
    if h : 1 ≤ m ∧ m < n then some (showV (narrowCast h.2 a)) else none
  if parts.isEmpty then "-" else "|".intercalate parts

def xyzw {n : Nat} (a : Vec n) : String :=
  showL ((if h : 0 < n then [x a h] else []) ++ (if h : 1 < n then [y a h] else []) ++
         (if h : 2 < n then [z a h] else []) ++ (if h : 3 < n then [w a h] else []))

def conv2 (e : Int) : Int := 2 * e + 1

def vecLine (isVec : Bool) {n : Nat} (a b : Vec n) (k : Int) (i : Nat) : String :=
  s!"neg={showV (neg a)} add={showV (add a b)} sub={showV (sub a b)} mul={showV (mul a b)} smr={showV (smulR a k)} sml={showV (smulL k b)} " ++
  s!"div={showO showV (divV a b)} sdiv={showO showV (divS a k)} " ++
  (if isVec then s!"dot={dot a b} lsq={lengthSquare b} " else "") ++
  s!"eq={b01 (arrayEqual a b)} ne={b01 (ne a b)} lt={b01 (arrayLess a b)} gt={b01 (gt a b)} le={b01 (le a b)} ge={b01 (ge a b)} " ++
  s!"nar={narrowAll a} pb={showV (pushBack a k)} sc={showV (structureCast id b)} sc2={showV (structureCast conv2 b)} " ++
  s!"null={showV (null n)} fill={showV (fill n k)} at={showL ((List.finRange n).map fun j => atI b j)} " ++
  (if isVec then s!"xyzw={xyzw a} " else "") ++
  s!"get={showE toString (getUnsafe a i)} cp={showV (fromArray (toArray a))} nv=1"

def crossLine (a b : Vec 3) : String :=
  let c := cross a b
  let lag := lengthSquare c == lengthSquare a * lengthSquare b - dot a b * dot a b
  s!"c={showV c} dl={dot a c} dr={dot b c} anti={showV (cross b a)} lag={b01 lag}"

def matLine {r c : Nat} (a b : Mat r c) (k : Int) (j i : Nat) : String :=
  let rebuilt : Mat r c := Mat.ofRows fun rw => fromArray (toArray (a.atR rw))
  let g : M Int := do
    let rw ← a.getUnsafe j
    getUnsafe rw i
  s!"add={showM (a.add b)} sub={showM (a.sub b)} smr={showM (a.smulR k)} sml={showM (Mat.smulL k b)} tr={showM a.transpose} " ++
  s!"eq={b01 (a.eq b)} ne={b01 (a.ne b)} sc={showM (b.structureCast id)} sc2={showM (b.structureCast conv2)} rc={showM rebuilt} " ++
  s!"lin={showV (fromArray (toArray a.s))} get={showE toString g} row={showE showV (a.getUnsafe j)} nv=1"

def mulLine {m n p : Nat} (a : Mat m n) (b : Mat n p) : String :=
  s!"ab={showM (a.mul b)} tab={showM (a.mul b).transpose} btat={showM (b.transpose.mul a.transpose)} nv=1"

def sqLine {n : Nat} (a : Mat n n) : String :=
  let d := a.det
  s!"det={d} dett={a.transpose.det} adj={showM a.adjugate} aadj={showM (a.mul a.adjugate)} adja={showM (a.adjugate.mul a)} " ++
  s!"inv={showE showM a.inverse} id={showM (Mat.identity n)} detid={showM (Mat.smulL d (Mat.identity n))} nv=1"

def pairLine {n : Nat} (a b : Mat n n) : String :=
  let ab := a.mul b
  s!"ab={showM ab} tab={showM ab.transpose} btat={showM (b.transpose.mul a.transpose)} add={showM (a.add b)} sub={showM (a.sub b)} " ++
  s!"dab={ab.det} da={a.det} db={b.det} eq={b01 (a.eq b)}"

def trioMats {n : Nat} (a b c : Mat n n) : List (Mat n n) :=
  [(a.mul b).mul c, a.mul (b.mul c), a.mul (b.add c), (a.mul b).add (a.mul c), (a.add b).mul c, (a.mul c).add (b.mul c)]

def trioLine {n : Nat} (a b c : Mat n n) : String :=
  match trioMats a b c with
  | [l1, r1, l2, r2, l3, r3] =>
    s!"l1={showM l1} r1={showM r1} l2={showM l2} r2={showM r2} l3={showM l3} r3={showM r3}"
  | _ => "internal"

/-- entries of the 2×2 matrix number `a` over {-1,0,1,2}: element `k` (row-major) is digit `k` of `a` in base 4, minus 1 -/
def decode2 (a : Nat) : List Int := (List.range 4).map fun k => (Int.ofNat ((a / 4 ^ k) % 4)) - 1

def mix (h : UInt64) (x : UInt64) : UInt64 := (h ^^^ x) * 1099511628211
/-- two's-complement image of a (small) integer in 64 bits -/
def u64 (x : Int) : UInt64 := if x ≥ 0 then UInt64.ofNat x.toNat else 0 - UInt64.ofNat (-x).toNat
/-- mixes the entries in row-major order (`at_r_c<i, j>` is storage element `i * c + j`: theorem `atRC_eq_entry`) -/
def mixMat {r c : Nat} (h : UInt64) (m : Mat r c) : UInt64 :=
  Fin.foldl (r * c) (fun h k => mix h (u64 (m.s.get k))) h

def pairsDigest (mode : Char) (a : Nat) : String :=
  match mkMat mode 2 2 (decode2 a) with
  | some ma =>
    let h := (List.range 256).foldl (fun h b =>
      match mkMat mode 2 2 (decode2 b) with
      | some mb => fnv h (pairLine ma mb)
      | none => h) fnvInit
    "D " ++ hex64 h
  | none => "bad-op"

/-- all 256 matrices in mode `mode`, in index order -/
def all2 (mode : Char) : List (Mat 2 2) := (List.range 256).filterMap fun c => mkMat mode 2 2 (decode2 c)

/-- `trioMats a b c` with the subterms that do not depend on `c` (and the repeated `b*c`, `a*c`) evaluated once:
    the model is a pure function, so the six results are the same matrices -/
def trioMatsShared {n : Nat} (a b ab aPlusB c : Mat n n) : List (Mat n n) :=
  let bc := b.mul c
  let ac := a.mul c
  [ab.mul c, a.mul bc, a.mul (b.add c), ab.add ac, aPlusB.mul c, ac.add bc]

def triosDigest (mode : Char) (a b : Nat) : String :=
  match mkMat mode 2 2 (decode2 a), mkMat mode 2 2 (decode2 b) with
  | some ma, some mb =>
    let ab := ma.mul mb
    let aPlusB := ma.add mb
    let h := (all2 mode).foldl (fun h mc => (trioMatsShared ma mb ab aPlusB mc).foldl mixMat h) fnvInit
    "D " ++ hex64 h
  | _, _ => "bad-op"

def buildersLine (tx ty tz a b d : Int) : String :=
  let v3 : Vec 3 := fromArray #v[tx, ty, tz]
  let vi : Vec 4 := init fun i => a * i.val + b
  let mi (r c : Nat) : Mat r c := Mat.init fun i j => a * i.val + b * j.val + d
  let rows23 : Mat 2 3 := Mat.ofRows fun i => match i with
    | 0 => row #v[tx, ty, tz]
    | 1 => row #v[a, b, d]
  s!"tr={showM (Mat.translation tx ty tz)} trv={showM (Mat.translationV v3)} sc={showM (Mat.scaling tx ty tz)} scv={showM (Mat.scalingV v3)} " ++
  s!"id1={showM (Mat.identity 1)} id2={showM (Mat.identity 2)} id3={showM (Mat.identity 3)} id4={showM (Mat.identity 4)} " ++
  s!"vi={showV vi} mi23={showM (mi 2 3)} mi32={showM (mi 3 2)} mi34={showM (mi 3 4)} mi41={showM (mi 4 1)} rows={showM rows23}"

def bitsLine (n : Nat) : String :=
  match n with
  | 0 => "bad-op"
  | k + 1 => "|".intercalate ((bitStrings k).map showV)

def isMatMode (c : Char) : Bool := c = 's' || c = 'b'

/-! The shapes and storage-mode combinations the harness instantiates (same tables in `harness/c14.cpp`);
    every other line is `bad-op` on both sides. -/
def vecModeOk (isVec : Bool) (n : Nat) (ml mr : Char) : Bool :=
  let lr := String.ofList [ml, mr]
  let mixed := n = 2 || n = 3
  if isVec then lr = "ss" || lr = "rr" || lr = "bb" || (mixed && (lr = "sr" || lr = "rb" || lr = "bs"))
  else lr = "ss" || lr = "bb" || (mixed && lr = "sb")
def mat2ModeOk (views : Bool) (ml mr : Char) : Bool :=
  let lr := String.ofList [ml, mr]
  lr = "ss" || (views && (lr = "bb" || lr = "sb"))
def matShape (r c : Nat) : Bool := r = c || [23, 32, 34, 43, 14, 41].contains (r * 10 + c)
def matViews (r c : Nat) : Bool := [22, 23, 33, 44].contains (r * 10 + c)
def mulShape (m n p : Nat) : Bool := [111, 222, 333, 444, 232, 323, 234, 342, 141, 414, 123, 431].contains (m * 100 + n * 10 + p)
def mulViews (m n p : Nat) : Bool := [222, 234, 333].contains (m * 100 + n * 10 + p)
def mvShape (r c : Nat) : Bool := r = c || [23, 32, 34, 43].contains (r * 10 + c)
def mvViews (r c : Nat) : Bool := [23, 33, 44].contains (r * 10 + c)
def delShape (r c : Nat) : Bool := r = c || [23, 32, 34, 43].contains (r * 10 + c)
def delViews (r c : Nat) : Bool := [33, 34].contains (r * 10 + c)
def pairViews (n : Nat) : Bool := n = 2 || n = 3

def handle (toks : List String) : String :=
  match toks with
  | ["vec", kind, lr, n, a, b, k, i] =>
    match modeChars lr, parseDim 1 4 n, parseInts a, parseInts b, parseScalar k, i.toNat? with
    | some (ml, mr), some n, some a, some b, some k, some i =>
      if (kind = "v" ∨ kind = "d") ∧ vecModeOk (kind = "v") n ml mr then
        match mkVec ml n a, mkVec mr n b with
        | some va, some vb => vecLine (kind = "v") va vb k i
        | _, _ => "bad-op"
      else "bad-op"
    | _, _, _, _, _, _ => "bad-op"
  | ["cross", lr, a, b] =>
    match modeChars lr, parseInts a, parseInts b with
    | some (ml, mr), some a, some b =>
      if vecModeOk true 3 ml mr then
        match mkVec ml 3 a, mkVec mr 3 b with
        | some va, some vb => crossLine va vb
        | _, _ => "bad-op"
      else "bad-op"
    | _, _, _ => "bad-op"
  | ["mat", lr, r, c, a, b, k, j, i] =>
    match modeChars lr, parseDim 1 4 r, parseDim 1 4 c, parseInts a, parseInts b, parseScalar k, j.toNat?, i.toNat? with
    | some (ml, mr), some r, some c, some a, some b, some k, some j, some i =>
      if matShape r c && mat2ModeOk (matViews r c) ml mr then
        match mkMat ml r c a, mkMat mr r c b with
        | some ma, some mb => matLine ma mb k j i
        | _, _ => "bad-op"
      else "bad-op"
    | _, _, _, _, _, _, _, _ => "bad-op"
  | ["mul", lr, m, n, p, a, b] =>
    match modeChars lr, parseDim 1 4 m, parseDim 1 4 n, parseDim 1 4 p, parseInts a, parseInts b with
    | some (ml, mr), some m, some n, some p, some a, some b =>
      if mulShape m n p && mat2ModeOk (mulViews m n p) ml mr then
        match mkMat ml m n a, mkMat mr n p b with
        | some ma, some mb => mulLine ma mb
        | _, _ => "bad-op"
      else "bad-op"
    | _, _, _, _, _, _ => "bad-op"
  | ["mv", mm, vm, r, c, a, v] =>
    match modeChar mm, modeChar vm, parseDim 1 4 r, parseDim 1 4 c, parseInts a, parseInts v with
    | some mm, some vm, some r, some c, some a, some v =>
      if mvShape r c && (mm = 's' || (mm = 'b' && mvViews r c)) && (vm = 's' || ((vm = 'b' || vm = 'r') && mvViews r c)) then
        match mkMat mm r c a, mkVec vm c v with
        | some ma, some vv => s!"av={showV (ma.mulVec vv)} nv=1"
        | _, _ => "bad-op"
      else "bad-op"
    | _, _, _, _, _, _ => "bad-op"
  | ["sq", mm, n, a] =>
    match modeChar mm, parseDim 1 4 n, parseInts a with
    | some mm, some n, some a =>
      match mkMat mm n n a with
      | some ma => sqLine ma
      | none => "bad-op"
    | _, _, _ => "bad-op"
  | ["del", mm, r, c, dr, dc, a] =>
    match modeChar mm, parseDim 1 4 r, parseDim 1 4 c, dr.toNat?, dc.toNat?, parseInts a with
    | some mm, some (r + 1), some (c + 1), some dr, some dc, some a =>
      if dr ≤ r ∧ dc ≤ c ∧ delShape (r + 1) (c + 1) ∧ (mm = 's' ∨ (mm = 'b' ∧ delViews (r + 1) (c + 1))) then
        match mkMat mm (r + 1) (c + 1) a with
        | some ma => showM (ma.deleteRowAndColumn dr dc)
        | none => "bad-op"
      else "bad-op"
    | _, _, _, _, _, _ => "bad-op"
  | ["pair", mm, n, a, b] =>
    match modeChar mm, parseDim 1 4 n, parseInts a, parseInts b with
    | some mm, some n, some a, some b =>
      if mm = 's' || (mm = 'b' && pairViews n) then
        match mkMat mm n n a, mkMat mm n n b with
        | some ma, some mb => pairLine ma mb
        | _, _ => "bad-op"
      else "bad-op"
    | _, _, _, _ => "bad-op"
  | ["pairs", mm, a] =>
    match modeChar mm, parseDim 0 255 a with
    | some mm, some a => if isMatMode mm then pairsDigest mm a else "bad-op"
    | _, _ => "bad-op"
  | ["trio", mm, n, a, b, c] =>
    match modeChar mm, parseDim 1 4 n, parseInts a, parseInts b, parseInts c with
    | some mm, some n, some a, some b, some c =>
      if mm = 's' || (mm = 'b' && pairViews n) then
        match mkMat mm n n a, mkMat mm n n b, mkMat mm n n c with
        | some ma, some mb, some mc => trioLine ma mb mc
        | _, _, _ => "bad-op"
      else "bad-op"
    | _, _, _, _, _ => "bad-op"
  | ["trios", mm, a, b] =>
    match modeChar mm, parseDim 0 255 a, parseDim 0 255 b with
    | some mm, some a, some b => if isMatMode mm then triosDigest mm a b else "bad-op"
    | _, _, _ => "bad-op"
  | ["builders", tx, ty, tz, a, b, d] =>
    match parseScalar tx, parseScalar ty, parseScalar tz, parseScalar a, parseScalar b, parseScalar d with
    | some tx, some ty, some tz, some a, some b, some d => buildersLine tx ty tz a b d
    | _, _, _, _, _, _ => "bad-op"
  | ["bits", n] =>
    match parseDim 1 5 n with
    | some n => bitsLine n
    | none => "bad-op"
  | ["det0"] => toString (Mat.det (⟨fromArray #v[]⟩ : Mat 0 0))
  | _ => "bad-op"

def main : IO Unit := Proto.run handle

end Fcppt.C14.Drv
