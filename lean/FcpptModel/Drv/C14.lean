import FcpptModel.Prelude.Proto
/-! Driver for C14 — placeholder until the property's model is built. -/
namespace Fcppt.C14.Drv
def main : IO Unit := Fcppt.Proto.run (fun _ => "not-built")
end Fcppt.C14.Drv
