import FcpptModel.Prelude.Proto
import FcpptModel.Spec.C14
import FcpptModel.Model.C14.Member
import FcpptModel.Model.C14.Neighbour
/-!
Driver for C14.  Scalars are integers with `|e| ≤ 1000` (the harness asserts the same bound so that nothing
overflows `long`); vectors are `a,b,c`; matrices are given as their row-major element list and printed
row by row (`a,b;c,d`), read through `at_r_c`.  Storage modes: `s` static storage, `b` a view into a larger
buffer, `r` (vectors only) a row view of a static 3×n matrix.

* `vec K LR n a b k i`   — K ∈ {v,d} (vector / dim), LR two storage modes: every operator of `arithmetic.hpp`, `dot`,
                           `length_square`, the comparisons, `narrow_cast` to every smaller dimension, `push_back`,
                           `structure_cast` (two converters), `null`, `fill`, `at<I>`, `x y z w`, `get_unsafe(i)`, copy
* `cross LR a b`         — `cross`, `dot` with both operands, `cross(b,a)`, Lagrange identity flag
* `mat LR r c A B k j i` — `+ -`, both scalar products, `transpose`, `== !=`, `structure_cast`, rebuild through `row`s,
                           `to_array`, `get_unsafe(j).get_unsafe(i)`, `get_unsafe(j)`
* `mul LR m n p A B`     — `A*B`, `transpose(A*B)`, `transpose(B)*transpose(A)`
* `mv M V r c A v`       — matrix · vector
* `sq M n A`             — `determinant` (also of the transpose), `adjugate`, `A*adj`, `adj*A`, `inverse`, `identity`, `det*identity`
* `del M r c dr dc A`    — `delete_row_and_column<dr, dc>`
* `pair M n A B`         — `A*B`, `(AB)ᵀ`, `BᵀAᵀ`, `A+B`, `A-B`, `det(AB)`, `det A`, `det B`, `==`
* `pairs M a`            — digest of the `pair` lines of the 2×2 matrix number `a` with every 2×2 matrix over {-1,0,1,2}
* `trio M n A B C`       — `(AB)C`, `A(BC)`, `A(B+C)`, `AB+AC`, `(A+B)C`, `AC+BC`
* `trios M a b`          — digest of the `trio` results of the 2×2 matrices number `a`, `b` with every 2×2 matrix `C`
* `builders x y z a b d` — `translation`, `scaling` (both overloads), `identity` 1…4, `vector::init`, `matrix::init`, `matrix::row` + row constructor
* `bits n`               — `bit_strings<long, n>`
* `det0`                 — determinant of the 0×0 matrix
* `nb LR n a b axis`      — vector `a` (mode L ∈ s,r,b) and dim `b` (mode R ∈ s,b): `vector ∘ dim` for `+ - * /`, `dim::contents`,
                           `is_quadratic`, `to_dim`, `to_vector`, `vector::unit(axis)`
* `md LR n a b k`        — `vector::ceil_div_signed`, `math::ceil_div_signed`; `vector::mod` (both overloads), `math::mod` on the absolute values (unsigned)
* `tp M V A v`           — `transform_point`, `transform_direction` of the 4×4 matrix `A` and the 3-vector `v`
* `inf M r c A`          — `infinity_norm`
* `mem F R C va vb ma mb (T op X)+` — member operators on objects in one memory (F ∈ {v,d}).  The world: static vectors (dims) `A`, `B`
                           of dimension C (values `va`, `vb`), static R×C matrices `M`, `P` (values `ma`, `mb`, row-major), a buffer
                           `[9] ++ ma ++ mb ++ [8]`.  Vector-like objects: `A`, `B`, `M<i>` / `P<i>` (row view `get_unsafe(i)` of the
                           non-const matrix), `N<i>` (row view of `M` as a const matrix), `U<o>` (mutable buffer view at offset `o`),
                           `C<o>` (read-only buffer view), `Q<o>.<i>` (row `i` of the matrix that views the buffer at `o`).  Matrix objects:
                           `M`, `P`, `V<o>` (mutable buffer view), `W<o>` (read-only).  Statements: `T add X` (`+=`), `T sub X` (`-=`),
                           `T mul X` (`*=`, component-wise), `T asg X` (`=`: copy assignment for equal storage types, otherwise the converting
                           `operator=`), `T ctor X` (`T = static_<…>(X)`: converting constructor, then assignment), `T smul k<int>` / `T smul @X.<i>` (`*=` with an independent value / with a reference to element
                           `i` of `X`), `T set <i>:<int>` (`T.get_unsafe(i) = int`).  Result: all cells of the world, the values seen through the
                           target after every statement, and whether the operator returned the target.
* `mems F R C E (T op X)+` — digest of the `mem` results over `va = a`, `vb = b`, `ma`, `mb` derived from `a`, `b`, for every
                           `a ∈ {-1,0,1,2}^C` and every `b ∈ {-1,0,1,2}^C` (`E = f`, or `C ≤ 2`) / `b ∈ {-1,2}^C` (`E = q`) /
                           the two alternating `b ∈ {(-1,2,-1,…), (2,-1,2,…)}` (`E = s`)
-/
namespace Fcppt.C14.Drv
open Fcppt.Proto

def bound : Int := 1000

def showL (l : List Int) : String := if l.isEmpty then "-" else intList l
def showV {n : Nat} (v : Storage n) : String := showL v.toList
def showM {r c : Nat} (m : Mat r c) : String :=
  if r = 0 then "-" else ";".intercalate ((List.finRange r).map fun i => showL ((List.finRange c).map fun j => m.atRC i j))
def showO {α : Type} (f : α → String) : Option α → String
  | some a => f a
  | none => "none"
def showE {α : Type} (f : α → String) : M α → String
  | .ok a => f a
  | .error e => e.name

def mkVector (n : Nat) (l : List Int) : Option (Vector Int n) :=
  if h : l.length = n then some ⟨l.toArray, by simp [h]⟩ else none

def parseInts (s : String) : Option (List Int) :=
  match parseIntList s with
  | some l => if l.all (fun e => decide (-bound ≤ e ∧ e ≤ bound)) then some l else none
  | none => none

def parseScalar (s : String) : Option Int :=
  match s.toInt? with
  | some e => if -bound ≤ e ∧ e ≤ bound then some e else none
  | none => none

def parseDim (lo hi : Nat) (s : String) : Option Nat :=
  match s.toNat? with
  | some n => if lo ≤ n ∧ n ≤ hi then some n else none
  | none => none

/-- the storage of `n` elements `l` in mode `s` / `b` (two junk elements in front, three behind) -/
def mkStorage (mode : Char) (n : Nat) (l : List Int) : Option (Storage n) :=
  if mode = 's' then (mkVector n l).map Storage.static
  else if mode = 'b' then
    if hl : l.length = n then
      match mkVector (n + 5) ([101, 102] ++ l ++ [103, 104, 105]) with
      | some buf => some (Storage.buffer (n + 5) buf 2 (by omega))
      | none => none
    else none
  else none

/-- a vector operand: `s`, `b`, or `r` = row 1 of the static 3×n matrix `[201…; l; 301…]` -/
def mkVec (mode : Char) (n : Nat) (l : List Int) : Option (Vec n) :=
  if mode = 'r' then
    if l.length = n then
      let junk1 := (List.range n).map fun (k : Nat) => (201 : Int) + Int.ofNat k
      let junk2 := (List.range n).map fun (k : Nat) => (301 : Int) + Int.ofNat k
      match mkVector (3 * n) (junk1 ++ l ++ junk2) with
      | some a => some ((⟨Storage.static a⟩ : Mat 3 n).atR 1)
      | none => none
    else none
  else mkStorage mode n l

def mkMat (mode : Char) (r c : Nat) (l : List Int) : Option (Mat r c) := (mkStorage mode (r * c) l).map Mat.mk

def modeChars (s : String) : Option (Char × Char) :=
  match s.toList with
  | [a, b] => some (a, b)
  | _ => none

def modeChar (s : String) : Option Char :=
  match s.toList with
  | [a] => some a
  | _ => none

/-! ## lines -/

def narrowAll {n : Nat} (a : Vec n) : String :=
  let parts := (List.range n).filterMap fun m =>
    if h : 1 ≤ m ∧ m < n then some (showV (narrowCast h.2 a)) else none
  if parts.isEmpty then "-" else "|".intercalate parts

def xyzw {n : Nat} (a : Vec n) : String :=
  showL ((if h : 0 < n then [x a h] else []) ++ (if h : 1 < n then [y a h] else []) ++
         (if h : 2 < n then [z a h] else []) ++ (if h : 3 < n then [w a h] else []))

def conv2 (e : Int) : Int := 2 * e + 1

def vecLine (isVec : Bool) {n : Nat} (a b : Vec n) (k : Int) (i : Nat) : String :=
  s!"neg={showV (neg a)} add={showV (add a b)} sub={showV (sub a b)} mul={showV (mul a b)} smr={showV (smulR a k)} sml={showV (smulL k b)} " ++
  s!"div={showO showV (divV a b)} sdiv={showO showV (divS a k)} " ++
  (if isVec then s!"dot={dot a b} lsq={lengthSquare b} " else "") ++
  s!"eq={b01 (arrayEqual a b)} ne={b01 (ne a b)} lt={b01 (arrayLess a b)} gt={b01 (gt a b)} le={b01 (le a b)} ge={b01 (ge a b)} " ++
  s!"nar={narrowAll a} pb={showV (pushBack a k)} sc={showV (structureCast id b)} sc2={showV (structureCast conv2 b)} " ++
  s!"null={showV (null n)} fill={showV (fill n k)} at={showL ((List.finRange n).map fun j => atI b j)} " ++
  (if isVec then s!"xyzw={xyzw a} " else "") ++
  s!"get={showE toString (getUnsafe a i)} cp={showV (fromArray (toArray a))} nv=1"

def crossLine (a b : Vec 3) : String :=
  let c := cross a b
  let lag := lengthSquare c == lengthSquare a * lengthSquare b - dot a b * dot a b
  s!"c={showV c} dl={dot a c} dr={dot b c} anti={showV (cross b a)} lag={b01 lag}"

def matLine {r c : Nat} (a b : Mat r c) (k : Int) (j i : Nat) : String :=
  let rebuilt : Mat r c := Mat.ofRows fun rw => fromArray (toArray (a.atR rw))
  let g : M Int := do
    let rw ← a.getUnsafe j
    getUnsafe rw i
  s!"add={showM (a.add b)} sub={showM (a.sub b)} smr={showM (a.smulR k)} sml={showM (Mat.smulL k b)} tr={showM a.transpose} " ++
  s!"eq={b01 (a.eq b)} ne={b01 (a.ne b)} sc={showM (b.structureCast id)} sc2={showM (b.structureCast conv2)} rc={showM rebuilt} " ++
  s!"lin={showV (fromArray (toArray a.s))} get={showE toString g} row={showE showV (a.getUnsafe j)} nv=1"

def mulLine {m n p : Nat} (a : Mat m n) (b : Mat n p) : String :=
  s!"ab={showM (a.mul b)} tab={showM (a.mul b).transpose} btat={showM (b.transpose.mul a.transpose)} nv=1"

def sqLine {n : Nat} (a : Mat n n) : String :=
  let d := a.det
  s!"det={d} dett={a.transpose.det} adj={showM a.adjugate} aadj={showM (a.mul a.adjugate)} adja={showM (a.adjugate.mul a)} " ++
  s!"inv={showE showM a.inverse} id={showM (Mat.identity n)} detid={showM (Mat.smulL d (Mat.identity n))} nv=1"

def pairLine {n : Nat} (a b : Mat n n) : String :=
  let ab := a.mul b
  s!"ab={showM ab} tab={showM ab.transpose} btat={showM (b.transpose.mul a.transpose)} add={showM (a.add b)} sub={showM (a.sub b)} " ++
  s!"dab={ab.det} da={a.det} db={b.det} eq={b01 (a.eq b)}"

def trioMats {n : Nat} (a b c : Mat n n) : List (Mat n n) :=
  [(a.mul b).mul c, a.mul (b.mul c), a.mul (b.add c), (a.mul b).add (a.mul c), (a.add b).mul c, (a.mul c).add (b.mul c)]

def trioLine {n : Nat} (a b c : Mat n n) : String :=
  match trioMats a b c with
  | [l1, r1, l2, r2, l3, r3] =>
    s!"l1={showM l1} r1={showM r1} l2={showM l2} r2={showM r2} l3={showM l3} r3={showM r3}"
  | _ => "internal"

/-- entries of the 2×2 matrix number `a` over {-1,0,1,2}: element `k` (row-major) is digit `k` of `a` in base 4, minus 1 -/
def decode2 (a : Nat) : List Int := (List.range 4).map fun k => (Int.ofNat ((a / 4 ^ k) % 4)) - 1

def mix (h : UInt64) (x : UInt64) : UInt64 := (h ^^^ x) * 1099511628211
/-- two's-complement image of a (small) integer in 64 bits -/
def u64 (x : Int) : UInt64 := if x ≥ 0 then UInt64.ofNat x.toNat else 0 - UInt64.ofNat (-x).toNat
/-- mixes the entries in row-major order (`at_r_c<i, j>` is storage element `i * c + j`: theorem `atRC_eq_entry`) -/
def mixMat {r c : Nat} (h : UInt64) (m : Mat r c) : UInt64 :=
  Fin.foldl (r * c) (fun h k => mix h (u64 (m.s.get k))) h

def pairsDigest (mode : Char) (a : Nat) : String :=
  match mkMat mode 2 2 (decode2 a) with
  | some ma =>
    let h := (List.range 256).foldl (fun h b =>
      match mkMat mode 2 2 (decode2 b) with
      | some mb => fnv h (pairLine ma mb)
      | none => h) fnvInit
    "D " ++ hex64 h
  | none => "bad-op"

/-- all 256 matrices in mode `mode`, in index order -/
def all2 (mode : Char) : List (Mat 2 2) := (List.range 256).filterMap fun c => mkMat mode 2 2 (decode2 c)

/-- `trioMats a b c` with the subterms that do not depend on `c` (and the repeated `b*c`, `a*c`) evaluated once:
    the model is a pure function, so the six results are the same matrices -/
def trioMatsShared {n : Nat} (a b ab aPlusB c : Mat n n) : List (Mat n n) :=
  let bc := b.mul c
  let ac := a.mul c
  [ab.mul c, a.mul bc, a.mul (b.add c), ab.add ac, aPlusB.mul c, ac.add bc]

def triosDigest (mode : Char) (a b : Nat) : String :=
  match mkMat mode 2 2 (decode2 a), mkMat mode 2 2 (decode2 b) with
  | some ma, some mb =>
    let ab := ma.mul mb
    let aPlusB := ma.add mb
    let h := (all2 mode).foldl (fun h mc => (trioMatsShared ma mb ab aPlusB mc).foldl mixMat h) fnvInit
    "D " ++ hex64 h
  | _, _ => "bad-op"

def buildersLine (tx ty tz a b d : Int) : String :=
  let v3 : Vec 3 := fromArray #v[tx, ty, tz]
  let vi : Vec 4 := init fun i => a * i.val + b
  let mi (r c : Nat) : Mat r c := Mat.init fun i j => a * i.val + b * j.val + d
  let rows23 : Mat 2 3 := Mat.ofRows fun i => match i with
    | 0 => row #v[tx, ty, tz]
    | 1 => row #v[a, b, d]
  s!"tr={showM (Mat.translation tx ty tz)} trv={showM (Mat.translationV v3)} sc={showM (Mat.scaling tx ty tz)} scv={showM (Mat.scalingV v3)} " ++
  s!"id1={showM (Mat.identity 1)} id2={showM (Mat.identity 2)} id3={showM (Mat.identity 3)} id4={showM (Mat.identity 4)} " ++
  s!"vi={showV vi} mi23={showM (mi 2 3)} mi32={showM (mi 3 2)} mi34={showM (mi 3 4)} mi41={showM (mi 4 1)} rows={showM rows23}"

def bitsLine (n : Nat) : String :=
  match n with
  | 0 => "bad-op"
  | k + 1 => "|".intercalate ((bitStrings k).map showV)

def isMatMode (c : Char) : Bool := c = 's' || c = 'b'

/-! The shapes and storage-mode combinations the harness instantiates (same tables in `harness/c14.cpp`);
    every other line is `bad-op` on both sides. -/
def vecModeOk (isVec : Bool) (n : Nat) (ml mr : Char) : Bool :=
  let lr := String.ofList [ml, mr]
  let mixed := n = 2 || n = 3
  if isVec then lr = "ss" || lr = "rr" || lr = "bb" || (mixed && (lr = "sr" || lr = "rb" || lr = "bs"))
  else lr = "ss" || lr = "bb" || (mixed && lr = "sb")
def mat2ModeOk (views : Bool) (ml mr : Char) : Bool :=
  let lr := String.ofList [ml, mr]
  lr = "ss" || (views && (lr = "bb" || lr = "sb"))
def matShape (r c : Nat) : Bool := r = c || [23, 32, 34, 43, 14, 41].contains (r * 10 + c)
def matViews (r c : Nat) : Bool := [22, 23, 33, 44].contains (r * 10 + c)
def mulShape (m n p : Nat) : Bool := [111, 222, 333, 444, 232, 323, 234, 342, 141, 414, 123, 431].contains (m * 100 + n * 10 + p)
def mulViews (m n p : Nat) : Bool := [222, 234, 333].contains (m * 100 + n * 10 + p)
def mvShape (r c : Nat) : Bool := r = c || [23, 32, 34, 43].contains (r * 10 + c)
def mvViews (r c : Nat) : Bool := [23, 33, 44].contains (r * 10 + c)
def delShape (r c : Nat) : Bool := r = c || [23, 32, 34, 43].contains (r * 10 + c)
def delViews (r c : Nat) : Bool := [33, 34].contains (r * 10 + c)
def pairViews (n : Nat) : Bool := n = 2 || n = 3


/-! ## member operators: scenarios over one memory (`mem`, `mems`) -/

/-- the C++ storage type of a vector-like operand: static, row view of a non-const static matrix, row view of a const static
    matrix, mutable buffer view, read-only buffer view, row view of a (non-const) buffer-view matrix -/
inductive VKind where | st | rv | rc | bv | bc | qv
  deriving DecidableEq
/-- static matrix, mutable buffer-view matrix, read-only buffer-view matrix -/
inductive MKind where | sm | vm | cm
  deriving DecidableEq

def VKind.mutable : VKind → Bool
  | .rc => false | .bc => false | _ => true
def MKind.mutable : MKind → Bool
  | .cm => false | _ => true

def mkStaticRef (len n base : Nat) : Option (Ref len n) := if h : base + n ≤ len then some (.static base h) else none
def mkBufferRef (len n ptr : Nat) : Option (Ref len n) := if h : ptr + n ≤ len then some (.buffer ptr h) else none

/-- world layout: `A` at 0, `B` at C, `M` at 2C, `P` at 2C + RC, the buffer (2RC + 2 cells) at 2C + 2RC -/
def memLen (R C : Nat) : Nat := 2 * C + 4 * (R * C) + 2
def offM (_R C : Nat) : Nat := 2 * C
def offP (R C : Nat) : Nat := 2 * C + R * C
def offU (R C : Nat) : Nat := 2 * C + 2 * (R * C)

def splitDesc (tok : String) : Option (Char × String) :=
  match tok.toList with
  | c :: rest => some (c, String.ofList rest)
  | [] => none

def rowOf {len R C : Nat} (m : Option (Ref len (R * C))) (i : Nat) (k : VKind) : Option (Ref len C × VKind) :=
  match m with
  | some s =>
    match (MatRef.mk s : MatRef len R C).getUnsafe i with
    | .ok r => some (r, k)
    | .error _ => none
  | none => none

/-- a matrix object of the world -/
def matObj (isVec : Bool) (R C : Nat) (tok : String) : Option (MatRef (memLen R C) R C × MKind) :=
  let len := memLen R C
  if !isVec then none else
  match splitDesc tok with
  | some ('M', "") => (mkStaticRef len (R * C) (offM R C)).map fun s => (⟨s⟩, .sm)
  | some ('P', "") => (mkStaticRef len (R * C) (offP R C)).map fun s => (⟨s⟩, .sm)
  | some ('V', rest) => match rest.toNat? with
    | some o => (mkBufferRef len (R * C) (offU R C + o)).map fun s => (⟨s⟩, .vm)
    | none => none
  | some ('W', rest) => match rest.toNat? with
    | some o => (mkBufferRef len (R * C) (offU R C + o)).map fun s => (⟨s⟩, .cm)
    | none => none
  | _ => none

/-- a vector-like (dim-like) object of the world -/
def vecObj (isVec : Bool) (R C : Nat) (tok : String) : Option (Ref (memLen R C) C × VKind) :=
  let len := memLen R C
  match splitDesc tok with
  | some ('A', "") => (mkStaticRef len C 0).map fun r => (r, .st)
  | some ('B', "") => (mkStaticRef len C C).map fun r => (r, .st)
  | some ('U', rest) => match rest.toNat? with
    | some o => (mkBufferRef len C (offU R C + o)).map fun r => (r, .bv)
    | none => none
  | some ('C', rest) => match rest.toNat? with
    | some o => (mkBufferRef len C (offU R C + o)).map fun r => (r, .bc)
    | none => none
  | some ('M', rest) => if !isVec then none else match rest.toNat? with
    | some i => rowOf (R := R) (mkStaticRef len (R * C) (offM R C)) i .rv
    | none => none
  | some ('N', rest) => if !isVec then none else match rest.toNat? with
    | some i => rowOf (R := R) (mkStaticRef len (R * C) (offM R C)) i .rc
    | none => none
  | some ('P', rest) => if !isVec then none else match rest.toNat? with
    | some i => rowOf (R := R) (mkStaticRef len (R * C) (offP R C)) i .rv
    | none => none
  | some ('Q', rest) => if !isVec then none else match rest.splitOn "." with
    | [o, i] => match o.toNat?, i.toNat? with
      | some o, some i => rowOf (R := R) (mkBufferRef len (R * C) (offU R C + o)) i .qv
      | _, _ => none
    | _ => none
  | _ => none

/-- `k<int>`: an independent value; `@X.<i>`: a reference to element `i` of the object `X` (`X.get_unsafe(i)`, for a matrix
    `X.get_unsafe(i / C).get_unsafe(i % C)`); `none` = malformed, `some none` = index outside the precondition -/
def scalarArg (isVec : Bool) (R C : Nat) (tok : String) : Option (Option (Scalar (memLen R C))) :=
  match splitDesc tok with
  | some ('k', rest) => (parseScalar rest).map fun k => some (Scalar.value k)
  | some ('@', rest) =>
    let parts := rest.splitOn "."
    match parts.getLast?, parts.dropLast with
    | some i, d :: ds =>
      let desc := ".".intercalate (d :: ds)
      match i.toNat? with
      | some i =>
        match vecObj isVec R C desc with
        | some (r, _) => some (match r.getUnsafe i with | .ok a => some (Scalar.cell a) | .error _ => none)
        | none =>
          match matObj isVec R C desc with
          | some (m, _) =>
            let a : M (Fin (memLen R C)) := do
              let row ← m.getUnsafe (i / C)
              row.getUnsafe (i % C)
            some (match a with | .ok a => some (Scalar.cell a) | .error _ => none)
          | none => none
      | none => none
    | _, _ => none
  | _ => none

def refVals {len n : Nat} (r : Ref len n) (mem : Mem len) : List Int := (r.load mem).toList

/-- one statement on vector-like objects: new memory and the values seen through the target afterwards (`none`: a precondition
    of `get_unsafe` does not hold, nothing is executed) -/
def execVec (isVec : Bool) (R C : Nat) (mem : Mem (memLen R C)) (t op x : String) : Option (Mem (memLen R C) × Option (List Int)) :=
  match vecObj isVec R C t with
  | some (tr, tk) =>
    if !tk.mutable then none
    else if op = "smul" then
      match scalarArg isVec R C x with
      | some (some s) => let mem' := (Stmt.smul tr s).exec mem; some (mem', some (refVals tr mem'))
      | some none => some (mem, none)
      | none => none
    else if op = "set" then
      match x.splitOn ":" with
      | [i, k] =>
        match i.toNat?, parseScalar k with
        | some i, some k =>
          if h : i < C then let mem' := (Stmt.set tr ⟨i, h⟩ k).exec mem; some (mem', some (refVals tr mem'))
          else match tr.getUnsafe i with        -- precondition of get_unsafe violated: `oob`, nothing is executed
            | .ok _ => none
            | .error _ => some (mem, none)
        | _, _ => none
      | _ => none
    else
      match vecObj isVec R C x with
      | some (xr, xk) =>
        if op = "add" then let mem' := (Stmt.add tr xr).exec mem; some (mem', some (refVals tr mem'))
        else if op = "sub" then let mem' := (Stmt.sub tr xr).exec mem; some (mem', some (refVals tr mem'))
        else if op = "mul" then let mem' := (Stmt.mul tr xr).exec mem; some (mem', some (refVals tr mem'))
        else if op = "asg" then
          if tk = xk then
            let (mem', tr') := copyAssign tr xr mem
            some (mem', some (refVals tr' mem'))
          else let mem' := (Stmt.asg tr xr).exec mem; some (mem', some (refVals tr mem'))
        else if op = "ctor" then let mem' := (Stmt.ctor tr xr).exec mem; some (mem', some (refVals tr mem'))
        else none
      | none => none
  | none => none

def execMat (R C : Nat) (mem : Mem (memLen R C)) (t op x : String) : Option (Mem (memLen R C) × Option (List Int)) :=
  match matObj true R C t with
  | some (tm, tk) =>
    let tr := tm.s
    if !tk.mutable then none
    else if op = "smul" then
      match scalarArg true R C x with
      | some (some s) => let mem' := (Stmt.smul tr s).exec mem; some (mem', some (refVals tr mem'))
      | some none => some (mem, none)
      | none => none
    else if op = "set" then
      match x.splitOn ":" with
      | [i, k] =>
        match i.toNat?, parseScalar k with
        | some i, some k =>
          let a : M (Fin (memLen R C)) := do
            let row ← tm.getUnsafe (i / C)
            row.getUnsafe (i % C)
          match a with
          | .ok a => let mem' := setElem a k mem; some (mem', some (refVals tr mem'))
          | .error _ => some (mem, none)
        | _, _ => none
      | _ => none
    else
      match matObj true R C x with
      | some (xm, xk) =>
        let xr := xm.s
        if op = "add" then let mem' := (Stmt.add tr xr).exec mem; some (mem', some (refVals tr mem'))
        else if op = "sub" then let mem' := (Stmt.sub tr xr).exec mem; some (mem', some (refVals tr mem'))
        else if op = "asg" then
          if tk = xk then
            let (mem', tr') := copyAssign tr xr mem
            some (mem', some (refVals tr' mem'))
          else let mem' := (Stmt.asg tr xr).exec mem; some (mem', some (refVals tr mem'))
        else if op = "ctor" then let mem' := (Stmt.ctor tr xr).exec mem; some (mem', some (refVals tr mem'))
        else none
      | none => none
  | none => none

/-- the statements of a line, three tokens each -/
def stmtsOf : List String → Option (List (String × String × String))
  | [] => some []
  | t :: op :: x :: rest => (stmtsOf rest).map fun l => (t, op, x) :: l
  | _ => none

def isMatTarget (t : String) : Bool := t = "M" || t = "P" || t.startsWith "V"

def runStmts (isVec : Bool) (R C : Nat) (mem : Mem (memLen R C)) :
    List (String × String × String) → Option (Mem (memLen R C) × List (Option (List Int)))
  | [] => some (mem, [])
  | (t, op, x) :: rest =>
    let r := if isMatTarget t then (if isVec then execMat R C mem t op x else none) else execVec isVec R C mem t op x
    match r with
    | some (mem', tv) => (runStmts isVec R C mem' rest).map fun (m, tvs) => (m, tv :: tvs)
    | none => none

def memInit (R C : Nat) (va vb ma mb : List Int) : Option (Mem (memLen R C)) :=
  mkVector (memLen R C) (va ++ vb ++ ma ++ mb ++ [9] ++ ma ++ mb ++ [8])

/-- which worlds the harness instantiates -/
def memShape (isVec : Bool) (R C : Nat) : Bool :=
  if isVec then [31, 32, 33, 34, 22, 23, 44, 11].contains (R * 10 + C) else [31, 32, 33, 34].contains (R * 10 + C)

def memRun (isVec : Bool) (R C : Nat) (va vb ma mb : List Int) (stmts : List (String × String × String)) :
    Option (Mem (memLen R C) × List (Option (List Int))) :=
  match memInit R C va vb ma mb with
  | some mem => runStmts isVec R C mem stmts
  | none => none

def memLineOf (R C : Nat) (mem : Mem (memLen R C)) (tvs : List (Option (List Int))) : String :=
  let cells := mem.toList
  let K := R * C
  let seg (a n : Nat) : String := showL ((cells.drop a).take n)
  let w := "/".intercalate [seg 0 C, seg C C, seg (2 * C) K, seg (2 * C + K) K, seg (2 * C + 2 * K) (2 * K + 2)]
  let t := "|".intercalate (tvs.map fun tv => match tv with | some l => showL l | none => "oob")
  s!"w={w} t={t} r={String.ofList (tvs.map fun _ => '1')}"

def memMix (h : UInt64) {len : Nat} (mem : Mem len) (tvs : List (Option (List Int))) : UInt64 :=
  let h := mem.toList.foldl (fun h e => mix h (u64 e)) h
  tvs.foldl (fun h tv =>
    match tv with
    | some l => mix (l.foldl (fun h e => mix h (u64 e)) h) 1
    | none => mix (mix h (u64 (-7777))) 1) h

def enumA (C idx : Nat) : List Int := (List.range C).map fun j => Int.ofNat ((idx / 4 ^ j) % 4) - 1
def enumBq (C idx : Nat) : List Int := (List.range C).map fun j => if (idx / 2 ^ j) % 2 = 1 then 2 else -1

/-- the matrices of an enumerated scenario: rows `a`, `b`, `a + 2b + 3`, `2a - b - 5` resp. `10 (i + 1) + j + b_j - a_j` -/
def deriveMa (R : Nat) (a b : List Int) : List Int :=
  ([a, b, List.zipWith (fun x y => x + 2 * y + 3) a b, List.zipWith (fun x y => 2 * x - y - 5) a b].take R).flatten
def deriveMb (R : Nat) (a b : List Int) : List Int :=
  ((List.range R).map fun i => (List.zip a b).mapIdx fun j (xy : Int × Int) => 10 * (Int.ofNat i + 1) + Int.ofNat j + xy.2 - xy.1).flatten

/-- `E = s`: `b` alternates `-1, 2, -1, …` (idx 0) or `2, -1, 2, …` (idx 1) -/
def enumBs (C idx : Nat) : List Int := (List.range C).map fun j => if (j + idx) % 2 = 1 then 2 else -1

def memsDigest (isVec : Bool) (R C : Nat) (e : String) (stmts : List (String × String × String)) : String :=
  let allB := e = "f" || C ≤ 2
  let nb := if allB then 4 ^ C else if e = "q" then 2 ^ C else 2
  let r := (List.range (4 ^ C)).foldl (fun (acc : Option UInt64) ia =>
    (List.range nb).foldl (fun (acc : Option UInt64) ib =>
      match acc with
      | none => none
      | some h =>
        let a := enumA C ia
        let b := if allB then enumA C ib else if e = "q" then enumBq C ib else enumBs C ib
        match memRun isVec R C a b (deriveMa R a b) (deriveMb R a b) stmts with
        | some (mem, tvs) => some (memMix h mem tvs)
        | none => none) acc) (some fnvInit)
  match r with
  | some h => "D " ++ hex64 h
  | none => "bad-op"

def memHandle (toks : List String) : String :=
  match toks with
  | "mem" :: fam :: r :: c :: va :: vb :: ma :: mb :: rest =>
    match parseDim 1 4 r, parseDim 1 4 c, stmtsOf rest with
    | some R, some C, some stmts =>
      if (fam = "v" ∨ fam = "d") ∧ memShape (fam = "v") R C ∧ stmts ≠ [] ∧ stmts.length ≤ 6 then
        match parseInts va, parseInts vb, parseInts ma, parseInts mb with
        | some va, some vb, some ma, some mb =>
          if va.length = C ∧ vb.length = C ∧ ma.length = R * C ∧ mb.length = R * C then
            match memRun (fam = "v") R C va vb ma mb stmts with
            | some (mem, tvs) => memLineOf R C mem tvs
            | none => "bad-op"
          else "bad-op"
        | _, _, _, _ => "bad-op"
      else "bad-op"
    | _, _, _ => "bad-op"
  | "mems" :: fam :: r :: c :: e :: rest =>
    match parseDim 1 4 r, parseDim 1 4 c, stmtsOf rest with
    | some R, some C, some stmts =>
      if (fam = "v" ∨ fam = "d") ∧ memShape (fam = "v") R C ∧ (e = "f" ∨ e = "q" ∨ e = "s") ∧ stmts ≠ [] ∧ stmts.length ≤ 6 then
        memsDigest (fam = "v") R C e stmts
      else "bad-op"
    | _, _, _ => "bad-op"
  | _ => "bad-op"

def nbLine {n : Nat} (a : Vec (n + 1)) (b : Vec (n + 1)) (axis : Nat) : String :=
  s!"vd+={showV (addD a b)} vd-={showV (subD a b)} vd*={showV (mulD a b)} vd/={showO showV (divD a b)} cont={contents b} " ++
  s!"quad={b01 (isQuadratic b)} tod={showV (toDifferent a)} tov={showV (toDifferent b)} unit={showV (unit (n + 1) axis)}"

/-- `md LR n a b k`: `vector::ceil_div_signed(a, k)`, the scalar `ceil_div_signed` of the first components, and — on the absolute
    values in static storage, because `math::mod` only instantiates for unsigned (and floating-point) types —
    `vector::mod(|a|, |k|)`, `vector::mod(|a|, |b|)`, `math::mod(|a0|, |b0|)` -/
def mdLine {n : Nat} (a b : Vec (n + 1)) (k : Int) : String :=
  let ua : Vec (n + 1) := init fun i => (a.get i).natAbs
  let ub : Vec (n + 1) := init fun i => (b.get i).natAbs
  let uk : Int := k.natAbs
  s!"ms={showO showV (modS ua uk)} mv={showO showV (modV ua ub)} cd={showO showV (ceilDivSignedV a k)} " ++
  s!"m0={showO toString (mod (ua.get 0) (ub.get 0))} c0={showO toString (ceilDivSigned (a.get 0) (b.get 0))}"

def handle1 (toks : List String) : String :=
  match toks with
  | ["nb", lr, n, a, b, axis] =>
    match modeChars lr, parseDim 1 4 n, parseInts a, parseInts b, axis.toNat? with
    | some (ml, mr), some (n + 1), some a, some b, some axis =>
      if (ml = 's' || ml = 'r' || ml = 'b') && (mr = 's' || mr = 'b') && axis ≤ n + 1 then
        match mkVec ml (n + 1) a, mkVec mr (n + 1) b with
        | some va, some vb => nbLine va vb axis
        | _, _ => "bad-op"
      else "bad-op"
    | _, _, _, _, _ => "bad-op"
  | ["md", lr, n, a, b, k] =>
    match modeChars lr, parseDim 1 4 n, parseInts a, parseInts b, parseScalar k with
    | some (ml, mr), some (n + 1), some a, some b, some k =>
      if (ml = 's' || ml = 'r' || ml = 'b') && (mr = 's' || mr = 'r' || mr = 'b') then
        match mkVec ml (n + 1) a, mkVec mr (n + 1) b with
        | some va, some vb => mdLine va vb k
        | _, _ => "bad-op"
      else "bad-op"
    | _, _, _, _, _ => "bad-op"
  | ["tp", mm, vm, a, v] =>
    match modeChar mm, modeChar vm, parseInts a, parseInts v with
    | some mm, some vm, some a, some v =>
      if isMatMode mm && (vm = 's' || vm = 'r' || vm = 'b') then
        match mkMat mm 4 4 a, mkVec vm 3 v with
        | some ma, some vv => s!"tp={showV (ma.transformPoint vv)} td={showV (ma.transformDirection vv)}"
        | _, _ => "bad-op"
      else "bad-op"
    | _, _, _, _ => "bad-op"
  | ["inf", mm, r, c, a] =>
    match modeChar mm, parseDim 1 4 r, parseDim 1 4 c, parseInts a with
    | some mm, some r, some c, some a =>
      if matShape r c && (mm = 's' || (mm = 'b' && matViews r c)) then
        match mkMat mm r c a with
        | some ma => toString ma.infinityNorm
        | none => "bad-op"
      else "bad-op"
    | _, _, _, _ => "bad-op"
  | "mem" :: _ => memHandle toks
  | "mems" :: _ => memHandle toks
  | ["vec", kind, lr, n, a, b, k, i] =>
    match modeChars lr, parseDim 1 4 n, parseInts a, parseInts b, parseScalar k, i.toNat? with
    | some (ml, mr), some n, some a, some b, some k, some i =>
      if (kind = "v" ∨ kind = "d") ∧ vecModeOk (kind = "v") n ml mr then
        match mkVec ml n a, mkVec mr n b with
        | some va, some vb => vecLine (kind = "v") va vb k i
        | _, _ => "bad-op"
      else "bad-op"
    | _, _, _, _, _, _ => "bad-op"
  | ["cross", lr, a, b] =>
    match modeChars lr, parseInts a, parseInts b with
    | some (ml, mr), some a, some b =>
      if vecModeOk true 3 ml mr then
        match mkVec ml 3 a, mkVec mr 3 b with
        | some va, some vb => crossLine va vb
        | _, _ => "bad-op"
      else "bad-op"
    | _, _, _ => "bad-op"
  | ["mat", lr, r, c, a, b, k, j, i] =>
    match modeChars lr, parseDim 1 4 r, parseDim 1 4 c, parseInts a, parseInts b, parseScalar k, j.toNat?, i.toNat? with
    | some (ml, mr), some r, some c, some a, some b, some k, some j, some i =>
      if matShape r c && mat2ModeOk (matViews r c) ml mr then
        match mkMat ml r c a, mkMat mr r c b with
        | some ma, some mb => matLine ma mb k j i
        | _, _ => "bad-op"
      else "bad-op"
    | _, _, _, _, _, _, _, _ => "bad-op"
  | ["mul", lr, m, n, p, a, b] =>
    match modeChars lr, parseDim 1 4 m, parseDim 1 4 n, parseDim 1 4 p, parseInts a, parseInts b with
    | some (ml, mr), some m, some n, some p, some a, some b =>
      if mulShape m n p && mat2ModeOk (mulViews m n p) ml mr then
        match mkMat ml m n a, mkMat mr n p b with
        | some ma, some mb => mulLine ma mb
        | _, _ => "bad-op"
      else "bad-op"
    | _, _, _, _, _, _ => "bad-op"
  | ["mv", mm, vm, r, c, a, v] =>
    match modeChar mm, modeChar vm, parseDim 1 4 r, parseDim 1 4 c, parseInts a, parseInts v with
    | some mm, some vm, some r, some c, some a, some v =>
      if mvShape r c && (mm = 's' || (mm = 'b' && mvViews r c)) && (vm = 's' || ((vm = 'b' || vm = 'r') && mvViews r c)) then
        match mkMat mm r c a, mkVec vm c v with
        | some ma, some vv => s!"av={showV (ma.mulVec vv)} nv=1"
        | _, _ => "bad-op"
      else "bad-op"
    | _, _, _, _, _, _ => "bad-op"
  | ["sq", mm, n, a] =>
    match modeChar mm, parseDim 1 4 n, parseInts a with
    | some mm, some n, some a =>
      match mkMat mm n n a with
      | some ma => sqLine ma
      | none => "bad-op"
    | _, _, _ => "bad-op"
  | ["del", mm, r, c, dr, dc, a] =>
    match modeChar mm, parseDim 1 4 r, parseDim 1 4 c, dr.toNat?, dc.toNat?, parseInts a with
    | some mm, some (r + 1), some (c + 1), some dr, some dc, some a =>
      if dr ≤ r ∧ dc ≤ c ∧ delShape (r + 1) (c + 1) ∧ (mm = 's' ∨ (mm = 'b' ∧ delViews (r + 1) (c + 1))) then
        match mkMat mm (r + 1) (c + 1) a with
        | some ma => showM (ma.deleteRowAndColumn dr dc)
        | none => "bad-op"
      else "bad-op"
    | _, _, _, _, _, _ => "bad-op"
  | ["pair", mm, n, a, b] =>
    match modeChar mm, parseDim 1 4 n, parseInts a, parseInts b with
    | some mm, some n, some a, some b =>
      if mm = 's' || (mm = 'b' && pairViews n) then
        match mkMat mm n n a, mkMat mm n n b with
        | some ma, some mb => pairLine ma mb
        | _, _ => "bad-op"
      else "bad-op"
    | _, _, _, _ => "bad-op"
  | ["pairs", mm, a] =>
    match modeChar mm, parseDim 0 255 a with
    | some mm, some a => if isMatMode mm then pairsDigest mm a else "bad-op"
    | _, _ => "bad-op"
  | ["trio", mm, n, a, b, c] =>
    match modeChar mm, parseDim 1 4 n, parseInts a, parseInts b, parseInts c with
    | some mm, some n, some a, some b, some c =>
      if mm = 's' || (mm = 'b' && pairViews n) then
        match mkMat mm n n a, mkMat mm n n b, mkMat mm n n c with
        | some ma, some mb, some mc => trioLine ma mb mc
        | _, _, _ => "bad-op"
      else "bad-op"
    | _, _, _, _, _ => "bad-op"
  | ["trios", mm, a, b] =>
    match modeChar mm, parseDim 0 255 a, parseDim 0 255 b with
    | some mm, some a, some b => if isMatMode mm then triosDigest mm a b else "bad-op"
    | _, _, _ => "bad-op"
  | ["builders", tx, ty, tz, a, b, d] =>
    match parseScalar tx, parseScalar ty, parseScalar tz, parseScalar a, parseScalar b, parseScalar d with
    | some tx, some ty, some tz, some a, some b, some d => buildersLine tx ty tz a b d
    | _, _, _, _, _, _ => "bad-op"
  | ["bits", n] =>
    match parseDim 1 5 n with
    | some n => bitsLine n
    | none => "bad-op"
  -- operands of different element types: the harness compares + - * of vectors and dims with plain arithmetic per component
  -- (the theorems `toFun_add/sub/mul`, `get_ops` are over exact integers; nothing depends on the input here)
  | ["mixchk", n] => if n.toNat?.isSome then "ok" else "bad-op"
  | ["det0"] => toString (Mat.det (⟨fromArray #v[]⟩ : Mat 0 0))
  | _ => "bad-op"

/-! ## digests of systematic families of the lines above (`refine` in props/c14.py turns a differing digest into the single line) -/

def enumTrits (n idx : Nat) : List Int := (List.range n).map fun j => Int.ofNat ((idx / 3 ^ j) % 3) - 1

def digestOf (lines : List (List String)) : String :=
  let r := lines.foldl (fun (acc : Option UInt64) toks =>
    match acc with
    | none => none
    | some h => let s := handle1 toks; if s = "bad-op" then none else some (fnv h s)) (some fnvInit)
  match r with
  | some h => "D " ++ hex64 h
  | none => "bad-op"

/-- * `vecs K LR n ia` — the `vec` lines of `a` = vector number `ia` over {-1,0,1,2}^n with **every** `b` ∈ {-1,0,1,2}^n
      (`k = (ia + ib) % 7 - 3`, `i = (ia + 2 ib) % (n + 2)`)
    * `crs LR ia`      — the `cross` lines of `a` = vector number `ia` with every `b` ∈ {-1,0,1,2}^3
    * `sqs M a`        — the `sq` lines of the 243 3×3 matrices over {-1,0,1} whose last four entries are number `a` < 81
    * `mvs MM VM a`    — the `mv` lines of the 2×3 matrix number `a` < 4096 over {-1,0,1,2} with every `v` ∈ {-1,0,1,2}^3 -/
def handle (toks : List String) : String :=
  match toks with
  | ["vecs", kind, lr, n, ia] =>
    match parseDim 1 4 n, ia.toNat? with
    | some n, some ia =>
      if ia < 4 ^ n then
        digestOf ((List.range (4 ^ n)).map fun ib =>
          ["vec", kind, lr, toString n, showL (enumA n ia), showL (enumA n ib), toString ((Int.ofNat ((ia + ib) % 7)) - 3), toString ((ia + 2 * ib) % (n + 2))])
      else "bad-op"
    | _, _ => "bad-op"
  | ["crs", lr, ia] =>
    match parseDim 0 63 ia with
    | some ia => digestOf ((List.range 64).map fun ib => ["cross", lr, showL (enumA 3 ia), showL (enumA 3 ib)])
    | none => "bad-op"
  | ["sqs", mm, a] =>
    match parseDim 0 80 a with
    | some a => digestOf ((List.range 243).map fun lo => ["sq", mm, "3", showL (enumTrits 5 lo ++ enumTrits 4 a)])
    | none => "bad-op"
  | ["mvs", mm, vm, a] =>
    match parseDim 0 4095 a with
    | some a => digestOf ((List.range 64).map fun iv => ["mv", mm, vm, "2", "3", showL (enumA 6 a), showL (enumA 3 iv)])
    | none => "bad-op"
  | _ => handle1 toks

def main : IO Unit := Proto.run handle

end Fcppt.C14.Drv
