import FcpptModel.Prelude.Proto
/-! Driver for C01 — placeholder until the property's model is built. -/
namespace Fcppt.C01.Drv
def main : IO Unit := Fcppt.Proto.run (fun _ => "not-built")
end Fcppt.C01.Drv
