import FcpptModel.Prelude.Proto
import FcpptModel.Model.C01
import FcpptModel.Drv.C06
/-!
Driver for C01: the container / string / argument / file helpers of `Model/C01.lean`; scalar
operations (`call`, `range1`, …) are delegated to the C06 driver (translated definitions).
Strings travel as `s:<chars>`, integer lists as `a,b,c` / `-`, argument vectors as `x,y,z` / `_`.
-/
namespace Fcppt.C01.Drv
open Fcppt Fcppt.Proto Fcppt.C01

def showOptInt : M (Option Int) → String
  | .ok (some v) => s!"some {v}"
  | .ok none => "none"
  | .error e => e.name

def payload (t : String) : Option Str := if t.startsWith "s:" then some (t.drop 2).toString.toList else none

def splitList (s : String) : List String := if s = "_" then [] else s.splitOn ","

def colorNames : List String := ["foo", "bar", "baz", "fo", "foobar"]

/-- what the operating system answers for the scratch files the harness creates -/
def osAnswer : String → Option (Option Nat)
  | "file0" => some (some 0) | "file5" => some (some 5) | "file4096" => some (some 4096)
  | "symfile" => some (some 5)
  | "symsym" => some (some 5)
  | "dir" | "missing" | "dangling" | "dot" | "emptypath" => some none
  -- stat fails with ELOOP / ENAMETOOLONG / ENOTDIR, or the file exists but is not a regular file: no size either
  | "selfloop" | "loopa" | "loopb" | "symdir" | "fifo" | "longname" | "underfile" | "underloop" | "longpath" => some none
  | _ => none

def parsePairs (s : String) : Option (List (Int × Int)) :=
  (splitList s).mapM fun kv =>
    match kv.splitOn ":" with
    | [k, v] => do let k ← k.toInt?; let v ← v.toInt?; pure (k, v)
    | _ => none

def parseNames (s : String) : Option (List (Str × Bool)) :=
  (splitList s).mapM fun n =>
    match n.splitOn ":" with
    | [name, "s"] => some (name.toList, true)
    | [name, "l"] => some (name.toList, false)
    | _ => none

def handle (toks : List String) : String :=
  match toks with
  | ["atopt", l, i] =>
    match parseIntList l, i.toNat? with
    | some l, some i => showOptInt (atOptional l i)
    | _, _ => "bad-op"
  | ["front", l] => match parseIntList l with | some l => showOptInt (maybeFront l) | none => "bad-op"
  | ["back", l] => match parseIntList l with | some l => showOptInt (maybeBack l) | none => "bad-op"
  | ["popback", l] =>
    match parseIntList l with
    | some l => (match popBack l with
        | .ok (r, rest) => showOptInt (.ok r) ++ " rest=" ++ (if rest.isEmpty then "-" else intList rest)
        | .error e => e.name)
    | none => "bad-op"
  | ["popfront", l] =>
    match parseIntList l with
    | some l => (match popFront l with
        | .ok (r, rest) => showOptInt (.ok r) ++ " rest=" ++ (if rest.isEmpty then "-" else intList rest)
        | .error e => e.name)
    | none => "bad-op"
  | ["findopt", m, k] =>
    match parsePairs m, k.toInt? with
    | some m, some k =>
      -- std::map::emplace keeps the first pair of a key and iterates in key order; find is by key, so order is irrelevant
      showOptInt (findOpt m k)
    | _, _ => "bad-op"
  | ["fromrange", size, l] =>
    match size.toNat?, parseIntList l with
    | some size, some l =>
      if size ≤ 4 then
        (match fromRange size l with
          | .ok (some xs) => "some " ++ (if xs.isEmpty then "-" else intList xs)
          | .ok none => "none"
          | .error e => e.name)
      else "bad-op"
    | _, _ => "bad-op"
  | ["rtindex", m, i] =>
    match m.toNat?, i.toNat? with
    | some m, some i =>
      if m ∈ [0, 1, 2, 3, 5] then
        (match runtimeIndex m i (fun k => s!"f {k}") "fail" with | .ok s => s | .error e => e.name)
      else "bad-op"
    | _, _ => "bad-op"
  | ["enumfs", s] =>
    match payload s with
    | some cs => (match fromString colorNames (String.ofList cs) with | some i => s!"some {i}" | none => "none")
    | none => "bad-op"
  | ["isflag", s] =>
    match payload s with
    | some cs =>
      (match isFlag cs with
        | .ok none => "none"
        | .ok (some (sh, name)) => (if sh then "short" else "long") ++ " s:" ++ String.ofList name
        | .error e => e.name)
    | none => "bad-op"
  | ["nextarg", args, names] =>
    match parseNames names with
    | some names =>
      (match nextArg ((splitList args).map String.toList) names with
        | .ok (some i) => s!"some {i}"
        | .ok none => "none"
        | .error e => e.name)
    | none => "bad-op"
  | ["readchars", s, count] =>
    match payload s, count.toNat? with
    | some cs, some count =>
      (match readChars (cs.map Char.toNat) count with
        | some r => "some s:" ++ String.ofList (r.map Char.ofNat)
        | none => "none")
    | _, _ => "bad-op"
  | ["streamtostring", s] =>
    match payload s with
    | some cs => "some s:" ++ String.ofList cs
    | none => "bad-op"
  | ["filesize", kind] =>
    match osAnswer kind with
    | some os => (match fileSize os with | some n => s!"some {n}" | none => "none")
    | none => "bad-op"
  | ["rmext", s] => if (payload s).isSome then "ok" else "bad-op"
  | ["extract", ty, s] =>
    if ty ∈ ["int", "uint", "short", "ulong", "string"] ∧ (payload s).isSome then "ok" else "bad-op"
  | ["dyncast", k] => if k = "d1" then "some" else if k = "d2" ∨ k = "base" then "none" else "bad-op"
  | _ => Fcppt.C06.Drv.handle toks

def main : IO Unit := Proto.run handle

end Fcppt.C01.Drv
