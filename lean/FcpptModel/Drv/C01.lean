import FcpptModel.Prelude.Proto
import FcpptModel.Model.C01
import FcpptModel.Model.C01.Stream
import FcpptModel.Model.C01.Path
import FcpptModel.Model.C01.Env
import FcpptModel.Model.C01.Vector
import FcpptModel.Model.C15.Text
import FcpptModel.Drv.C06
import FcpptModel.Drv.C15
/-!
Driver for C01: the container / string / argument / file helpers of `Model/C01.lean`; scalar
operations (`call`, `range1`, …) are delegated to the C06 driver (translated definitions).
Strings travel as `s:<chars>`, integer lists as `a,b,c` / `-`, argument vectors as `x,y,z` / `_`.
-/
namespace Fcppt.C01.Drv
open Fcppt Fcppt.Proto Fcppt.C01

def showOptInt : M (Option Int) → String
  | .ok (some v) => s!"some {v}"
  | .ok none => "none"
  | .error e => e.name

def hexVal (c : Char) : Option Nat :=
  if '0' ≤ c ∧ c ≤ '9' then some (c.toNat - 48) else if 'a' ≤ c ∧ c ≤ 'f' then some (c.toNat - 87) else none

def hexBytes : List Char → Option (List Nat)
  | [] => some []
  | a :: b :: r => do let x ← hexVal a; let y ← hexVal b; let rest ← hexBytes r; pure ((x * 16 + y) :: rest)
  | _ => none

/-- `s:<chars>` or `x:<hex bytes>` -/
def payload (t : String) : Option Str :=
  if t.startsWith "s:" then some (t.drop 2).toString.toList
  else if t.startsWith "x:" then (hexBytes (t.drop 2).toString.toList).map (·.map Char.ofNat)
  else none

def hexOut (bs : List Nat) : String :=
  "x:" ++ String.ofList (bs.flatMap fun b => [Proto.hexDigit (b / 16), Proto.hexDigit (b % 16)])

def str (cs : List Nat) : String := String.ofList (cs.map Char.ofNat)

/-- the stream the harness builds for a kind -/
def mkIn (kind : String) (content : List Nat) : Option (IStream × Bool) :=
  match kind with
  | "fresh" | "chunk1" | "chunk2" | "file" => some ({ buf := content }, false)
  | "eofbit" => some ({ buf := content, eof := true }, false)
  | "failbit" => some ({ buf := content, fail := true }, false)
  | "badbit" => some ({ buf := content, bad := true }, false)
  | "throwend" | "throwend1" => some ({ buf := content, throwsAtEnd := true }, false)
  | "nullbuf" => if content.isEmpty then some ({ buf := [], bad := true }, true) else none
  | "dir" => if content.isEmpty then some ({ buf := [], throwsAtEnd := true }, false) else none     -- underflow: EISDIR
  | _ => none

def mkOut (kind : String) : Option OStream :=
  let pre : List Nat := [97, 98]
  match kind with
  | "fresh" => some { content := pre }
  | "eofbit" => some { content := pre, eof := true }
  | "failbit" => some { content := pre, fail := true }
  | "badbit" => some { content := pre, bad := true }
  | "nullbuf" => some { bad := true }
  | "file" => some {}
  | k =>
    if k.startsWith "throwroom" then (k.drop 9).toString.toNat?.map fun n => { room := some n, throwsWhenFull := true }
    else if k.startsWith "room" then (k.drop 4).toString.toNat?.map fun n => { room := some n }
    else none

/-- `s:<text>` when printable non-blank ASCII, `x:<hex>` otherwise -/
def outStr (cs : List Nat) : String := if cs.all (fun c => 0x21 ≤ c ∧ c ≤ 0x7e) then "s:" ++ str cs else hexOut cs

def showOptStr : Option (List Nat) → String
  | some r => "some " ++ outStr r
  | none => "none"

def showOptVec : M (Option (List Int)) → String
  | .ok (some v) => "some " ++ (if v.isEmpty then "-" else intList v)
  | .ok none => "none"
  | .error e => e.name

def showOptCode : Option Nat → String
  | some c => s!"some {c}"
  | none => "none"

/-- is_open answers of the operating system for the scratch paths (read / write) -/
def openAnswer (mode kind : String) : Option Bool :=
  if mode = "r" then
    if kind ∈ ["file0", "file5", "dir", "dir2", "sub", "trailing", "symfile", "symsym", "symdir", "dot", "weirdname", "relfile", "reldot",
               "reldotdot", "reldir"] then some true
    else if kind ∈ ["filetrailing", "missing", "dangling", "selfloop", "loopa", "loopb", "longname", "underfile", "underloop",
                    "longpath", "missingparent", "emptypath", "relmissing", "relunder"] then some false
    else none
  else if mode = "w" then
    if kind = "new" then some true
    else if kind ∈ ["dir", "symdir", "underfile", "missingparent", "longname", "selfloop", "emptypath", "trailing", "filetrailing",
                    "longpath", "underloop"] then some false
    else none
  else none

/-- 0 = the standard function cleared the error code -/
def mkdirAnswer (recursive : Bool) (kind : String) : Option Nat :=
  if kind ∈ ["new", "dir", "dir2", "sub", "trailing", "symdir", "dot", "reldir"] then some 0
  else if kind = "newnested" then some (if recursive then 0 else 2)
  else if kind ∈ ["file0", "file5", "filetrailing", "dangling", "symfile", "symsym", "selfloop", "loopa", "loopb", "longname",
                  "underfile", "underloop", "longpath", "emptypath", "fifo", "weirdname", "relfile", "reldot", "reldotdot", "relunder"] then some 1
  else none

/-- error code and number of entries of the (recursive) directory range -/
def rangeAnswer (recursive : Bool) (kind : String) : Option (Nat × Nat) :=
  match kind with
  | "dir" | "symdir" => some (0, 0)
  | "dir2" | "trailing" | "reldir" => some (0, if recursive then 5 else 4)
  | "sub" => some (0, 1)
  | _ =>
    if kind ∈ ["file0", "file5", "filetrailing", "missing", "dangling", "symfile", "symsym", "selfloop", "loopa", "loopb",
               "longname", "underfile", "underloop", "longpath", "missingparent", "emptypath", "fifo", "weirdname", "relfile", "reldot",
               "reldotdot", "relmissing", "relunder"] then some (1, 0)
    else none

/-- the environment the harness sets up -/
def harnessEnv : List (Str × Str) :=
  [("VERIF_C01_SET".toList, "value".toList), ("VERIF_C01_EMPTY".toList, []), ("VERIF_C01_EQ".toList, "a=b".toList)]

/-- what `abi::__cxa_demangle` says about the fixed names of the generator -/
def demangleAnswer : String → Option String
  | "i" => some "demangled s:int"
  | "x" => some "demangled s:long long"
  | "" => some "empty"
  | "_Z" | "_ZN" | "_Z1" | "St6vectorIiSaIiE" | "N3c012d3" | "3foo3bar" | "_Z1fv_" | "abc" | "-" | "__" | "9999999999a" | "N" | "S" | "I" | "T_" => some "same"
  | "_Z1fv" => some "demangled s:f()"
  | "N3c012d3E" => some "demangled s:c01::d3"
  | "St6vectorIiSaIiEE" => some "demangled s:std::vector<int, std::allocator<int> >"
  | "3foo" => some "demangled s:foo"
  | "PKc" => some "demangled s:char const*"
  | _ => none

def fclassOf : String → Option FClass
  | "0" | "-0" => some .zero
  | "1" | "-1" | "denorm" | "-denorm" | "max" | "inf" | "-inf" => some .nonzero
  | "nan" => some .nan
  | _ => none

def clsOf : String → Option Cls
  | "base" => some .base | "d1" => some .d1 | "d2" => some .d2 | "d3" => some .d3 | "m" => some .m | "iface" => some .iface
  | _ => none

def extractDest : String → Option Fcppt.C15.Dest
  | "int" => some (.num ⟨4, true⟩) | "uint" => some (.num ⟨4, false⟩) | "short" => some (.num ⟨2, true⟩)
  | "ulong" => some (.num ⟨8, false⟩) | "long" => some (.num ⟨8, true⟩)
  | "char" | "schar" => some (.char true) | "uchar" => some (.char false)
  | _ => none

/-- wait status of the commands of the `system` operation -/
def waitStatus : String → Option Nat
  | "exit0" | "true" | "empty" | "exit256" => some 0
  | "exit3" => some (3 * 256)
  | "exit255" => some (255 * 256)
  | "notfound" => some (127 * 256)
  | "kill" => some 9
  | "term" => some 15
  | "segv" => some 11            -- (the core flag 0x80 may be set as well; it does not change WIFEXITED)
  | _ => none

/-- MEASURED (libstdc++ 12 `num_get` for floating point, classic locale): what `extract_from_string<float / double>` answers on the
fixed texts of the generator (hex of the text ↦ result for float, for double).  An oracle table, not a model. -/
def floatAnswer : String → Option (String × String)
  | "31" => some ("some finite", "some finite")
  | "312e35" => some ("some finite", "some finite")
  | "2d312e35" => some ("some finite", "some finite")
  | "616263" => some ("none", "none")
  | "" => some ("none", "none")
  | "3165343030" => some ("none", "none")
  | "31652d343030" => some ("some zero", "some zero")
  | "31653338" => some ("some finite", "some finite")
  | "31653339" => some ("none", "some finite")
  | "31652d3436" => some ("some zero", "some finite")
  | "6e616e" => some ("none", "none")
  | "696e66" => some ("none", "none")
  | "2d696e66" => some ("none", "none")
  | "696e66696e697479" => some ("none", "none")
  | "3078317033" => some ("none", "none")
  | "312c35" => some ("none", "none")
  | "313b35" => some ("none", "none")
  | "312e3520" => some ("none", "none")
  | "20312e35" => some ("some finite", "some finite")
  | "3165" => some ("none", "none")
  | "31652b" => some ("none", "none")
  | "2b2e35" => some ("some finite", "some finite")
  | "2e" => some ("none", "none")
  | "2e35" => some ("some finite", "some finite")
  | "352e" => some ("some finite", "some finite")
  | "312e352e32" => some ("none", "none")
  | "2d30" => some ("some zero", "some zero")
  | "3165333038" => some ("none", "some finite")
  | "3165333039" => some ("none", "none")
  | "2d3165333039" => some ("none", "none")
  | "31652d333233" => some ("some zero", "some finite")
  | "31652d333234" => some ("some zero", "some zero")
  | "313233343536373839303132333435363738393031323334353637383930" => some ("some finite", "some finite")
  | "302e316531" => some ("some finite", "some finite")
  | "314533" => some ("some finite", "some finite")
  | "316433" => some ("none", "none")
  | "3166" => some ("none", "none")
  | _ => none

/-- `extract_from_string<std::string>`: `>> word`, then the stream must be at its end -/
def extractString (src : List Nat) : Option (List Nat) :=
  let (s, w) := Fcppt.C15.getWord (Fcppt.C15.IStream.ofString src)
  let (_, c) := Fcppt.C15.peek s
  if s.fail then none else if c.isNone then w else none

def splitList (s : String) : List String := if s = "_" then [] else if s = "__" then [""] else s.splitOn ","

def colorNames : List String := ["foo", "bar", "baz", "fo", "foobar"]

/-- what the operating system answers for the scratch files the harness creates -/
def osAnswer : String → Option (Option Nat)
  | "file0" => some (some 0) | "file5" => some (some 5) | "file4096" => some (some 4096)
  | "sparse5g" => some (some 5368709120)
  | "weirdname" => some (some 7)
  | "relfile" | "reldot" | "reldotdot" => some (some 5)
  | "reldir" | "relmissing" | "relunder" => some none
  | "symfile" => some (some 5)
  | "symsym" => some (some 5)
  | "dir" | "missing" | "dangling" | "dot" | "emptypath" | "dir2" | "sub" | "trailing" | "filetrailing" | "missingparent" => some none
  -- stat fails with ELOOP / ENAMETOOLONG / ENOTDIR, or the file exists but is not a regular file: no size either
  | "selfloop" | "loopa" | "loopb" | "symdir" | "fifo" | "longname" | "underfile" | "underloop" | "longpath" => some none
  | _ => none

def parsePairs (s : String) : Option (List (Int × Int)) :=
  (splitList s).mapM fun kv =>
    match kv.splitOn ":" with
    | [k, v] => do let k ← k.toInt?; let v ← v.toInt?; pure (k, v)
    | _ => none

def parseNames (s : String) : Option (List (Str × Bool)) :=
  (splitList s).mapM fun n =>
    match n.splitOn ":" with
    | [name, "s"] => some (name.toList, true)
    | [name, "l"] => some (name.toList, false)
    | _ => none

def handle (toks : List String) : String :=
  match toks with
  | ["atopt", l, i] =>
    match parseIntList l, i.toNat? with
    | some l, some i => showOptInt (atOptional l i)
    | _, _ => "bad-op"
  | ["front", l] => match parseIntList l with | some l => showOptInt (maybeFront l) | none => "bad-op"
  | ["back", l] => match parseIntList l with | some l => showOptInt (maybeBack l) | none => "bad-op"
  | ["popback", l] =>
    match parseIntList l with
    | some l => (match popBack l with
        | .ok (r, rest) => showOptInt (.ok r) ++ " rest=" ++ (if rest.isEmpty then "-" else intList rest)
        | .error e => e.name)
    | none => "bad-op"
  | ["popfront", l] =>
    match parseIntList l with
    | some l => (match popFront l with
        | .ok (r, rest) => showOptInt (.ok r) ++ " rest=" ++ (if rest.isEmpty then "-" else intList rest)
        | .error e => e.name)
    | none => "bad-op"
  | ["findopt", m, k] =>
    match parsePairs m, k.toInt? with
    | some m, some k =>
      -- std::map::emplace keeps the first pair of a key and iterates in key order; find is by key, so order is irrelevant
      showOptInt (findOpt m k)
    | _, _ => "bad-op"
  | ["fromrange", size, l] =>
    match size.toNat?, parseIntList l with
    | some size, some l =>
      if size ≤ 4 then
        (match fromRange size l with
          | .ok (some xs) => "some " ++ (if xs.isEmpty then "-" else intList xs)
          | .ok none => "none"
          | .error e => e.name)
      else "bad-op"
    | _, _ => "bad-op"
  | ["rtindex", ty, m, i] =>
    match m.toNat?, i.toNat? with
    | some m, some i =>
      let lim := if ty = "u8" then 256 else if ty = "u32" then 4294967296 else if ty = "u64" then 18446744073709551616 else 0
      if m ∈ [0, 1, 2, 3, 5] ∧ i < lim then
        (match runtimeIndex m i (fun k => s!"f {k}") "fail" with | .ok s => s | .error e => e.name)
      else "bad-op"
    | _, _ => "bad-op"
  | ["enumfs", s] =>
    match payload s with
    | some cs => (match fromString colorNames (String.ofList cs) with | some i => s!"some {i}" | none => "none")
    | none => "bad-op"
  | ["isflag", s] =>
    match payload s with
    | some cs =>
      (match isFlag cs with
        | .ok none => "none"
        | .ok (some (sh, name)) => (if sh then "short" else "long") ++ " " ++ outStr (name.map Char.toNat)
        | .error e => e.name)
    | none => "bad-op"
  | ["nextarg", args, names] =>
    match parseNames names with
    | some names =>
      (match nextArg ((splitList args).map String.toList) names with
        | .ok (some i) => s!"some {i}"
        | .ok none => "none"
        | .error e => e.name)
    | none => "bad-op"
  | ["vdiv", ty, v, d] =>
    match parseIntList v, d.toInt? with
    | some v, some d =>
      if ty = "i32" then showOptVec (vdiv_i32 v d) else if ty = "u32" then showOptVec (vdiv_u32 v d) else "bad-op"
    | _, _ => "bad-op"
  | ["vdivv", ty, l, r] =>
    match parseIntList l, parseIntList r with
    | some l, some r =>
      if l.length ≠ r.length then "bad-op"
      else if ty = "i32" then showOptVec (vdivv_i32 l r) else if ty = "u32" then showOptVec (vdivv_u32 l r) else "bad-op"
    | _, _ => "bad-op"
  | ["vmod", ty, v, d] =>
    match parseIntList v, d.toInt? with
    | some v, some d => if ty = "u32" then showOptVec (vmod_u32 v d) else "bad-op"
    | _, _ => "bad-op"
  | ["vmodv", ty, l, r] =>
    match parseIntList l, parseIntList r with
    | some l, some r => if l.length ≠ r.length then "bad-op" else if ty = "u32" then showOptVec (vmodv_u32 l r) else "bad-op"
    | _, _ => "bad-op"
  | ["vceildiv", ty, v, d] =>
    match parseIntList v, d.toInt? with
    | some v, some d => if ty = "i32" then showOptVec (vceildiv_i32 v d) else "bad-op"
    | _, _ => "bad-op"
  | ["readchars", kind, s, count] =>
    match payload s, count.toNat? with
    | some cs, some count =>
      (match mkIn kind (cs.map Char.toNat) with
        | some (st, _) =>
          (match readChars st count with
            | .ok (st', r) => showOptStr r ++ " " ++ st'.bits
            | .error e => e.name)
        | none => "bad-op")
    | _, _ => "bad-op"
  | ["readchars2", kind, s, c1, c2] =>
    match payload s, c1.toNat?, c2.toNat? with
    | some cs, some c1, some c2 =>
      (match mkIn kind (cs.map Char.toNat) with
        | some (st, _) =>
          (match readChars st c1 with
            | .ok (st1, r1) =>
              (match readChars st1 c2 with
                | .ok (st2, r2) => showOptStr r1 ++ " " ++ showOptStr r2 ++ " " ++ st2.bits
                | .error e => e.name)
            | .error e => e.name)
        | none => "bad-op")
    | _, _, _ => "bad-op"
  | ["sts", kind, s] =>
    match payload s with
    | some cs =>
      (match mkIn kind (cs.map Char.toNat) with
        | some (st, nullbuf) => showOptStr (streamToString nullbuf st)
        | none => "bad-op")
    | none => "bad-op"
  | ["ioget", kind, s] =>
    match payload s with
    | some cs =>
      (match mkIn kind (cs.map Char.toNat) with
        | some (st, _) =>
          let (st1, r1) := ioGet st
          let (st2, r2) := ioGet st1
          showOptCode r1 ++ " " ++ showOptCode r2 ++ " " ++ st2.bits
        | none => "bad-op")
    | none => "bad-op"
  | ["iopeek", kind, s] =>
    match payload s with
    | some cs =>
      (match mkIn kind (cs.map Char.toNat) with
        | some (st, _) =>
          let (st1, r1) := ioPeek st
          let (st2, r2) := ioPeek st1
          showOptCode r1 ++ " " ++ showOptCode r2 ++ " " ++ st2.bits
        | none => "bad-op")
    | none => "bad-op"
  | ["ioread", ty, endian, kind, s] =>
    let tyInfo : Option (Nat × Bool) :=
      match ty with
      | "u8" => some (1, false) | "u16" => some (2, false) | "u32" => some (4, false) | "i32" => some (4, true) | "u64" => some (8, false)
      | _ => none
    match tyInfo, payload s with
    | some (size, signed), some cs =>
      if endian = "big" ∨ endian = "little" then
        (match mkIn kind (cs.map Char.toNat) with
          | some (st, _) =>
            let (st', r) := ioRead size signed (endian = "big") st
            (match r with | some v => s!"some {v}" | none => "none") ++ " " ++ st'.bits
          | none => "bad-op")
      else "bad-op"
    | _, _ => "bad-op"
  | ["ioextract", ty, kind, s] =>
    match extractDest ty, payload s with
    | some d, some cs =>
      let codes := cs.map Char.toNat
      -- the stream-state model of C15 has eofbit and failbit; badbit / null streambuf / throwing streambuf: the sentry fails alike
      let st : Option Fcppt.C15.IStream :=
        match kind with
        | "fresh" | "chunk1" | "chunk2" | "file" => some { buf := codes }
        | "eofbit" => some { buf := codes, eof := true }
        | "failbit" | "badbit" => some { buf := codes, fail := true }
        | _ => none
      (match st with
        | some st => (match (Fcppt.C15.extract d st).2 with | some v => s!"some {v}" | none => "none")
        | none => "bad-op")
    | _, _ => "bad-op"
  | ["writechars", "devfull", s] =>
    -- /dev/full through an ofstream: libstdc++'s filebuf hands 1024 characters or more straight to the device (fails), fewer stay in its buffer
    match payload s with
    | some cs =>
      let o : OStream := if cs.length < 1024 then {} else { room := some 0 }
      let (o', r) := writeChars o (cs.map Char.toNat)
      b01 r ++ " s: " ++ o'.bits
    | none => "bad-op"
  | ["writechars", kind, s] =>
    match mkOut kind, payload s with
    | some o, some cs =>
      let (o', r) := writeChars o (cs.map Char.toNat)
      b01 r ++ " s:" ++ str o'.content ++ " " ++ o'.bits
    | _, _ => "bad-op"
  | ["nw", inp] =>
    -- narrow_locale / widen_locale (the codecvt loop with its growing buffer): the C15 model is the reference
    (match Fcppt.C15.Drv.handleUtf ["nw", inp] with | some r => r | none => "bad-op")
  | ["filesize", kind] =>
    match osAnswer kind with
    | some os => (match fileSize os with | some n => s!"some {n}" | none => "none")
    | none => "bad-op"
  | ["fopen", mode, kind] =>
    let exn := mode = "rx" ∨ mode = "wx"
    let m := if mode = "r" ∨ mode = "rx" then "r" else if mode = "w" ∨ mode = "wx" then "w" else ""
    match openAnswer m kind with
    | some isOpen =>
      if exn then (match fsOpenExn isOpen with | .ok _ => "some" | .error e => e.name)
      else (match fsOpen isOpen with | some _ => "some" | none => "none")
    | none => "bad-op"
  | ["mkdir", kind] =>
    match mkdirAnswer false kind with
    | some ec =>
      let r := createDirectory ec
      (if r.isSome then "error" else "none") ++ (if kind = "new" ∨ kind = "newnested" then (if ec = 0 then " made" else " not-made") else "")
    | none => "bad-op"
  | ["mkdirs", kind] =>
    match mkdirAnswer true kind with
    | some ec =>
      let r := createDirectory ec
      (if r.isSome then "error" else "none") ++ (if kind = "new" ∨ kind = "newnested" then (if ec = 0 then " made" else " not-made") else "")
    | none => "bad-op"
  | [op, opt, kind] =>
    if op = "dirrange" ∨ op = "rdirrange" then
      if opt ∈ ["none", "skip", "follow"] then
        (match rangeAnswer (op = "rdirrange") kind with
          | some (ec, n) => (match makeRange ec n with | .inl _ => "failure" | .inr n => s!"success {n}")
          | none => "bad-op")
      else "bad-op"
    else if op = "path" then
      (match payload kind with
        | some p =>
          (match opt with
            | "rmext" => "s:" ++ String.ofList (Path.removeExtension p)
            | "ext" => "s:" ++ String.ofList (Path.extension p)
            | "extnodot" => (match Path.extensionWithoutDot p with | .ok r => "s:" ++ String.ofList r | .error e => e.name)
            | "stem" => "s:" ++ String.ofList (Path.stem p)
            | "normalize" => "s:" ++ String.ofList (Path.normalize p)
            | "nsub" => toString (Path.numSubpaths p)
            | "tostring" => "s:" ++ String.ofList (Path.pathToString p)
            | _ => "bad-op")
        | none => "bad-op")
    else if op = "replext" then
      (match payload opt, payload kind with
        | some p, some e => "s:" ++ String.ofList (Path.replaceExtension p e)
        | _, _ => "bad-op")
    else if op = "stripprefix" then
      (match payload opt, payload kind with
        | some pre, some p =>
          (match Path.stripPrefix pre p with
            | .ok r => "s:" ++ String.ofList r
            | .error .oob => "unsafe"           -- outside the documented precondition: the harness does not call
            | .error e => e.name)
        | _, _ => "bad-op")
    else if op = "args" ∨ op = "args2" then
      (match opt.toInt? with
        | some argc =>
          let argv := (splitList kind).map String.toList
          if argc < 0 ∨ argc.toNat ≠ argv.length then "bad-op"
          else
            (match (if op = "args" then args argc argv else argsFromSecond argc argv) with
              | .ok r => s!"{r.length} " ++ (if r.isEmpty then "_" else ",".intercalate (r.map String.ofList))
              | .error e => e.name)
        | none => "bad-op")
    else if op = "flagname" then
      (match payload kind with
        | some name =>
          if opt = "short" ∨ opt = "long" then
            let n := flagName name (opt = "short")
            "s:" ++ String.ofList n ++ " " ++
              (match isFlag n with
                | .ok none => "none"
                | .ok (some (sh, nm)) => (if sh then "short" else "long") ++ " s:" ++ String.ofList nm
                | .error e => e.name)
          else "bad-op"
        | none => "bad-op")
    else if op = "atan2" then
      (match fclassOf opt, fclassOf kind with
        | some x, some y => (match vectorAtan2 x y with | none => "none" | some .nan => "some nan" | some _ => "some angle")
        | _, _ => "bad-op")
    else if op = "cast" then
      (match clsOf opt, clsOf kind with
        | some target, some dyn =>
          if dyn = .iface ∨ (target = .base) then "bad-op"
          else (match dynamicCast dyn target with | some _ => "some" | none => "none")
        | _, _ => "bad-op")
    else if op = "extract" ∨ op = "extractg" then
      (match payload kind with
        | some src =>
          let codes := src.map Char.toNat
          if opt = "string" then (match extractString codes with | some w => "some " ++ hexOut w | none => "none")
          else if opt = "float" ∨ opt = "double" then
            (match floatAnswer (kind.drop 2).toString with
              | some (f, d) => if kind.startsWith "x:" then (if opt = "float" then f else d) else "bad-op"
              | none => "bad-op")
          else
            (match extractDest opt with
              | some d => (match Fcppt.C15.extractFromString d codes with | some v => s!"some {v}" | none => "none")
              | none => "bad-op")
        | none => "bad-op")
    else Fcppt.C06.Drv.handle toks
  | ["uptrstd", k] =>
    if k = "null" ∨ k = "object" then (match uniquePtrFromStd (k = "object") with | some _ => "some" | none => "none") ++ " source-null" else "bad-op"
  | ["weaklock", k] =>
    -- (owners alive, including the one the harness keeps)
    let owners : Option Nat := match k with | "live" => some 1 | "expired" => some 0 | "empty" => some 0 | _ => none
    (match owners with
      | some n => (match weakLock n with | some c => s!"some {c}" | none => "none 0")
      | none => "bad-op")
  | ["getenv", n] =>
    match payload n with
    | some name => (match getenv harnessEnv name with | some v => "some s:" ++ String.ofList v | none => "none")
    | none => "bad-op"
  | ["system", k] => match waitStatus k with | some st => (match systemResult st with | some v => s!"some {v}" | none => "none") | none => "bad-op"
  | ["strerror", n] => if n.toInt?.isSome then "ok" else "bad-op"
  | [op, tt] =>
    if op = "gmtime" ∨ op = "localtime" then
      (match tt.toInt? with
        | some t =>
          if t < -(2 : Int) ^ 63 ∨ t ≥ (2 : Int) ^ 63 then "bad-op"
          else
            (match timeGmtime (gmtimeR t) with
              | .ok r => s!"ok {r.year} {r.mon} {r.mday} {r.hour} {r.min} {r.sec}"
              | .error e => e.name)
        | none => "bad-op")
    else if op = "typename" then
      (match payload tt with
        | some n => (match demangleAnswer (String.ofList n) with | some r => r | none => "bad-op")
        | none => "bad-op")
    else if op = "typeinfo" then (if tt ∈ ["int", "string", "d3", "lambda"] then "ok" else "bad-op")
    else Fcppt.C06.Drv.handle toks
  | _ => Fcppt.C06.Drv.handle toks

def main : IO Unit := Proto.run handle

end Fcppt.C01.Drv
