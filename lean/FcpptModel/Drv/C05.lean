import FcpptModel.Prelude.Proto
/-! Driver for C05 — placeholder until the property's model is built. -/
namespace Fcppt.C05.Drv
def main : IO Unit := Fcppt.Proto.run (fun _ => "not-built")
end Fcppt.C05.Drv
