import FcpptModel.Prelude.Proto
import FcpptModel.Model.C05
import FcpptModel.Spec.C05
/-!
Driver for C05.  One operation per line:

    <op> <T|M> <nargs> <cat>:<ids> …  <par> …

`T`: the copyable instrumented element type, `M`: its move-only twin (only accepted when the
model's program contains no copy — such an instantiation would not compile).  `<cat>` is
`l` (T&), `c` (T const&), `r` (T&& / by value), `i` (in/out T&); `<ids>` is `1,2,3` or `-`.
Result line: `t=<tag> r=<slots> a0=<slots> … cp=<ids> mv=<ids> ram=<ids> lost=<ids> mk=<n>`; a slot is its identity,
prefixed with `~` when the object is moved-from; `cp` and `ram` sorted without duplicates,
`mv` sorted with multiplicity (moves out of argument objects, in-place moves included), `lost` sorted with
multiplicity (live values destroyed or overwritten during the call), `mk` = number of values the user's functions
made from nothing (fresh values and values derived from an lvalue), `uc` = the value category with which the library
handed an element to a user's function, one entry per element and call, in call order (`l` = lvalue, `r` = rvalue; see
`ucOf` in Model/C05.lean).
-/
namespace Fcppt.C05.Drv
open Fcppt.Proto

def parseCat : String → Option Cat
  | "l" => some .lv | "c" => some .cr | "r" => some .rv | "i" => some .io | _ => none

def parseArg (s : String) : Option (Cat × List Nat) :=
  match s.splitOn ":" with
  | [c, ids] => do
    let c ← parseCat c
    let ids ← parseNatList ids
    some (c, ids)
  | _ => none

def opOfName (s : String) : Option Op := Op.all.find? (·.name == s)

def insertSorted (x : Nat) : List Nat → List Nat
  | [] => [x]
  | y :: ys => if x ≤ y then x :: y :: ys else y :: insertSorted x ys

def sort (l : List Nat) : List Nat := l.foldr insertSorted []

def dedup : List Nat → List Nat
  | [] => []
  | x :: xs => if xs.contains x then dedup xs else x :: dedup xs

def showIds (l : List Nat) : String := if l.isEmpty then "-" else natList l

def showSlots (l : List Slot) : String :=
  let p := present l
  if p.isEmpty then "-" else ",".intercalate (p.map fun s => (if s.isLive then "" else "~") ++ toString s.id)

def isCopy : Instr → Bool
  | .xfer _ _ .copy _ => true
  | _ => false

/-- values made from nothing by the user's functions -/
def made : Instr → Nat
  | .fresh _ _ => 1
  | .derive _ _ k _ => k
  | _ => 0

def showUc (l : List Char) : String := if l.isEmpty then "-" else ",".intercalate (l.map fun c => c.toString)

def line (o : Op) (inp : Input) : String :=
  let st := exec o inp
  if !st.oob.isEmpty then "fault:oob" else
  let args := (st.args.zipIdx.map fun (l, a) => s!"a{a}={showSlots l}")
  " ".intercalate ([s!"t={tag o inp}", s!"r={showSlots st.res}"] ++ args ++
    [s!"cp={showIds (sort (dedup st.cp))}", s!"mv={showIds (sort (st.mv ++ st.sw))}", s!"ram={showIds (sort (dedup st.ram))}",
     s!"lost={showIds (sort st.lost)}", s!"mk={((prog o inp).map made).sum}", s!"uc={showUc ((prog o inp).flatMap (ucOf o inp))}"])

def handle (toks : List String) : String :=
  match toks with
  | name :: ty :: n :: rest =>
    match opOfName name, n.toNat? with
    | some o, some n =>
      if (ty ≠ "T" ∧ ty ≠ "M") ∨ rest.length < n then "bad-op" else
      match (rest.take n).mapM parseArg, (rest.drop n).mapM String.toNat? with
      | some args, some par =>
        let inp : Input := { args := args, par := par }
        if !wf o inp then "bad-op"
        else if ty = "M" ∧ (prog o inp).any isCopy then "bad-op"
        else line o inp
      | _, _ => "bad-op"
    | _, _ => "bad-op"
  | _ => "bad-op"

def main : IO Unit := Proto.run handle

end Fcppt.C05.Drv
