import FcpptModel.Prelude.Fault
/-!
# C16 — model of the fcppt.algorithm functions and the container / array / tuple helpers

Every definition mirrors the control flow of one C++ function (file named in its doc comment).
C++ lambdas that mutate captured variables are state-passing functions here (`σ` is the captured
state); the *visit log* of a loop is obtained by running the same model with a logging body
(`logged`).  Iterators are positions (`Nat`) into the list that stands for the container;
dereferencing a position is `xs[i]?`, a failed dereference is `Fault.oob`.

| model                         | C++                                                                    |
|-------------------------------|------------------------------------------------------------------------|
| `loopBreak`                   | `algorithm/loop_break_impl.hpp` (range-for, `return` on `break_`)      |
| `tupleLoopBreak`              | `algorithm/detail/tuple_loop_break.hpp`, `mpl/list/for_each_break.hpp` |
| `loop`                        | `algorithm/loop.hpp`                                                   |
| `mapSeq`, `mapSet`            | `algorithm/map_impl.hpp` + `detail/map_reserve.hpp`                    |
| `mapOptional`                 | `algorithm/map_optional.hpp`                                           |
| `mapConcat`                   | `algorithm/map_concat.hpp` + `detail/map_concat.hpp` + `container/join.hpp` |
| `fold`, `foldBreak`           | `algorithm/fold.hpp`, `algorithm/fold_break.hpp`                       |
| `allOf`, `containsIf`         | `algorithm/all_of.hpp`, `algorithm/contains_if.hpp`                    |
| `stdFind`, `contains`, `findOpt`, `findIfOpt`, `indexOf` | `contains.hpp`, `find_opt.hpp`, `find_if_opt.hpp`, `index_of.hpp` |
| `findByOpt`                   | `algorithm/find_by_opt.hpp`                                            |
| `lowerBound`, `upperBound`, `stdEqualRange`, `equalRange`, `singular`, `binarySearch` | libstdc++ `std::equal_range`, `equal_range.hpp`, `range/singular.hpp`, `binary_search.hpp` |
| `stdRemoveIf`, `removeIf`, `remove` | `std::remove_if` (specification), `remove_if.hpp`, `remove.hpp`  |
| `stdUnique`, `uniqueIf`, `unique`   | `std::unique`, `unique_if.hpp`, `unique.hpp`                     |
| `reverse`                     | `algorithm/reverse.hpp` + `detail/reverse.hpp`                         |
| `repeatLoop`                  | `algorithm/repeat.hpp`                                                 |
| `generateN`                   | `algorithm/generate_n.hpp`                                             |
| `splitString`, `joinStrings`  | `algorithm/split_string.hpp`, `algorithm/join_strings.hpp`             |
| `seqIteration`, `mapIteration`| `algorithm/sequence_iteration.hpp`, `algorithm/map_iteration.hpp`      |
| `join`                        | `container/join.hpp` + `detail/join_impl.hpp`, `join_all.hpp`          |
| `atOptional`                  | `container/at_optional.hpp`                                            |
| `findOptMapped`, `getOrInsert`| `container/find_opt_mapped.hpp`, `get_or_insert_with_result.hpp`       |
| `keySet`, `mapValues`         | `container/key_set.hpp`, `map_values_copy.hpp`                         |
| `setUnion`, `setIntersection`, `setDifference` | `container/set_union.hpp` … (std merge loops + `std::inserter`) |
| `indexMapGet`                 | `container/index_map_impl.hpp`                                         |
| `arrayInit`, `arrayMap`, `arrayAppend`, `arrayJoin`, `arrayPushBack`, `arrayFromRange` | `array/init.hpp`, `map.hpp`, `append.hpp`, `join.hpp`, `push_back.hpp`, `from_range.hpp` |
| `tupleMap`, `tupleConcat`, `tuplePushBack` | `tuple/map.hpp`, `tuple/concat.hpp`, `tuple/push_back.hpp` |
-/
namespace Fcppt.C16

variable {α β σ : Type}

/-- `fcppt::loop` -/
inductive Loop where
  | continue_ | break_
  deriving DecidableEq, Repr, Inhabited

/-! ## loops -/

/-- `loop_break_impl::execute`: `for (auto&& e : range) switch (body(e)) { case break_: return; case continue_: break; }` -/
def loopBreak (xs : List α) (body : α → σ → Loop × σ) (s : σ) : σ :=
  match xs with
  | [] => s
  | x :: rest =>
    match body x s with
    | (.break_, s') => s'
    | (.continue_, s') => loopBreak rest body s'

/-- `detail::tuple_loop_break<Index>` and `mpl::list::detail::for_each_break`: recursion on the static index;
    `Index == size` ends it, `break_` ends it, `continue_` recurses with `Index + 1`. -/
def tupleLoopBreak (xs : List α) (body : α → σ → Loop × σ) (index : Nat) (s : σ) : σ :=
  if h : index < xs.length then
    match body xs[index] s with
    | (.continue_, s') => tupleLoopBreak xs body (index + 1) s'
    | (.break_, s') => s'
  else s
termination_by xs.length - index

/-- `algorithm::loop`: `loop_break` with a body that always returns `continue_` -/
def loop (xs : List α) (body : α → σ → σ) (s : σ) : σ :=
  loopBreak xs (fun x s => (.continue_, body x s)) s

/-- instrument a loop body: the log records every element the body is called with, in call order -/
def logged (body : α → σ → Loop × σ) : α → σ × List α → Loop × (σ × List α) :=
  fun x (s, log) => let r := body x s; (r.1, (r.2, log ++ [x]))

/-! ## result containers -/

/-- A result container as far as `map` can see it: `cap` is what `reserve` asked for (capacity is not
    observable through the value), `elems` the contents in iteration order. -/
structure Cont (β : Type) where
  cap : Nat := 0
  elems : List β := []
  deriving Repr

/-- `map_reserve`: `_dest.reserve(source_size)` if `optimize_map<Dest, Source>`, nothing otherwise.
    `hint = none` is the overload that does nothing. -/
def Cont.reserve (c : Cont β) : Option Nat → Cont β
  | none => c
  | some n => { c with cap := max c.cap n }

/-- `result.insert(result.end(), x)` on a sequence container -/
def Cont.insertEndSeq (c : Cont β) (x : β) : Cont β := { c with elems := c.elems ++ [x] }

/-- `std::set::insert(hint, x)` / `insert(x)`: ordered insertion, an equivalent key is not inserted twice -/
def setInsert (x : Nat) : List Nat → List Nat
  | [] => [x]
  | y :: ys => if x < y then x :: y :: ys else if y < x then y :: setInsert x ys else y :: ys

def Cont.insertEndSet (c : Cont Nat) (x : Nat) : Cont Nat := { c with elems := setInsert x c.elems }

/-- contents of a `std::set<int>` built from a sequence of insertions -/
def setOfList (l : List Nat) : List Nat := l.foldl (fun acc x => setInsert x acc) []

/-! ## map, map_optional, map_concat, fold, fold_break -/

/-- `map_impl::execute` into a sequence container (vector, list, deque):
    `Target result{}; map_reserve(result, arg); loop(arg, [&](e){ result.insert(result.end(), f(e)); }); return result;`
    The state also carries the log of the arguments `f` was called with. -/
def mapSeq (hint : Option Nat) (xs : List α) (f : α → β) : Cont β × List α :=
  let result : Cont β := {}
  let result := result.reserve hint
  loop xs (fun e (r, log) => (r.insertEndSeq (f e), log ++ [e])) (result, [])

/-- the same into a `std::set<int>` (no `reserve` member: `has_reserve` is false) -/
def mapSet (xs : List α) (f : α → Nat) : Cont Nat × List α :=
  let result : Cont Nat := {}
  loop xs (fun e (r, log) => (r.insertEndSet (f e), log ++ [e])) (result, [])

/-- `map_optional`: range-for, `maybe_void(f(e), [&](inner){ result.insert(result.end(), inner); })` -/
def mapOptionalStep (f : α → Option β) (st : List β × List α) (e : α) : List β × List α :=
  match f e with
  | some inner => (st.1 ++ [inner], st.2 ++ [e])
  | none => (st.1, st.2 ++ [e])

def mapOptional (xs : List α) (f : α → Option β) : List β × List α :=
  xs.foldl (mapOptionalStep f) ([], [])

/-- `fold`: `loop(range, [&](e){ state = f(e, move(state)); }); return state;` -/
def fold (xs : List α) (state : σ) (f : α → σ → σ) : σ :=
  loop xs (fun e st => f e st) state

/-- `container::join(first, args...)`: `insert(end, begin, end)` of every further argument, in order -/
def join (first : List β) (args : List (List β)) : List β :=
  args.foldl (fun result c => result ++ c) first

/-- `join` on `std::set<int>` (`has_insert_range`): `result.insert(begin, end)` -/
def joinSet (first : List Nat) (args : List (List Nat)) : List Nat :=
  args.foldl (fun result c => c.foldl (fun r x => setInsert x r) result) first

/-- `map_concat`: `fold(source, Target(), [&](e, state){ return join(move(state), f(e)); })` -/
def mapConcat (xs : List α) (f : α → List β) : List β × List α :=
  fold xs ([], []) (fun e (st, log) => (join st [f e], log ++ [e]))

/-- `fold_break`: `loop_break(range, [&](e){ auto r = f(e, move(state)); state = move(r.second); return r.first; })` -/
def foldBreak (xs : List α) (state : σ) (f : α → σ → Loop × σ) : σ :=
  loopBreak xs (fun e st => let result := f e st; (result.1, result.2)) state

/-! ## all_of, contains_if -/

/-- `all_of`: `result = true; loop_break(range, [&](e){ if (pred(e)) return continue_; result = false; return break_; })` -/
def allOf (xs : List α) (pred : α → Bool) : Bool × List α :=
  loopBreak xs (logged fun e (_ : Bool) => if pred e then (.continue_, true) else (.break_, false)) (true, [])
  |> fun (r, log) => (r, log)

/-- `contains_if`: `result = false; loop_break(range, [&](e){ if (pred(e)) { result = true; return break_; } return continue_; })` -/
def containsIf (xs : List α) (pred : α → Bool) : Bool × List α :=
  loopBreak xs (logged fun e (r : Bool) => if pred e then (.break_, true) else (.continue_, r)) (false, [])

/-! ## find family (iterators are positions) -/

/-- `std::find_if(begin, end, p)`: position of the first element satisfying `p`, `end` (= length) if none -/
def stdFindIf (p : α → Bool) : List α → Nat
  | [] => 0
  | x :: xs => if p x then 0 else stdFindIf p xs + 1

/-- `std::find(begin, end, v)` -/
def stdFind [BEq α] (v : α) (xs : List α) : Nat := stdFindIf (· == v) xs

/-- `contains`: `std::find(begin, end, v) != end` -/
def contains [BEq α] (xs : List α) (v : α) : Bool :=
  let rangeEnd := xs.length
  stdFind v xs != rangeEnd

/-- `find_opt`: `ret = std::find(begin, end, v); return ret == end ? none : some(ret)` -/
def findOpt [BEq α] (xs : List α) (v : α) : Option Nat :=
  let end_ := xs.length
  let ret := stdFind v xs
  if ret == end_ then none else some ret

/-- `find_if_opt` -/
def findIfOpt (xs : List α) (p : α → Bool) : Option Nat :=
  let end_ := xs.length
  let ret := stdFindIf p xs
  if ret == end_ then none else some ret

/-- `index_of`: `optional::map(find_opt(range, v), [beg](it){ return to_unsigned(it - beg); })` with `beg` = position 0 -/
def indexOf [BEq α] (xs : List α) (v : α) : Option Nat :=
  let beg := 0
  (findOpt xs v).map (fun it => it - beg)

/-- `find_by_opt`: `for (cur = begin; cur != end; ++cur) { result = f(*cur); if (result.has_value()) return result; } return none;`
    The log records the elements `f` was called with. -/
def findByOptLoop (xs : List α) (f : α → Option β) (cur : Nat) (log : List α) : Option β × List α :=
  if h : cur < xs.length then
    let result := f xs[cur]
    if result.isSome then (result, log ++ [xs[cur]]) else findByOptLoop xs f (cur + 1) (log ++ [xs[cur]])
  else (none, log)
termination_by xs.length - cur

def findByOpt (xs : List α) (f : α → Option β) : Option β × List α := findByOptLoop xs f 0 []

/-! ## equal_range, binary_search — the bisection loops of libstdc++ (`std::__lower_bound`,
`std::__upper_bound`, `std::__equal_range`), on positions -/

def deref (xs : List α) (i : Nat) : Except Fault α :=
  match xs[i]? with
  | some x => .ok x
  | none => .error .oob

/-- `__lower_bound(first, first+len, v)`: `while (len > 0) { half = len >> 1; middle = first + half;
    if (*middle < v) { first = middle + 1; len = len - half - 1; } else len = half; } return first;` -/
def lowerBound (lt : α → α → Bool) (xs : List α) (v : α) : (fuel : Nat) → (first len : Nat) → Except Fault Nat
  | 0, _, _ => .error .fuel
  | fuel + 1, first, len =>
    if len = 0 then .ok first else
    let half := len / 2
    let middle := first + half
    match deref xs middle with
    | .error e => .error e
    | .ok m => if lt m v then lowerBound lt xs v fuel (middle + 1) (len - half - 1) else lowerBound lt xs v fuel first half

/-- `__upper_bound`: `if (v < *middle) len = half; else { first = middle + 1; len = len - half - 1; }` -/
def upperBound (lt : α → α → Bool) (xs : List α) (v : α) : (fuel : Nat) → (first len : Nat) → Except Fault Nat
  | 0, _, _ => .error .fuel
  | fuel + 1, first, len =>
    if len = 0 then .ok first else
    let half := len / 2
    let middle := first + half
    match deref xs middle with
    | .error e => .error e
    | .ok m => if lt v m then upperBound lt xs v fuel first half else upperBound lt xs v fuel (middle + 1) (len - half - 1)

/-- `__equal_range`: bisect until an element equivalent to `v` is hit, then `lower_bound` on the left part and
    `upper_bound` on the right part; `(first, first)` if the window becomes empty. -/
def stdEqualRangeLoop (lt : α → α → Bool) (xs : List α) (v : α) : (fuel : Nat) → (first len : Nat) → Except Fault (Nat × Nat)
  | 0, _, _ => .error .fuel
  | fuel + 1, first, len =>
    if len = 0 then .ok (first, first) else
    let half := len / 2
    let middle := first + half
    match deref xs middle with
    | .error e => .error e
    | .ok m =>
      if lt m v then stdEqualRangeLoop lt xs v fuel (middle + 1) (len - half - 1)
      else if lt v m then stdEqualRangeLoop lt xs v fuel first half
      else do
        let left ← lowerBound lt xs v (half + 1) first half
        let first' := first + len
        let right ← upperBound lt xs v (len + 1) (middle + 1) (first' - (middle + 1))
        pure (left, right)

/-- `algorithm::equal_range(range, v)` = `from_pair(std::equal_range(begin, end, v))` -/
def equalRange (lt : α → α → Bool) (xs : List α) (v : α) : Except Fault (Nat × Nat) :=
  stdEqualRangeLoop lt xs v (xs.length + 1) 0 xs.length

/-- `range::singular`: `!empty(r) && std::next(r.begin()) == r.end()` on an iterator range `[b, e)` -/
def singular (r : Nat × Nat) : Bool := !(r.1 == r.2) && (r.1 + 1 == r.2)

/-- `binary_search`: `result = equal_range(range, v); return singular(result) ? some(begin(result)) : none` -/
def binarySearch (lt : α → α → Bool) (xs : List α) (v : α) : Except Fault (Option Nat) := do
  let result ← equalRange lt xs v
  pure (if singular result then some result.1 else none)

/-! ## remove_if, unique_if (over the std algorithms' specifications), reverse, repeat, generate_n -/

/-- `std::remove_if`: the elements not satisfying `p`, in order, at the front; the returned position is
    their count; what is behind it is unspecified (`junk`, cut to the right length). -/
def stdRemoveIf (p : α → Bool) (xs junk : List α) : List α × Nat :=
  let kept := xs.filter (fun x => !p x)
  (kept ++ junk.take (xs.length - kept.length), kept.length)

/-- `vector::erase(first, last)` on positions -/
def eraseRange (xs : List α) (first last : Nat) : List α := xs.take first ++ xs.drop last

/-- `remove_if`: `end = c.end(); position = std::remove_if(c.begin(), end, p); if (position == end) return false;
    c.erase(position, end); return true;` — returns the flag and the container afterwards -/
def removeIf (xs junk : List α) (p : α → Bool) : Bool × List α :=
  let end_ := xs.length
  let (buf, position) := stdRemoveIf p xs junk
  if position == end_ then (false, buf) else (true, eraseRange buf position end_)

/-- `remove(c, e)` = `remove_if(c, [e](ref){ return e == ref; })` -/
def remove [BEq α] (xs junk : List α) (e : α) : Bool × List α := removeIf xs junk (fun r => e == r)

/-- `std::unique(first, last, pred)`: `dest = first; while (++first != last) if (!pred(*dest, *first)) *++dest = *first; return ++dest;`
    (kept elements, count); the tail behind the returned position is unspecified -/
def stdUniqueGo (pred : α → α → Bool) (dest : α) : List α → List α
  | [] => []
  | y :: ys => if pred dest y then stdUniqueGo pred dest ys else y :: stdUniqueGo pred y ys

def stdUnique (pred : α → α → Bool) (xs junk : List α) : List α × Nat :=
  let kept := match xs with
    | [] => []
    | x :: rest => x :: stdUniqueGo pred x rest
  (kept ++ junk.take (xs.length - kept.length), kept.length)

/-- `unique_if`: `c.erase(std::unique(c.begin(), c.end(), pred), c.end())` -/
def uniqueIf (xs junk : List α) (pred : α → α → Bool) : List α :=
  let (buf, position) := stdUnique pred xs junk
  eraseRange buf position xs.length

/-- `unique(c)` = `unique_if(c, ==)` -/
def unique [BEq α] (xs junk : List α) : List α := uniqueIf xs junk (fun a b => a == b)

/-- `std::reverse(first, last)`: `while (first < last) { --last; iter_swap(first, last); ++first; }` on a copy -/
def stdReverseLoop (xs : List α) : (fuel first last : Nat) → Except Fault (List α)
  | 0, _, _ => .error .fuel
  | fuel + 1, first, last =>
    if first < last then
      let last := last - 1
      if first < last then
        match xs[first]?, xs[last]? with
        | some a, some b => stdReverseLoop ((xs.set first b).set last a) fuel (first + 1) last
        | _, _ => .error .oob
      else .ok xs
    else .ok xs

/-- `reverse(c)`: copy (lvalue) or take over (rvalue) the container, `std::reverse(begin, end)`, return it -/
def reverse (xs : List α) : Except Fault (List α) := stdReverseLoop xs (xs.length + 1) 0 xs.length

/-- `repeat`: `for (Count index = 0; index < count; ++index) f();` -/
def repeatLoop (count : Int) (f : σ → σ) (index : Int) (s : σ) : σ :=
  if index < count then repeatLoop count f (index + 1) (f s) else s
termination_by (count - index).toNat
decreasing_by omega

/-- `int_range<size_t>(0, count)` as the list of its elements -/
def intRangeCount (count : Nat) : List Nat := List.range count

/-- `generate_n<Target>(count, f)` = `map<Target>(make_int_range_count(count), [&](size_t){ return f(); })`;
    `f` is a generator with its own state -/
def generateN (count : Nat) (gen : σ → β × σ) (g : σ) : Cont β × σ :=
  let src := intRangeCount count
  let result : Cont β := {}
  let result := result.reserve (some src.length)
  loop src (fun _ (r, g) => let y := gen g; (r.insertEndSeq y.1, y.2)) (result, g)

/-! ## split_string, join_strings -/

/-- `String{last, cur}` -/
def substr (s : List α) (last cur : Nat) : List α := (s.take cur).drop last

/-- `split_string`: `for (; cur != end; ++cur) if (*cur == delim) { result.push_back(String{last, cur}); last = next(cur); }
    result.push_back(String{last, cur});` -/
def splitLoop [BEq α] (s : List α) (delim : α) (cur last : Nat) (result : List (List α)) : List (List α) :=
  if h : cur < s.length then
    if s[cur] == delim then splitLoop s delim (cur + 1) (cur + 1) (result ++ [substr s last cur])
    else splitLoop s delim (cur + 1) last result
  else result ++ [substr s last cur]
termination_by s.length - cur

def splitString [BEq α] (s : List α) (delim : α) : List (List α) := splitLoop s delim 0 0 []

/-- `join_strings`: `for (it = begin; it != end; ++it) { result += *it; if (next(it) != end) result += delim; }` -/
def joinLoop (range : List (List α)) (delim : List α) (it : Nat) (result : List α) : List α :=
  if h : it < range.length then
    let result := result ++ range[it]
    let result := if it + 1 != range.length then result ++ delim else result
    joinLoop range delim (it + 1) result
  else result
termination_by range.length - it

def joinStrings (range : List (List α)) (delim : List α) : List α := joinLoop range delim 0 []

/-! ## erase while iterating -/

/-- `sequence_iteration`: `for (it = begin; it != end;) switch (action(*it)) { case remove: it = seq.erase(it); break; case keep: ++it; }`
    and `map_iteration`: `for (it = begin, next = it; it != end; it = next) { ++next; switch (action(*it)) { case remove: map.erase(it); … } }`.
    Both as a zipper: `done` = the elements in front of `it` that are still in the container, `rest` = `[it, end)`.
    `erase(it)` drops the head of `rest` (and yields / leaves `next` = the new head); `++it` moves it to `done`.
    `action` returns `true` for `update_action::remove`. -/
def iterate (action : α → σ → Bool × σ) : (done rest : List α) → σ → List α × σ
  | done, [], s => (done, s)
  | done, x :: rest, s =>
    match action x s with
    | (true, s') => iterate action done rest s'
    | (false, s') => iterate action (done ++ [x]) rest s'

def seqIteration (xs : List α) (action : α → σ → Bool × σ) (s : σ) : List α × σ := iterate action [] xs s

/-! ## associative containers: `std::map<int,int>` as a key-sorted association list -/

abbrev Map := List (Nat × Nat)

/-- `std::map::find` -/
def mapFind (m : Map) (k : Nat) : Option (Nat × Nat) := m.find? (fun e => e.1 == k)

/-- `std::map::emplace(k, v)`: inserts unless the key exists -/
def mapEmplace (k v : Nat) : Map → Map
  | [] => [(k, v)]
  | e :: es => if k < e.1 then (k, v) :: e :: es else if e.1 < k then e :: mapEmplace k v es else e :: es

def mapOfList (l : List (Nat × Nat)) : Map := l.foldl (fun m e => mapEmplace e.1 e.2 m) []

def mapIteration (m : Map) (action : Nat × Nat → σ → Bool × σ) (s : σ) : Map × σ := iterate action [] m s

/-- `find_opt_mapped`: `optional::map(find_opt(c, k), [](ref){ return ref.second; })` -/
def findOptMapped (m : Map) (k : Nat) : Option Nat := (mapFind m k).map (·.2)

/-- `get_or_insert_with_result`: `maybe(find_opt_mapped(c, k), [&]{ inserted = c.emplace(k, create(k)); return (inserted.first->second, true); },
    [](e){ return (e, false); })` — returns (element, inserted), the container afterwards and the state of `create` -/
def getOrInsert (m : Map) (k : Nat) (create : Nat → σ → Nat × σ) (s : σ) : Except Fault (Nat × Bool) × Map × σ :=
  match findOptMapped m k with
  | none =>
    let (v, s') := create k s
    let m' := mapEmplace k v m
    -- inserted.first->second: the mapped value found at `k` after the emplace
    match findOptMapped m' k with
    | some e => (.ok (e, true), m', s')
    | none => (.error .emptyDeref, m', s')
  | some e => (.ok (e, false), m, s)

/-- `key_set<Set>(map)` = `map<Set>(map, [](item){ return item.first; })` -/
def keySet (m : Map) : List Nat := (mapSet m (·.1)).1.elems

/-- `map_values_copy<Result>(map)` = `map<Result>(map, [](e){ return e.second; })`; a `std::map` has `size()` -/
def mapValues (m : Map) : List Nat := (mapSeq (some m.length) m (·.2)).1.elems

/-! ## set operations: the merge loops of `std::set_union/intersection/difference`, output through
`std::inserter(result, result.begin())` into a `std::set` -/

def stdSetUnion : List Nat → List Nat → List Nat
  | [], b => b
  | a, [] => a
  | x :: a, y :: b =>
    if x < y then x :: stdSetUnion a (y :: b)
    else if y < x then y :: stdSetUnion (x :: a) b
    else x :: stdSetUnion a b

def stdSetIntersection : List Nat → List Nat → List Nat
  | [], _ => []
  | _, [] => []
  | x :: a, y :: b =>
    if x < y then stdSetIntersection a (y :: b)
    else if y < x then stdSetIntersection (x :: a) b
    else x :: stdSetIntersection a b

def stdSetDifference : List Nat → List Nat → List Nat
  | [], _ => []
  | a, [] => a
  | x :: a, y :: b =>
    if x < y then x :: stdSetDifference a (y :: b)
    else if y < x then stdSetDifference (x :: a) b
    else stdSetDifference a b

def setUnion (a b : List Nat) : List Nat := setOfList (stdSetUnion a b)
def setIntersection (a b : List Nat) : List Nat := setOfList (stdSetIntersection a b)
def setDifference (a b : List Nat) : List Nat := setOfList (stdSetDifference a b)

/-! ## at_optional, index_map -/

/-- `at_optional`: `make_if(index < c.size(), [&]{ return ref(*(c.begin() + index)); })` -/
def atOptional (xs : List α) (index : Nat) : Option (Except Fault α) :=
  if index < xs.length then some (deref xs index) else none

/-- `index_map::get(index, insert)`: `if (index >= impl.size()) { needed = index + 1; impl.reserve(needed);
    while (impl.size() < needed) impl.push_back(insert()); } return impl[index];` -/
def indexMapGrow (needed : Nat) (insert : σ → α × σ) : (fuel : Nat) → List α → σ → Except Fault (List α × σ)
  | 0, impl, s => if impl.length < needed then .error .fuel else .ok (impl, s)
  | fuel + 1, impl, s =>
    if impl.length < needed then
      let r := insert s
      indexMapGrow needed insert fuel (impl ++ [r.1]) r.2
    else .ok (impl, s)

def indexMapGet (impl : List α) (index : Nat) (insert : σ → α × σ) (s : σ) : Except Fault (α × List α × σ) := do
  let (impl', s') ←
    if index >= impl.length then
      let needed := index + 1
      indexMapGrow needed insert (needed - impl.length) impl s
    else pure (impl, s)
  let r ← deref impl' index
  pure (r, impl', s')

/-! ## arrays and tuples (static size = length of the list) -/

/-- `array::init` / `tuple::init`: `Array{f(integral_constant<0>), …, f(integral_constant<N-1>)}` — a braced
    initialiser list, evaluated left to right.  `f` may fail (it dereferences other arrays). -/
def arrayInit (f : Nat → Except Fault β) : Nat → Except Fault (List β)
  | 0 => .ok []
  | n + 1 => do
    let front ← arrayInit f n
    let y ← f n
    pure (front ++ [y])

/-- the same with a stateful function: the state shows the order of the calls -/
def arrayInitS (f : Nat → σ → β × σ) : Nat → σ → List β × σ
  | 0, s => ([], s)
  | n + 1, s =>
    let (front, s1) := arrayInitS f n s
    let (y, s2) := f n s1
    (front ++ [y], s2)

/-- `array::map(src, f)` = `init<result>([&](Index){ return f(get<Index>(src)); })` -/
def arrayMap (src : List α) (f : α → β) : Except Fault (List β) :=
  arrayInit (fun i => (deref src i).map f) src.length

/-- `array::append(a1, a2)` = `init<N1+N2>([&](Index){ if constexpr (Index < N1) return get<Index>(a1); else return get<Index-N1>(a2); })` -/
def arrayAppend (a1 a2 : List α) : Except Fault (List α) :=
  arrayInit (fun i => if i < a1.length then deref a1 i else deref a2 (i - a1.length)) (a1.length + a2.length)

/-- `array::detail::join(a1, a2, rest...)` = `join(append(a1, a2), rest...)`; `join(a1)` = `a1` -/
def arrayJoin (a1 : List α) : List (List α) → Except Fault (List α)
  | [] => .ok a1
  | a2 :: rest => do
    let a12 ← arrayAppend a1 a2
    arrayJoin a12 rest

/-- `array::push_back(src, x)` = `append(src, make(x))` -/
def arrayPushBack (src : List α) (x : α) : Except Fault (List α) := arrayAppend src [x]

/-- `array::from_range<Size>(src)` = `make_if(size(src) == Size, [&]{ return init<Size>([&](Index){ return src[Index]; }); })` -/
def arrayFromRange (size : Nat) (src : List α) : Option (Except Fault (List α)) :=
  if src.length == size then some (arrayInit (fun i => deref src i) size) else none

/-- `tuple::map` = `tuple::init<result>([&](Index){ return f(get<Index>(t)); })` -/
def tupleMap (t : List α) (f : α → β) : Except Fault (List β) := arrayMap t f

/-- `tuple::concat(ts...)` = `std::apply(make, std::tuple_cat(ts.impl()...))` -/
def tupleConcat (ts : List (List α)) : List α := ts.foldr (fun t acc => t ++ acc) []

/-- `tuple::detail::push_back`: `Result{get<Indices>(src)..., new_element}` -/
def tuplePushBack (t : List α) (x : α) : Except Fault (List α) := do
  let front ← arrayInit (fun i => deref t i) t.length
  pure (front ++ [x])


/-! # Extension: references and aliasing, value categories, the remaining helpers of `fcppt/algorithm` and `fcppt/container`

| model                          | C++                                                                   |
|--------------------------------|-----------------------------------------------------------------------|
| `loopBreakRef`, `loopRef`      | `loop_break` / `loop` over a non-const lvalue range, body assigns through `auto &&` |
| `leftBehind`, `mapVC`          | `map_impl.hpp`: `_function(move_if_rvalue<Arg>(_map_element))`         |
| `joinVC`                       | `container/detail/join_all.hpp`: `move_iterator_if_rvalue<Container>`  |
| `readMove`, `arrayInitSE`, `arrayMapVC`, `arrayAppendVC`, `arrayJoin3VC`, `arrayPushBackVC`, `arrayFromRangeVC` | `array/map.hpp`, `append.hpp`, `detail/join.hpp`, `push_back.hpp`, `from_range.hpp` (`move_if_rvalue<Array>(get<Index>(a))`) |
| `tupleMapVC`, `tuplePushBackVC`, `tupleConcatVC` | `tuple/map.hpp`, `detail/push_back.hpp`, `concat.hpp` |
| `makeContainer`                | `container/make.hpp`                                                   |
| `moveRange`                    | `container/move_range_impl.hpp`, `make_move_range.hpp`                 |
| `stdEqual`, `equal`            | libstdc++ `std::equal` (4 iterators), `algorithm/equal.hpp`            |
| `mapIterationSecond`, `getOrInsertPlain`, `mapValuesRef`, `mapArray`, `mapTuple`, `reverseRvalue` | `map_iteration_second.hpp`, `get_or_insert.hpp`, `map_values_ref.hpp`, `map_array.hpp`, `map_tuple.hpp`, `detail/reverse.hpp` |
| `findOptIterator`, `containerFindOpt`, `containerContains`, `mapInsert`, `setInsertFlag` | `container/find_opt_iterator.hpp`, `find_opt.hpp`, `contains.hpp`, `insert.hpp` |
| `maybeFront`, `maybeBack`, `popBack`, `popFront` | `container/maybe_front.hpp`, `maybe_back.hpp`, `pop_back.hpp`, `pop_front.hpp` |
| `distance`, `containerSize`    | `container/size.hpp` + `detail/size.hpp`                               |
| `data`, `dataEnd`              | `container/data.hpp`, `data_end.hpp`                                   |
| `DynArray.*`                   | `container/dynamic_array_impl.hpp`                                     |
| `output`                       | `container/output.hpp` + `detail/output.hpp`                           |
| `rangeSingular`                | `range/singular.hpp` on a whole container                              |
-/

/-! ## references: a body that assigns through the element reference -/

/-- `loop_break(range, body)` on a non-const lvalue range; `body(e)` returns the loop decision and the value it
    leaves in `e` -/
def loopBreakRef (xs : List α) (body : α → Loop × α) : List α :=
  match xs with
  | [] => []
  | x :: rest =>
    match body x with
    | (.break_, x') => x' :: rest
    | (.continue_, x') => x' :: loopBreakRef rest body

/-- `loop(range, body)` with an assigning body -/
def loopRef (xs : List α) (body : α → α) : List α := loopBreakRef xs (fun x => (.continue_, body x))

/-! ## value categories: what a source looks like afterwards

`moved` is the state a moved-from element is left in (for the probe type of the harness: the marker 9). -/

/-- the object `x` after `T y(move_if_rvalue<Arg>(x))`: moved-from iff `Arg` is an rvalue -/
def leftBehind (rv : Bool) (moved x : α) : α := if rv then moved else x

/-- `map_impl::execute(Arg &&)` with a function taking its argument by value: result and the source afterwards -/
def mapVC (rv : Bool) (moved : α) (xs : List α) (f : α → β) : List β × List α :=
  loop xs (fun e (r, src) => (r ++ [f e], src ++ [leftBehind rv moved e])) ([], [])

/-- `join_all(result, c, args...)`: `result.insert(end, move_iterator_if_rvalue<C>(c.begin()), …(c.end()))` for every
    further argument: the result and every further argument afterwards (`first` has already been copied or taken over) -/
def joinVC (moved : α) (first : List α) (args : List (Bool × List α)) : List α × List (List α) :=
  args.foldl (fun (st : List α × List (List α)) c => (st.1 ++ c.2, st.2 ++ [c.2.map (leftBehind c.1 moved)])) (first, [])

/-- `T y(move_if_rvalue<Array>(get<Index>(a)))`: the value read and the array afterwards -/
def readMove (rv : Bool) (moved : α) (xs : List α) (i : Nat) : Except Fault (α × List α) :=
  match xs[i]? with
  | some x => .ok (x, if rv then xs.set i moved else xs)
  | none => .error .oob

/-- `array::init` with a function that has an effect on captured objects and may fail -/
def arrayInitSE (f : Nat → σ → Except Fault (β × σ)) : Nat → σ → Except Fault (List β × σ)
  | 0, s => .ok ([], s)
  | n + 1, s => do
    let (front, s1) ← arrayInitSE f n s
    let (y, s2) ← f n s1
    pure (front ++ [y], s2)

/-- `array::map(Array &&src, f)` = `init([&](Index){ return f(move_if_rvalue<Array>(get<Index>(src))); })` -/
def arrayMapVC (rv : Bool) (moved : α) (src : List α) (f : α → β) : Except Fault (List β × List α) :=
  arrayInitSE (fun i s => do let (x, s') ← readMove rv moved s i; pure (f x, s')) src.length src

/-- `array::append(Array1 &&a1, Array2 &&a2)`: result, `a1` and `a2` afterwards -/
def arrayAppendVC (rv1 rv2 : Bool) (moved : α) (a1 a2 : List α) : Except Fault (List α × List α × List α) :=
  arrayInitSE (fun i (st : List α × List α) =>
      if i < a1.length then do
        let (x, a) ← readMove rv1 moved st.1 i
        pure (x, (a, st.2))
      else do
        let (x, b) ← readMove rv2 moved st.2 (i - a1.length)
        pure (x, (st.1, b)))
    (a1.length + a2.length) (a1, a2)

/-- `array::join(a1, a2, a3)` = `detail::join(append(a1, a2), a3)` = `append(append(a1, a2), a3)`; the inner result is a temporary -/
def arrayJoin3VC (rv1 rv2 rv3 : Bool) (moved : α) (a1 a2 a3 : List α) :
    Except Fault (List α × List α × List α × List α) := do
  let (a12, a1', a2') ← arrayAppendVC rv1 rv2 moved a1 a2
  let (r, _, a3') ← arrayAppendVC true rv3 moved a12 a3
  pure (r, a1', a2', a3')

/-- `array::push_back(Source &&src, NewElement &&x)` = `append(forward(src), array::make(forward(x)))`: result, `src`
    and `x` afterwards -/
def arrayPushBackVC (rv rvx : Bool) (moved : α) (src : List α) (x : α) : Except Fault (List α × List α × α) := do
  let made := [x]                       -- array::make(std::forward<NewElement>(x))
  let x' := leftBehind rvx moved x
  let (r, src', _) ← arrayAppendVC rv true moved src made
  pure (r, src', x')

/-- `array::from_range<Size>(Source &&src)`: `move_if_rvalue<Source>(src[Index])` -/
def arrayFromRangeVC (rv : Bool) (moved : α) (size : Nat) (src : List α) : Option (Except Fault (List α × List α)) :=
  if src.length == size then some (arrayInitSE (fun i s => readMove rv moved s i) size src) else none

/-- `tuple::map(Tuple &&t, f)` = `tuple::init([&](Index){ return f(move_if_rvalue<Tuple>(get<Index>(t))); })` -/
def tupleMapVC (rv : Bool) (moved : α) (t : List α) (f : α → β) : Except Fault (List β × List α) := arrayMapVC rv moved t f

/-- `tuple::detail::push_back`: `Result{move_if_rvalue<Source>(get<Indices>(src))..., forward(x)}` -/
def tuplePushBackVC (rv rvx : Bool) (moved : α) (t : List α) (x : α) : Except Fault (List α × List α × α) := do
  let (front, t') ← arrayInitSE (fun i s => readMove rv moved s i) t.length t
  pure (front ++ [x], t', leftBehind rvx moved x)

/-- `tuple::concat(ts...)` = `apply(make, tuple_cat(move_if_rvalue<Tuples>(ts.impl())...))`: every tuple is copied or moved as a whole -/
def tupleConcatVC (moved : α) (ts : List (Bool × List α)) : List α × List (List α) :=
  (tupleConcat (ts.map (·.2)), ts.map fun t => t.2.map (leftBehind t.1 moved))

/-- `container::make<Container>(args...)` = `map<Container>(array<reference, n>{ref(args)...}, [](ref){ return std::move(ref.get()); })`:
    every argument is moved from, whatever its value category -/
def makeContainer (moved : α) (args : List α) : Except Fault (List α × List α) :=
  -- `algorithm::map` over the array of references (= positions 0 … n-1), in order; the function is `std::move(ref.get())`
  (List.range args.length).foldlM (fun (st : List α × List α) r => do
      let (x, a) ← readMove true moved st.2 r
      pure (st.1 ++ [x], a)) ([], args)

/-- `move_range<Container>`: the non-const `begin()/end()` are move iterators (reading an element by value leaves it moved-from),
    the const ones are the container's.  Returns: const view before, values read through the move iterators, const view afterwards -/
def moveRange (moved : α) (xs : List α) : List α × List α × List α :=
  let viewBefore := xs
  let (read, after) := mapVC true moved xs (fun e => e)
  (viewBefore, read, after)

/-! ## equal -/

/-- `std::equal(first1, last1, first2, last2)` of libstdc++: two random-access ranges compare their lengths first,
    otherwise `for (; first1 != last1 && first2 != last2; ++first1, ++first2) if (!(*first1 == *first2)) return false;
    return first1 == last1 && first2 == last2;` -/
def stdEqualLoop [BEq α] : List α → List α → Bool
  | [], [] => true
  | x :: xs, y :: ys => if !(x == y) then false else stdEqualLoop xs ys
  | _, _ => false

def stdEqual [BEq α] (bothRandomAccess : Bool) (xs ys : List α) : Bool :=
  if bothRandomAccess then
    if xs.length != ys.length then false else stdEqualLoop xs ys
  else stdEqualLoop xs ys

/-- `algorithm::equal(r1, r2)` -/
def equal [BEq α] (bothRandomAccess : Bool) (xs ys : List α) : Bool := stdEqual bothRandomAccess xs ys

/-! ## secondary entry points of functions modelled above -/

/-- `map_iteration_second(map, action)` = `map_iteration(map, [&](value_type &e){ return action(e.second); })` -/
def mapIterationSecond (m : Map) (action : Nat → σ → Bool × σ) (s : σ) : Map × σ :=
  let wrapper : Nat × Nat → σ → Bool × σ := fun element s => action element.2 s
  mapIteration m wrapper s

/-- `get_or_insert(c, k, create)` = `get_or_insert_with_result(c, k, create).element()` -/
def getOrInsertPlain (m : Map) (k : Nat) (create : Nat → σ → Nat × σ) (s : σ) : Except Fault Nat × Map × σ :=
  let r := getOrInsert m k create s
  (r.1.map (·.1), r.2)

/-- `map_values_ref<Result>(map)` = `map<Result>(map, [](auto &&e){ return reference{e.second}; })`: the positions of the
    mapped objects the references point to, in order -/
def mapValuesRef (m : Map) : List Nat := (mapSeq (some m.length) (List.range m.length) (fun i => i)).1.elems

/-- `algorithm::map<array>(array, f)` (map_array.hpp) = `array::map` -/
def mapArray (src : List α) (f : α → β) : Except Fault (List β) := arrayMap src f

/-- `algorithm::map<tuple>(tuple, f)` (map_tuple.hpp) = `tuple::map` -/
def mapTuple (t : List α) (f : α → β) : Except Fault (List β) := tupleMap t f

/-- `reverse(Container &&)` for an rvalue: `std::reverse` in place, the container is returned -/
def reverseRvalue (xs : List α) : Except Fault (List α) := stdReverseLoop xs (xs.length + 1) 0 xs.length

/-- `range::singular(c)` on a whole container: `!empty(c) && next(begin) == end` -/
def rangeSingular (xs : List α) : Bool := singular (0, xs.length)

/-! ## associative containers: find_opt_iterator, find_opt, contains, insert -/

/-- `std::map::find` as a position: the index of the entry with the key, `end` (= size) if there is none -/
def stdMapFindPos (m : Map) (k : Nat) : Nat := stdFindIf (fun e => e.1 == k) m

/-- `find_opt_iterator`: `it = c.find(k); return it != c.end() ? some(it) : none` -/
def findOptIterator (m : Map) (k : Nat) : Option Nat :=
  let it := stdMapFindPos m k
  if it != m.length then some it else none

/-- `container::find_opt` = `optional::deref(find_opt_iterator(c, k))`: a reference to the `value_type` -/
def containerFindOpt (m : Map) (k : Nat) : Option (Except Fault (Nat × Nat)) :=
  (findOptIterator m k).map (deref m)

/-- `container::contains(c, k)` = `c.count(k) > 0` -/
def containerContains (keys : List Nat) (k : Nat) : Bool := keys.count k > 0

/-- `container::insert(map, value)` = `map.insert(value).second`: `std::map::insert` inserts unless the key exists -/
def mapInsert (m : Map) (kv : Nat × Nat) : Bool × Map :=
  match findOptIterator m kv.1 with
  | some _ => (false, m)
  | none => (true, mapEmplace kv.1 kv.2 m)

/-- `container::insert(set, x)` -/
def setInsertFlag (s : List Nat) (x : Nat) : Bool × List Nat :=
  if s.contains x then (false, s) else (true, setInsert x s)

/-! ## maybe_front, maybe_back, pop_back, pop_front, size, data -/

/-- `maybe_front`: `c.empty() ? none : some(ref(c.front()))` — the position referred to -/
def maybeFront (xs : List α) : Option (Except Fault α) :=
  if xs.isEmpty then none else some (deref xs 0)

/-- `maybe_back`: `c.empty() ? none : some(ref(c.back()))` -/
def maybeBack (xs : List α) : Option (Except Fault α) :=
  if xs.isEmpty then none else some (deref xs (xs.length - 1))

/-- `pop_back`: `make_if(!c.empty(), [&]{ T result{move(c.back())}; c.pop_back(); return result; })` -/
def popBack (xs : List α) : Option (Except Fault α) × List α :=
  if !xs.isEmpty then (some (deref xs (xs.length - 1)), xs.take (xs.length - 1)) else (none, xs)

/-- `pop_front`: `make_if(!c.empty(), [&]{ T result{move(c.front())}; c.pop_front(); return result; })` -/
def popFront (xs : List α) : Option (Except Fault α) × List α :=
  if !xs.isEmpty then (some (deref xs 0), xs.drop 1) else (none, xs)

/-- `std::distance(begin, end)` on forward iterators -/
def distance : List α → Nat
  | [] => 0
  | _ :: rest => distance rest + 1

/-- `container::size(range)`: `range.size()` if the range has one, else `std::distance(begin, end)` -/
def containerSize (hasSize : Bool) (xs : List α) : Nat := if hasSize then xs.length else distance xs

/-- a pointer into the element storage: `none` = `nullptr`, `some i` = address of element `i` (`some size` = one past the end) -/
abbrev Ptr := Option Nat

/-- `container::data(c)` = `c.empty() ? nullptr : std::data(c)` -/
def data (xs : List α) : Ptr := if xs.isEmpty then none else some 0

/-- pointer + n: `nullptr + 0` is `nullptr`, `nullptr + n` (n > 0) is undefined -/
def ptrAdd (p : Ptr) (n : Nat) : Except Fault Ptr :=
  match p with
  | none => if n = 0 then .ok none else .error .oob
  | some i => .ok (some (i + n))

/-- `container::data_end(c)` = `data(c) + to_signed(c.size())` -/
def dataEnd (xs : List α) : Except Fault Ptr := ptrAdd (data xs) xs.length

/-! ## dynamic_array: `size` uninitialised cells -/

structure DynArray (α : Type) where
  cells : List (Option α)
  deriving Repr

/-- `dynamic_array(size)`: allocates, does not initialise -/
def DynArray.mk' (size : Nat) : DynArray α := ⟨List.replicate size none⟩
def DynArray.size (a : DynArray α) : Nat := a.cells.length
/-- `data_end() - data()` -/
def DynArray.extent (a : DynArray α) : Nat := a.cells.length
/-- `data()[i] = x` -/
def DynArray.write (a : DynArray α) (i : Nat) (x : α) : Except Fault (DynArray α) :=
  if i < a.cells.length then .ok ⟨a.cells.set i (some x)⟩ else .error .oob
/-- `data()[i]` -/
def DynArray.read (a : DynArray α) (i : Nat) : Except Fault α :=
  match a.cells[i]? with
  | none => .error .oob
  | some none => .error .uninit
  | some (some x) => .ok x

/-- fill `data()[0 .. size)` with `g 0, g 1, …` and read everything back -/
def DynArray.fillRead (size : Nat) (g : Nat → α) : Except Fault (List α) := do
  let a ← (List.range size).foldlM (fun (a : DynArray α) i => a.write i (g i)) (DynArray.mk' size)
  (List.range size).mapM a.read

/-! ## output -/

/-- `operator<<(stream, container::output(c))`: `[`, then `for (it = begin; it != end; ++it) { stream << *it;
    if (next(it) != end) stream << ','; }`, then `]` — the same loop shape as `join_strings` -/
def output (render : α → List Char) (xs : List α) : List Char :=
  ['['] ++ joinLoop (xs.map render) [','] 0 [] ++ [']']

/-! ## equal_range / binary_search on arbitrary (also unsorted) input: see the `_any` theorems -/


/-! # Callbacks that observe the container they are called from, and callbacks that throw

A user function is `… → σ → Except Fault β × σ`: what it captured by reference (`σ`: logs, counters) persists whether it returns
or throws (`.error (.exception _)`).  Where the C++ calls it while a container is being built or modified, the model hands it
the container *as it is at the moment of the call* (first argument), so a theorem can say what the function is able to see.
An exception is propagated by every helper (none of them catches): the result is `.error e` together with the state of every
container involved at that moment.

| model | C++ |
|---|---|
| `loopBreakE`, `tupleLoopBreakE`, `loopE` | `loop_break_impl.hpp`, `detail/tuple_loop_break.hpp`, `mpl/list/for_each_break.hpp`, `loop.hpp` |
| `foldE`, `foldBreakE`, `mapE`, `generateNE` | `fold.hpp`, `fold_break.hpp`, `map_impl.hpp`, `generate_n.hpp` |
| `findByOptE`, `stdFindIfE` | `find_by_opt.hpp`, `std::find_if` in `find_if_opt.hpp` |
| `iterateE` | `sequence_iteration.hpp`, `map_iteration.hpp`, `map_iteration_second.hpp` |
| `getOrInsertE` | `container/get_or_insert_with_result.hpp` |
| `indexMapGetE` | `container/index_map_impl.hpp` |
| `arrayInitX` | `array/init.hpp`, `array/map.hpp` |
-/

/-- `loop_break` with a body that may throw -/
def loopBreakE (xs : List α) (body : α → σ → Except Fault Loop × σ) (s : σ) : Except Fault Unit × σ :=
  match xs with
  | [] => (.ok (), s)
  | x :: rest =>
    match body x s with
    | (.error e, s') => (.error e, s')
    | (.ok .break_, s') => (.ok (), s')
    | (.ok .continue_, s') => loopBreakE rest body s'

/-- the index recursion for tuples and mpl lists with a body that may throw -/
def tupleLoopBreakE (xs : List α) (body : α → σ → Except Fault Loop × σ) (index : Nat) (s : σ) : Except Fault Unit × σ :=
  if h : index < xs.length then
    match body xs[index] s with
    | (.error e, s') => (.error e, s')
    | (.ok .continue_, s') => tupleLoopBreakE xs body (index + 1) s'
    | (.ok .break_, s') => (.ok (), s')
  else (.ok (), s)
termination_by xs.length - index

/-- `loop`: the body's result is replaced by `continue_` -/
def loopE (xs : List α) (body : α → σ → Except Fault Unit × σ) (s : σ) : Except Fault Unit × σ :=
  loopBreakE xs (fun x s => let r := body x s; (r.1.map fun _ => Loop.continue_, r.2)) s

/-- `fold`: `loop(range, [&](e){ state = f(e, move(state)); })`; `τ` is the fold state, `σ` what `f` captured.
    If `f` throws, `state` (a local of `fold`) is lost. -/
def foldE {τ : Type} (xs : List α) (state : τ) (f : α → τ → σ → Except Fault τ × σ) (s : σ) : Except Fault τ × σ :=
  let r := loopE xs (fun e (st : τ × σ) =>
      match f e st.1 st.2 with
      | (.ok t, s') => (.ok (), (t, s'))
      | (.error err, s') => (.error err, (st.1, s'))) (state, s)
  (r.1.map fun _ => r.2.1, r.2.2)

/-- `fold_break` with a function that may throw -/
def foldBreakE {τ : Type} (xs : List α) (state : τ) (f : α → τ → σ → Except Fault (Loop × τ) × σ) (s : σ) : Except Fault τ × σ :=
  let r := loopBreakE xs (fun e (st : τ × σ) =>
      match f e st.1 st.2 with
      | (.ok (l, t), s') => (.ok l, (t, s'))
      | (.error err, s') => (.error err, (st.1, s'))) (state, s)
  (r.1.map fun _ => r.2.1, r.2.2)

/-- `map_impl::execute` with a function that may throw: the result container is a local, it is lost with the exception -/
def mapE (xs : List α) (f : α → σ → Except Fault β × σ) (s : σ) : Except Fault (List β) × σ :=
  foldE xs ([] : List β) (fun e r s => let y := f e s; (y.1.map fun b => r ++ [b], y.2)) s

/-- `generate_n` with a generator that may throw -/
def generateNE (count : Nat) (gen : σ → Except Fault β × σ) (g : σ) : Except Fault (List β) × σ :=
  mapE (intRangeCount count) (fun _ s => gen s) g

/-- `find_by_opt` with a function that may throw -/
def findByOptE (xs : List α) (f : α → σ → Except Fault (Option β) × σ) (s : σ) : Except Fault (Option β) × σ :=
  match xs with
  | [] => (.ok none, s)
  | x :: rest =>
    match f x s with
    | (.error e, s') => (.error e, s')
    | (.ok (some r), s') => (.ok (some r), s')
    | (.ok none, s') => findByOptE rest f s'

/-- `std::find_if` with a predicate that may throw: position of the first hit (`size` if none) -/
def stdFindIfE (xs : List α) (p : α → σ → Except Fault Bool × σ) (s : σ) : Except Fault Nat × σ :=
  match xs with
  | [] => (.ok 0, s)
  | x :: rest =>
    match p x s with
    | (.error e, s') => (.error e, s')
    | (.ok true, s') => (.ok 0, s')
    | (.ok false, s') => let r := stdFindIfE rest p s'; (r.1.map (· + 1), r.2)

/-- erase while iterating (`sequence_iteration`, `map_iteration(_second)`), with an action that sees the container as it is when
    it is called — nothing has been erased for the current element yet — and may throw: the container keeps the effects of the
    actions that returned -/
def iterateE (action : List α → α → σ → Except Fault Bool × σ) : (done rest : List α) → σ → Except Fault Unit × List α × σ
  | done, [], s => (.ok (), done, s)
  | done, x :: rest, s =>
    match action (done ++ x :: rest) x s with
    | (.error e, s') => (.error e, done ++ x :: rest, s')
    | (.ok true, s') => iterateE action done rest s'
    | (.ok false, s') => iterateE action (done ++ [x]) rest s'

/-- `get_or_insert_with_result` with a `create` that sees the container and may throw: `_create(_key)` is an argument of
    `emplace`, it is evaluated while the key is not in the container; if it throws nothing has been inserted -/
def getOrInsertE (m : Map) (k : Nat) (create : Map → Nat → σ → Except Fault Nat × σ) (s : σ) :
    Except Fault (Nat × Bool) × Map × σ :=
  match findOptMapped m k with
  | none =>
    match create m k s with
    | (.error e, s') => (.error e, m, s')
    | (.ok v, s') =>
      let m' := mapEmplace k v m
      match findOptMapped m' k with
      | some e => (.ok (e, true), m', s')
      | none => (.error .emptyDeref, m', s')
  | some e => (.ok (e, false), m, s)

/-- `index_map::get` with an `insert` that sees the vector and may throw: `push_back(_insert())` evaluates `_insert()` first,
    so the k-th call sees the vector grown by k-1 elements, and what has been appended stays if it throws -/
def indexMapGrowE (needed : Nat) (insert : List α → σ → Except Fault α × σ) : (fuel : Nat) → List α → σ → Except Fault Unit × List α × σ
  | 0, impl, s => (if impl.length < needed then .error .fuel else .ok (), impl, s)
  | fuel + 1, impl, s =>
    if impl.length < needed then
      match insert impl s with
      | (.error e, s') => (.error e, impl, s')
      | (.ok x, s') => indexMapGrowE needed insert fuel (impl ++ [x]) s'
    else (.ok (), impl, s)

def indexMapGetE (impl : List α) (index : Nat) (insert : List α → σ → Except Fault α × σ) (s : σ) :
    Except Fault α × List α × σ :=
  let (r, impl', s') :=
    if index >= impl.length then indexMapGrowE (index + 1) insert (index + 1 - impl.length) impl s
    else (.ok (), impl, s)
  match r with
  | .error e => (.error e, impl', s')
  | .ok () => (deref impl' index, impl', s')

/-- `array::init` with a function that may throw: the elements are created left to right directly in the result (a braced
    initialiser), nothing is default-constructed first; after a throw no further call happens -/
def arrayInitX (f : Nat → σ → Except Fault β × σ) : Nat → σ → Except Fault (List β) × σ
  | 0, s => (.ok [], s)
  | n + 1, s =>
    match arrayInitX f n s with
    | (.error e, s1) => (.error e, s1)
    | (.ok front, s1) =>
      match f n s1 with
      | (.error e, s2) => (.error e, s2)
      | (.ok y, s2) => (.ok (front ++ [y]), s2)

/-- a user function that throws at its `k`-th call (`k = 0`: never): it first records what it sees (`record`), the call is
    counted, and only a call that does not throw goes on to compute its result (`compute`, which may advance its own state) -/
def throwAt {γ : Type} (k : Nat) (record : σ → σ) (compute : σ → γ × σ) : Nat × σ → Except Fault γ × (Nat × σ) :=
  fun (n, s) =>
    let s1 := record s
    if n + 1 = k then (.error (.exception (.other "cb")), (n + 1, s1))
    else let r := compute s1; (.ok r.1, (n + 1, r.2))

end Fcppt.C16
