import FcpptModel.Prelude.Fault
/-!
# C12 — model of `fcppt::parse::detail::stream<Ch>` and the `std::basic_istream` under it

Mirrors, path by path,

* libstdc++ `std::basic_istream<Ch>` (`istream.tcc`: `sentry`, `get()`, `tellg()`, `seekg(pos_type)`,
  `basic_ios::clear`) over a seekable `streambuf` (`sstream.tcc`: `basic_stringbuf::seekoff/seekpos`,
  `sbumpc`)                                                         : `IStream.*`
  (an *assumption* about the standard library, validated by the correspondence: the harness prints
  `rdstate()` after every operation)
* `fcppt/parse/detail/check_bad.hpp`                                 : the `if s.is.bad` guards
* `fcppt/io/get.hpp`                                                 : `IStream.get` returning `Option Ch`
* `fcppt/parse/detail/stream_impl.hpp` `get_char`                    : `Stream.getChar`
* `fcppt/parse/detail/stream_impl.hpp` `get_position`                : `Stream.getPosition`
* `fcppt/parse/detail/stream_impl.hpp` `set_position`                : `Stream.setPosition`
* `fcppt/parse/get_char.hpp`, `get_position.hpp`, `set_position.hpp` : forwarders (same functions)
* `fcppt/parse/get_char_error.hpp` + `basic_char_impl.hpp`           : the `none ↦ PRes.fail .eof` branch of `charPred`
* `fcppt/parse/basic_literal_impl.hpp`, `basic_char_set_impl.hpp`,
  `skipper/basic_literal_impl.hpp`, `skipper/basic_char_set_impl.hpp`,
  `detail/expected.hpp`, `location_output.hpp`                       : `Stream.charPred`
* `fcppt/parse/phrase_parse.hpp` (function-try-block)                : `Stream.parse`

A character is its code (`Nat`); `'\n'` is 10 for `char` and `wchar_t` alike.  A stream position
(`std::fpos`) is its offset (`Int`, `-1` is the failure value and never stored in a `Pos`).
`line`/`column` are `std::uint64_t` in C++; the model uses `Nat` (texts shorter than 2^64).

The failure-injecting stream (`failAfter = some k`) is the harness's own `streambuf` whose `uflow`
throws once `k` characters have been delivered; `istream::get` turns that into `badbit`.
-/
namespace Fcppt.C12

abbrev Ch := Nat

/-- `FCPPT_CHAR_LITERAL(Ch, '\n')` -/
def nl : Ch := 10

/-- `std::basic_istream<Ch>` together with its stream buffer. -/
structure IStream where
  buf : List Ch              -- the character sequence of the buffer
  idx : Nat                  -- gptr() - eback()
  eof : Bool                 -- ios_base::eofbit
  fail : Bool                -- ios_base::failbit
  bad : Bool                 -- ios_base::badbit
  failAfter : Option Nat     -- harness streambuf: throw from uflow once that many characters were delivered
  reads : Nat                -- characters delivered so far (counted only when failAfter is set)
  deriving Repr, DecidableEq, Inhabited

namespace IStream

def «open» (t : List Ch) (k : Option Nat) : IStream :=
  { buf := t, idx := 0, eof := false, fail := false, bad := false, failAfter := k, reads := 0 }

/-- `basic_ios::good()` -/
def good (s : IStream) : Bool := !s.eof && !s.fail && !s.bad

/-- `basic_ios::clear()` (rdbuf is never null) -/
def clear (s : IStream) : IStream := { s with eof := false, fail := false, bad := false }

/-- `istream::sentry(is, true)`: ok iff `good()`, otherwise `setstate(failbit)`.
    (No tied stream, `noskipws` = true.) -/
def sentry (s : IStream) : IStream × Bool :=
  if s.good then (s, true) else ({ s with fail := true }, false)

inductive Bump where
  | char (c : Ch)
  | eof
  | threw
  deriving Repr, DecidableEq

/-- `streambuf::sbumpc()`.  String buffer: next character or `eof`.  Failure-injecting buffer: at the
    end `eof`; otherwise throws when `failAfter ≤ reads`. -/
def sbumpc (s : IStream) : IStream × Bump :=
  match s.buf[s.idx]? with
  | none => (s, .eof)
  | some c =>
    match s.failAfter with
    | none => ({ s with idx := s.idx + 1 }, .char c)
    | some k =>
      if k ≤ s.reads then (s, .threw)
      else ({ s with idx := s.idx + 1, reads := s.reads + 1 }, .char c)

/-- `istream::get()` seen through `fcppt::io::get` (`none` = `Traits::eof()`).
    sentry; `sbumpc`; eof ⇒ `eofbit`; exception ⇒ `badbit`; nothing extracted ⇒ `failbit`. -/
def get (s : IStream) : IStream × Option Ch :=
  match s.sentry with
  | (s, true) =>
    match s.sbumpc with
    | (s, .char c) => (s, some c)
    | (s, .eof) => ({ s with eof := true, fail := true }, none)
    | (s, .threw) => ({ s with bad := true, fail := true }, none)
  | (s, false) => ({ s with fail := true }, none)

/-- `istream::tellg()`: sentry; `if (!fail()) pubseekoff(0, cur, in)`; `none` is `pos_type(-1)`. -/
def tellg (s : IStream) : IStream × Option Nat :=
  match s.sentry with
  | (s, true) => if s.fail then (s, none) else (s, some s.idx)
  | (s, false) => (s, none)

/-- `istream::seekg(pos_type)`: `clear(rdstate() & ~eofbit)`; sentry; `if (!fail())`
    `pubseekpos(pos, in)`, which succeeds iff `0 ≤ pos ≤ egptr - eback`; failure ⇒ `failbit`. -/
def seekg (s : IStream) (p : Int) : IStream :=
  match ({ s with eof := false } : IStream).sentry with
  | (s, true) =>
    if s.fail then s
    else if 0 ≤ p ∧ p ≤ (s.buf.length : Int) then { s with idx := p.toNat }
    else { s with fail := true }
  | (s, false) => s

end IStream

/-- `fcppt::parse::location` -/
structure Loc where
  line : Nat
  col : Nat
  deriving Repr, DecidableEq, Inhabited

/-- `fcppt::parse::position<Ch>`: stream offset and optional location -/
structure Pos where
  off : Int
  loc : Option Loc
  deriving Repr, DecidableEq, Inhabited

/-- `fcppt::parse::detail::stream<Ch>`: reference to the istream, and `location_`. -/
structure Stream where
  is : IStream
  loc : Loc
  deriving Repr, DecidableEq, Inhabited

/-- every exception of stream_impl.hpp / check_bad.hpp is a `detail::exception<Ch>` -/
def streamFailed : Fault := .exception .streamFailed

namespace Stream

/-- constructor: `location_{line{1}, column{1}}` -/
def «open» (t : List Ch) (k : Option Nat) : Stream := { is := IStream.open t k, loc := ⟨1, 1⟩ }

/-- `stream::get_char`: `check_bad`; `io::get`; on a character update the location
    (`'\n'`: `++line, column = 1`; otherwise `++column`). -/
def getChar (s : Stream) : Stream × Except Fault (Option Ch) :=
  if s.is.bad then (s, .error streamFailed)
  else
    match s.is.get with
    | (is, some c) =>
      if c = nl then ({ is := is, loc := ⟨s.loc.line + 1, 1⟩ }, .ok (some c))
      else ({ is := is, loc := ⟨s.loc.line, s.loc.col + 1⟩ }, .ok (some c))
    | (is, none) => ({ s with is := is }, .ok none)

/-- `stream::get_position`: `check_bad`; `if (eof()) clear()`; `tellg()`; `-1` ⇒ exception;
    position = (offset, current location). -/
def getPosition (s : Stream) : Stream × Except Fault Pos :=
  if s.is.bad then (s, .error streamFailed)
  else
    let is := if s.is.eof then s.is.clear else s.is
    match is.tellg with
    | (is, none) => ({ s with is := is }, .error streamFailed)
    | (is, some off) => ({ s with is := is }, .ok { off := off, loc := some s.loc })

/-- `stream::set_position`: `check_bad`; `clear()`; `seekg(pos)`; `fail()` ⇒ exception;
    then restore the location if the position carries one. -/
def setPosition (s : Stream) (p : Pos) : Stream × Except Fault Unit :=
  if s.is.bad then (s, .error streamFailed)
  else
    let is := s.is.clear.seekg p.off
    if is.fail then ({ s with is := is }, .error streamFailed)
    else
      match p.loc with
      | some l => ({ is := is, loc := l }, .ok ())
      | none => ({ is := is, loc := s.loc }, .ok ())

/-- error of a character-level parser: `"EOF"` or `"[Line l:c: ]Expected …, got …"` -/
inductive PErr where
  | eof
  | expected (loc : Option Loc)
  | exception                   -- "Parsing failed: …" produced by phrase_parse's catch
  deriving Repr, DecidableEq

inductive PRes where
  | ok (c : Ch)
  | fail (e : PErr)
  deriving Repr, DecidableEq

/-- `basic_literal::parse` (`pred = (· == ch)`), `basic_char_set::parse` (`pred = contains chars`),
    `basic_char::parse` (`pred = true`) and the skippers of the same names:
    `get_char_error`, then on a character that does not match
    `detail::expected(get_position(state), …, got)`. -/
def charPred (pred : Ch → Bool) (s : Stream) : Stream × Except Fault PRes :=
  match s.getChar with
  | (s, .error f) => (s, .error f)
  | (s, .ok none) => (s, .ok (.fail .eof))
  | (s, .ok (some c)) =>
    if pred c then (s, .ok (.ok c))
    else
      match s.getPosition with
      | (s, .error f) => (s, .error f)
      | (s, .ok p) => (s, .ok (.fail (.expected p.loc)))

/-- `fcppt::parse::parse(parser, stream)` = `phrase_parse` with `skipper::epsilon`:
    the function-try-block turns a `detail::exception` into a failure. -/
def parse (pred : Ch → Bool) (s : Stream) : Stream × PRes :=
  match s.charPred pred with
  | (s, .ok r) => (s, r)
  | (s, .error _) => (s, .fail .exception)

end Stream

/-! ## Histories -/

/-- the operations of the property's histories -/
inductive Op where
  | get                 -- get_char
  | pos                 -- get_position, the result is appended to the saved positions
  | set (j : Nat)       -- set_position(saved[j])
  deriving Repr, DecidableEq, Inhabited

inductive Obs where
  | ch (c : Option Ch)
  | pos (p : Pos)
  | ok
  | exc
  | noSlot
  deriving Repr, DecidableEq, Inhabited

structure HState where
  s : Stream
  saved : List Pos
  deriving Repr, DecidableEq, Inhabited

def HState.open (t : List Ch) (k : Option Nat) : HState := { s := Stream.open t k, saved := [] }

def step (h : HState) : Op → HState × Obs
  | .get =>
    match h.s.getChar with
    | (s, .ok c) => ({ h with s := s }, .ch c)
    | (s, .error _) => ({ h with s := s }, .exc)
  | .pos =>
    match h.s.getPosition with
    | (s, .ok p) => ({ s := s, saved := h.saved ++ [p] }, .pos p)
    | (s, .error _) => ({ h with s := s }, .exc)
  | .set j =>
    match h.saved[j]? with
    | none => (h, .noSlot)
    | some p =>
      match h.s.setPosition p with
      | (s, .ok ()) => ({ h with s := s }, .ok)
      | (s, .error _) => ({ h with s := s }, .exc)

def run (h : HState) : List Op → HState × List Obs
  | [] => (h, [])
  | op :: ops =>
    let (h1, o) := step h op
    let (h2, os) := run h1 ops
    (h2, o :: os)

end Fcppt.C12
