import FcpptModel.Prelude.Fault
/-!
# C20 — executable model of fcppt::random

The standard engines and distributions are **parameters** of this model (`Gen`, `StdDist`):
nothing is assumed about the numbers they produce.  Everything fcppt adds on top is mirrored
definition by definition:

| Lean | C++ (libs/core/include/fcppt/...) |
|---|---|
| `Ty`, `DVal`, `decorate`, `undecorate` | `type_iso/detail/decorate.hpp`, `type_iso/detail/undecorate.hpp`, `type_iso/strong_typedef.hpp`, `type_iso/enum.hpp`, `random/distribution/base_value.hpp`, `decorated_value.hpp` |
| `Gen`, `basicPseudo` | `random/generator/basic_pseudo_impl.hpp` |
| `Param2`, `Param2.convertFrom`, `Param2.convertTo` | `random/distribution/parameters/uniform_int_impl.hpp`, `uniform_real_impl.hpp`, `normal_impl.hpp` (the three classes have the same shape: two decorated members, two accessors of the wrapped `param_type`) |
| `Basic.*` | `random/distribution/basic_impl.hpp` |
| `Variate.*` | `random/variate_impl.hpp` |
| `makeUniformEnum` | `random/distribution/parameters/make_uniform_enum_advanced.hpp` |
| `makeUniformIndices` | `random/distribution/parameters/make_uniform_indices_advanced.hpp` |
| `UniformContainer.*`, `makeUniformContainer` | `random/wrapper/uniform_container_impl.hpp`, `make_uniform_container_advanced.hpp` |
| `Act`, `stepF`, `runScriptF` (`stepS`, `runScriptS`: the same program against the bare std distribution) | programs over several `basic` / `variate` objects and one generator: implicit copy / move / assignment of `basic_decl.hpp`, `variate_decl.hpp` (value member `distribution_`, reference member `generator_`), `operator==`, `operator<<`, `min`/`max` |
| `CAct`, `cstep`, `runCScript` | programs over several `uniform_container`s on one container (`container_` is a `fcppt::reference`, `distribution_` a value member) |

Values of the arithmetic base type are an arbitrary type `β` (`Int` for the integer types — fcppt
performs no arithmetic on them except `size() - 1U` in `make_uniform_indices`, which is guarded by
`!empty()`; bit patterns for floating point).

Two members of `distribution::basic` are *not* modelled because they are ill-formed as soon as they are
instantiated on the pinned tree (checked with g++ 12): `param() const` (passes a `param_type` to
`convert_to(distribution const &)`, the constructor needed is explicit) and
`operator()(Rng &, param_type const &)` (calls `make_result` with two arguments).  See notes/C20.md.
-/
namespace Fcppt.C20

/-! ## type_iso: nested type constructors over a terminal (arithmetic) type -/

/-- Shape of a result type: a terminal arithmetic type, `fcppt::strong_typedef<inner, Tag>`, or an enum
(whose `transform<Enum>::undecorated_type` is the underlying integer type, a terminal). -/
inductive Ty where
  | base
  | strong (inner : Ty)
  | enum
  deriving Repr, DecidableEq, Inhabited

/-- A value of a decorated type. -/
inductive DVal (β : Type) where
  | base (x : β)
  | strong (v : DVal β)
  | enum (x : β)
  deriving Repr, DecidableEq, Inhabited

/-- `type_iso::detail::decorate<Result>`: `Result == Type` → the value itself; otherwise
`transform<Result>::decorate(decorate<transform<Result>::undecorated_type>(value))`.
`transform<strong_typedef>::decorate` wraps, `transform<Enum>::decorate` is `cast::int_to_enum`
(a `static_cast` from the underlying type). -/
def decorate {β : Type} : Ty → β → DVal β
  | .base, x => .base x
  | .strong t, x => .strong (decorate t x)
  | .enum, x => .enum x

/-- `type_iso::detail::undecorate`: terminal → the value; otherwise
`undecorate(transform<Type>::undecorate(value))` (`strong_typedef::get`, `cast::enum_to_int`). -/
def undecorate {β : Type} : DVal β → β
  | .base x => x
  | .strong v => undecorate v
  | .enum x => x

/-- static type of a decorated value -/
def DVal.HasTy {β : Type} : DVal β → Ty → Prop
  | .base _, .base => True
  | .strong v, .strong t => v.HasTy t
  | .enum _, .enum => True
  | _, _ => False

/-! ## generators -/

/-- What a distribution may use of a uniform random bit generator: `operator()`, `min()`, `max()`. -/
structure Gen (γ : Type) where
  next : γ → Nat × γ
  min : Nat
  max : Nat

/-- `generator::basic_pseudo<G>`: `operator()` = `wrapped_()`, `min()` = `wrapped::min()`,
`max()` = `wrapped::max()`. -/
def basicPseudo {γ : Type} (G : Gen γ) : Gen γ where
  next := fun s => G.next s
  min := G.min
  max := G.max

/-- `basic_pseudo(seed)`: `wrapped_(_seed.get())`; the seed is a `strong_typedef<result_type>`. -/
def basicPseudoSeed {γ σ : Type} (mkEngine : σ → γ) (seed : DVal σ) : γ := mkEngine (undecorate seed)

/-! ## the wrapped standard distribution (parameter of the model) -/

/-- A standard distribution with a two-component `param_type` over the base type `β`
(`uniform_int_distribution`: `a()`, `b()`; `uniform_real_distribution`: `a()`, `b()`;
`normal_distribution`: `mean()`, `stddev()`), with internal state `δ`. -/
structure StdDist (β δ : Type) where
  ofParam : β × β → δ                     -- `D(param_type)`
  param : δ → β × β                       -- `d.param()` (and `d.a()`, `d.b()` / `d.mean()`, `d.stddev()`)
  setParam : δ → β × β → δ                -- `d.param(p)`
  reset : δ → δ                           -- `d.reset()`
  draw : {γ : Type} → Gen γ → δ → γ → β × δ × γ   -- `d(g)`
  min : δ → β
  max : δ → β
  beq : δ → δ → Bool                      -- `operator==`

/-! ## parameter classes: uniform_int / uniform_real / normal -/

/-- `parameters::uniform_int<IntType, Distribution>` (members `min_`, `max_`),
`uniform_real<FloatType>` (`min_`, `sup_`), `normal<FloatType>` (`mean_`, `stddev_`). -/
structure Param2 (β : Type) where
  fst : DVal β
  snd : DVal β
  deriving Repr, DecidableEq

/-- `convert_from()`: `wrapped_param_type(base_value(min_.get()), base_value(max_.get()))` -/
def Param2.convertFrom {β : Type} (p : Param2 β) : β × β :=
  (undecorate p.fst, undecorate p.snd)

/-- `convert_to(dist)`: `uniform_int(min(decorated_value(dist.a())), max(decorated_value(dist.b())))`;
`ty` is the class's `result_type`. -/
def Param2.convertTo {β : Type} (ty : Ty) (q : β × β) : Param2 β :=
  ⟨decorate ty q.1, decorate ty q.2⟩

/-! ## distribution::basic -/

/-- `distribution::basic<Parameters>`: the only member is the wrapped distribution. -/
structure Basic (δ : Type) where
  dist : δ

namespace Basic
variable {β δ γ : Type}

/-- `basic(param_type const &)`: `distribution_(_parameters.convert_from())` -/
def ctor (D : StdDist β δ) (p : Param2 β) : Basic δ := ⟨D.ofParam p.convertFrom⟩

/-- `basic(T1 const &, T2 const &)`: `distribution_(param_type(_t1, _t2).convert_from())` -/
def ctor2 (D : StdDist β δ) (t1 t2 : DVal β) : Basic δ := ⟨D.ofParam (Param2.mk t1 t2).convertFrom⟩

/-- `reset()` -/
def reset (D : StdDist β δ) (b : Basic δ) : Basic δ := ⟨D.reset b.dist⟩

/-- `param(param_type const &)`: `distribution_.param(_parameters.convert_from())` -/
def setParam (D : StdDist β δ) (b : Basic δ) (p : Param2 β) : Basic δ := ⟨D.setParam b.dist p.convertFrom⟩

/-- `make_result(v)`: `decorated_value<result_type>(v)` -/
def makeResult (ty : Ty) (x : β) : DVal β := decorate ty x

/-- `operator()(Rng &)`: `make_result(distribution_(_rng))` -/
def draw (D : StdDist β δ) (ty : Ty) (G : Gen γ) (b : Basic δ) (g : γ) : DVal β × Basic δ × γ :=
  let r := D.draw G b.dist g
  (makeResult ty r.1, ⟨r.2.1⟩, r.2.2)

/-- `min()`: `make_result(distribution_.min())` -/
def min (D : StdDist β δ) (ty : Ty) (b : Basic δ) : DVal β := makeResult ty (D.min b.dist)

/-- `max()`: `make_result(distribution_.max())` -/
def max (D : StdDist β δ) (ty : Ty) (b : Basic δ) : DVal β := makeResult ty (D.max b.dist)

/-- `operator==`: `_left.distribution() == _right.distribution()`; `operator!=` is its negation in the
standard distributions and forwarded the same way. -/
def eq (D : StdDist β δ) (l r : Basic δ) : Bool := D.beq l.dist r.dist

/-- `Parameters::convert_to(d.distribution())` — the public way to read the parameters back -/
def readParams (D : StdDist β δ) (ty : Ty) (b : Basic δ) : Param2 β := Param2.convertTo ty (D.param b.dist)

end Basic

/-! ## variate -/

/-- `random::variate<Generator, Distribution>`: a *reference* to the generator (so the generator state is
threaded through by the caller) and a copy of the distribution. -/
structure Variate (δ : Type) where
  distribution : Basic δ

namespace Variate
variable {β δ γ : Type}

/-- `variate(generator_reference, Distribution const &)` -/
def ctor (d : Basic δ) : Variate δ := ⟨d⟩

/-- `variate(generator_reference, param_type const &)`: `distribution_(_param)` -/
def ctorParam (D : StdDist β δ) (p : Param2 β) : Variate δ := ⟨Basic.ctor D p⟩

/-- `operator()()`: `distribution_(generator_.get())` -/
def draw (D : StdDist β δ) (ty : Ty) (G : Gen γ) (v : Variate δ) (g : γ) : DVal β × Variate δ × γ :=
  let r := Basic.draw D ty G v.distribution g
  (r.1, ⟨r.2.1⟩, r.2.2)

/-- `n` successive calls of `operator()()`. -/
def draws (D : StdDist β δ) (ty : Ty) (G : Gen γ) : Nat → Variate δ → γ → List (DVal β) × Variate δ × γ
  | 0, v, g => ([], v, g)
  | n + 1, v, g =>
    let r := draw D ty G v g
    let rs := draws D ty G n r.2.1 r.2.2
    (r.1 :: rs.1, rs.2.1, rs.2.2)

end Variate

/-- `n` successive draws from the bare standard distribution (what the user would write without fcppt). -/
def stdDraws {β δ γ : Type} (D : StdDist β δ) (G : Gen γ) : Nat → δ → γ → List β × δ × γ
  | 0, d, g => ([], d, g)
  | n + 1, d, g =>
    let r := D.draw G d g
    let rs := stdDraws D G n r.2.1 r.2.2
    (r.1 :: rs.1, rs.2.1, rs.2.2)

/-! ## operation histories on one distribution and one generator -/

/-- What a user can do with a `distribution::basic` and a generator, in any order. -/
inductive Op (β : Type) where
  | draw
  | reset
  | setParam (p : Param2 β)
  deriving Repr

/-- fcppt side: run a history, collecting the drawn (decorated) values. -/
def runF {β δ γ : Type} (D : StdDist β δ) (ty : Ty) (G : Gen γ) : List (Op β) → Basic δ → γ → List (DVal β) × Basic δ × γ
  | [], b, g => ([], b, g)
  | .draw :: ops, b, g =>
    let r := Basic.draw D ty G b g
    let rs := runF D ty G ops r.2.1 r.2.2
    (r.1 :: rs.1, rs.2.1, rs.2.2)
  | .reset :: ops, b, g => runF D ty G ops (Basic.reset D b) g
  | .setParam p :: ops, b, g => runF D ty G ops (Basic.setParam D b p) g

/-- std side: the same history on the bare standard distribution, parameters given in the base type. -/
def runS {β δ γ : Type} (D : StdDist β δ) (G : Gen γ) : List (Op β) → δ → γ → List β × δ × γ
  | [], d, g => ([], d, g)
  | .draw :: ops, d, g =>
    let r := D.draw G d g
    let rs := runS D G ops r.2.1 r.2.2
    (r.1 :: rs.1, rs.2.1, rs.2.2)
  | .reset :: ops, d, g => runS D G ops (D.reset d) g
  | .setParam p :: ops, d, g => runS D G ops (D.setParam d (undecorate p.fst, undecorate p.snd)) g

/-! ## factories -/

/-- `make_uniform_enum_advanced<Distribution, Enum>()`:
`param_type(min(int_to_enum<Enum>(0U)), max(enum_::max_value<Enum>::value))`; `maxValue` is the integer
value of `Enum::fcppt_maximum`. -/
def makeUniformEnum (maxValue : Nat) : Param2 Int :=
  ⟨.enum 0, .enum (Int.ofNat maxValue)⟩

/-- `make_uniform_indices_advanced<Distribution>(container)`:
`empty() ? optional() : optional(param_type(min(0U), max(size() - 1U)))` -/
def makeUniformIndices {α : Type} (c : List α) : Option (Param2 Int) :=
  if c.isEmpty then none
  else some ⟨.base 0, .base (Int.ofNat (c.length - 1))⟩

/-- `wrapper::uniform_container<Container, IntDistribution>`: reference to the container (here: the
container itself, it is never modified by the wrapper) and a `basic<uniform_int<size_type>>`. -/
structure UniformContainer (α δ : Type) where
  container : List α
  distribution : Basic δ

namespace UniformContainer
variable {α δ γ : Type}

/-- `uniform_container(container_reference, param_type const &)`:
`distribution_(make_basic(_parameters))` -/
def ctor (D : StdDist Int δ) (c : List α) (p : Param2 Int) : UniformContainer α δ := ⟨c, Basic.ctor D p⟩

/-- `operator()(Generator &)`: `container_.get()[distribution_(_generator)]`.  `operator[]` has the
precondition `index < size()`: outside it the model faults (`oob`).  Returns the element together with
the index that was used. -/
def draw (D : StdDist Int δ) (G : Gen γ) (u : UniformContainer α δ) (g : γ) :
    M ((α × Nat) × UniformContainer α δ × γ) :=
  let r := Basic.draw D .base G u.distribution g
  let i := undecorate r.1
  if i < 0 then .error .oob
  else
    match u.container[i.toNat]? with
    | none => .error .oob
    | some e => .ok ((e, i.toNat), ⟨u.container, r.2.1⟩, r.2.2)

def draws (D : StdDist Int δ) (G : Gen γ) : Nat → UniformContainer α δ → γ → M (List (α × Nat) × UniformContainer α δ × γ)
  | 0, u, g => .ok ([], u, g)
  | n + 1, u, g =>
    match draw D G u g with
    | .error f => .error f
    | .ok r =>
      match draws D G n r.2.1 r.2.2 with
      | .error f => .error f
      | .ok rs => .ok (r.1 :: rs.1, rs.2.1, rs.2.2)

end UniformContainer

/-- `make_uniform_container_advanced<IntDistribution>(container)`:
`optional::map(make_uniform_indices_advanced(container), λ params. uniform_container(container, params))` -/
def makeUniformContainer {α δ : Type} (D : StdDist Int δ) (c : List α) : Option (UniformContainer α δ) :=
  (makeUniformIndices c).map (fun p => UniformContainer.ctor D c p)

/-! ## scripts: several distribution objects, several variates, two generators

What a program can do with the public interface of `distribution::basic` and `variate` when it holds
several objects at once: construct, copy (copy construction, copy assignment and — the wrapped standard
distributions being plain aggregates of scalars — move), swap, draw in any interleaving, `reset()`,
`param(p)`, compare, read `min()`/`max()`, build variates from a distribution *in whatever state it is*,
copy and assign variates (the target then refers to the *source's* generator), and call the generators
directly in between.  There are two generators of the same type (`false` / `true`), so that "which generator
does this variate refer to" is observable.  Objects live in numbered slots; using an empty slot is outside every precondition
(`emptyDeref`). -/

/-- one step of a script -/
inductive Act (β : Type) where
  | newP (i : Nat) (p : Param2 β)          -- `D_i = basic(p)` (also `make_basic(p)`)
  | new2 (i : Nat) (t1 t2 : DVal β)        -- `D_i = basic(t1, t2)`
  | copy (i j : Nat) (assign : Bool)       -- `D_i(D_j)` / `D_i = D_j` (`assign`: `D_i` must exist)
  | swap (i j : Nat)                        -- `std::swap(D_i, D_j)`
  | draw (i : Nat) (w : Bool)               -- `D_i(gen_w)`
  | reset (i : Nat)                         -- `D_i.reset()`
  | setParam (i : Nat) (p : Param2 β)      -- `D_i.param(p)`
  | eq (i j : Nat)                          -- `D_i == D_j`
  | look (i : Nat)                          -- `D_i.min()`, `D_i.max()`, `D_i.distribution().param()`, `os << D_i`
  | varD (k i : Nat) (w : Bool)             -- `V_k = variate(ref(gen_w), D_i)` (also `make_variate`)
  | varP (k : Nat) (p : Param2 β) (w : Bool)  -- `V_k = variate(ref(gen_w), p)`
  | varCopy (k l : Nat) (assign : Bool)    -- `V_k(V_l)` / `V_k = V_l`
  | vdraw (k : Nat)                         -- `V_k()`
  | raw (w : Bool)                          -- `gen_w()`
  deriving Repr

/-- what a step lets the program observe; `ν` is the type of drawn values (`DVal β` on the fcppt side,
`β` on the std side) -/
inductive Ev (ν β : Type) where
  | val (v : ν)
  | raw (n : Nat)
  | eq (b : Bool)
  | look (mn mx : ν) (p : β × β) (out : String)
  deriving Repr, DecidableEq

def Ev.map {ν ν' β : Type} (f : ν → ν') : Ev ν β → Ev ν' β
  | .val v => .val (f v)
  | .raw n => .raw n
  | .eq b => .eq b
  | .look mn mx p o => .look (f mn) (f mx) p o

def upd {α : Type} (f : Nat → Option α) (i : Nat) (v : Option α) : Nat → Option α :=
  fun n => if n = i then v else f n

/-- the objects of the fcppt side -/
structure ObjsF (δ : Type) where
  dist : Nat → Option (Basic δ)
  var : Nat → Option (Variate δ × Bool)    -- the variate and which generator its `generator_` refers to

/-- the objects of the std side: a "variate" is a copy of the distribution and the engine it is used with -/
structure ObjsS (δ : Type) where
  dist : Nat → Option δ
  var : Nat → Option (δ × Bool)

def ObjsF.empty {δ : Type} : ObjsF δ := ⟨fun _ => none, fun _ => none⟩
def ObjsS.empty {δ : Type} : ObjsS δ := ⟨fun _ => none, fun _ => none⟩

/-- forget the fcppt wrappers -/
def ObjsF.erase {δ : Type} (s : ObjsF δ) : ObjsS δ :=
  ⟨fun n => (s.dist n).map (·.dist), fun n => (s.var n).map (fun v => (v.1.distribution.dist, v.2))⟩

def need {α : Type} : Option α → M α
  | some a => .ok a
  | none => .error .emptyDeref

/-- the two generator states; `pick w` is the one a reference with tag `w` refers to -/
def pick {γ : Type} (w : Bool) (gs : γ × γ) : γ := if w then gs.2 else gs.1
def put {γ : Type} (w : Bool) (gs : γ × γ) (g : γ) : γ × γ := if w then (gs.1, g) else (g, gs.2)

section script
variable {β δ γ : Type}

/-- fcppt side of one step.  `out` is `operator<<` of the wrapped distribution (a parameter like the
distribution itself): `basic`'s `operator<<` is `stream << dist.distribution()`. -/
def stepF (D : StdDist β δ) (out : δ → String) (ty : Ty) (G : Gen γ) (a : Act β) (s : ObjsF δ) (g : γ × γ) :
    M (List (Ev (DVal β) β) × ObjsF δ × (γ × γ)) :=
  match a with
  | .newP i p => .ok ([], { s with dist := upd s.dist i (some (Basic.ctor D p)) }, g)
  | .new2 i t1 t2 => .ok ([], { s with dist := upd s.dist i (some (Basic.ctor2 D t1 t2)) }, g)
  | .copy i j assign =>
    match s.dist j, (if assign then (s.dist i).isSome else true) with
    | some d, true => .ok ([], { s with dist := upd s.dist i (some d) }, g)
    | _, _ => .error .emptyDeref
  | .swap i j =>
    match s.dist i, s.dist j with
    | some di, some dj => .ok ([], { s with dist := upd (upd s.dist i (some dj)) j (some di) }, g)
    | _, _ => .error .emptyDeref
  | .draw i w =>
    match s.dist i with
    | some d =>
      let r := Basic.draw D ty G d (pick w g)
      .ok ([.val r.1], { s with dist := upd s.dist i (some r.2.1) }, put w g r.2.2)
    | none => .error .emptyDeref
  | .reset i =>
    match s.dist i with
    | some d => .ok ([], { s with dist := upd s.dist i (some (Basic.reset D d)) }, g)
    | none => .error .emptyDeref
  | .setParam i p =>
    match s.dist i with
    | some d => .ok ([], { s with dist := upd s.dist i (some (Basic.setParam D d p)) }, g)
    | none => .error .emptyDeref
  | .eq i j =>
    match s.dist i, s.dist j with
    | some di, some dj => .ok ([.eq (Basic.eq D di dj)], s, g)
    | _, _ => .error .emptyDeref
  | .look i =>
    match s.dist i with
    | some d => .ok ([.look (Basic.min D ty d) (Basic.max D ty d) (D.param d.dist) (out d.dist)], s, g)
    | none => .error .emptyDeref
  | .varD k i w =>
    match s.dist i with
    | some d => .ok ([], { s with var := upd s.var k (some (Variate.ctor d, w)) }, g)
    | none => .error .emptyDeref
  | .varP k p w => .ok ([], { s with var := upd s.var k (some (Variate.ctorParam D p, w)) }, g)
  | .varCopy k l assign =>
    match s.var l, (if assign then (s.var k).isSome else true) with
    | some v, true => .ok ([], { s with var := upd s.var k (some v) }, g)
    | _, _ => .error .emptyDeref
  | .vdraw k =>
    match s.var k with
    | some v =>
      let r := Variate.draw D ty G v.1 (pick v.2 g)
      .ok ([.val r.1], { s with var := upd s.var k (some (r.2.1, v.2)) }, put v.2 g r.2.2)
    | none => .error .emptyDeref
  | .raw w =>
    let r := G.next (pick w g)
    .ok ([.raw r.1], s, put w g r.2)

/-- std side of one step: the same program written against the bare standard distribution, parameters
given in the base type -/
def stepS (D : StdDist β δ) (out : δ → String) (G : Gen γ) (a : Act β) (s : ObjsS δ) (g : γ × γ) :
    M (List (Ev β β) × ObjsS δ × (γ × γ)) :=
  match a with
  | .newP i p => .ok ([], { s with dist := upd s.dist i (some (D.ofParam (undecorate p.fst, undecorate p.snd))) }, g)
  | .new2 i t1 t2 => .ok ([], { s with dist := upd s.dist i (some (D.ofParam (undecorate t1, undecorate t2))) }, g)
  | .copy i j assign =>
    match s.dist j, (if assign then (s.dist i).isSome else true) with
    | some d, true => .ok ([], { s with dist := upd s.dist i (some d) }, g)
    | _, _ => .error .emptyDeref
  | .swap i j =>
    match s.dist i, s.dist j with
    | some di, some dj => .ok ([], { s with dist := upd (upd s.dist i (some dj)) j (some di) }, g)
    | _, _ => .error .emptyDeref
  | .draw i w =>
    match s.dist i with
    | some d =>
      let r := D.draw G d (pick w g)
      .ok ([.val r.1], { s with dist := upd s.dist i (some r.2.1) }, put w g r.2.2)
    | none => .error .emptyDeref
  | .reset i =>
    match s.dist i with
    | some d => .ok ([], { s with dist := upd s.dist i (some (D.reset d)) }, g)
    | none => .error .emptyDeref
  | .setParam i p =>
    match s.dist i with
    | some d => .ok ([], { s with dist := upd s.dist i (some (D.setParam d (undecorate p.fst, undecorate p.snd))) }, g)
    | none => .error .emptyDeref
  | .eq i j =>
    match s.dist i, s.dist j with
    | some di, some dj => .ok ([.eq (D.beq di dj)], s, g)
    | _, _ => .error .emptyDeref
  | .look i =>
    match s.dist i with
    | some d => .ok ([.look (D.min d) (D.max d) (D.param d) (out d)], s, g)
    | none => .error .emptyDeref
  | .varD k i w =>
    match s.dist i with
    | some d => .ok ([], { s with var := upd s.var k (some (d, w)) }, g)
    | none => .error .emptyDeref
  | .varP k p w => .ok ([], { s with var := upd s.var k (some (D.ofParam (undecorate p.fst, undecorate p.snd), w)) }, g)
  | .varCopy k l assign =>
    match s.var l, (if assign then (s.var k).isSome else true) with
    | some v, true => .ok ([], { s with var := upd s.var k (some v) }, g)
    | _, _ => .error .emptyDeref
  | .vdraw k =>
    match s.var k with
    | some v =>
      let r := D.draw G v.1 (pick v.2 g)
      .ok ([.val r.1], { s with var := upd s.var k (some (r.2.1, v.2)) }, put v.2 g r.2.2)
    | none => .error .emptyDeref
  | .raw w =>
    let r := G.next (pick w g)
    .ok ([.raw r.1], s, put w g r.2)

def runScriptF (D : StdDist β δ) (out : δ → String) (ty : Ty) (G : Gen γ) :
    List (Act β) → ObjsF δ → γ × γ → M (List (Ev (DVal β) β) × ObjsF δ × (γ × γ))
  | [], s, g => .ok ([], s, g)
  | a :: as, s, g =>
    match stepF D out ty G a s g with
    | .error f => .error f
    | .ok r =>
      match runScriptF D out ty G as r.2.1 r.2.2 with
      | .error f => .error f
      | .ok rs => .ok (r.1 ++ rs.1, rs.2.1, rs.2.2)

def runScriptS (D : StdDist β δ) (out : δ → String) (G : Gen γ) :
    List (Act β) → ObjsS δ → γ × γ → M (List (Ev β β) × ObjsS δ × (γ × γ))
  | [], s, g => .ok ([], s, g)
  | a :: as, s, g =>
    match stepS D out G a s g with
    | .error f => .error f
    | .ok r =>
      match runScriptS D out G as r.2.1 r.2.2 with
      | .error f => .error f
      | .ok rs => .ok (r.1 ++ rs.1, rs.2.1, rs.2.2)

end script

/-! ## container scripts: several `uniform_container`s over one container that the program keeps modifying

`uniform_container` holds a *reference* to the container: it sees every later modification of the elements,
and what it returns is a reference into the container (the program may write through it).  The container's
size never changes while wrappers exist (that would invalidate the index interval: outside the
precondition). -/

inductive CAct (α : Type) where
  | make (i : Nat)                      -- `U_i = make_uniform_container_advanced(ref(c))` (nothing for an empty `c`)
  | ctor (i : Nat) (p : Param2 Int)     -- `U_i = uniform_container(ref(c), p)`
  | copy (i j : Nat) (assign : Bool)    -- `U_i(U_j)` / `U_i = U_j`
  | draw (i : Nat)                      -- `U_i(gen)`
  | write (pos : Nat) (x : α)           -- `c[pos] = x`
  | drawWrite (i : Nat) (x : α)         -- `U_i(gen) = x` (container not const)
  | raw                                 -- `gen()`: the program calls the generator itself
  deriving Repr

/-- observation: whether the factory returned a wrapper; the element returned by a draw and the index it has
in the container -/
inductive CEv (α : Type) where
  | made (b : Bool)
  | elem (e : α) (idx : Nat)
  | raw (n : Nat)
  deriving Repr, DecidableEq

section cscript
variable {α δ γ : Type}

def cstep (D : StdDist Int δ) (G : Gen γ) (a : CAct α) (c : List α) (s : Nat → Option (Basic δ)) (g : γ) :
    M (List (CEv α) × List α × (Nat → Option (Basic δ)) × γ) :=
  match a with
  | .make i =>
    match makeUniformContainer D c with
    | some u => .ok ([.made true], c, upd s i (some u.distribution), g)
    | none => .ok ([.made false], c, upd s i none, g)
  | .ctor i p => .ok ([], c, upd s i (some (UniformContainer.ctor D c p).distribution), g)
  | .copy i j assign =>
    match s j, (if assign then (s i).isSome else true) with
    | some d, true => .ok ([], c, upd s i (some d), g)
    | _, _ => .error .emptyDeref
  | .draw i =>
    match s i with
    | some d =>
      match UniformContainer.draw D G ⟨c, d⟩ g with
      | .ok r => .ok ([.elem r.1.1 r.1.2], c, upd s i (some r.2.1.distribution), r.2.2)
      | .error f => .error f
    | none => .error .emptyDeref
  | .write pos x => if pos < c.length then .ok ([], c.set pos x, s, g) else .error .oob
  | .drawWrite i x =>
    match s i with
    | some d =>
      match UniformContainer.draw D G ⟨c, d⟩ g with
      | .ok r => .ok ([.elem r.1.1 r.1.2], c.set r.1.2 x, upd s i (some r.2.1.distribution), r.2.2)
      | .error f => .error f
    | none => .error .emptyDeref
  | .raw =>
    let r := G.next g
    .ok ([.raw r.1], c, s, r.2)

def runCScript (D : StdDist Int δ) (G : Gen γ) :
    List (CAct α) → List α → (Nat → Option (Basic δ)) → γ → M (List (CEv α) × List α × (Nat → Option (Basic δ)) × γ)
  | [], c, s, g => .ok ([], c, s, g)
  | a :: as, c, s, g =>
    match cstep D G a c s g with
    | .error f => .error f
    | .ok r =>
      match runCScript D G as r.2.1 r.2.2.1 r.2.2.2 with
      | .error f => .error f
      | .ok rs => .ok (r.1 ++ rs.1, rs.2.1, rs.2.2.1, rs.2.2.2)

end cscript

end Fcppt.C20
