/-!
# C10 — model of `fcppt::container::bitfield::object`

Mirrors, path by path,

* `bitfield/array_fwd.hpp`     : number of storage words `ceil_div(n, w)`
* `bitfield/proxy_impl.hpp`    : `array_offset = pos / w`, `bit_offset = pos % w`,
                                 `bit_mask = 1 << bit`, assignment (`|= mask` / `&= ~mask`),
                                 conversion to bool (`bit::test`: `(word & mask) != 0`)
* `bitfield/object_impl.hpp`   : `null`, initializer-list constructor, `set`, `get`
* `bitfield/operators.hpp`     : word-wise `|= &= ^=` (std::transform), `operator~`
                                 (word-wise complement, then the unused bits of the last
                                 word are cleared with `(1 << used_bits) - 1`)
* `bitfield/comparison.hpp`    : `==` on the arrays, `!=` its negation
* `bitfield/is_subset_eq.hpp`  : `(l & r) == l`
* `bitfield/init.hpp`          : `null`, then `set(e, f e)` for every enumerator in order
* `bitfield/hash_impl.hpp`     : `range::hash` = left fold of `hash_combine` over the words;
                                 `hashCombine64` / `hash64` is the concrete instance of this tree
                                 (`fcppt/hash_combine.hpp` on a 64-bit `std::size_t`, libstdc++'s
                                 identity `std::hash` of an unsigned integer)
* `bitfield/object_impl.hpp`   : `object(array_type const&)` / `array()` (`ofArray`, `poke`: the object *is*
                                 its array, no normalisation), `operator[]` returning a proxy `(array, pos)`
* `bitfield/proxy_impl.hpp`    : defaulted proxy copy-assignment *rebinds* the proxy (`Proxy.assignProxy`)
* `bitfield/operators.hpp`     : `operator|=(field, index)` / `operator|(field, index)` = `set index true`,
                                 `operator&(field, index)` = `get`
* `bitfield/underlying_value.hpp` : word 0 of a one-word bitfield (`enable_if array_size == 1`)
* `bitfield/output.hpp`        : `{name,name,...}` over `enum_::make_range` with the `is_first` flag

A storage word of the C++ type (unsigned, `w` value bits) is a `BitVec w`; `n` is the number
of enumerators (`fcppt::enum_::size`), an enumerator is its index `i < n`.
-/
namespace Fcppt.C10

/-- `fcppt::math::ceil_div_static<size_t, n, w>` -/
def nwords (n w : Nat) : Nat := (n + w - 1) / w

abbrev Words (w : Nat) := List (BitVec w)

/-- `detail::null_array` -/
def null (n w : Nat) : Words w := List.replicate (nwords n w) 0#w

/-- `proxy::bit_mask (bit_offset pos)` = `shifted_mask`: `1 << (pos % w)` -/
def mask (w pos : Nat) : BitVec w := 1#w <<< (pos % w)

/-- `fcppt::bit::test(value, mask)`: `(value & mask.get()) != 0` -/
def bitTest {w : Nat} (x m : BitVec w) : Bool := (x &&& m) != 0#w

/-- `proxy::operator bool`: `bit::test(array[pos / w], mask)` -/
def get {w : Nat} (a : Words w) (i : Nat) : Bool :=
  match a[i / w]? with
  | some x => bitTest x (mask w i)
  | none => false          -- unreachable for i < n on well-formed arrays (see `get_lt`)

/-- `proxy::operator=(bool)` -/
def set {w : Nat} (a : Words w) (i : Nat) (v : Bool) : Words w :=
  a.modify (i / w) fun x => if v then x ||| mask w i else x &&& ~~~(mask w i)

/-- initializer-list constructor: `null`, then `set(e, true)` for each element in order -/
def ofList (n w : Nat) (l : List Nat) : Words w :=
  l.foldl (fun a i => set a i true) (null n w)

/-- `bitfield::init`: `null`, then `set(e, f e)` for e = 0 .. n-1 -/
def init (n w : Nat) (f : Nat → Bool) : Words w :=
  (List.range n).foldl (fun a i => set a i (f i)) (null n w)

def or {w : Nat} (a b : Words w) : Words w := List.zipWith (· ||| ·) a b
def and {w : Nat} (a b : Words w) : Words w := List.zipWith (· &&& ·) a b
def xor {w : Nat} (a b : Words w) : Words w := List.zipWith (· ^^^ ·) a b

/-- the mask applied to the last word by `operator~`: `(1 << used_bits) - 1` -/
def lastMask (w r : Nat) : BitVec w := (1#w <<< r) - 1#w

/-- `operator~`: complement every word, then clear the padding of the last one
    (`if constexpr (used_bits != 0)`). -/
def not {w : Nat} (n : Nat) (a : Words w) : Words w :=
  let c := a.map (~~~ ·)
  if n % w ≠ 0 then c.modify (nwords n w - 1) (· &&& lastMask w (n % w)) else c

/-- `operator==` (array comparison) -/
def eq {w : Nat} (a b : Words w) : Bool := a == b
def ne {w : Nat} (a b : Words w) : Bool := !(eq a b)

/-- `is_subset_eq(l, r)` = `(l & r) == l` -/
def isSubsetEq {w : Nat} (l r : Words w) : Bool := eq (and l r) l

/-- `bitfield::hash` = `range::hash`: `fold(words, 0, λ elem, state → hash_combine(state, hash elem))`.
    `hc` is the uninterpreted `hash_combine`, `hw` the hash of one word. -/
def hash {w : Nat} (hc : Nat → Nat → Nat) (hw : BitVec w → Nat) (a : Words w) : Nat :=
  a.foldl (fun st x => hc st (hw x)) 0

/-- the set denoted by a bitfield, as the list of its members (what iterating `get` observes) -/
def members {w : Nat} (n : Nat) (a : Words w) : List Nat := (List.range n).filter (get a)

/-! ## raw array access, proxies, index operators, `underlying_value`, output, concrete hash -/

/-- `explicit object(array_type const &)`: the array is stored as given (padding bits included). -/
def ofArray {w : Nat} (ws : Words w) : Words w := ws

/-- `array()` (const and mutable): the stored words. -/
def array {w : Nat} (a : Words w) : Words w := a

/-- write-through the mutable `array()` accessor: `*(bf.array().begin() + k) = x` -/
def poke {w : Nat} (a : Words w) (k : Nat) (x : BitVec w) : Words w := a.set k x

/-- `operator|=(field, index)` and `operator|(field, index)`: `set(index, true)` -/
def orIdx {w : Nat} (a : Words w) (i : Nat) : Words w := set a i true

/-- `operator&(field, index)`: `get(index)` -/
def testIdx {w : Nat} (a : Words w) (i : Nat) : Bool := get a i

/-- `proxy`: a reference to the array (implicit: the array the functions below are applied to)
    and a position. -/
structure Proxy where
  pos : Nat
  deriving Repr, DecidableEq

/-- `object::operator[]` -/
def Proxy.mk' (i : Nat) : Proxy := ⟨i⟩
/-- `proxy &operator=(proxy const &) = default`: copies reference and position, i.e. *rebinds*;
    no bit is written. -/
def Proxy.assignProxy (_p q : Proxy) : Proxy := q
/-- `proxy &operator=(value_type)` -/
def Proxy.assignBool {w : Nat} (a : Words w) (p : Proxy) (v : Bool) : Words w := set a p.pos v
/-- `operator value_type() const` -/
def Proxy.toBool {w : Nat} (a : Words w) (p : Proxy) : Bool := get a p.pos

/-- `underlying_value`: only callable when the array has exactly one word (SFINAE in C++). -/
def underlyingValue {w : Nat} (a : Words w) : Option (BitVec w) :=
  match a with
  | [x] => some x
  | _ => none

/-- `operator<<`: the sequence of strings written to the stream: `{`, then for every enumerator
    in order that is set: a `,` unless first, then the name; finally `}`. -/
def output {w : Nat} (name : Nat → String) (n : Nat) (a : Words w) : List String :=
  let st := (List.range n).foldl
    (fun (st : List String × Bool) e =>
      if get a e then ((if st.2 then st.1 else st.1 ++ [","]) ++ [name e], false) else st)
    (["{"], true)
  st.1 ++ ["}"]

/-- `fcppt::hash_combine` on a 64-bit `std::size_t`. -/
def hashCombine64 (old new : UInt64) : UInt64 :=
  old ^^^ (new + (0x9e3779b9 : UInt64) + (old <<< (6 : UInt64)) + (old >>> (2 : UInt64)))

/-- `bitfield::hash` on this tree: `std::hash` of an unsigned word is its value (libstdc++). -/
def hash64 {w : Nat} (a : Words w) : Nat :=
  hash (fun st h => (hashCombine64 (UInt64.ofNat st) (UInt64.ofNat h)).toNat) (fun x => x.toNat) a

end Fcppt.C10
