/-!
# C10 — model of `fcppt::container::bitfield::object`

Mirrors, path by path,

* `bitfield/array_fwd.hpp`     : number of storage words `ceil_div(n, w)`
* `bitfield/proxy_impl.hpp`    : `array_offset = pos / w`, `bit_offset = pos % w`,
                                 `bit_mask = 1 << bit`, assignment (`|= mask` / `&= ~mask`),
                                 conversion to bool (`bit::test`: `(word & mask) != 0`)
* `bitfield/object_impl.hpp`   : `null`, initializer-list constructor, `set`, `get`
* `bitfield/operators.hpp`     : word-wise `|= &= ^=` (std::transform), `operator~`
                                 (word-wise complement, then the unused bits of the last
                                 word are cleared with `(1 << used_bits) - 1`)
* `bitfield/comparison.hpp`    : `==` on the arrays, `!=` its negation
* `bitfield/is_subset_eq.hpp`  : `(l & r) == l`
* `bitfield/init.hpp`          : `null`, then `set(e, f e)` for every enumerator in order
* `bitfield/hash_impl.hpp`     : `range::hash` = left fold of `hash_combine` over the words

A storage word of the C++ type (unsigned, `w` value bits) is a `BitVec w`; `n` is the number
of enumerators (`fcppt::enum_::size`), an enumerator is its index `i < n`.
-/
namespace Fcppt.C10

/-- `fcppt::math::ceil_div_static<size_t, n, w>` -/
def nwords (n w : Nat) : Nat := (n + w - 1) / w

abbrev Words (w : Nat) := List (BitVec w)

/-- `detail::null_array` -/
def null (n w : Nat) : Words w := List.replicate (nwords n w) 0#w

/-- `proxy::bit_mask (bit_offset pos)` = `shifted_mask`: `1 << (pos % w)` -/
def mask (w pos : Nat) : BitVec w := 1#w <<< (pos % w)

/-- `proxy::operator bool`: `bit::test(array[pos / w], mask)` -/
def get {w : Nat} (a : Words w) (i : Nat) : Bool :=
  match a[i / w]? with
  | some x => (x &&& mask w i) != 0#w
  | none => false          -- unreachable for i < n on well-formed arrays (see `get_lt`)

/-- `proxy::operator=(bool)` -/
def set {w : Nat} (a : Words w) (i : Nat) (v : Bool) : Words w :=
  a.modify (i / w) fun x => if v then x ||| mask w i else x &&& ~~~(mask w i)

/-- initializer-list constructor: `null`, then `set(e, true)` for each element in order -/
def ofList (n w : Nat) (l : List Nat) : Words w :=
  l.foldl (fun a i => set a i true) (null n w)

/-- `bitfield::init`: `null`, then `set(e, f e)` for e = 0 .. n-1 -/
def init (n w : Nat) (f : Nat → Bool) : Words w :=
  (List.range n).foldl (fun a i => set a i (f i)) (null n w)

def or {w : Nat} (a b : Words w) : Words w := List.zipWith (· ||| ·) a b
def and {w : Nat} (a b : Words w) : Words w := List.zipWith (· &&& ·) a b
def xor {w : Nat} (a b : Words w) : Words w := List.zipWith (· ^^^ ·) a b

/-- the mask applied to the last word by `operator~`: `(1 << used_bits) - 1` -/
def lastMask (w r : Nat) : BitVec w := (1#w <<< r) - 1#w

/-- `operator~`: complement every word, then clear the padding of the last one
    (`if constexpr (used_bits != 0)`). -/
def not {w : Nat} (n : Nat) (a : Words w) : Words w :=
  let c := a.map (~~~ ·)
  if n % w ≠ 0 then c.modify (nwords n w - 1) (· &&& lastMask w (n % w)) else c

/-- `operator==` (array comparison) -/
def eq {w : Nat} (a b : Words w) : Bool := a == b
def ne {w : Nat} (a b : Words w) : Bool := !(eq a b)

/-- `is_subset_eq(l, r)` = `(l & r) == l` -/
def isSubsetEq {w : Nat} (l r : Words w) : Bool := eq (and l r) l

/-- `bitfield::hash` = `range::hash`: `fold(words, 0, λ elem, state → hash_combine(state, hash elem))`.
    `hc` is the uninterpreted `hash_combine`, `hw` the hash of one word. -/
def hash {w : Nat} (hc : Nat → Nat → Nat) (hw : BitVec w → Nat) (a : Words w) : Nat :=
  a.foldl (fun st x => hc st (hw x)) 0

/-- the set denoted by a bitfield, as the list of its members (what iterating `get` observes) -/
def members {w : Nat} (n : Nat) (a : Words w) : List Nat := (List.range n).filter (get a)

end Fcppt.C10
