import FcpptModel.Prelude.Fault
/-!
# C13 — model of `fcppt::math::box::object<T, N>` and the free functions on boxes

A `box::object<T,N>` stores two `vector::static_<T,N>`: `min_` and `max_`; the model is a pair of
`Vector Int n`.  Every function that fcppt writes with `fcppt::algorithm::all_of(int_range_count<N>, λ Index …)`
is `allOf (fun i => …)` here, every `vector::init<V>(λ Index …)` / `init_max<Box>(λ Index …)` is
`Vector.ofFn` / `initMax`, with the *same comparisons on the same operands in the same order*.

| definition                     | mirrors                                                                  |
|--------------------------------|--------------------------------------------------------------------------|
| `Ty`, `Ty.norm`, `Ty.normV`    | arithmetic of the coordinate type `T` (`int`: overflow is UB → fault; `unsigned`: wraps) |
| `mkPosSize`, `mkMinMax`        | `box/object_impl.hpp` constructors `(pos, size)` (`max_ = pos + size`) and `(min, max)` |
| `size`                         | `box/object_impl.hpp` `size()` = `to_dim(max_ - min_)`                   |
| `left … back`                  | `box/object_impl.hpp` `min_.x()` …                                        |
| `containsPoint`                | `box/contains_point.hpp`                                                 |
| `contains`                     | `box/contains.hpp`                                                       |
| `intersects`                   | `box/intersects.hpp`                                                     |
| `initMax`, `initDim`           | `box/init_max.hpp`, `box/init_dim.hpp`, `box/detail/init.hpp`            |
| `null`                         | `box/null.hpp`  (`Box(vector::null, dim::null)`, i.e. the `(pos,size)` constructor) |
| `intersection`                 | `box/intersection.hpp`                                                   |
| `extendPoint`, `extendBox`     | `box/extend_bounding_box.hpp` (both overloads)                           |
| `bitStringsAux`, `bitStrings`  | `vector/bit_strings.hpp`, `vector/detail/bit_strings.hpp`                |
| `cornerPoints`                 | `box/corner_points.hpp`  (`pos + bits * to_vector(size())`)              |
| `center`                       | `box/center.hpp` (`pos + (to_vector(size()) / 2).get_unsafe()`; `math::div`: C++ `/` truncates) |
| `shrink`, `stretchAbsolute`    | `box/shrink.hpp`, `box/stretch_absolute.hpp`                             |
| `intervalDistance`             | `math/interval_distance.hpp` (swap, then the two-way branch)             |
| `interval`, `distance`         | `box/interval.hpp`, `box/distance.hpp`                                   |
| `vecEq`, `lexLt`, `eq`, `ne`, `lt` | `math/detail/array_equal.hpp`, `array_less.hpp` (`std::lexicographical_compare`), `box/comparison.hpp` (`std::pair` `<`) |
-/
namespace Fcppt.C13

/-! ## the coordinate type -/

/-- An integer type `T` of rank ≥ `int` (no integral promotion): `int` = ⟨true, 32⟩, `unsigned` = ⟨false, 32⟩. -/
structure Ty where
  signed : Bool
  bits : Nat
  deriving Repr, DecidableEq

def Ty.int : Ty := ⟨true, 32⟩
def Ty.uint : Ty := ⟨false, 32⟩

def Ty.lo (t : Ty) : Int := if t.signed then -(2 ^ (t.bits - 1)) else 0
def Ty.hi (t : Ty) : Int := if t.signed then 2 ^ (t.bits - 1) - 1 else 2 ^ t.bits - 1

/-- `x` is a value of the type -/
def Ty.Rep (t : Ty) (x : Int) : Prop := t.lo ≤ x ∧ x ≤ t.hi

instance (t : Ty) (x : Int) : Decidable (t.Rep x) := by unfold Ty.Rep; infer_instance

/-- the result of an arithmetic operation whose exact value is `x`: signed — `x` if representable,
    undefined behaviour otherwise; unsigned — reduced modulo 2^bits -/
def Ty.norm (t : Ty) (x : Int) : M Int :=
  if t.signed then (if t.Rep x then .ok x else .error .signedOverflow) else .ok (x % 2 ^ t.bits)

/-- component-wise arithmetic on a vector (`binary_map` / `map` with `+ - *`): `v` holds the exact
    results; one overflowing component makes the whole expression undefined. -/
def Ty.normV (t : Ty) {n : Nat} (v : Vector Int n) : M (Vector Int n) :=
  if t.signed then (if ∀ i : Fin n, t.Rep v[i] then .ok v else .error .signedOverflow)
  else .ok (v.map (· % 2 ^ t.bits))

/-- `fcppt::math::div(a, b)`: nothing for a zero divisor, otherwise C++ `/` (truncating). -/
def Ty.div (t : Ty) (a b : Int) : M (Option Int) :=
  if b = 0 then .ok none else (t.norm (Int.tdiv a b)).map some

/-! ## vectors and boxes -/

abbrev Vec (n : Nat) := Vector Int n

/-- `fcppt::algorithm::all_of(int_range_count<N>{}, f)` -/
def allOf {n : Nat} (f : Fin n → Bool) : Bool := (List.finRange n).all f

/-- `vector::init<V>(f)` for a fallible `f`: components are computed in index order, the first
    fault is the fault of the whole expression. -/
def seqFn {n : Nat} (f : Fin n → M Int) : M (Vec n) :=
  match (List.finRange n).findSome? (fun i => match f i with | .error e => some e | .ok _ => none) with
  | some e => .error e
  | none => .ok (Vector.ofFn fun i => match f i with | .ok x => x | .error _ => 0)

def vadd {n : Nat} (a b : Vec n) : Vec n := Vector.zipWith (· + ·) a b
def vsub {n : Nat} (a b : Vec n) : Vec n := Vector.zipWith (· - ·) a b
def vmul {n : Nat} (a b : Vec n) : Vec n := Vector.zipWith (· * ·) a b
def vzero (n : Nat) : Vec n := Vector.replicate n 0

structure Box (n : Nat) where
  min : Vec n
  max : Vec n
  deriving DecidableEq, Repr

/-- `object(vector pos, dim size)`: `min_(pos), max_(pos + size)` -/
def mkPosSize (t : Ty) {n : Nat} (pos size : Vec n) : M (Box n) := do
  let mx ← t.normV (vadd pos size)
  pure ⟨pos, mx⟩

/-- `object(vector min, vector max)` -/
def mkMinMax {n : Nat} (mn mx : Vec n) : Box n := ⟨mn, mx⟩

/-- `size()`: `to_dim(max_ - min_)` -/
def size (t : Ty) {n : Nat} (b : Box n) : M (Vec n) := t.normV (vsub b.max b.min)

def left {n : Nat} (b : Box n) (h : 0 < n) : Int := b.min[0]
def right {n : Nat} (b : Box n) (h : 0 < n) : Int := b.max[0]
def top {n : Nat} (b : Box n) (h : 1 < n) : Int := b.min[1]
def bottom {n : Nat} (b : Box n) (h : 1 < n) : Int := b.max[1]
def front {n : Nat} (b : Box n) (h : 2 < n) : Int := b.min[2]
def back {n : Nat} (b : Box n) (h : 2 < n) : Int := b.max[2]

/-- `contains_point`: `point[i] >= pos[i] && point[i] < max[i]` for all `i` -/
def containsPoint {n : Nat} (b : Box n) (p : Vec n) : Bool :=
  allOf (n := n) fun i => decide (p[i] ≥ b.min[i]) && decide (p[i] < b.max[i])

/-- `contains(outer, inner)`: `inner.pos[i] >= outer.pos[i] && inner.max[i] <= outer.max[i]` -/
def contains {n : Nat} (outer inner : Box n) : Bool :=
  allOf (n := n) fun i => decide (inner.min[i] ≥ outer.min[i]) && decide (inner.max[i] ≤ outer.max[i])

/-- `intersects(a, b)`: `b.pos[i] < a.max[i] && a.pos[i] < b.max[i]` -/
def intersects {n : Nat} (a b : Box n) : Bool :=
  allOf (n := n) fun i => decide (b.min[i] < a.max[i]) && decide (a.min[i] < b.max[i])

/-- `init_max<Box>(f)`: `detail::init` first evaluates `f` for every index into an array of tuples,
    then builds `Box{vector::init(get<0>), vector::init(get<1>)}` with the (min, max) constructor -/
def initMax {n : Nat} (f : Fin n → Int × Int) : Box n :=
  let results := Vector.ofFn f
  mkMinMax (Vector.ofFn fun i => results[i].1) (Vector.ofFn fun i => results[i].2)

/-- `init_dim<Box>(f)`: same, but the second components form a `dim` → (pos, size) constructor -/
def initDim (t : Ty) {n : Nat} (f : Fin n → Int × Int) : M (Box n) :=
  let results := Vector.ofFn f
  mkPosSize t (Vector.ofFn fun i => results[i].1) (Vector.ofFn fun i => results[i].2)

/-- the calls of `_function` made by `init_max` / `init_dim`: `array::init` evaluates it exactly once per index, in index
    order, before any of the two vectors is built -/
def initTrace (n : Nat) : List Nat := (List.finRange n).map (·.val)

/-- `null<Box>()`: `Box(vector::null, dim::null)` -/
def null (t : Ty) (n : Nat) : M (Box n) := mkPosSize t (vzero n) (vzero n)

/-- `intersection(a, b)` -/
def intersection (t : Ty) {n : Nat} (a b : Box n) : M (Box n) :=
  if intersects a b then
    pure (initMax (n := n) fun i => (Max.max a.min[i] b.min[i], Min.min a.max[i] b.max[i]))
  else null t n

/-- `extend_bounding_box(box, pos)` -/
def extendPoint {n : Nat} (b : Box n) (p : Vec n) : Box n :=
  initMax (n := n) fun i => (Min.min p[i] b.min[i], Max.max p[i] b.max[i])

/-- `extend_bounding_box(box1, box2)` -/
def extendBox {n : Nat} (a b : Box n) : Box n :=
  initMax (n := n) fun i => (Min.min a.min[i] b.min[i], Max.max a.max[i] b.max[i])

/-- `detail::bit_strings<K-1>(it, v)`: set component `K-1` to 0, recurse, set it to 1, recurse;
    at the bottom (`N == 0` in C++: component 0 has just been set) emit the vector. -/
def bitStringsAux {n : Nat} : (k : Nat) → Vec n → List (Vec n)
  | 0, v => [v]
  | k + 1, v => bitStringsAux k (v.setIfInBounds k 0) ++ bitStringsAux k (v.setIfInBounds k 1)

/-- `vector::bit_strings<T, N>()` (N ≥ 1 in C++) -/
def bitStrings (n : Nat) : List (Vec n) := bitStringsAux n (vzero n)

/-- `corner_points(box)`: for every bit string `c`: `pos + c * to_vector(size())` -/
def cornerPoints (t : Ty) {n : Nat} (b : Box n) : M (List (Vec n)) :=
  (bitStrings n).mapM fun c => do
    let s ← size t b
    let prod ← t.normV (vmul c s)
    t.normV (vadd b.min prod)

/-- `center(box)`: `pos + (to_vector(size()) / 2).get_unsafe()` -/
def center (t : Ty) {n : Nat} (b : Box n) : M (Vec n) := do
  let s ← size t b
  let half ← seqFn (n := n) fun i => do
    match ← t.div s[i] 2 with
    | some q => pure q
    | none => throw .emptyDeref
  t.normV (vadd b.min half)

/-- `shrink(box, v)`: `Box(pos + v, max - v)` -/
def shrink (t : Ty) {n : Nat} (b : Box n) (v : Vec n) : M (Box n) := do
  let mn ← t.normV (vadd b.min v)
  let mx ← t.normV (vsub b.max v)
  pure (mkMinMax mn mx)

/-- `stretch_absolute(box, v)`: `Box(pos - v, max + v)` -/
def stretchAbsolute (t : Ty) {n : Nat} (b : Box n) (v : Vec n) : M (Box n) := do
  let mn ← t.normV (vsub b.min v)
  let mx ← t.normV (vadd b.max v)
  pure (mkMinMax mn mx)

/-- `fcppt::math::interval_distance(i1, i2)` -/
def intervalDistance (t : Ty) (i1 i2 : Int × Int) : M Int :=
  -- `if (i1_second <= i2_second) std::swap(_i1, _i2);`
  let (i1, i2) := if i1.2 ≤ i2.2 then (i2, i1) else (i1, i2)
  if i2.1 ≤ i1.1 then
    t.norm (i1.1 - i2.2)
  else do
    let x ← t.norm (i2.2 - i1.2)
    let y ← t.norm (i1.1 - i2.1)
    pure (Max.max x y)

/-- `box::interval<Index>(box)` -/
def interval {n : Nat} (b : Box n) (i : Fin n) : Int × Int := (b.min[i], b.max[i])

/-- `box::distance(box1, box2)` -/
def distance (t : Ty) {n : Nat} (a b : Box n) : M (Vec n) :=
  seqFn (n := n) fun i => intervalDistance t (interval a i) (interval b i)

/-- `detail::array_equal` -/
def vecEq {n : Nat} (a b : Vec n) : Bool := allOf (n := n) fun i => a[i] == b[i]

/-- `std::lexicographical_compare` -/
def lexLt : List Int → List Int → Bool
  | [], [] => false
  | [], _ :: _ => true
  | _ :: _, [] => false
  | x :: xs, y :: ys => if x < y then true else if y < x then false else lexLt xs ys

def vecLt {n : Nat} (a b : Vec n) : Bool := lexLt a.toList b.toList

/-- `operator==`: `a.pos() == b.pos() && a.size() == b.size()` (`&&` short-circuits) -/
def eq (t : Ty) {n : Nat} (a b : Box n) : M Bool :=
  if vecEq a.min b.min then do
    let sa ← size t a
    let sb ← size t b
    pure (vecEq sa sb)
  else pure false

def ne (t : Ty) {n : Nat} (a b : Box n) : M Bool := do
  let e ← eq t a b
  pure (!e)

/-- `operator<`: `std::make_pair(a.pos(), a.size()) < std::make_pair(b.pos(), b.size())`
    (`x.first < y.first || (!(y.first < x.first) && x.second < y.second)`) -/
def lt (t : Ty) {n : Nat} (a b : Box n) : M Bool := do
  let sa ← size t a
  let sb ← size t b
  pure (vecLt a.min b.min || (!vecLt b.min a.min && vecLt sa sb))

/-! ## extension round: mutable accessors, neighbouring functions, register machine

| definition                     | mirrors                                                                  |
|--------------------------------|--------------------------------------------------------------------------|
| `setPos`, `setMax`             | assignment through the non-const `pos()` / `max()` (they return `min_` / `max_` by reference) |
| `halfV`, `stretchRelative`     | `box/stretch_relative.hpp` (`dim = size * to_dim(factors)`; `Box(center - (dim / 2).get_unsafe(), dim)`) |
| `Ty.wrap`, `structureCast`     | `box/structure_cast.hpp` with a converter that is a `static_cast` (`static_cast_fun`, `size_fun`, `to_signed_fun`, `to_unsigned_fun`): `Dest(cast(pos), cast(size()))` |
| `showOut`, `output`            | `box/output.hpp`, `math/detail/one_dimensional_output.hpp`: `((x,y),(w,h))` |
| `Instr`, `St`, `step`, `run`   | sequences of statements on two box objects `A`, `B` and a vector `V` (assignments through the mutable accessors, aliasing, copies, swaps, `A = f(A, …)`) |
| `foldPoints`, `foldBoxes`, `foldIntersection` | `b = extend_bounding_box(b, p)` / `a = extend_bounding_box(a, b)` / `a = intersection(a, b)` in a loop |
-/

/-- `b.pos() = v` -/
def setPos {n : Nat} (b : Box n) (v : Vec n) : Box n := ⟨v, b.max⟩
/-- `b.max() = v` -/
def setMax {n : Nat} (b : Box n) (v : Vec n) : Box n := ⟨b.min, v⟩

/-- `(v / 2).get_unsafe()` -/
def halfV (t : Ty) {n : Nat} (v : Vec n) : M (Vec n) :=
  seqFn (n := n) fun i => do
    match ← t.div v[i] 2 with
    | some q => pure q
    | none => throw .emptyDeref

/-- `stretch_relative(box, factors)` -/
def stretchRelative (t : Ty) {n : Nat} (b : Box n) (f : Vec n) : M (Box n) := do
  let s ← size t b
  let d ← t.normV (vmul s f)
  let c ← center t b
  let half ← halfV t d
  let p ← t.normV (vsub c half)
  mkPosSize t p d

/-- `static_cast<Dest>(x)` between integer types (C++20: modular in both directions) -/
def Ty.wrap (t : Ty) (x : Int) : Int :=
  if t.signed then (x + 2 ^ (t.bits - 1)) % 2 ^ t.bits - 2 ^ (t.bits - 1) else x % 2 ^ t.bits

/-- `structure_cast<Dest, Conv>(src)`: `Dest(vector::structure_cast(src.pos()), dim::structure_cast(src.size()))` -/
def structureCast (src dst : Ty) {n : Nat} (b : Box n) : M (Box n) := do
  let s ← size src b
  mkPosSize dst (b.min.map dst.wrap) (s.map dst.wrap)

/-- `operator<<` of a vector / dim: `(a_1,…,a_n)` -/
def showOut {n : Nat} (v : Vec n) : String := "(" ++ ",".intercalate (v.toList.map toString) ++ ")"

/-- `operator<<` of a box: `(position,size)` -/
def output (t : Ty) {n : Nat} (b : Box n) : M String := do
  let s ← size t b
  pure ("(" ++ showOut b.min ++ "," ++ showOut s ++ ")")

/-- One C++ statement on the objects `box A, B; vector V`. -/
inductive Instr where
  | pv   -- A.pos() = V
  | mv   -- A.max() = V
  | pm   -- A.pos() = A.max()
  | mp   -- A.max() = A.pos()
  | pb   -- A.pos() = B.pos()
  | mb   -- A.max() = B.max()
  | pbm  -- A.pos() = B.max()
  | sw   -- std::swap(A, B)
  | ss   -- std::swap(A, A)
  | sc   -- std::swap(A.pos(), A.max())
  | cp   -- A = B
  | sa   -- A = A
  | mo   -- A = std::move(B)   (B keeps its value: the storage is an array of T)
  | sm   -- A = std::move(A)
  | xi   -- A = intersection(A, B)
  | xb   -- A = extend_bounding_box(A, B)
  | xv   -- A = extend_bounding_box(A, V)
  | xm   -- A = extend_bounding_box(A, A.max())
  | sh   -- A = shrink(A, V)
  | st   -- A = stretch_absolute(A, V)
  | shp  -- A = shrink(A, A.pos())
  | stm  -- A = stretch_absolute(A, A.max())
  | ni   -- box N{no_init}; N.pos() = A.pos(); N.max() = A.max(); A = N
  | ps   -- A = box(A.pos(), A.size())
  | ce   -- A.pos() = center(A)
  | px   -- at<0>(A.pos()) = at<0>(V)      (N ≥ 1)
  | vp   -- V = A.pos()
  | vm   -- V = A.max()
  | xa   -- A = intersection(A, A)
  | xe   -- A = extend_bounding_box(A, A)
  deriving DecidableEq, Repr

def Instr.all : List Instr :=
  [.pv, .mv, .pm, .mp, .pb, .mb, .pbm, .sw, .ss, .sc, .cp, .sa, .mo, .sm, .xi, .xb, .xv, .xm, .sh, .st, .shp, .stm,
   .ni, .ps, .ce, .px, .vp, .vm, .xa, .xe]

def Instr.code : Instr → String
  | .pv => "pv" | .mv => "mv" | .pm => "pm" | .mp => "mp" | .pb => "pb" | .mb => "mb" | .pbm => "pbm"
  | .sw => "sw" | .ss => "ss" | .sc => "sc" | .cp => "cp" | .sa => "sa" | .mo => "mo" | .sm => "sm"
  | .xi => "xi" | .xb => "xb" | .xv => "xv" | .xm => "xm" | .sh => "sh" | .st => "st" | .shp => "shp" | .stm => "stm"
  | .ni => "ni" | .ps => "ps" | .ce => "ce" | .px => "px" | .vp => "vp" | .vm => "vm" | .xa => "xa" | .xe => "xe"

structure St (n : Nat) where
  a : Box n
  b : Box n
  v : Vec n
  deriving DecidableEq, Repr

def step (t : Ty) {n : Nat} (s : St n) : Instr → M (St n)
  | .pv => pure { s with a := setPos s.a s.v }
  | .mv => pure { s with a := setMax s.a s.v }
  | .pm => pure { s with a := setPos s.a s.a.max }
  | .mp => pure { s with a := setMax s.a s.a.min }
  | .pb => pure { s with a := setPos s.a s.b.min }
  | .mb => pure { s with a := setMax s.a s.b.max }
  | .pbm => pure { s with a := setPos s.a s.b.max }
  | .sw => pure { s with a := s.b, b := s.a }
  | .ss => pure s
  | .sc => pure { s with a := ⟨s.a.max, s.a.min⟩ }
  | .cp => pure { s with a := s.b }
  | .sa => pure s
  | .mo => pure { s with a := s.b }
  | .sm => pure s
  | .xi => do let r ← intersection t s.a s.b; pure { s with a := r }
  | .xb => pure { s with a := extendBox s.a s.b }
  | .xv => pure { s with a := extendPoint s.a s.v }
  | .xm => pure { s with a := extendPoint s.a s.a.max }
  | .sh => do let r ← shrink t s.a s.v; pure { s with a := r }
  | .st => do let r ← stretchAbsolute t s.a s.v; pure { s with a := r }
  | .shp => do let r ← shrink t s.a s.a.min; pure { s with a := r }
  | .stm => do let r ← stretchAbsolute t s.a s.a.max; pure { s with a := r }
  | .ni => pure { s with a := setMax (setPos s.a s.a.min) s.a.max }
  | .ps => do let sz ← size t s.a; let r ← mkPosSize t s.a.min sz; pure { s with a := r }
  | .ce => do let c ← center t s.a; pure { s with a := setPos s.a c }
  | .px => if h : 0 < n then pure { s with a := setPos s.a (s.a.min.set 0 s.v[0]) } else pure s
  | .vp => pure { s with v := s.a.min }
  | .vm => pure { s with v := s.a.max }
  | .xa => do let r ← intersection t s.a s.a; pure { s with a := r }
  | .xe => pure { s with a := extendBox s.a s.a }

/-- a statement sequence; the first fault (undefined behaviour) ends it -/
def run (t : Ty) {n : Nat} (s : St n) : List Instr → M (St n)
  | [] => pure s
  | i :: is => do let s' ← step t s i; run t s' is

/-- `for (p : ps) b = extend_bounding_box(b, p);` -/
def foldPoints {n : Nat} (b : Box n) (ps : List (Vec n)) : Box n := ps.foldl extendPoint b

/-- `for (b : bs) a = extend_bounding_box(a, b);` -/
def foldBoxes {n : Nat} (a : Box n) (bs : List (Box n)) : Box n := bs.foldl extendBox a

/-- `for (b : bs) a = intersection(a, b);` -/
def foldIntersection (t : Ty) {n : Nat} (a : Box n) : List (Box n) → M (Box n)
  | [] => pure a
  | b :: bs => do let r ← intersection t a b; foldIntersection t r bs

end Fcppt.C13
