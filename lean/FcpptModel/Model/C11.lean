import FcpptModel.Prelude.Fault
/-!
# C11 — model of `fcppt::intrusive::base`, `fcppt::intrusive::list`, `fcppt::signal::object`

A pointer store: every `fcppt::intrusive::base<T>` sub-object (the hook of an element, or the
`head_` member of a list) is a node with a `prev_` and a `next_` pointer and a liveness flag.
Every special member function is mirrored **pointer write by pointer write, in source order**;
every read or write through a pointer checks that the pointee is alive (a dead pointee is the
model's heap-use-after-free, `Fault.oob`).

| definition            | mirrors                                                                  |
|-----------------------|--------------------------------------------------------------------------|
| `baseCtorDefault`     | `intrusive/base_impl.hpp`  `base<T>::base()`                             |
| `baseCtorList`        | `intrusive/base_impl.hpp`  `base<T>::base(list_type&)`                   |
| `baseCtorMove`        | `intrusive/base_impl.hpp`  `base<T>::base(base&&)` (after commit f84f067)  |
| `baseAssignMove`      | `intrusive/base_impl.hpp`  `base<T>::operator=(base&&)` (after f84f067)    |
| `detach`, `attach`   | the statement groups shared by the move operations, the destructor and `unlink` |
| `baseDtor`            | `intrusive/base_impl.hpp`  `base<T>::~base()`                            |
| `baseUnlink`          | `intrusive/base_impl.hpp`  `base<T>::unlink()`                           |
| `listEmpty`           | `intrusive/list_impl.hpp`  `empty()` = `begin() == end()`                |
| `listCtorDefault`     | `intrusive/list_impl.hpp`  `list()`                                      |
| `listCtorMove`        | `intrusive/list_impl.hpp`  `list(list&&)`                                |
| `listAssignMove`      | `intrusive/list_impl.hpp`  `operator=(list&&)` (after commit dcbe9a0)    |
| `listDtor`            | `intrusive/list_impl.hpp`  `~list() = default` (destroys `head_`)        |
| `walk`, `walkBack`    | `intrusive/iterator_impl.hpp` `increment` / `decrement` from `begin()` / `end()` |
| `Iter`, `iterDefault`, `iterAt`, `listBegin`, `listEnd`, `iterIncrement`, `iterDecrement`, `iterDeref`, `iterEqual`, `iterPostInc`, `iterPostDec`, `iterAdvance` | `intrusive/iterator_impl.hpp` (every member), `intrusive/list_impl.hpp` `begin()/end()` (const and non-const have the same body), `iterator/base_impl.hpp` `operator++(int)`, `operator--(int)` |
| `Sig.callVoid`        | `signal/object_impl.hpp`  `object<void(Args...), Base>::operator()` (range-for over `connections()`) |
| `Hold.*`              | owners of `fcppt::signal::auto_connection` (= `fcppt::unique_ptr<connection>`): `optional_auto_connection`, `auto_connection_container` (= `std::vector<auto_connection>`) |
| `Sig.*`               | `signal/base_impl.hpp`, `signal/unregister/base_impl.hpp`, `signal/object_impl.hpp`, `signal/detail/concrete_connection_impl.hpp`, `signal/unregister/detail/concrete_connection_impl.hpp` |
-/
namespace Fcppt.C11

/-- A `base<T>` sub-object: the `head_` of list number `k`, or the hook of element number `e`. -/
inductive Node where
  | head (k : Nat)
  | elem (e : Nat)
  deriving DecidableEq, Repr, Inhabited

structure Store where
  live : Node → Bool
  prev : Node → Node
  next : Node → Node

namespace Store

def empty : Store := ⟨fun _ => false, fun n => n, fun n => n⟩

def setPrev (σ : Store) (p v : Node) : Store := { σ with prev := fun x => if x = p then v else σ.prev x }
def setNext (σ : Store) (p v : Node) : Store := { σ with next := fun x => if x = p then v else σ.next x }
/-- storage for a new object whose member initialisers are `prev_{pv}, next_{nx}` -/
def alloc (σ : Store) (p pv nx : Node) : Store :=
  { live := fun x => if x = p then true else σ.live x,
    prev := fun x => if x = p then pv else σ.prev x,
    next := fun x => if x = p then nx else σ.next x }
def free (σ : Store) (p : Node) : Store := { σ with live := fun x => if x = p then false else σ.live x }

end Store

/-- `p->prev_` -/
def rdPrev (σ : Store) (p : Node) : M Node := if σ.live p then .ok (σ.prev p) else .error .oob
/-- `p->next_` -/
def rdNext (σ : Store) (p : Node) : M Node := if σ.live p then .ok (σ.next p) else .error .oob
/-- `p->prev_ = v` -/
def wrPrev (σ : Store) (p v : Node) : M Store := if σ.live p then .ok (σ.setPrev p v) else .error .oob
/-- `p->next_ = v` -/
def wrNext (σ : Store) (p v : Node) : M Store := if σ.live p then .ok (σ.setNext p v) else .error .oob

/-- `base() : prev_{this}, next_{this}` -/
def baseCtorDefault (σ : Store) (self : Node) : M Store :=
  .ok (σ.alloc self self self)

/-- `base(list_type &_list) : prev_{_list.head_.prev_}, next_{&_list.head_}` (`h` = `&_list.head_`) -/
def baseCtorList (σ : Store) (self h : Node) : M Store := do
  let p ← rdPrev σ h
  let σ := σ.alloc self p h
  let p ← rdPrev σ h              -- _list.head_.prev_->next_ = this;
  let σ ← wrNext σ p self
  wrPrev σ h self                 -- _list.head_.prev_ = this;

/-- the two statements `next_->prev_ = prev_; prev_->next_ = next_;` with which `operator=(base&&)`,
`~base()` and `unlink()` all begin -/
def detach (σ : Store) (self : Node) : M Store := do
  let n ← rdNext σ self           -- next_->prev_ = prev_;
  let p ← rdPrev σ self
  let σ ← wrPrev σ n p
  let p ← rdPrev σ self           -- prev_->next_ = next_;
  let n ← rdNext σ self
  wrNext σ p n

/-- the four statements `prev_->next_ = this; next_->prev_ = this; _other.prev_ = &_other;
_other.next_ = &_other;` with which `base(base&&)` and `operator=(base&&)` both end -/
def attach (σ : Store) (self other : Node) : M Store := do
  let p ← rdPrev σ self           -- prev_->next_ = this;
  let σ ← wrNext σ p self
  let n ← rdNext σ self           -- next_->prev_ = this;
  let σ ← wrPrev σ n self
  let σ ← wrPrev σ other other    -- _other.prev_ = &_other;
  wrNext σ other other            -- _other.next_ = &_other;

/-- `base(base &&_other) : prev_{_other.prev_}, next_{_other.next_}`
`{ if (next_ == &_other) { prev_ = this; next_ = this; return; } …attach… }`  (after commit f84f067) -/
def baseCtorMove (σ : Store) (self other : Node) : M Store := do
  let p ← rdPrev σ other
  let n ← rdNext σ other
  let σ := σ.alloc self p n
  let n ← rdNext σ self           -- if (next_ == &_other)
  if n = other then do
    let σ ← wrPrev σ self self    -- prev_ = this;
    wrNext σ self self            -- next_ = this;
  else attach σ self other

/-- `base::operator=(base &&_other)`: self test, detach,
`if (_other.next_ == &_other) { prev_ = this; next_ = this; return *this; }`,
`prev_ = _other.prev_; next_ = _other.next_;`, attach  (after commit f84f067) -/
def baseAssignMove (σ : Store) (self other : Node) : M Store :=
  if other = self then .ok σ else do
    let σ ← detach σ self
    let on ← rdNext σ other       -- if (_other.next_ == &_other)
    if on = other then do
      let σ ← wrPrev σ self self  -- prev_ = this;
      wrNext σ self self          -- next_ = this;
    else do
      let op ← rdPrev σ other     -- prev_ = _other.prev_;
      let σ ← wrPrev σ self op
      let on ← rdNext σ other     -- next_ = _other.next_;
      let σ ← wrNext σ self on
      attach σ self other

/-- `~base() { …detach… }` followed by the release of the storage -/
def baseDtor (σ : Store) (self : Node) : M Store := do
  let σ ← detach σ self
  .ok (σ.free self)

/-- `unlink() { …detach…; next_ = this; prev_ = this; }` -/
def baseUnlink (σ : Store) (self : Node) : M Store := do
  let σ ← detach σ self
  let σ ← wrNext σ self self      -- next_ = this;
  wrPrev σ self self              -- prev_ = this;

/-- `list::empty()`: `begin() == end()`, i.e. `head_.next_ == &head_` -/
def listEmpty (σ : Store) (h : Node) : M Bool := do
  let b ← rdNext σ h
  .ok (b == h)

/-- `list() : head_{}` -/
def listCtorDefault (σ : Store) (k : Nat) : M Store := baseCtorDefault σ (.head k)

/-- `list(list &&_other) : head_{}  { if (!_other.empty()) head_ = std::move(_other.head_); }` -/
def listCtorMove (σ : Store) (k other : Nat) : M Store := do
  let σ ← baseCtorDefault σ (.head k)
  let e ← listEmpty σ (.head other)
  if !e then baseAssignMove σ (.head k) (.head other) else .ok σ

/-- `list::operator=(list &&_other)` -/
def listAssignMove (σ : Store) (k other : Nat) : M Store :=
  if other = k then .ok σ else do
    let e ← listEmpty σ (.head other)
    if e then baseUnlink σ (.head k) else baseAssignMove σ (.head k) (.head other)

/-- `~list() = default` -/
def listDtor (σ : Store) (k : Nat) : M Store := baseDtor σ (.head k)

/-- `for (it = cur; it != end(); ++it)` collecting the nodes visited; `fuel` bounds the number of
increments (exhausted fuel = the loop does not terminate within that many steps). -/
def walkFrom (σ : Store) (h : Node) : Nat → Node → M (List Node)
  | 0, cur => if cur = h then .ok [] else .error .fuel
  | f + 1, cur =>
    if cur = h then .ok [] else do
      let n ← rdNext σ cur        -- iterator::increment: cur_ = cur_->next_
      let r ← walkFrom σ h f n
      .ok (cur :: r)

/-- iteration `begin() .. end()` -/
def walk (σ : Store) (h : Node) (fuel : Nat) : M (List Node) := do
  let b ← rdNext σ h              -- begin(): iterator{head_.next_}
  walkFrom σ h fuel b

/-- backwards: `it = end(); while (it != begin()) { --it; visit(*it); }` expressed on the ring:
follow `prev_` from the head until the head is reached again. -/
def walkBackFrom (σ : Store) (h : Node) : Nat → Node → M (List Node)
  | 0, cur => if cur = h then .ok [] else .error .fuel
  | f + 1, cur =>
    if cur = h then .ok [] else do
      let p ← rdPrev σ cur        -- iterator::decrement: cur_ = cur_->prev_
      let r ← walkBackFrom σ h f p
      .ok (cur :: r)

def walkBack (σ : Store) (h : Node) (fuel : Nat) : M (List Node) := do
  let b ← rdPrev σ h
  walkBackFrom σ h fuel b


/-! ## Iterators as objects (`intrusive/iterator_impl.hpp`)

`fcppt::intrusive::iterator<Type>` holds one pointer `cur_`.  `iterator<Type>` and
`iterator<Type const>` are the same template (only the pointee is const), `list::begin() const` /
`end() const` have the same bodies as the non-const overloads. -/

/-- `cur_`; `none` = the default-constructed iterator (`cur_{nullptr}`) -/
abbrev Iter := Option Node

/-- `iterator() : cur_{nullptr}` -/
def iterDefault : Iter := none
/-- `explicit iterator(pointer_type _cur) : cur_{_cur}` -/
def iterAt (n : Node) : Iter := some n
/-- `list::begin()`: `iterator{this->head_.next_}` -/
def listBegin (σ : Store) (h : Node) : M Iter := do
  let n ← rdNext σ h
  .ok (some n)
/-- `list::end()`: `iterator{&this->head_}` -/
def listEnd (h : Node) : Iter := some h
/-- `increment()`: `cur_ = cur_->next_` -/
def iterIncrement (σ : Store) : Iter → M Iter
  | none => .error .emptyDeref
  | some c => do
    let n ← rdNext σ c
    .ok (some n)
/-- `decrement()`: `cur_ = cur_->prev_` -/
def iterDecrement (σ : Store) : Iter → M Iter
  | none => .error .emptyDeref
  | some c => do
    let p ← rdPrev σ c
    .ok (some p)
/-- `equal(other)`: `cur_ == _other.cur_` -/
def iterEqual (a b : Iter) : Bool := a == b
/-- `dereference()`: `static_downcast<reference>(*cur_)` — only the hook of a live element is a `Type`
(the result is the element's number) -/
def iterDeref (σ : Store) : Iter → M Nat
  | none => .error .emptyDeref
  | some (.head _) => .error .oob
  | some (.elem e) => if σ.live (.elem e) then .ok e else .error .oob
/-- `iterator::base::operator++(int)`: `derived temp{get()}; ++*this; return temp;` — (returned, new `*this`) -/
def iterPostInc (σ : Store) (it : Iter) : M (Iter × Iter) := do
  let temp := it
  let it ← iterIncrement σ it
  .ok (temp, it)
/-- `iterator::base::operator--(int)` -/
def iterPostDec (σ : Store) (it : Iter) : M (Iter × Iter) := do
  let temp := it
  let it ← iterDecrement σ it
  .ok (temp, it)
/-- `n` increments -/
def iterAdvance (σ : Store) : Nat → Iter → M Iter
  | 0, it => .ok it
  | n + 1, it => do
    let it ← iterIncrement σ it
    iterAdvance σ n it
/-- `n` decrements -/
def iterRetreat (σ : Store) : Nat → Iter → M Iter
  | 0, it => .ok it
  | n + 1, it => do
    let it ← iterDecrement σ it
    iterRetreat σ n it

/-! ## Operations of a history -/

inductive Op where
  | newList (k : Nat)                 -- `new list<T>`
  | newElem (e k : Nat)               -- `new T(list_k)`
  | delElem (e : Nat)                 -- `delete e`
  | unlink (e : Nat)                  -- `e->unlink()`
  | moveCtor (e' e : Nat)             -- `new T(std::move(*e))`
  | moveAssign (a b : Nat)            -- `*a = std::move(*b)`
  | listMoveCtor (k' k : Nat)         -- `new list<T>(std::move(*k))`
  | listMoveAssign (k k2 : Nat)       -- `*k = std::move(*k2)`
  | delList (k : Nat)                 -- `delete k`
  deriving DecidableEq, Repr

/-- Object-lifetime side conditions of the C++ program that issues the operation (a constructor
runs on fresh storage, every other member function on a live object).  These are facts about the
*caller*, so the model refuses (`none`) instead of inventing behaviour. -/
def lifetimeOk (σ : Store) : Op → Bool
  | .newList k => !σ.live (.head k)
  | .newElem e k => !σ.live (.elem e) && σ.live (.head k)
  | .delElem e => σ.live (.elem e)
  | .unlink e => σ.live (.elem e)
  | .moveCtor e' e => !σ.live (.elem e') && σ.live (.elem e)
  | .moveAssign a b => σ.live (.elem a) && σ.live (.elem b)
  | .listMoveCtor k' k => !σ.live (.head k') && σ.live (.head k)
  | .listMoveAssign k k2 => σ.live (.head k) && σ.live (.head k2)
  | .delList k => σ.live (.head k)

def step (σ : Store) : Op → M Store
  | .newList k => listCtorDefault σ k
  | .newElem e k => baseCtorList σ (.elem e) (.head k)
  | .delElem e => baseDtor σ (.elem e)
  | .unlink e => baseUnlink σ (.elem e)
  | .moveCtor e' e => baseCtorMove σ (.elem e') (.elem e)
  | .moveAssign a b => baseAssignMove σ (.elem a) (.elem b)
  | .listMoveCtor k' k => listCtorMove σ k' k
  | .listMoveAssign k k2 => listAssignMove σ k k2
  | .delList k => listDtor σ k

def run (σ : Store) : List Op → M Store
  | [] => .ok σ
  | op :: ops => do
    let σ ← step σ op
    run σ ops

/-! ## Signals

`signal::object<R(A), Base>` = a `connection_list` (an intrusive list, list number `s`) plus a
combiner.  A connection is a heap object deriving from `intrusive::base`, holding the callback and
(for `unregister::base`) the unregister function; it is neither movable nor copyable.
Callbacks, combiners and unregister functions are identified by numbers; their effect is a
parameter (`cb`, `comb`) so that the theorems hold for every choice. -/
namespace Sig

structure Conn where
  callback : Nat
  unreg : Option Nat          -- `some u` for `signal::unregister::base`, `none` for `signal::base`
  deriving Repr, DecidableEq

structure State where
  store : Store
  conn : Nat → Option Conn            -- payload of the live connections
  combiner : Nat → Option Nat         -- combiner held by signal `s` (`none`: moved-from `fcppt::function`)
  unregCount : Nat → Nat              -- how often unregister function `u` has run

def State.empty : State := ⟨Store.empty, fun _ => none, fun _ => none, fun _ => 0⟩

inductive Op where
  | newSig (s : Nat) (c : Option Nat)       -- `object(combiner_c)`; `none`: the combiner-less `object<void(Args...)>::object()`
  | connect (x s f : Nat) (u : Option Nat)   -- `x = s.connect(f [, u])`
  | disconnect (x : Nat)                     -- `x.reset()` : `~concrete_connection`
  | moveCtor (s' s : Nat)                    -- `object(object&&) = default`
  | moveAssign (s s2 : Nat)                  -- `operator=(object&&) = default`
  | delSig (s : Nat)
  deriving Repr, DecidableEq

/-- the operation on the connection list that a signal operation performs -/
def Op.toList : Op → Fcppt.C11.Op
  | .newSig s _ => .newList s
  | .connect x s _ _ => .newElem x s
  | .disconnect x => .delElem x
  | .moveCtor s' s => .listMoveCtor s' s
  | .moveAssign s s2 => .listMoveAssign s s2
  | .delSig s => .delList s

def lifetimeOk (st : State) : Op → Bool
  | .newSig s _ => !st.store.live (.head s)
  | .connect x s _ _ => !st.store.live (.elem x) && st.store.live (.head s)
  | .disconnect x => st.store.live (.elem x)
  | .moveCtor s' s => !st.store.live (.head s') && st.store.live (.head s)
  | .moveAssign s s2 => st.store.live (.head s) && st.store.live (.head s2)
  | .delSig s => st.store.live (.head s)

def step (st : State) : Op → M State
  | .newSig s c => do
    let σ ← listCtorDefault st.store s
    .ok { st with store := σ, combiner := fun i => if i = s then c else st.combiner i }
  | .connect x s f u => do
    -- make_unique<concrete_connection>(connections_, f [, u]): base_type{_list}, function_, unregister_
    let σ ← baseCtorList st.store (.elem x) (.head s)
    .ok { st with store := σ, conn := fun i => if i = x then some ⟨f, u⟩ else st.conn i }
  | .disconnect x =>
    match st.conn x with
    | none => .error .emptyDeref
    | some c =>
      match c.unreg with
      | some u => do
        -- unregister::detail::~concrete_connection: this->unlink(); this->unregister_(); then ~base
        let σ ← baseUnlink st.store (.elem x)
        let cnt := fun i => if i = u then st.unregCount u + 1 else st.unregCount i
        let σ ← baseDtor σ (.elem x)
        .ok { st with store := σ, conn := fun i => if i = x then none else st.conn i, unregCount := cnt }
      | none => do
        -- detail::~concrete_connection = default: ~base
        let σ ← baseDtor st.store (.elem x)
        .ok { st with store := σ, conn := fun i => if i = x then none else st.conn i }
  | .moveCtor s' s => do
    -- Base(Base&&) = default: connection_list(list&&); combiner_(std::move(other.combiner_))
    let σ ← listCtorMove st.store s' s
    .ok { st with store := σ,
                  combiner := fun i => if i = s' then st.combiner s else if i = s then none else st.combiner i }
  | .moveAssign s s2 => do
    let σ ← listAssignMove st.store s s2
    .ok { st with store := σ,
                  combiner := if s2 = s then st.combiner
                              else fun i => if i = s then st.combiner s2 else if i = s2 then none else st.combiner i }
  | .delSig s => do
    let σ ← listDtor st.store s
    .ok { st with store := σ, combiner := fun i => if i = s then none else st.combiner i }

/-- the callbacks that `operator()` invokes, in order: iteration over `connections()`,
`item.function()` -/
def invoked (st : State) (s fuel : Nat) : M (List Nat) := do
  let ns ← walk st.store (.head s) fuel
  ns.mapM fun n =>
    match n with
    | .elem x => match st.conn x with
      | some c => .ok c.callback
      | none => .error .oob
    | .head _ => .error .oob     -- static_downcast of a list head to a connection

/-- `object<R(A)>::operator()(initial, arg)`:
`fold(connections(), initial, λ item state. combiner_(state, item.function()(arg)))` -/
def call (cb : Nat → Nat → Nat) (comb : Nat → Nat → Nat → Nat) (st : State) (s fuel : Nat) (init arg : Nat) :
    M (List Nat × Nat) := do
  let fs ← invoked st s fuel
  match fs, st.combiner s with
  | [], _ => .ok ([], init)
  | _, none => .error .emptyDeref       -- moved-from combiner (`std::bad_function_call`)
  | _, some c => .ok (fs, fs.foldl (fun acc f => comb c acc (cb f arg)) init)

/-- `object<void(Args...), Base>::operator()(args)`:
`for (auto &item : base::connections()) { item.function()(_args...); }` — the loop itself, callback by
callback (`log` = the callbacks invoked so far); `fuel` bounds the number of iterations. -/
def callVoidFrom (st : State) (h : Node) : Nat → Node → List Nat → M (List Nat)
  | 0, cur, log => if cur = h then .ok log else .error .fuel
  | fuel + 1, cur, log =>
    if cur = h then .ok log else do                     -- it != end()
      let x ← iterDeref st.store (some cur)             -- auto &item = *it
      let f ← match st.conn x with                      -- item.function()(_args...)
        | some c => (.ok c.callback : M Nat)
        | none => .error .oob
      let n ← rdNext st.store cur                       -- ++it
      callVoidFrom st h fuel n (log ++ [f])

def callVoid (st : State) (s fuel : Nat) : M (List Nat) := do
  let b ← rdNext st.store (.head s)                     -- begin()
  callVoidFrom st (.head s) fuel b []

end Sig

/-! ## Owners of connections

`connect` returns an `fcppt::signal::auto_connection` (= `fcppt::unique_ptr<fcppt::signal::connection>`); the
connection object lives until its owner lets go of it.  Owners are `optional_auto_connection`s (at most one
connection) and `auto_connection_container`s (`std::vector<auto_connection>`, any number, in order).  Moving
an `auto_connection` between owners does not touch the connection object; destroying or overwriting an
owner's slot runs `~concrete_connection` (`Sig.Op.disconnect`). -/
namespace Hold

structure State where
  sig : Sig.State
  own : Nat → List Nat            -- the connections held by owner `o`, in order

def State.empty : State := ⟨Sig.State.empty, fun _ => []⟩

inductive Op where
  | sig (op : Sig.Op)                        -- a signal operation other than connect / disconnect
  | connect (o x s f : Nat) (u : Option Nat) -- `owner_o.push_back(s.connect(f [, u]))`  (for an optional: `o = optional{…}`)
  | release (o i : Nat)                      -- the `i`-th `auto_connection` of `o` is destroyed (`reset`, `erase(begin()+i)`)
  | clear (o : Nat)                          -- all of them, front to back (`clear()`, `~vector`, assignment over `o`)
  | transfer (o i o' : Nat)                  -- the `i`-th `auto_connection` of `o` is moved to the back of `o'`
  | swap (o o' : Nat)                        -- `std::swap(owner_o, owner_o')`
  deriving Repr, DecidableEq

def setOwn (own : Nat → List Nat) (o : Nat) (l : List Nat) : Nat → List Nat := fun i => if i = o then l else own i

/-- destroy the connections `xs` one after the other -/
def killAll (st : Sig.State) : List Nat → M Sig.State
  | [] => .ok st
  | x :: xs => do
    let st ← Sig.step st (.disconnect x)
    killAll st xs

/-- the connection objects an operation destroys, in order -/
def deaths (st : State) : Op → List Nat
  | .release o i => ((st.own o)[i]?).toList
  | .clear o => st.own o
  | _ => []

def step (st : State) : Op → M State
  | .sig op =>
    match op with
    | .connect .. => .error .uninit        -- not an operation of this layer (see `valid`)
    | .disconnect .. => .error .uninit
    | op => do
      let s ← Sig.step st.sig op
      .ok { st with sig := s }
  | .connect o x s f u => do
    let sg ← Sig.step st.sig (.connect x s f u)
    .ok { sig := sg, own := setOwn st.own o (st.own o ++ [x]) }
  | .release o i =>
    match (st.own o)[i]? with
    | none => .error .oob
    | some x => do
      let sg ← Sig.step st.sig (.disconnect x)
      .ok { sig := sg, own := setOwn st.own o ((st.own o).eraseIdx i) }
  | .clear o => do
    let sg ← killAll st.sig (st.own o)
    .ok { sig := sg, own := setOwn st.own o [] }
  | .transfer o i o' =>
    match (st.own o)[i]? with
    | none => .error .oob
    | some x =>
      if o' = o then .ok { st with own := setOwn st.own o ((st.own o).eraseIdx i ++ [x]) }
      else .ok { st with own := setOwn (setOwn st.own o ((st.own o).eraseIdx i)) o' (st.own o' ++ [x]) }
  | .swap o o' =>
    .ok { st with own := fun i => if i = o then st.own o' else if i = o' then st.own o else st.own i }

/-! ### callbacks with effects (a call that changes the set of connections while it runs)

A callback may, while the signal is being called, let go of a connection (its own excepted) or connect a new callback.
Both `operator()`s are range-`for` loops over `connections()`: `end()` is read once (it is the address of the head), the
callback runs, and only then `++it` reads `cur_->next_` — in the list as the callback left it. -/

/-- what a callback does besides returning its value -/
inductive Act where
  | none
  | reset (o : Nat)                              -- `owner_o = {}` / `owner_o.clear()`
  | connect (h s f : Nat) (u : Option Nat)       -- `holder_h = optional_auto_connection{s.connect(f [, u])}` if `holder_h` is free
  deriving Repr, DecidableEq

/-- the operations on the connection lists that an action performs in state `st` (ghost trace for the specification) -/
def actOps (st : State) : Act → List Fcppt.C11.Op
  | .none => []
  | .reset o => (st.own o).map Fcppt.C11.Op.delElem
  | .connect h s _ _ =>
    if (st.own h).isEmpty && !st.sig.store.live (.elem h) && st.sig.store.live (.head s) then [.newElem h s] else []

def runAct (st : State) : Act → M State
  | .none => .ok st
  | .reset o => step st (.clear o)
  | .connect h s f u =>
    if (st.own h).isEmpty && !st.sig.store.live (.elem h) && st.sig.store.live (.head s) then step st (.connect h h s f u)
    else .ok st

/-- result of a call: final program state, callbacks invoked (in order), accumulator, trace of list operations performed -/
structure CallResult where
  st : State
  log : List Nat
  acc : Nat
  trace : List Fcppt.C11.Op

/-- the loop of `operator()` with effectful callbacks.  `comb = none`: the void specialisation (no accumulator). -/
def callLoop (act : Nat → Act) (cb : Nat → Nat → Nat) (comb : Option (Nat → Nat → Nat)) (arg : Nat) (h : Node) :
    Nat → Node → CallResult → M CallResult
  | 0, cur, r => if cur = h then .ok r else .error .fuel
  | fuel + 1, cur, r =>
    if cur = h then .ok r else do                               -- it != end()
      let x ← iterDeref r.st.sig.store (some cur)               -- auto &item = *it
      let f ← match r.st.sig.conn x with                        -- item.function()
        | some c => (.ok c.callback : M Nat)
        | none => .error .oob
      let st ← runAct r.st (act f)                              -- …(args...): the callback runs
      let acc := match comb with
        | some g => g r.acc (cb f arg)                          -- combiner_(std::move(state), result)
        | none => r.acc
      let n ← rdNext st.sig.store cur                           -- ++it, in the list as the callback left it
      callLoop act cb comb arg h fuel n ⟨st, r.log ++ [f], acc, r.trace ++ actOps r.st (act f)⟩

/-- `s(initial, arg)` / `s(arg)` with effectful callbacks; a non-void signal needs its combiner as soon as there is a
connection (`std::bad_function_call` otherwise, as in `Sig.call`) -/
def rcall (act : Nat → Act) (cb : Nat → Nat → Nat) (comb : Nat → Nat → Nat → Nat) (isVoid : Bool) (st : State)
    (s fuel init arg : Nat) : M CallResult := do
  let b ← rdNext st.sig.store (.head s)                         -- begin()
  if b = .head s then .ok ⟨st, [], init, []⟩ else
  if isVoid then callLoop act cb none arg (.head s) fuel b ⟨st, [], init, []⟩
  else match st.sig.combiner s with
    | none => .error .emptyDeref
    | some c => callLoop act cb (some (comb c)) arg (.head s) fuel b ⟨st, [], init, []⟩

end Hold

end Fcppt.C11
