import FcpptModel.Prelude.Fault
/-!
# C04 — model of the `fcppt::optional`, `fcppt::either` and `fcppt::variant` combinators

Every combinator is transcribed with the `has_value` / `has_success` / `holds_type` test that
guards its `get_unsafe`; `get_unsafe` on the wrong alternative is `Fault.emptyDeref`.
Continuations are computations in the monad `K σ` (state `σ` + faults): a continuation may have
any effect on `σ` (count its calls, log its arguments, pop a queue, …) and may throw.  "Invoked
exactly once / never invoked" is therefore expressed by equations between `K`-computations.

Which C++ file each definition mirrors (all under `libs/core/include/fcppt/`):

* `Opt.hasValue`, `Opt.getUnsafe`            : `optional/object_impl.hpp`
* `cond`                                      : `cond.hpp`
* `allOf`, `containsIf`, `findIfOpt`, `mapM'` : `algorithm/all_of.hpp`, `contains_if.hpp`, `find_if_opt.hpp`, `map.hpp`
* `Opt.make`, `makeIf`, `hasValueAll`         : `optional/make.hpp`, `make_if.hpp`, `detail/has_value_all.hpp`
* `Opt.bind map join apply* filter alternative combine cat sequence from maybe maybeVoid maybeMulti*`
                                              : the header of the same name in `optional/`
* `Opt.eq ne lt`                              : `optional/comparison.hpp`
* `Either.hasSuccess … getFailureUnsafe`      : `either/object_impl.hpp` (on `variant<Failure, Success>`)
* `Either.match_ map bind join apply* mapFailure sequence firstSuccess loop fromOptional tryCall
   successOpt failureOpt`                     : the header of the same name in `either/`
* `Var.typeIndex holdsType getUnsafe`         : `variant/object_impl.hpp`, `holds_type.hpp`, `detail/get_unsafe_impl.hpp`
* `Var.apply apply2 match_ toOptional compare eq ne lt` : `variant/apply.hpp match.hpp to_optional.hpp compare.hpp comparison.hpp`
* `monadBindOpt`, `monadBindEither`           : `monad/bind.hpp` + `optional/monad.hpp`, `either/monad.hpp`
* `Opt.toContainer copyValue deref maybeVoidMulti* assign fromPointer toPointer toException output nothing setUnsafe`
                                              : `optional/to_container.hpp copy_value.hpp deref.hpp maybe_void_multi.hpp assign.hpp
                                                from_pointer.hpp to_pointer.hpp to_exception.hpp output.hpp nothing_impl.hpp object_impl.hpp`
* `Either.eq ne construct errorFromOptional makeFailure makeSuccess output sequenceError toException setSuccessUnsafe
   setFailureUnsafe`                          : `either/comparison.hpp construct.hpp error_from_optional.hpp make_failure.hpp
                                                make_success.hpp output.hpp sequence_error.hpp to_exception.hpp object_impl.hpp`
* `Loop`, `foldBreak`                         : `loop.hpp`, `algorithm/fold_break.hpp` (+ `loop_break.hpp`)
* `Var.apply3 toOptionalRef setUnsafe output dynamicCast` : `variant/apply.hpp to_optional_ref.hpp object_impl.hpp output.hpp dynamic_cast.hpp`
* `returnOpt returnEither chainOpt* chainEither* doOpt* doEither*` : `monad/return.hpp chain.hpp do.hpp` (+ `detail/`)
-/
namespace Fcppt.C04

/-- state + fault monad of the continuations: the state survives a throw (a log is not rolled back) -/
def K (σ α : Type) : Type := σ → Except Fault α × σ

instance {σ : Type} : Monad (K σ) where
  pure a := fun s => (.ok a, s)
  bind m f := fun s =>
    match m s with
    | (.ok a, s') => f a s'
    | (.error e, s') => (.error e, s')

namespace K
variable {σ α : Type}
/-- undefined behaviour / `throw` -/
def fault (e : Fault) : K σ α := fun s => (.error e, s)
/-- `try { m } catch …`: the handler sees the fault; effects up to the throw are kept -/
def tryCatch (m : K σ α) (h : Fault → K σ α) : K σ α := fun s =>
  match m s with
  | (.ok a, s') => (.ok a, s')
  | (.error e, s') => h e s'
end K

variable {σ α β γ δ φ ψ : Type}

/-- `fcppt::cond` -/
def cond (c : Bool) (i : Unit → K σ α) (t : Unit → K σ α) : K σ α :=
  if c then i () else t ()

/-- `algorithm::all_of(range, identity)`: stops at the first false -/
def allOf : List Bool → Bool
  | [] => true
  | b :: r => if b then allOf r else false

/-- `algorithm::contains_if`: stops at the first hit -/
def containsIf (p : α → Bool) : List α → Bool
  | [] => false
  | x :: r => if p x then true else containsIf p r

/-- `algorithm::find_if_opt`: the iterator is the offset from `begin` -/
def findIfOptFrom (p : α → Bool) : List α → Nat → Option Nat
  | [], _ => none
  | x :: r, i => if p x then some i else findIfOptFrom p r (i + 1)
def findIfOpt (p : α → Bool) (l : List α) : Option Nat := findIfOptFrom p l 0

/-- dereferencing an iterator obtained from `find_if_opt` -/
def derefIt (l : List α) (i : Nat) : K σ α :=
  match l[i]? with
  | some x => pure x
  | none => K.fault .oob

/-- `algorithm::map<Container>(range, f)`: in order, results appended -/
def mapM' (f : α → K σ β) : List α → K σ (List β)
  | [] => pure []
  | x :: r => do
    let y ← f x
    let ys ← mapM' f r
    pure (y :: ys)

/-- `fcppt::loop` -/
inductive Loop where
  | break_ | continue_
  deriving Repr, DecidableEq

/-- `algorithm::fold_break(range, state, function)`: `loop_break` over the range; the body replaces the state by
`function(element, state).second` and stops after the call that returned `loop::break_` -/
def foldBreak (f : α → β → K σ (Loop × β)) : List α → β → K σ β
  | [], state => pure state
  | x :: r, state => do
    let result ← f x state
    match result.1 with
    | .break_ => pure result.2
    | .continue_ => foldBreak f r result.2

/-! ## optional -/
namespace Opt

def hasValue : Option α → Bool
  | some _ => true
  | none => false

def getUnsafe : Option α → K σ α
  | some x => pure x
  | none => K.fault .emptyDeref

def make (x : α) : Option α := some x

/-- `make_if(is_set, function)` -/
def makeIf (isSet : Bool) (f : Unit → K σ α) : K σ (Option α) :=
  if isSet then do
    let r ← f ()
    pure (some r)
  else pure none

/-- `detail::has_value_all(o...)` on the array of `has_value()` results -/
def hasValueAll (l : List Bool) : Bool := allOf l

/-- `bind(source, function)` -/
def bind (src : Option α) (f : α → K σ (Option β)) : K σ (Option β) :=
  if hasValue src then do
    let x ← getUnsafe src
    f x
  else pure none

/-- `map(source, function)` = `bind(source, make ∘ function)` -/
def map (src : Option α) (f : α → K σ β) : K σ (Option β) :=
  bind src fun a => do
    let r ← f a
    pure (make r)

/-- `join(source)` -/
def join (src : Option (Option α)) : K σ (Option α) :=
  if hasValue src then getUnsafe src else pure none

/-- `apply(function, o1)` -/
def apply1 (f : α → K σ δ) (o1 : Option α) : K σ (Option δ) :=
  makeIf (hasValueAll [hasValue o1]) fun _ => do
    let x1 ← getUnsafe o1
    f x1

/-- `apply(function, o1, o2)` -/
def apply2 (f : α → β → K σ δ) (o1 : Option α) (o2 : Option β) : K σ (Option δ) :=
  makeIf (hasValueAll [hasValue o1, hasValue o2]) fun _ => do
    let x1 ← getUnsafe o1
    let x2 ← getUnsafe o2
    f x1 x2

/-- `apply(function, o1, o2, o3)` -/
def apply3 (f : α → β → γ → K σ δ) (o1 : Option α) (o2 : Option β) (o3 : Option γ) : K σ (Option δ) :=
  makeIf (hasValueAll [hasValue o1, hasValue o2, hasValue o3]) fun _ => do
    let x1 ← getUnsafe o1
    let x2 ← getUnsafe o2
    let x3 ← getUnsafe o3
    f x1 x2 x3

/-- the variadic `apply` at an arbitrary arity, arguments of one type -/
def applyN (f : List α → K σ δ) (os : List (Option α)) : K σ (Option δ) :=
  makeIf (hasValueAll (os.map hasValue)) fun _ => do
    let xs ← mapM' getUnsafe os
    f xs

/-- `filter(source, function)`: `has_value() && function(get_unsafe())` -/
def filter (src : Option α) (p : α → K σ Bool) : K σ (Option α) :=
  if hasValue src then do
    let x ← getUnsafe src
    let b ← p x
    pure (if b then src else none)
  else pure none

/-- `alternative(optional1, optional2)` -/
def alternative (o1 : Option α) (o2 : Unit → K σ (Option α)) : K σ (Option α) :=
  if hasValue o1 then pure o1 else o2 ()

/-- `combine(optional1, optional2, function)` -/
def combine (o1 o2 : Option α) (f : α → α → K σ α) : K σ (Option α) :=
  if !hasValue o1 then pure o2
  else if !hasValue o2 then pure o1
  else do
    let x1 ← getUnsafe o1
    let x2 ← getUnsafe o2
    let r ← f x1 x2
    pure (make r)

/-- `maybe(optional, default, transform)` -/
def maybe (o : Option α) (d : Unit → K σ β) (t : α → K σ β) : K σ β :=
  cond (hasValue o) (fun _ => do
    let x ← getUnsafe o
    t x) d

/-- `maybe_void(optional, transform)` -/
def maybeVoid (o : Option α) (t : α → K σ Unit) : K σ Unit :=
  maybe o (fun _ => pure ()) t

/-- `cat<Target>(source)`: the loop body is `maybe_void(element, λx. result.insert(end, x))` -/
def catGo : List (Option α) → List α → K σ (List α)
  | [], result => pure result
  | el :: r, result => do
    let result' ← maybe el (fun _ => pure result) (fun x => pure (result ++ [x]))
    catGo r result'
def cat (src : List (Option α)) : K σ (List α) := catGo src []

/-- `sequence<Result>(source)` -/
def sequence (src : List (Option α)) : K σ (Option (List α)) :=
  makeIf (!containsIf (fun o => !hasValue o) src) fun _ => mapM' getUnsafe src

/-- `from(optional, default)` -/
def «from» (o : Option α) (d : Unit → K σ α) : K σ α :=
  cond (hasValue o) (fun _ => getUnsafe o) d

/-- `maybe_multi(default, transform, o1)` -/
def maybeMulti1 (d : Unit → K σ δ) (t : α → K σ δ) (o1 : Option α) : K σ δ :=
  if hasValueAll [hasValue o1] then do
    let x1 ← getUnsafe o1
    t x1
  else d ()

/-- `maybe_multi(default, transform, o1, o2)` -/
def maybeMulti2 (d : Unit → K σ δ) (t : α → β → K σ δ) (o1 : Option α) (o2 : Option β) : K σ δ :=
  if hasValueAll [hasValue o1, hasValue o2] then do
    let x1 ← getUnsafe o1
    let x2 ← getUnsafe o2
    t x1 x2
  else d ()

/-- `maybe_multi(default, transform, o1, o2, o3)` -/
def maybeMulti3 (d : Unit → K σ δ) (t : α → β → γ → K σ δ) (o1 : Option α) (o2 : Option β) (o3 : Option γ) : K σ δ :=
  if hasValueAll [hasValue o1, hasValue o2, hasValue o3] then do
    let x1 ← getUnsafe o1
    let x2 ← getUnsafe o2
    let x3 ← getUnsafe o3
    t x1 x2 x3
  else d ()

/-- the variadic `maybe_multi` at an arbitrary arity, arguments of one type -/
def maybeMultiN (d : Unit → K σ δ) (t : List α → K σ δ) (os : List (Option α)) : K σ δ :=
  if hasValueAll (os.map hasValue) then do
    let xs ← mapM' getUnsafe os
    t xs
  else d ()

/-- `operator==`; `eqv` is `T`'s `==`.  Returns in `K` because of the two `get_unsafe`. -/
def eq (eqv : α → α → Bool) (a b : Option α) : K σ Bool :=
  if hasValue a && hasValue b then do
    let x ← getUnsafe a
    let y ← getUnsafe b
    pure (eqv x y)
  else pure (hasValue a == hasValue b)

/-- `operator!=` -/
def ne (eqv : α → α → Bool) (a b : Option α) : K σ Bool := do
  let r ← eq eqv a b
  pure !r

/-- `operator<`; `ltv` is `T`'s `<`; `has_value() < has_value()` on `bool` -/
def lt (ltv : α → α → Bool) (a b : Option α) : K σ Bool :=
  if hasValue a && hasValue b then do
    let x ← getUnsafe a
    let y ← getUnsafe b
    pure (ltv x y)
  else pure (!hasValue a && hasValue b)

/-! ### the rest of the public `optional` API -/

/-- `optional::nothing` converted to an `object<T>` -/
def nothing : Option α := none

/-- `to_container<Container>(source)` = `maybe(source, Container{}, λx. container::make<Container>(x))` -/
def toContainer (src : Option α) : K σ (List α) :=
  maybe src (fun _ => pure []) (fun x => pure [x])

/-- `copy_value(optional_reference)` = `map(opt, λref. ref.get())`; `get` reads the referenced object -/
def copyValue {ρ : Type} (get : ρ → K σ α) (o : Option ρ) : K σ (Option α) :=
  map o get

/-- `deref(optional)` = `map(opt, λe. reference(*e))`; `star` is the element's `operator*`
(a null pointer / past-the-end iterator inside the optional is the caller's fault: `star` faults) -/
def deref {π ρ : Type} (star : π → K σ ρ) (o : Option π) : K σ (Option ρ) :=
  map o star

/-- `maybe_void_multi(transform, o1)` = `maybe_multi([]{}, transform, o1)` -/
def maybeVoidMulti1 (t : α → K σ Unit) (o1 : Option α) : K σ Unit :=
  maybeMulti1 (fun _ => pure ()) t o1
def maybeVoidMulti2 (t : α → β → K σ Unit) (o1 : Option α) (o2 : Option β) : K σ Unit :=
  maybeMulti2 (fun _ => pure ()) t o1 o2
def maybeVoidMulti3 (t : α → β → γ → K σ Unit) (o1 : Option α) (o2 : Option β) (o3 : Option γ) : K σ Unit :=
  maybeMulti3 (fun _ => pure ()) t o1 o2 o3
def maybeVoidMultiN (t : List α → K σ Unit) (os : List (Option α)) : K σ Unit :=
  maybeMultiN (fun _ => pure ()) t os

/-- `assign(optional, arg)`: `optional = object(arg); return optional.get_unsafe();` — the new content of the
variable and the object the returned reference designates -/
def assign (_optional : Option α) (arg : α) : K σ (Option α × α) := do
  let optional' := some arg
  let r ← getUnsafe optional'
  pure (optional', r)

/-- writing through the reference `get_unsafe()` returns (non-const overload) -/
def setUnsafe (o : Option α) (v : α) : K σ (Option α) := do
  let _ ← getUnsafe o
  pure (some v)

end Opt

/-- a raw pointer: null or the address of an object (`ρ` = the objects a reference can designate) -/
inductive Ptr (ρ : Type) where
  | null
  | to (r : ρ)
  deriving Repr, DecidableEq, Inhabited

namespace Ptr
variable {ρ : Type}
def isNull : Ptr ρ → Bool
  | null => true
  | to _ => false
/-- `*p` -/
def star : Ptr ρ → K σ ρ
  | to r => pure r
  | null => K.fault .emptyDeref
end Ptr

namespace Opt
variable {ρ : Type}

/-- `from_pointer(p)` = `p != nullptr ? reference{make_ref(*p)} : reference{}` -/
def fromPointer (p : Ptr ρ) : K σ (Option ρ) :=
  if !p.isNull then do
    let r ← p.star
    pure (some r)
  else pure none

/-- `to_pointer(optional_reference)` = `maybe(opt, nullptr, λref. &ref.get())` -/
def toPointer (o : Option ρ) : K σ (Ptr ρ) :=
  maybe o (fun _ => pure .null) (fun r => pure (.to r))

/-- `to_exception(optional, make_exception)`: the value, or `throw make_exception()` -/
def toException (o : Option α) (mk : Unit → K σ ExcKind) : K σ α :=
  if hasValue o then getUnsafe o
  else do
    let e ← mk ()
    K.fault (.exception e)

/-- `operator<<(stream, optional)`: `put` is `stream << stream.widen(c)`, `putv` the element's `<<` -/
def output (put : Char → K σ Unit) (putv : α → K σ Unit) (o : Option α) : K σ Unit :=
  maybe o (fun _ => put 'N') (fun v => do
    put 'J'
    put ' '
    putv v)

end Opt

/-! ## either -/

/-- `either::object<Failure, Success>`: a `variant<Failure, Success>` -/
inductive Either (φ α : Type) where
  | failure (f : φ)
  | success (s : α)
  deriving Repr, DecidableEq, Inhabited

namespace Either

def hasSuccess : Either φ α → Bool
  | success _ => true
  | failure _ => false

def hasFailure : Either φ α → Bool
  | failure _ => true
  | success _ => false

def getSuccessUnsafe : Either φ α → K σ α
  | success s => pure s
  | failure _ => K.fault .emptyDeref

def getFailureUnsafe : Either φ α → K σ φ
  | failure f => pure f
  | success _ => K.fault .emptyDeref

/-- `match(either, failure_function, success_function)` -/
def match_ (e : Either φ α) (ff : φ → K σ β) (sf : α → K σ β) : K σ β :=
  if hasSuccess e then do
    let s ← getSuccessUnsafe e
    sf s
  else do
    let f ← getFailureUnsafe e
    ff f

/-- `map(either, function)` -/
def map (e : Either φ α) (f : α → K σ β) : K σ (Either φ β) :=
  if hasSuccess e then do
    let s ← getSuccessUnsafe e
    let r ← f s
    pure (success r)
  else do
    let x ← getFailureUnsafe e
    pure (failure x)

/-- `bind(either, function)` -/
def bind (e : Either φ α) (f : α → K σ (Either φ β)) : K σ (Either φ β) :=
  if hasSuccess e then do
    let s ← getSuccessUnsafe e
    f s
  else do
    let x ← getFailureUnsafe e
    pure (failure x)

/-- `join(either)` = `bind(either, identity)` -/
def join (e : Either φ (Either φ α)) : K σ (Either φ α) :=
  bind e fun v => pure v

/-- `map_failure(either, function)` -/
def mapFailure (e : Either φ α) (f : φ → K σ ψ) : K σ (Either ψ α) :=
  if hasFailure e then do
    let x ← getFailureUnsafe e
    let r ← f x
    pure (failure r)
  else do
    let s ← getSuccessUnsafe e
    pure (success s)

/-- `success_opt(either)` -/
def successOpt (e : Either φ α) : K σ (Option α) :=
  if hasSuccess e then do
    let s ← getSuccessUnsafe e
    pure (some s)
  else pure none

/-- `failure_opt(either)` = `make_if(has_failure(), get_failure_unsafe)` -/
def failureOpt (e : Either φ α) : K σ (Option φ) :=
  Opt.makeIf (hasFailure e) fun _ => getFailureUnsafe e

/-- the failure branch of `apply`: the first set entry of the array of `failure_opt`s;
`fcppt::absurd` (= `std::terminate`) if there is none -/
def firstFailure (fs : List (Option φ)) : K σ φ :=
  match findIfOpt Opt.hasValue fs with
  | some i => do
    let o ← derefIt fs i
    Opt.getUnsafe o
  | none => K.fault .emptyDeref

/-- `apply(function, e1)` -/
def apply1 (f : α → K σ δ) (e1 : Either φ α) : K σ (Either φ δ) :=
  if allOf [hasSuccess e1] then do
    let x1 ← getSuccessUnsafe e1
    let r ← f x1
    pure (success r)
  else do
    let f1 ← failureOpt e1
    let x ← firstFailure [f1]
    pure (failure x)

/-- `apply(function, e1, e2)` -/
def apply2 (f : α → β → K σ δ) (e1 : Either φ α) (e2 : Either φ β) : K σ (Either φ δ) :=
  if allOf [hasSuccess e1, hasSuccess e2] then do
    let x1 ← getSuccessUnsafe e1
    let x2 ← getSuccessUnsafe e2
    let r ← f x1 x2
    pure (success r)
  else do
    let f1 ← failureOpt e1
    let f2 ← failureOpt e2
    let x ← firstFailure [f1, f2]
    pure (failure x)

/-- `apply(function, e1, e2, e3)` -/
def apply3 (f : α → β → γ → K σ δ) (e1 : Either φ α) (e2 : Either φ β) (e3 : Either φ γ) : K σ (Either φ δ) :=
  if allOf [hasSuccess e1, hasSuccess e2, hasSuccess e3] then do
    let x1 ← getSuccessUnsafe e1
    let x2 ← getSuccessUnsafe e2
    let x3 ← getSuccessUnsafe e3
    let r ← f x1 x2 x3
    pure (success r)
  else do
    let f1 ← failureOpt e1
    let f2 ← failureOpt e2
    let f3 ← failureOpt e3
    let x ← firstFailure [f1, f2, f3]
    pure (failure x)

/-- the variadic `apply` at an arbitrary arity, arguments of one type -/
def applyN (f : List α → K σ δ) (es : List (Either φ α)) : K σ (Either φ δ) :=
  if allOf (es.map hasSuccess) then do
    let xs ← mapM' getSuccessUnsafe es
    let r ← f xs
    pure (success r)
  else do
    let fs ← mapM' failureOpt es
    let x ← firstFailure fs
    pure (failure x)

/-- `sequence<Result>(source)` -/
def sequence (src : List (Either φ α)) : K σ (Either φ (List α)) :=
  Opt.maybe (findIfOpt hasFailure src)
    (fun _ => do
      let r ← mapM' getSuccessUnsafe src
      pure (success r))
    (fun it => do
      let e ← derefIt src it
      let x ← getFailureUnsafe e
      pure (failure x))

/-- `first_success(functions)`: the range-for with early return; `failures` is the vector built so far -/
def firstSuccessGo : List (Unit → K σ (Either φ α)) → List φ → K σ (Either (List φ) α)
  | [], failures => pure (failure failures)
  | fn :: rest, failures => do
    let result ← fn ()
    if hasSuccess result then do
      let s ← getSuccessUnsafe result
      pure (success s)
    else do
      let x ← getFailureUnsafe result
      firstSuccessGo rest (failures ++ [x])
def firstSuccess (fns : List (Unit → K σ (Either φ α))) : K σ (Either (List φ) α) :=
  firstSuccessGo fns []

/-- `loop(next, loop)`: `while(!error.has_value()) match(next(), λf. error = f, λs. loop(s)); return error.get_unsafe()`.
`fuel` bounds the number of iterations (exhausted = does not terminate). -/
def loopGo (next : Unit → K σ (Either φ α)) (body : α → K σ Unit) (fuel : Nat) (error : Option φ) : K σ φ :=
  if Opt.hasValue error then Opt.getUnsafe error
  else match fuel with
    | 0 => K.fault .fuel
    | n + 1 => do
      let e ← next ()
      let error' ← match_ e (fun x => pure (some x)) (fun s => do
        body s
        pure error)
      loopGo next body n error'
def loop (fuel : Nat) (next : Unit → K σ (Either φ α)) (body : α → K σ Unit) : K σ φ :=
  loopGo next body fuel none

/-- `from_optional(optional, failure_function)` = `optional::maybe(…)` -/
def fromOptional (o : Option α) (ff : Unit → K σ φ) : K σ (Either φ α) :=
  Opt.maybe o
    (fun _ => do
      let x ← ff ()
      pure (failure x))
    (fun v => pure (success v))

/-- `try_call<Exception>(function, to_exception)`: `catches k = some e` iff an exception of kind `k`
is an `Exception` (with payload `e`); everything else propagates -/
def tryCall {ε : Type} (catches : ExcKind → Option ε) (f : Unit → K σ α) (toExc : ε → K σ φ) : K σ (Either φ α) :=
  K.tryCatch
    (do
      let r ← f ()
      pure (success r))
    (fun flt =>
      match flt with
      | .exception k =>
        match catches k with
        | some e => do
          let x ← toExc e
          pure (failure x)
        | none => K.fault flt
      | _ => K.fault flt)

/-! ### the rest of the public `either` API -/

/-- `operator==`: both successes and equal, or both failures and equal (`&&` / `?:` evaluate lazily) -/
def eq (eqf : φ → φ → Bool) (eqs : α → α → Bool) (a b : Either φ α) : K σ Bool :=
  if hasSuccess a && hasSuccess b then do
    let x ← getSuccessUnsafe a
    let y ← getSuccessUnsafe b
    pure (eqs x y)
  else if hasFailure a then
    if hasFailure b then do
      let x ← getFailureUnsafe a
      let y ← getFailureUnsafe b
      pure (eqf x y)
    else pure false
  else pure false

/-- `operator!=` -/
def ne (eqf : φ → φ → Bool) (eqs : α → α → Bool) (a b : Either φ α) : K σ Bool := do
  let r ← eq eqf eqs a b
  pure !r

/-- `construct(value, success, failure)` -/
def construct (value : Bool) (s : Unit → K σ α) (f : Unit → K σ φ) : K σ (Either φ α) :=
  if value then do
    let x ← s ()
    pure (success x)
  else do
    let x ← f ()
    pure (failure x)

/-- `make_failure<Success>(f)`, `make_success<Failure>(s)` -/
def makeFailure (f : φ) : Either φ α := failure f
def makeSuccess (s : α) : Either φ α := success s

/-- `error_from_optional(optional)`: `either::error<F>` = `object<F, no_error>`, `no_error` = `Unit` -/
def errorFromOptional (o : Option φ) : K σ (Either φ Unit) :=
  Opt.maybe o (fun _ => pure (success ())) (fun v => pure (failure v))

/-- `operator<<(stream, either)` = `match(either, output, output)` -/
def output (putf : φ → K σ Unit) (puts : α → K σ Unit) (e : Either φ α) : K σ Unit :=
  match_ e putf puts

/-- `sequence_error(sequence, function)` = `fold_break` with state `either_type{no_error{}}` -/
def sequenceError (seq : List α) (f : α → K σ (Either φ Unit)) : K σ (Either φ Unit) :=
  foldBreak (fun element (_ : Either φ Unit) => do
      let r ← f element
      match_ r
        (fun error => pure (Loop.break_, failure error))
        (fun _ => pure (Loop.continue_, success ())))
    seq (success ())

/-- `to_exception(either, make_exception)`: the success, or `throw make_exception(failure)` -/
def toException (e : Either φ α) (mk : φ → K σ ExcKind) : K σ α :=
  if hasSuccess e then getSuccessUnsafe e
  else do
    let f ← getFailureUnsafe e
    let k ← mk f
    K.fault (.exception k)

/-- writing through the references the non-const `get_success_unsafe()` / `get_failure_unsafe()` return -/
def setSuccessUnsafe (e : Either φ α) (v : α) : K σ (Either φ α) := do
  let _ ← getSuccessUnsafe e
  pure (success v)
def setFailureUnsafe (e : Either φ α) (v : φ) : K σ (Either φ α) := do
  let _ ← getFailureUnsafe e
  pure (failure v)

end Either

/-! ## variant -/

/-- `variant::object<T_0, …, T_{n-1}>`: the index of the held type and a value of that type
(`std::variant`; the valueless state cannot be reached through the operations modelled here) -/
structure Var (n : Nat) (τ : Fin n → Type) where
  idx : Fin n
  val : τ idx

namespace Var
variable {n : Nat} {τ : Fin n → Type}

def typeIndex (v : Var n τ) : Nat := v.idx.val

/-- `holds_type<T_j>(v)` = `std::holds_alternative` -/
def holdsType (j : Fin n) (v : Var n τ) : Bool := decide (v.idx = j)

/-- `get_unsafe<T_j>(v)` = `*std::get_if<T_j>(&impl)`: null dereference on the wrong type -/
def getUnsafe (j : Fin n) (v : Var n τ) : K σ (τ j) :=
  if h : v.idx = j then pure (h ▸ v.val) else K.fault .emptyDeref

/-- `apply(function, v)` = `std::visit` -/
def apply (f : (i : Fin n) → τ i → K σ β) (v : Var n τ) : K σ β := f v.idx v.val

/-- `apply(function, v1, v2)` -/
def apply2 {m : Nat} {υ : Fin m → Type} (f : (i : Fin n) → τ i → (j : Fin m) → υ j → K σ β)
    (v1 : Var n τ) (v2 : Var m υ) : K σ β := f v1.idx v1.val v2.idx v2.val

/-- `apply(function, v1, v2, v3)` -/
def apply3 {m k : Nat} {υ : Fin m → Type} {ω : Fin k → Type}
    (f : (i : Fin n) → τ i → (j : Fin m) → υ j → (l : Fin k) → ω l → K σ β)
    (v1 : Var n τ) (v2 : Var m υ) (v3 : Var k ω) : K σ β := f v1.idx v1.val v2.idx v2.val v3.idx v3.val

/-- `match(v, f_0, …, f_{n-1})`: visit with the function at `index_of<types, decltype(arg)>` -/
def match_ (v : Var n τ) (fs : (i : Fin n) → τ i → K σ β) : K σ β :=
  apply (fun i x => fs i x) v

/-- `to_optional<T_j>(v)` -/
def toOptional (j : Fin n) (v : Var n τ) : K σ (Option (τ j)) :=
  if holdsType j v then do
    let x ← getUnsafe j v
    pure (some x)
  else pure none

/-- `compare(left, right, compare)` -/
def compare (l r : Var n τ) (cmp : (i : Fin n) → τ i → τ i → K σ Bool) : K σ Bool :=
  apply (fun j rInner => do
    let o ← toOptional j l
    Opt.maybe o (fun _ => pure false) (fun lInner => cmp j lInner rInner)) r

/-- `operator==` = `std::variant`'s: same index and equal values -/
def eq (eqv : (i : Fin n) → τ i → τ i → Bool) (l r : Var n τ) : Bool :=
  if h : l.idx = r.idx then eqv r.idx (h ▸ l.val) r.val else false

def ne (eqv : (i : Fin n) → τ i → τ i → Bool) (l r : Var n τ) : Bool := !eq eqv l r

/-- `operator<` = `std::variant`'s: smaller index, or same index and smaller value -/
def lt (ltv : (i : Fin n) → τ i → τ i → Bool) (l r : Var n τ) : Bool :=
  if l.idx < r.idx then true
  else if r.idx < l.idx then false
  else if h : l.idx = r.idx then ltv r.idx (h ▸ l.val) r.val else false

/-- `to_optional_ref<T_j>(v)`: a reference to the held value (`make_ref(get_unsafe<T_j>(v))`) or nothing -/
def toOptionalRef (j : Fin n) (v : Var n τ) : K σ (Option (τ j)) :=
  if holdsType j v then do
    let x ← getUnsafe j v
    pure (some x)
  else pure none

/-- writing through the reference that `get_unsafe<T_j>()` / `to_optional_ref<T_j>` hand out -/
def setUnsafe (j : Fin n) (v : Var n τ) (x : τ j) : K σ (Var n τ) := do
  let _ ← getUnsafe j v
  pure ⟨j, x⟩

/-- `operator<<(stream, variant)` = `apply(λx. stream << x, v)` -/
def output (putv : (i : Fin n) → τ i → K σ Unit) (v : Var n τ) : K σ Unit := apply putv v

end Var

/-- `variant::dynamic_cast_<Types, Cast>(base)`: `fold_break` over the type list with state `result`;
`casts[i] ()` is `cast::apply<Cast, T_i>(base)` (an optional reference); the result holds the index of the
alternative (`reference<T_i>`) and the reference -/
def dynamicCastStep {ρ : Type} (ic : Nat × (Unit → K σ (Option ρ))) (result : Option (Nat × ρ)) :
    K σ (Loop × Option (Nat × ρ)) :=
  if Opt.hasValue result then pure (Loop.break_, result)
  else do
    let c ← ic.2 ()
    let r ← Opt.map c (fun ref => pure (ic.1, ref))
    pure (Loop.continue_, r)
def dynamicCast {ρ : Type} (casts : List (Unit → K σ (Option ρ))) : K σ (Option (Nat × ρ)) :=
  foldBreak dynamicCastStep ((List.range casts.length).zip casts) none

/-! ## the valueless state (`is_invalid()`)

A `std::variant` becomes valueless when an assignment that changes the alternative destroys the old value and the
construction of the new one throws.  `none` is that state. -/
abbrev VarV (n : Nat) (τ : Fin n → Type) := Option (Var n τ)

namespace VarV
variable {n : Nat} {τ : Fin n → Type}

/-- `is_invalid()` = `type_index() == std::variant_npos` -/
def isInvalid (v : VarV n τ) : Bool :=
  match v with
  | none => true
  | some _ => false

/-- `type_index()`; `none` = `std::variant_npos` -/
def typeIndex (v : VarV n τ) : Option Nat := v.map Var.typeIndex

/-- `holds_type<T_j>` = `std::holds_alternative`: false for every type when valueless -/
def holdsType (j : Fin n) (v : VarV n τ) : Bool :=
  match v with
  | none => false
  | some w => Var.holdsType j w

/-- `to_optional<T_j>` / `to_optional_ref<T_j>`: guarded by `holds_type`, so nothing (and no `get_unsafe`) when valueless -/
def toOptional (j : Fin n) (v : VarV n τ) : K σ (Option (τ j)) :=
  if holdsType j v then
    match v with
    | some w => do
      let x ← Var.getUnsafe j w
      pure (some x)
    | none => K.fault .emptyDeref
  else pure none

/-- `apply` / `match` / `type_info` / `operator<<`: `std::visit` throws `std::bad_variant_access` when valueless -/
def apply (f : (i : Fin n) → τ i → K σ β) (v : VarV n τ) : K σ β :=
  match v with
  | some w => Var.apply f w
  | none => K.fault (.exception (.other "std"))

/-- `compare(left, right, cmp)` = `apply` on the right one, `to_optional` on the left one -/
def compare (l r : VarV n τ) (cmp : (i : Fin n) → τ i → τ i → K σ Bool) : K σ Bool :=
  apply (fun j rInner => do
    let o ← toOptional j l
    Opt.maybe o (fun _ => pure false) (fun lInner => cmp j lInner rInner)) r

/-- `operator==` of `std::variant`: two valueless variants are equal -/
def eq (eqv : (i : Fin n) → τ i → τ i → Bool) (l r : VarV n τ) : Bool :=
  match l, r with
  | none, none => true
  | some a, some b => Var.eq eqv a b
  | _, _ => false

/-- `operator<` of `std::variant`: a valueless variant is smaller than every other one -/
def lt (ltv : (i : Fin n) → τ i → τ i → Bool) (l r : VarV n τ) : Bool :=
  match l, r with
  | _, none => false
  | none, some _ => true
  | some a, some b => Var.lt ltv a b

/-- copy assignment `dst = src`, where `ctorThrows` says whether copy-constructing the source's value throws
(its copy *assignment* does not).  Same alternative: element assignment.  Otherwise the old value is destroyed first
and the new one constructed in place: a throw leaves the target valueless.  Result: the target afterwards and whether
the exception left the assignment. -/
def assign (dst src : VarV n τ) (ctorThrows : Bool) : VarV n τ × Bool :=
  match src with
  | none => (none, false)
  | some s =>
    match dst with
    | some d =>
      if d.idx = s.idx then (some s, false)
      else if ctorThrows then (none, true)
      else (some s, false)
    | none => if ctorThrows then (none, true) else (some s, false)

end VarV

/-! ## the implicitly defined special members (copy / move construction and assignment) and `std::swap` -/

/-- `dst = src` / `T dst{src}`: the target takes the value of the source; the result is (target, source as an lvalue
keeps it) -/
def assignObj {τ : Type} (_dst src : τ) : τ × τ := (src, src)
/-- `std::swap(a, b)` -/
def swapObj {τ : Type} (a b : τ) : τ × τ := (b, a)

/-! ## monad/bind.hpp, return.hpp, chain.hpp, do.hpp -/

/-- `monad::bind(optional, f)` = `instance<optional>::bind` = `optional::bind` -/
def monadBindOpt (o : Option α) (f : α → K σ (Option β)) : K σ (Option β) := Opt.bind o f
/-- `monad::bind(either, f)` = `instance<either>::bind` = `either::bind` -/
def monadBindEither (e : Either φ α) (f : α → K σ (Either φ β)) : K σ (Either φ β) := Either.bind e f

/-- `monad::return_<optional<…>>(x)` = `optional::make(x)`; `monad::return_<either<F,…>>(x)` = `make_success<F>(x)` -/
def returnOpt (x : α) : Option α := Opt.make x
def returnEither (x : α) : Either φ α := Either.makeSuccess x

/-- `monad::chain(v, l_1, …, l_n)` = `bind(… bind(bind(v, l_1), l_2) …, l_n)` (`detail::chain`), at arities 1, 2
with different types and at any arity with one type -/
def chainOpt1 (v : Option α) (l1 : α → K σ (Option β)) : K σ (Option β) := do
  let r1 ← monadBindOpt v l1
  pure r1
def chainOpt2 (v : Option α) (l1 : α → K σ (Option β)) (l2 : β → K σ (Option γ)) : K σ (Option γ) := do
  let r1 ← monadBindOpt v l1
  let r2 ← monadBindOpt r1 l2
  pure r2
def chainOptN (v : Option α) : List (α → K σ (Option α)) → K σ (Option α)
  | [] => pure v
  | l :: ls => do
    let r ← monadBindOpt v l
    chainOptN r ls
def chainEither2 (v : Either φ α) (l1 : α → K σ (Either φ β)) (l2 : β → K σ (Either φ γ)) : K σ (Either φ γ) := do
  let r1 ← monadBindEither v l1
  let r2 ← monadBindEither r1 l2
  pure r2
def chainEitherN (v : Either φ α) : List (α → K σ (Either φ α)) → K σ (Either φ α)
  | [] => pure v
  | l :: ls => do
    let r ← monadBindEither v l
    chainEitherN r ls

/-- `monad::do_(v, l_1, l_2)` (`detail::do_`): every lambda is given all the values bound so far -/
def doOpt2 (v : Option α) (l1 : α → K σ (Option β)) : K σ (Option β) :=
  monadBindOpt v fun a => l1 a
def doOpt3 (v : Option α) (l1 : α → K σ (Option β)) (l2 : α → β → K σ (Option γ)) : K σ (Option γ) :=
  monadBindOpt v fun a => do
    let m ← l1 a
    monadBindOpt m fun b => l2 a b
def doEither3 (v : Either φ α) (l1 : α → K σ (Either φ β)) (l2 : α → β → K σ (Either φ γ)) : K σ (Either φ γ) :=
  monadBindEither v fun a => do
    let m ← l1 a
    monadBindEither m fun b => l2 a b

end Fcppt.C04
