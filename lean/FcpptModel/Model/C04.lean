import FcpptModel.Prelude.Fault
/-!
# C04 — model of the `fcppt::optional`, `fcppt::either` and `fcppt::variant` combinators

Every combinator is transcribed with the `has_value` / `has_success` / `holds_type` test that
guards its `get_unsafe`; `get_unsafe` on the wrong alternative is `Fault.emptyDeref`.
Continuations are computations in the monad `K σ` (state `σ` + faults): a continuation may have
any effect on `σ` (count its calls, log its arguments, pop a queue, …) and may throw.  "Invoked
exactly once / never invoked" is therefore expressed by equations between `K`-computations.

Which C++ file each definition mirrors (all under `libs/core/include/fcppt/`):

* `Opt.hasValue`, `Opt.getUnsafe`            : `optional/object_impl.hpp`
* `cond`                                      : `cond.hpp`
* `allOf`, `containsIf`, `findIfOpt`, `mapM'` : `algorithm/all_of.hpp`, `contains_if.hpp`, `find_if_opt.hpp`, `map.hpp`
* `Opt.make`, `makeIf`, `hasValueAll`         : `optional/make.hpp`, `make_if.hpp`, `detail/has_value_all.hpp`
* `Opt.bind map join apply* filter alternative combine cat sequence from maybe maybeVoid maybeMulti*`
                                              : the header of the same name in `optional/`
* `Opt.eq ne lt`                              : `optional/comparison.hpp`
* `Either.hasSuccess … getFailureUnsafe`      : `either/object_impl.hpp` (on `variant<Failure, Success>`)
* `Either.match_ map bind join apply* mapFailure sequence firstSuccess loop fromOptional tryCall
   successOpt failureOpt`                     : the header of the same name in `either/`
* `Var.typeIndex holdsType getUnsafe`         : `variant/object_impl.hpp`, `holds_type.hpp`, `detail/get_unsafe_impl.hpp`
* `Var.apply apply2 match_ toOptional compare eq ne lt` : `variant/apply.hpp match.hpp to_optional.hpp compare.hpp comparison.hpp`
* `monadBindOpt`, `monadBindEither`           : `monad/bind.hpp` + `optional/monad.hpp`, `either/monad.hpp`
-/
namespace Fcppt.C04

/-- state + fault monad of the continuations: the state survives a throw (a log is not rolled back) -/
def K (σ α : Type) : Type := σ → Except Fault α × σ

instance {σ : Type} : Monad (K σ) where
  pure a := fun s => (.ok a, s)
  bind m f := fun s =>
    match m s with
    | (.ok a, s') => f a s'
    | (.error e, s') => (.error e, s')

namespace K
variable {σ α : Type}
/-- undefined behaviour / `throw` -/
def fault (e : Fault) : K σ α := fun s => (.error e, s)
/-- `try { m } catch …`: the handler sees the fault; effects up to the throw are kept -/
def tryCatch (m : K σ α) (h : Fault → K σ α) : K σ α := fun s =>
  match m s with
  | (.ok a, s') => (.ok a, s')
  | (.error e, s') => h e s'
end K

variable {σ α β γ δ φ ψ : Type}

/-- `fcppt::cond` -/
def cond (c : Bool) (i : Unit → K σ α) (t : Unit → K σ α) : K σ α :=
  if c then i () else t ()

/-- `algorithm::all_of(range, identity)`: stops at the first false -/
def allOf : List Bool → Bool
  | [] => true
  | b :: r => if b then allOf r else false

/-- `algorithm::contains_if`: stops at the first hit -/
def containsIf (p : α → Bool) : List α → Bool
  | [] => false
  | x :: r => if p x then true else containsIf p r

/-- `algorithm::find_if_opt`: the iterator is the offset from `begin` -/
def findIfOptFrom (p : α → Bool) : List α → Nat → Option Nat
  | [], _ => none
  | x :: r, i => if p x then some i else findIfOptFrom p r (i + 1)
def findIfOpt (p : α → Bool) (l : List α) : Option Nat := findIfOptFrom p l 0

/-- dereferencing an iterator obtained from `find_if_opt` -/
def derefIt (l : List α) (i : Nat) : K σ α :=
  match l[i]? with
  | some x => pure x
  | none => K.fault .oob

/-- `algorithm::map<Container>(range, f)`: in order, results appended -/
def mapM' (f : α → K σ β) : List α → K σ (List β)
  | [] => pure []
  | x :: r => do
    let y ← f x
    let ys ← mapM' f r
    pure (y :: ys)

/-! ## optional -/
namespace Opt

def hasValue : Option α → Bool
  | some _ => true
  | none => false

def getUnsafe : Option α → K σ α
  | some x => pure x
  | none => K.fault .emptyDeref

def make (x : α) : Option α := some x

/-- `make_if(is_set, function)` -/
def makeIf (isSet : Bool) (f : Unit → K σ α) : K σ (Option α) :=
  if isSet then do
    let r ← f ()
    pure (some r)
  else pure none

/-- `detail::has_value_all(o...)` on the array of `has_value()` results -/
def hasValueAll (l : List Bool) : Bool := allOf l

/-- `bind(source, function)` -/
def bind (src : Option α) (f : α → K σ (Option β)) : K σ (Option β) :=
  if hasValue src then do
    let x ← getUnsafe src
    f x
  else pure none

/-- `map(source, function)` = `bind(source, make ∘ function)` -/
def map (src : Option α) (f : α → K σ β) : K σ (Option β) :=
  bind src fun a => do
    let r ← f a
    pure (make r)

/-- `join(source)` -/
def join (src : Option (Option α)) : K σ (Option α) :=
  if hasValue src then getUnsafe src else pure none

/-- `apply(function, o1)` -/
def apply1 (f : α → K σ δ) (o1 : Option α) : K σ (Option δ) :=
  makeIf (hasValueAll [hasValue o1]) fun _ => do
    let x1 ← getUnsafe o1
    f x1

/-- `apply(function, o1, o2)` -/
def apply2 (f : α → β → K σ δ) (o1 : Option α) (o2 : Option β) : K σ (Option δ) :=
  makeIf (hasValueAll [hasValue o1, hasValue o2]) fun _ => do
    let x1 ← getUnsafe o1
    let x2 ← getUnsafe o2
    f x1 x2

/-- `apply(function, o1, o2, o3)` -/
def apply3 (f : α → β → γ → K σ δ) (o1 : Option α) (o2 : Option β) (o3 : Option γ) : K σ (Option δ) :=
  makeIf (hasValueAll [hasValue o1, hasValue o2, hasValue o3]) fun _ => do
    let x1 ← getUnsafe o1
    let x2 ← getUnsafe o2
    let x3 ← getUnsafe o3
    f x1 x2 x3

/-- the variadic `apply` at an arbitrary arity, arguments of one type -/
def applyN (f : List α → K σ δ) (os : List (Option α)) : K σ (Option δ) :=
  makeIf (hasValueAll (os.map hasValue)) fun _ => do
    let xs ← mapM' getUnsafe os
    f xs

/-- `filter(source, function)`: `has_value() && function(get_unsafe())` -/
def filter (src : Option α) (p : α → K σ Bool) : K σ (Option α) :=
  if hasValue src then do
    let x ← getUnsafe src
    let b ← p x
    pure (if b then src else none)
  else pure none

/-- `alternative(optional1, optional2)` -/
def alternative (o1 : Option α) (o2 : Unit → K σ (Option α)) : K σ (Option α) :=
  if hasValue o1 then pure o1 else o2 ()

/-- `combine(optional1, optional2, function)` -/
def combine (o1 o2 : Option α) (f : α → α → K σ α) : K σ (Option α) :=
  if !hasValue o1 then pure o2
  else if !hasValue o2 then pure o1
  else do
    let x1 ← getUnsafe o1
    let x2 ← getUnsafe o2
    let r ← f x1 x2
    pure (make r)

/-- `maybe(optional, default, transform)` -/
def maybe (o : Option α) (d : Unit → K σ β) (t : α → K σ β) : K σ β :=
  cond (hasValue o) (fun _ => do
    let x ← getUnsafe o
    t x) d

/-- `maybe_void(optional, transform)` -/
def maybeVoid (o : Option α) (t : α → K σ Unit) : K σ Unit :=
  maybe o (fun _ => pure ()) t

/-- `cat<Target>(source)`: the loop body is `maybe_void(element, λx. result.insert(end, x))` -/
def catGo : List (Option α) → List α → K σ (List α)
  | [], result => pure result
  | el :: r, result => do
    let result' ← maybe el (fun _ => pure result) (fun x => pure (result ++ [x]))
    catGo r result'
def cat (src : List (Option α)) : K σ (List α) := catGo src []

/-- `sequence<Result>(source)` -/
def sequence (src : List (Option α)) : K σ (Option (List α)) :=
  makeIf (!containsIf (fun o => !hasValue o) src) fun _ => mapM' getUnsafe src

/-- `from(optional, default)` -/
def «from» (o : Option α) (d : Unit → K σ α) : K σ α :=
  cond (hasValue o) (fun _ => getUnsafe o) d

/-- `maybe_multi(default, transform, o1)` -/
def maybeMulti1 (d : Unit → K σ δ) (t : α → K σ δ) (o1 : Option α) : K σ δ :=
  if hasValueAll [hasValue o1] then do
    let x1 ← getUnsafe o1
    t x1
  else d ()

/-- `maybe_multi(default, transform, o1, o2)` -/
def maybeMulti2 (d : Unit → K σ δ) (t : α → β → K σ δ) (o1 : Option α) (o2 : Option β) : K σ δ :=
  if hasValueAll [hasValue o1, hasValue o2] then do
    let x1 ← getUnsafe o1
    let x2 ← getUnsafe o2
    t x1 x2
  else d ()

/-- `maybe_multi(default, transform, o1, o2, o3)` -/
def maybeMulti3 (d : Unit → K σ δ) (t : α → β → γ → K σ δ) (o1 : Option α) (o2 : Option β) (o3 : Option γ) : K σ δ :=
  if hasValueAll [hasValue o1, hasValue o2, hasValue o3] then do
    let x1 ← getUnsafe o1
    let x2 ← getUnsafe o2
    let x3 ← getUnsafe o3
    t x1 x2 x3
  else d ()

/-- the variadic `maybe_multi` at an arbitrary arity, arguments of one type -/
def maybeMultiN (d : Unit → K σ δ) (t : List α → K σ δ) (os : List (Option α)) : K σ δ :=
  if hasValueAll (os.map hasValue) then do
    let xs ← mapM' getUnsafe os
    t xs
  else d ()

/-- `operator==`; `eqv` is `T`'s `==`.  Returns in `K` because of the two `get_unsafe`. -/
def eq (eqv : α → α → Bool) (a b : Option α) : K σ Bool :=
  if hasValue a && hasValue b then do
    let x ← getUnsafe a
    let y ← getUnsafe b
    pure (eqv x y)
  else pure (hasValue a == hasValue b)

/-- `operator!=` -/
def ne (eqv : α → α → Bool) (a b : Option α) : K σ Bool := do
  let r ← eq eqv a b
  pure !r

/-- `operator<`; `ltv` is `T`'s `<`; `has_value() < has_value()` on `bool` -/
def lt (ltv : α → α → Bool) (a b : Option α) : K σ Bool :=
  if hasValue a && hasValue b then do
    let x ← getUnsafe a
    let y ← getUnsafe b
    pure (ltv x y)
  else pure (!hasValue a && hasValue b)

end Opt

/-! ## either -/

/-- `either::object<Failure, Success>`: a `variant<Failure, Success>` -/
inductive Either (φ α : Type) where
  | failure (f : φ)
  | success (s : α)
  deriving Repr, DecidableEq, Inhabited

namespace Either

def hasSuccess : Either φ α → Bool
  | success _ => true
  | failure _ => false

def hasFailure : Either φ α → Bool
  | failure _ => true
  | success _ => false

def getSuccessUnsafe : Either φ α → K σ α
  | success s => pure s
  | failure _ => K.fault .emptyDeref

def getFailureUnsafe : Either φ α → K σ φ
  | failure f => pure f
  | success _ => K.fault .emptyDeref

/-- `match(either, failure_function, success_function)` -/
def match_ (e : Either φ α) (ff : φ → K σ β) (sf : α → K σ β) : K σ β :=
  if hasSuccess e then do
    let s ← getSuccessUnsafe e
    sf s
  else do
    let f ← getFailureUnsafe e
    ff f

/-- `map(either, function)` -/
def map (e : Either φ α) (f : α → K σ β) : K σ (Either φ β) :=
  if hasSuccess e then do
    let s ← getSuccessUnsafe e
    let r ← f s
    pure (success r)
  else do
    let x ← getFailureUnsafe e
    pure (failure x)

/-- `bind(either, function)` -/
def bind (e : Either φ α) (f : α → K σ (Either φ β)) : K σ (Either φ β) :=
  if hasSuccess e then do
    let s ← getSuccessUnsafe e
    f s
  else do
    let x ← getFailureUnsafe e
    pure (failure x)

/-- `join(either)` = `bind(either, identity)` -/
def join (e : Either φ (Either φ α)) : K σ (Either φ α) :=
  bind e fun v => pure v

/-- `map_failure(either, function)` -/
def mapFailure (e : Either φ α) (f : φ → K σ ψ) : K σ (Either ψ α) :=
  if hasFailure e then do
    let x ← getFailureUnsafe e
    let r ← f x
    pure (failure r)
  else do
    let s ← getSuccessUnsafe e
    pure (success s)

/-- `success_opt(either)` -/
def successOpt (e : Either φ α) : K σ (Option α) :=
  if hasSuccess e then do
    let s ← getSuccessUnsafe e
    pure (some s)
  else pure none

/-- `failure_opt(either)` = `make_if(has_failure(), get_failure_unsafe)` -/
def failureOpt (e : Either φ α) : K σ (Option φ) :=
  Opt.makeIf (hasFailure e) fun _ => getFailureUnsafe e

/-- the failure branch of `apply`: the first set entry of the array of `failure_opt`s;
`fcppt::absurd` (= `std::terminate`) if there is none -/
def firstFailure (fs : List (Option φ)) : K σ φ :=
  match findIfOpt Opt.hasValue fs with
  | some i => do
    let o ← derefIt fs i
    Opt.getUnsafe o
  | none => K.fault .emptyDeref

/-- `apply(function, e1)` -/
def apply1 (f : α → K σ δ) (e1 : Either φ α) : K σ (Either φ δ) :=
  if allOf [hasSuccess e1] then do
    let x1 ← getSuccessUnsafe e1
    let r ← f x1
    pure (success r)
  else do
    let f1 ← failureOpt e1
    let x ← firstFailure [f1]
    pure (failure x)

/-- `apply(function, e1, e2)` -/
def apply2 (f : α → β → K σ δ) (e1 : Either φ α) (e2 : Either φ β) : K σ (Either φ δ) :=
  if allOf [hasSuccess e1, hasSuccess e2] then do
    let x1 ← getSuccessUnsafe e1
    let x2 ← getSuccessUnsafe e2
    let r ← f x1 x2
    pure (success r)
  else do
    let f1 ← failureOpt e1
    let f2 ← failureOpt e2
    let x ← firstFailure [f1, f2]
    pure (failure x)

/-- `apply(function, e1, e2, e3)` -/
def apply3 (f : α → β → γ → K σ δ) (e1 : Either φ α) (e2 : Either φ β) (e3 : Either φ γ) : K σ (Either φ δ) :=
  if allOf [hasSuccess e1, hasSuccess e2, hasSuccess e3] then do
    let x1 ← getSuccessUnsafe e1
    let x2 ← getSuccessUnsafe e2
    let x3 ← getSuccessUnsafe e3
    let r ← f x1 x2 x3
    pure (success r)
  else do
    let f1 ← failureOpt e1
    let f2 ← failureOpt e2
    let f3 ← failureOpt e3
    let x ← firstFailure [f1, f2, f3]
    pure (failure x)

/-- the variadic `apply` at an arbitrary arity, arguments of one type -/
def applyN (f : List α → K σ δ) (es : List (Either φ α)) : K σ (Either φ δ) :=
  if allOf (es.map hasSuccess) then do
    let xs ← mapM' getSuccessUnsafe es
    let r ← f xs
    pure (success r)
  else do
    let fs ← mapM' failureOpt es
    let x ← firstFailure fs
    pure (failure x)

/-- `sequence<Result>(source)` -/
def sequence (src : List (Either φ α)) : K σ (Either φ (List α)) :=
  Opt.maybe (findIfOpt hasFailure src)
    (fun _ => do
      let r ← mapM' getSuccessUnsafe src
      pure (success r))
    (fun it => do
      let e ← derefIt src it
      let x ← getFailureUnsafe e
      pure (failure x))

/-- `first_success(functions)`: the range-for with early return; `failures` is the vector built so far -/
def firstSuccessGo : List (Unit → K σ (Either φ α)) → List φ → K σ (Either (List φ) α)
  | [], failures => pure (failure failures)
  | fn :: rest, failures => do
    let result ← fn ()
    if hasSuccess result then do
      let s ← getSuccessUnsafe result
      pure (success s)
    else do
      let x ← getFailureUnsafe result
      firstSuccessGo rest (failures ++ [x])
def firstSuccess (fns : List (Unit → K σ (Either φ α))) : K σ (Either (List φ) α) :=
  firstSuccessGo fns []

/-- `loop(next, loop)`: `while(!error.has_value()) match(next(), λf. error = f, λs. loop(s)); return error.get_unsafe()`.
`fuel` bounds the number of iterations (exhausted = does not terminate). -/
def loopGo (next : Unit → K σ (Either φ α)) (body : α → K σ Unit) (fuel : Nat) (error : Option φ) : K σ φ :=
  if Opt.hasValue error then Opt.getUnsafe error
  else match fuel with
    | 0 => K.fault .fuel
    | n + 1 => do
      let e ← next ()
      let error' ← match_ e (fun x => pure (some x)) (fun s => do
        body s
        pure error)
      loopGo next body n error'
def loop (fuel : Nat) (next : Unit → K σ (Either φ α)) (body : α → K σ Unit) : K σ φ :=
  loopGo next body fuel none

/-- `from_optional(optional, failure_function)` = `optional::maybe(…)` -/
def fromOptional (o : Option α) (ff : Unit → K σ φ) : K σ (Either φ α) :=
  Opt.maybe o
    (fun _ => do
      let x ← ff ()
      pure (failure x))
    (fun v => pure (success v))

/-- `try_call<Exception>(function, to_exception)`: `catches k = some e` iff an exception of kind `k`
is an `Exception` (with payload `e`); everything else propagates -/
def tryCall {ε : Type} (catches : ExcKind → Option ε) (f : Unit → K σ α) (toExc : ε → K σ φ) : K σ (Either φ α) :=
  K.tryCatch
    (do
      let r ← f ()
      pure (success r))
    (fun flt =>
      match flt with
      | .exception k =>
        match catches k with
        | some e => do
          let x ← toExc e
          pure (failure x)
        | none => K.fault flt
      | _ => K.fault flt)

end Either

/-! ## variant -/

/-- `variant::object<T_0, …, T_{n-1}>`: the index of the held type and a value of that type
(`std::variant`; the valueless state cannot be reached through the operations modelled here) -/
structure Var (n : Nat) (τ : Fin n → Type) where
  idx : Fin n
  val : τ idx

namespace Var
variable {n : Nat} {τ : Fin n → Type}

def typeIndex (v : Var n τ) : Nat := v.idx.val

/-- `holds_type<T_j>(v)` = `std::holds_alternative` -/
def holdsType (j : Fin n) (v : Var n τ) : Bool := decide (v.idx = j)

/-- `get_unsafe<T_j>(v)` = `*std::get_if<T_j>(&impl)`: null dereference on the wrong type -/
def getUnsafe (j : Fin n) (v : Var n τ) : K σ (τ j) :=
  if h : v.idx = j then pure (h ▸ v.val) else K.fault .emptyDeref

/-- `apply(function, v)` = `std::visit` -/
def apply (f : (i : Fin n) → τ i → K σ β) (v : Var n τ) : K σ β := f v.idx v.val

/-- `apply(function, v1, v2)` -/
def apply2 {m : Nat} {υ : Fin m → Type} (f : (i : Fin n) → τ i → (j : Fin m) → υ j → K σ β)
    (v1 : Var n τ) (v2 : Var m υ) : K σ β := f v1.idx v1.val v2.idx v2.val

/-- `apply(function, v1, v2, v3)` -/
def apply3 {m k : Nat} {υ : Fin m → Type} {ω : Fin k → Type}
    (f : (i : Fin n) → τ i → (j : Fin m) → υ j → (l : Fin k) → ω l → K σ β)
    (v1 : Var n τ) (v2 : Var m υ) (v3 : Var k ω) : K σ β := f v1.idx v1.val v2.idx v2.val v3.idx v3.val

/-- `match(v, f_0, …, f_{n-1})`: visit with the function at `index_of<types, decltype(arg)>` -/
def match_ (v : Var n τ) (fs : (i : Fin n) → τ i → K σ β) : K σ β :=
  apply (fun i x => fs i x) v

/-- `to_optional<T_j>(v)` -/
def toOptional (j : Fin n) (v : Var n τ) : K σ (Option (τ j)) :=
  if holdsType j v then do
    let x ← getUnsafe j v
    pure (some x)
  else pure none

/-- `compare(left, right, compare)` -/
def compare (l r : Var n τ) (cmp : (i : Fin n) → τ i → τ i → K σ Bool) : K σ Bool :=
  apply (fun j rInner => do
    let o ← toOptional j l
    Opt.maybe o (fun _ => pure false) (fun lInner => cmp j lInner rInner)) r

/-- `operator==` = `std::variant`'s: same index and equal values -/
def eq (eqv : (i : Fin n) → τ i → τ i → Bool) (l r : Var n τ) : Bool :=
  if h : l.idx = r.idx then eqv r.idx (h ▸ l.val) r.val else false

def ne (eqv : (i : Fin n) → τ i → τ i → Bool) (l r : Var n τ) : Bool := !eq eqv l r

/-- `operator<` = `std::variant`'s: smaller index, or same index and smaller value -/
def lt (ltv : (i : Fin n) → τ i → τ i → Bool) (l r : Var n τ) : Bool :=
  if l.idx < r.idx then true
  else if r.idx < l.idx then false
  else if h : l.idx = r.idx then ltv r.idx (h ▸ l.val) r.val else false

end Var

/-! ## monad/bind.hpp -/

/-- `monad::bind(optional, f)` = `instance<optional>::bind` = `optional::bind` -/
def monadBindOpt (o : Option α) (f : α → K σ (Option β)) : K σ (Option β) := Opt.bind o f
/-- `monad::bind(either, f)` = `instance<either>::bind` = `either::bind` -/
def monadBindEither (e : Either φ α) (f : α → K σ (Either φ β)) : K σ (Either φ β) := Either.bind e f

end Fcppt.C04
