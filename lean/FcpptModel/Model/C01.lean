import FcpptModel.Prelude.Fault
/-!
# C01 — models of the "safe" (total) API outside the scalar core

The scalar integer helpers are the translated definitions of `FcpptModel/Gen/Scalar.lean`
(see C06).  Here: the container / string / argument helpers whose C++ original guards a
precondition and returns an optional.  Every element access goes through `readAt`, which
faults (`Fault.oob`) outside the container — so a missing or wrong guard in the mirrored
control flow shows up as a possible `Fault`, and the totality theorems state that none is
reachable.

Mirrors: container/at_optional.hpp, maybe_front.hpp, maybe_back.hpp, pop_back.hpp,
pop_front.hpp, find_opt(_iterator).hpp, array/from_range.hpp, detail/runtime_index.hpp,
enum/index_of_array.hpp (+ from_string_impl.hpp), options/impl/is_flag.cpp,
options/impl/next_arg.cpp, filesystem/file_size.cpp.  Sub-modules: `C01/Stream.lean` (io helpers on streams in
every state, read_chars with its buffer), `C01/Path.lean` (the pure path helpers over a model of
std::filesystem::path), `C01/Env.lean` (argc/argv, getenv, error codes, open, casts, time).
-/
namespace Fcppt.C01
open Fcppt

/-- `*(begin + i)` / `operator[]` / `front()` / `back()`: undefined outside the container -/
def readAt {α} (c : List α) (i : Nat) : M α :=
  match c[i]? with
  | some x => .ok x
  | none => .error .oob

/-- container::at_optional: `make_if(index < size, [&]{ return *(begin + index); })` -/
def atOptional {α} (c : List α) (i : Nat) : M (Option α) :=
  if i < c.length then do let x ← readAt c i; pure (some x) else pure none

/-- container::maybe_front: `empty() ? none : front()` -/
def maybeFront {α} (c : List α) : M (Option α) :=
  if c.isEmpty then pure none else do let x ← readAt c 0; pure (some x)

/-- container::maybe_back: `empty() ? none : back()` -/
def maybeBack {α} (c : List α) : M (Option α) :=
  if c.isEmpty then pure none else do let x ← readAt c (c.length - 1); pure (some x)

/-- container::pop_back: `make_if(!empty(), [&]{ result = move(back()); pop_back(); return result; })` -/
def popBack {α} (c : List α) : M (Option α × List α) :=
  if !c.isEmpty then do let x ← readAt c (c.length - 1); pure (some x, c.dropLast) else pure (none, c)

def popFront {α} (c : List α) : M (Option α × List α) :=
  if !c.isEmpty then do let x ← readAt c 0; pure (some x, c.drop 1) else pure (none, c)

/-- container::find_opt on an associative container given as its (key, mapped) pairs:
`it = find(key); it != end() ? some(it->second) : none` -/
def findOpt {κ ν} [BEq κ] (m : List (κ × ν)) (k : κ) : M (Option ν) :=
  match m.findIdx? (fun p => p.1 == k) with
  | some i => do let p ← readAt m i; pure (some p.2)     -- dereferencing the found iterator
  | none => pure none

/-- array::from_range<Size>: `make_if(size(source) == Size, init(λ Index → source[Index]))` -/
def fromRange {α} (size : Nat) (src : List α) : M (Option (List α)) :=
  if src.length = size then do
    let xs ← (List.range size).mapM (readAt src)
    pure (some xs)
  else pure none

/-- detail::runtime_index<Max, Current>::execute: compile-time recursion on `Current` -/
def runtimeIndexFrom {β} (max : Nat) (f : Nat → β) (fail : β) (i : Nat) : Nat → Nat → M β
  | 0, _ => .error .fuel
  | fuel + 1, cur =>
    if cur = max then pure fail
    else if i = cur then pure (f cur)
    else runtimeIndexFrom max f fail i fuel (cur + 1)

def runtimeIndex {β} (max : Nat) (i : Nat) (f : Nat → β) (fail : β) : M β :=
  runtimeIndexFrom max f fail i (max + 1) 0

/-- enum_::from_string = index_of_array(names, s): index of the first equal name -/
def fromString (names : List String) (s : String) : Option Nat :=
  match names.findIdx? (· == s) with
  | some i => some i
  | none => none

/-! ## options::impl::is_flag (after the repair 2723549) and next_arg -/

abbrev Str := List Char

def isDash (c : Char) : Bool := c == '-'

/-- is_flag: `(is_short, name)` for arguments starting with a dash; reads only below `size` -/
def isFlag (s : Str) : M (Option (Bool × Str)) := do
  -- pos = begin
  if s.length = 0 then return none
  let c0 ← readAt s 0
  if !isDash c0 then return none
  -- ++pos
  if 1 = s.length then return some (true, [])
  let c1 ← readAt s 1
  if isDash c1 then
    -- string{std::next(pos), end}
    return some (false, s.drop 2)
  else
    return some (true, s.drop 1)

/-- the unrepaired is_flag: dereferences `pos` right after `++pos` -/
def isFlagOld (s : Str) : M (Option (Bool × Str)) := do
  if s.length = 0 then return none
  let c0 ← readAt s 0
  if !isDash c0 then return none
  let c1 ← readAt s 1
  if isDash c1 then return some (false, s.drop 2) else return some (true, s.drop 1)

/-- next_arg: index of the first argument that is neither a flag nor the value of an option
named in `optionNames` (pairs of name and is_short) -/
def nextArgFrom (args : List Str) (optionNames : List (Str × Bool)) : Nat → Nat → M (Option Nat)
  | 0, _ => .error .fuel
  | fuel + 1, cur =>
    if cur = args.length then pure none          -- cur != end fails
    else do
      let a ← readAt args cur                    -- *cur
      match ← isFlag a with
      | some (isShort, name) =>
        let cur1 := cur + 1                      -- ++cur
        if cur1 ≠ args.length ∧ optionNames.contains (name, isShort) then
          nextArgFrom args optionNames fuel (cur1 + 1)    -- ++cur (skip the option's value)
        else nextArgFrom args optionNames fuel cur1
      | none => pure (some cur)

def nextArg (args : List Str) (optionNames : List (Str × Bool)) : M (Option Nat) :=
  nextArgFrom args optionNames (args.length + 1) 0

/-- what io::read_chars means on a stream in the good state that reports end-of-file: the requested prefix or
nothing.  The model that mirrors the code (buffer, stream states, throwing streambuf) is `readChars` in
`Model/C01/Stream.lean`. -/
def readCharsSpec (stream : List Nat) (count : Nat) : Option (List Nat) :=
  if count ≤ stream.length then some (stream.take count) else none

/-- filesystem::file_size with the OS answer as an oracle argument (`none` = error_code set) -/
def fileSize (os : Option Nat) : Option Nat :=
  match os with
  | some n => if n = 2 ^ 64 - 1 then none else some n
  | none => none

end Fcppt.C01
