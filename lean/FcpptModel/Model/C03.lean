import FcpptModel.Prelude.Fault
/-!
# C03 — model of `fcppt::options`

Mirrors (after the `fix:` commits 986d19b, 2723549, 6e48692):

* `impl/src/options/impl/is_flag.cpp`            : `isFlag`
* `impl/src/options/impl/flag_name.cpp`          : `flagName`
* `impl/src/options/impl/next_arg.cpp`           : `splitNext` (the position found by the loop, returned as
                                                   *(elements before, element, elements after)*)
* `src/options/detail/pop_arg.cpp`               : `popArg`   (= erase the position of `next_arg`)
* `src/options/detail/split_command.cpp`         : `splitNext` itself (first args, command, second args)
* `src/options/detail/use_flag.cpp`              : `useFlag`  (`std::find` + `erase`)
* `src/options/detail/use_option.cpp`            : `useOption` (`std::find`, `next == end` → missing argument, erase two)
* `src/options/detail/leftover_error.cpp`, `include/fcppt/options/detail/parse_to_empty.hpp` : `parseToEmpty`
* `include/fcppt/options/detail/combine_errors_impl.hpp` : `combineErrors`
* `include/fcppt/options/{argument,flag,switch,option,unit,unit_switch,optional,many,product,sum,commands}_impl.hpp`
                                                 : the cases of `parse`
* `include/fcppt/options/parse.hpp`, `parse_help.hpp` : `parseTop`, `parseHelp`
* constructors (`flag_impl.hpp`, `option_impl.hpp`, `product_impl.hpp::check_disjoint`,
  `check_short_long_names.cpp`, `check_sub_command_names.cpp`) : `construct`
* `core/include/fcppt/extract_from_string_locale.hpp` (+ libstdc++ `num_get`, classic locale, `enum_::input`) : `convert`
* `usage()` of every parser class, `src/options/indent.cpp`, `src/options/detail/{help_text,long_or_short_name}.cpp`,
  `include/fcppt/options/detail/type_annotation.hpp`, `pretty_type*.hpp`                       : `OP.usage`, `indent`, …
* the text of every `missing_error` / `other_error` / `error` / exception (the `FCPPT_TEXT(...)` expressions at the
  places where the errors are made; `sum` joins two texts with `indent … "\n|\n" … indent`)       : the `msg` fields
* `flag_names()` / `option_names()` are `std::set`s: `flagNameSet`, `optionNameSet` (sorted, without duplicates)

An argument is a pair *(original index, text)*; the index never influences the control flow, it only
feeds the **consumption log** (index ↦ label of the leaf parser that took it; `cmd` for a command name).
`parse` takes a fuel argument; `PErr.diverge` = fuel exhausted = the C++ does not terminate.
-/
namespace Fcppt.C03

abbrev Arg := Nat × String
/-- `option_name_set`: (name, is_short) -/
abbrev Ctx := List (String × Bool)
abbrev Log := List (Nat × String)

inductive VTy where
  | int | uns | str | enm
  deriving Repr, DecidableEq, Inhabited

inductive Val where
  | int (i : Int) | str (s : String) | bool (b : Bool) | enm (i : Nat) | unit
  | none | some (v : Val) | list (l : List Val)
  | left (v : Val) | right (v : Val)
  | recd (fs : List (String × Val))
  deriving Repr, Inhabited

abbrev Rec := List (String × Val)

/-- structural equality on the value shapes a flag can carry (`operator==` of int/unsigned/string/enum/bool) -/
def Val.beqBase : Val → Val → Bool
  | .int a, .int b => a == b
  | .str a, .str b => a == b
  | .bool a, .bool b => a == b
  | .enm a, .enm b => a == b
  | .unit, .unit => true
  | _, _ => false

/-- `nm`: the `long_name` of an argument (only shown in usage and error texts); `help`: the optional help text -/
inductive OP where
  | arg (l : String) (ty : VTy) (nm : String) (help : Option String)
  | flag (l : String) (sh : Option String) (lg : String) (act inact : Val) (help : Option String)
  | opt (l : String) (sh : Option String) (lg : String) (dflt : Option Val) (ty : VTy) (help : Option String)
  | unit (l : String)
  | unitSwitch (l : String) (sh : Option String) (lg : String)
  | optional (p : OP)
  | many (p : OP)
  | prod (a b : OP)
  | sum (l : String) (a b : OP)
  | commands (common : OP) (subs : List (String × String × Option String × OP))     -- (command name, tag label, help text, parser)
  deriving Repr, Inhabited

abbrev Subs := List (String × String × Option String × OP)

/-- `switch_<Label>` is `flag<Label,bool>` with active `true`, inactive `false` -/
def OP.switch (l : String) (sh : Option String) (lg : String) (help : Option String := none) : OP :=
  .flag l sh lg (.bool true) (.bool false) help

inductive PErr where
  | missing (st : List Arg) (msg : String)     -- `missing_error` (carries a state and a text)
  | other (msg : String)                       -- `other_error`
  | diverge                                    -- fuel exhausted
  deriving Repr, Inhabited

def PErr.msg : PErr → String
  | .missing _ m | .other m => m
  | .diverge => ""

abbrev Res := Except PErr (List Arg × Rec × Log)

/-! ## static information: names, labels, size -/

mutual
def OP.size : OP → Nat
  | .arg .. | .flag .. | .opt .. | .unit .. | .unitSwitch .. => 1
  | .optional p | .many p => p.size + 1
  | .prod a b | .sum _ a b => a.size + b.size + 1
  | .commands c subs => c.size + sizeSubs subs + 1
def sizeSubs : Subs → Nat
  | [] => 0
  | (_, _, _, p) :: r => p.size + sizeSubs r + 1
end

/-- `flag_names()` -/
def OP.flagNames : OP → List String
  | .arg .. | .opt .. | .unit .. | .commands .. => []
  | .flag _ sh lg _ _ _ | .unitSwitch _ sh lg => lg :: sh.toList
  | .optional p | .many p => p.flagNames
  | .prod a b | .sum _ a b => a.flagNames ++ b.flagNames

/-- `option_names()` -/
def OP.optionNames : OP → Ctx
  | .arg .. | .flag .. | .unit .. | .unitSwitch .. | .commands .. => []
  | .opt _ sh lg _ _ _ => (lg, false) :: (sh.toList.map fun s => (s, true))
  | .optional p | .many p => p.optionNames
  | .prod a b | .sum _ a b => a.optionNames ++ b.optionNames

/-- the labels of `result_of<Parser>` -/
def OP.labels : OP → List String
  | .arg l .. | .flag l .. | .opt l .. | .unit l | .unitSwitch l .. => [l]
  | .optional p | .many p => p.labels
  | .prod a b => a.labels ++ b.labels
  | .sum l _ _ => [l]
  | .commands .. => ["options", "sub"]

/-! ## leaves -/

/-- `impl::is_flag`: `none` = not a flag, `some (is_short, name)` -/
def isFlag (s : String) : Option (Bool × String) :=
  match s.toList with
  | [] => none
  | c :: rest =>
    if c ≠ '-' then none
    else match rest with
      | [] => some (true, "")
      | d :: rest' => if d = '-' then some (false, String.ofList rest') else some (true, String.ofList rest)

/-- `impl::flag_name` -/
def flagName (name : String) (isShort : Bool) : String := (if isShort then "-" else "--") ++ name

/-- `impl::next_arg`: the loop over `cur`.  A flag is skipped; if it is one of the option names of the
context *and another element follows*, that element is skipped as well.  Returns the split at the found position. -/
def splitNext : List Arg → Ctx → Option (List Arg × Arg × List Arg)
  | [], _ => none
  | [a], _ => match isFlag a.2 with
    | none => some ([], a, [])
    | some _ => none
  | a :: b :: rest, names =>
    match isFlag a.2 with
    | none => some ([], a, b :: rest)
    | some (sh, nm) =>
      if names.contains (nm, sh) then
        (splitNext rest names).map fun (x, y, z) => (a :: b :: x, y, z)
      else
        (splitNext (b :: rest) names).map fun (x, y, z) => (a :: x, y, z)

/-- `detail::pop_arg` -/
def popArg (st : List Arg) (c : Ctx) : Option (Arg × List Arg) :=
  (splitNext st c).map fun (x, y, z) => (y, x ++ z)

/-- `std::find(args.begin(), args.end(), text)` as a split -/
def splitFind (text : String) : List Arg → Option (List Arg × Arg × List Arg)
  | [] => none
  | a :: rest => if a.2 = text then some ([], a, rest) else (splitFind text rest).map fun (x, y, z) => (a :: x, y, z)

/-- `detail::use_flag`: erase the first occurrence -/
def useFlag (name : String) (isShort : Bool) (st : List Arg) : Option (Arg × List Arg) :=
  (splitFind (flagName name isShort) st).map fun (x, y, z) => (y, x ++ z)

inductive UseOpt where
  | notFound
  | missingArgument
  | found (name value : Arg) (st : List Arg)

/-- `detail::use_option` -/
def useOption (name : String) (isShort : Bool) (st : List Arg) : UseOpt :=
  match splitFind (flagName name isShort) st with
  | none => .notFound
  | some (_, _, []) => .missingArgument
  | some (x, y, v :: z) => .found y v (x ++ z)

/-! ## value conversion (`extract_from_string`) -/

def digitVal (c : Char) : Option Nat := if '0' ≤ c ∧ c ≤ '9' then some (c.toNat - 48) else none

def parseDigits : List Char → Option Nat
  | [] => none
  | cs => cs.foldl (fun acc c => match acc, digitVal c with | some a, some d => some (a * 10 + d) | _, _ => none) (some 0)

/-- sign and magnitude of `[+-]?[0-9]+` (num_get, `dec`, classic locale, whole string) -/
def parseSignMag (s : String) : Option (Bool × Nat) :=
  match s.toList with
  | '-' :: r => (parseDigits r).map fun m => (true, m)
  | '+' :: r => (parseDigits r).map fun m => (false, m)
  | r => (parseDigits r).map fun m => (false, m)

def enumNames : List String := ["red", "green", "blue"]

/-- `std::isspace` in the classic locale (what `operator>>` skips / stops at) -/
def isSpace (c : Char) : Bool := c = ' ' || c = '\t' || c = '\n' || c = '\x0b' || c = '\x0c' || c = '\r'

/-- what one formatted extraction sees of the text: leading white space is skipped, the word runs up to the next white
space; `none` when no word is there (the extraction fails) or when something follows the word (`peek() != eof`: "the
string has to be consumed completely") -/
def wordOf (s : String) : Option String :=
  let body := s.toList.dropWhile isSpace
  let word := body.takeWhile (fun c => !isSpace c)
  let rest := body.dropWhile (fun c => !isSpace c)
  if word.isEmpty || !rest.isEmpty then none else some (String.ofList word)

/-- the conversion of one word (no white space inside) -/
def convertWord : VTy → String → Option Val
  | .str, s => some (.str s)
  | .int, s => match parseSignMag s with
    | some (true, m) => if m ≤ 2147483648 then some (.int (-(m : Int))) else none
    | some (false, m) => if m ≤ 2147483647 then some (.int m) else none
    | none => none
  | .uns, s => match parseSignMag s with
    | some (neg, m) => if m ≤ 4294967295 then some (.int (if neg ∧ m ≠ 0 then (4294967296 - m : Nat) else m)) else none
    | none => none
  | .enm, s => match enumNames.idxOf? s with
    | some i => some (.enm i)
    | none => none

/-- `extract_from_string<Type>`: `operator>>` (skips leading white space, reads one word), then the whole text must have
been consumed -/
def convert (ty : VTy) (s : String) : Option Val :=
  match wordOf s with
  | none => none
  | some w => convertWord ty w

/-! ## texts: usage strings and error messages -/

/-- `std::set`: sorted by `lt`, without duplicates -/
def insertSet {α : Type} [BEq α] (lt : α → α → Bool) (x : α) : List α → List α
  | [] => [x]
  | y :: r => if x == y then y :: r else if lt x y then x :: y :: r else y :: insertSet lt x r

def toSet {α : Type} [BEq α] (lt : α → α → Bool) (l : List α) : List α := l.foldr (insertSet lt) []

def strLt (a b : String) : Bool := decide (a < b)

/-- `operator<` of `option_name`: by (name, is_short) -/
def optLt (a b : String × Bool) : Bool := strLt a.1 b.1 || (a.1 == b.1 && (!a.2 && b.2))

/-- `flag_names()` as the `std::set` it is -/
def OP.flagNameSet (p : OP) : List String := toSet strLt p.flagNames

/-- `option_names()` as the `std::set` it is -/
def OP.optionNameSet (p : OP) : Ctx := toSet optLt p.optionNames

/-- `fcppt::container::output`: `[a,b,c]` -/
def showList (l : List String) : String := "[" ++ ",".intercalate l ++ "]"

/-- `pretty_type<Type>()`: `type_name_from_info` for the arithmetic types, `string`, the enumerator names for an enum -/
def prettyType : VTy → String
  | .int => "int"
  | .uns => "unsigned int"
  | .str => "string"
  | .enm => showList enumNames

/-- `detail::type_annotation<Type>()` -/
def typeAnnotation (ty : VTy) : String := " : " ++ prettyType ty

/-- `output_to_fcppt_string(value)` for the value types used (`operator<<`, default stream flags) -/
def Val.plain : Val → String
  | .int i => toString i
  | .str s => s
  | .bool b => if b then "1" else "0"
  | .enm i => enumNames.getD i "?"
  | _ => ""

/-- `detail::help_text` -/
def helpText : Option String → String
  | none => ""
  | some h => " - " ++ h

/-- `detail::long_or_short_name` -/
def longOrShort (lg : String) (sh : Option String) : String :=
  "--" ++ lg ++ (match sh with | none => "" | some s => "|-" ++ s)

/-- `algorithm::split_string(_, '\n')` on the characters: the pieces between the delimiters (always at least one) -/
def splitOnChar (d : Char) : List Char → List (List Char)
  | [] => [[]]
  | c :: r =>
    if c = d then [] :: splitOnChar d r
    else match splitOnChar d r with
      | h :: t => (c :: h) :: t
      | [] => [[c]]

/-- `fcppt::options::indent`: every line gets two blanks in front -/
def indent (s : String) : String :=
  "\n".intercalate ((splitOnChar '\n' s.toList).map fun l => "  " ++ String.ofList l)

/-- the text `sum` makes out of the texts of its two failures -/
def sumText (e1 e2 : String) : String := indent e1 ++ "\n|\n" ++ indent e2

mutual
/-- `usage()` -/
def OP.usage : OP → String
  | .arg _ ty nm help => nm ++ typeAnnotation ty ++ helpText help
  | .flag _ sh lg _ _ help => "[ " ++ longOrShort lg sh ++ " ]" ++ helpText help
  | .opt _ sh lg dflt ty help =>
    (if dflt.isSome then "[ " else "") ++ longOrShort lg sh ++ typeAnnotation ty ++
      (match dflt with | none => "" | some v => " / " ++ v.plain) ++
      (if dflt.isSome then " ]" else "") ++ helpText help
  | .unit _ => ""
  | .unitSwitch _ sh lg => longOrShort lg sh
  | .optional p => "[ " ++ p.usage ++ " ]"
  | .many p => "[ " ++ p.usage ++ " ]*"
  | .prod a b => a.usage ++ "\n" ++ b.usage
  | .sum _ a b => "(\n" ++ indent a.usage ++ "\n|\n" ++ indent b.usage ++ "\n)"
  | .commands c subs => c.usage ++ "\n" ++ indent (usageSubs subs)
/-- the fold over the sub-commands in `commands::usage` -/
def usageSubs : Subs → String
  | [] => ""
  | (n, _, help, p) :: r =>
    n ++ ": " ++ (match help with | none => "" | some h => " (" ++ h ++ ")") ++
      indent (if p.usage.isEmpty then "" else "\n" ++ p.usage) ++ "\n" ++ usageSubs r
end

/-! ## the parser interpreter -/

/-- `detail::combine_errors` as used by `sum` -/
def combineErrors : PErr → PErr → PErr
  | .diverge, _ => .diverge
  | _, .diverge => .diverge
  | .missing _ m1, .missing st2 m2 => .missing st2 (sumText m1 m2)
  | e1, e2 => .other (sumText e1.msg e2.msg)

def consVal (v : Val) : Val → Val
  | .list l => .list (v :: l)
  | w => w

/-- one more iteration in front of the vectors of `many` -/
def consRec (r rs : Rec) : Rec := List.zipWith (fun x y => (y.1, consVal x.2 y.2)) r rs

/-- one `detail::use_flag` call of `flag::parse`: (found, state afterwards, log) -/
def flagStep (l name : String) (isShort : Bool) (st : List Arg) : Bool × List Arg × Log :=
  match useFlag name isShort st with
  | some (a, st') => (true, st', [(a.1, l)])
  | none => (false, st, [])

/-- `flag::parse` -/
def parseFlag (l : String) (sh : Option String) (lg : String) (act inact : Val) (st : List Arg) : Res :=
  let s1 := flagStep l lg false st                      -- long_found
  match sh with
  | none => .ok (s1.2.1, [(l, if s1.1 then act else inact)], s1.2.2)
  | some s =>
    let s2 := flagStep l s true s1.2.1                   -- short_found, on the state left by the long name
    if s1.1 && s2.1 then
      .error (.other ("Both the short flag name " ++ s ++ " and the long flag name " ++ lg ++ " were specified at the same time"))
    else .ok (s2.2.1, [(l, if s2.1 || s1.1 then act else inact)], s1.2.2 ++ s2.2.2)

/-- one `detail::use_option` call of `option::parse` after `map_result`: (flag_result, state afterwards, log) -/
def optStep (l name : String) (isShort : Bool) (st : List Arg) : Except PErr (Option String) × List Arg × Log :=
  match useOption name isShort st with
  | .notFound => (.ok none, st, [])
  | .missingArgument => (.error (.other ("Missing option for " ++ flagName name isShort)), st, [])
  | .found n v st' => (.ok (some v.2), st', [(n.1, l), (v.1, l)])

/-- `make_value` of `option::parse` -/
def makeValue (sh : Option String) (lg : String) (ty : VTy) (s : String) : Except PErr Val :=
  match convert ty s with
  | some v => .ok v
  | none => .error (.other ("Failed to convert \"" ++ s ++ "\" to " ++ prettyType ty ++ " for option " ++ longOrShort lg sh ++ "."))

/-- `make_or_default_value` (`get_default_value` moves the *current* state into the missing_error) -/
def makeOrDefault (sh : Option String) (lg : String) (dflt : Option Val) (ty : VTy) (cur : List Arg) : Option String → Except PErr Val
  | some s => makeValue sh lg ty s
  | none => match dflt with
    | some v => .ok v
    | none => .error (.missing cur ("Missing option " ++ longOrShort lg sh ++ "."))

/-- `combine_results` -/
def combineResults (sh : Option String) (lg : String) (dflt : Option Val) (ty : VTy) (cur : List Arg) (lo so : Option String) : Except PErr Val :=
  match lo with
  | none => makeOrDefault sh lg dflt ty cur so
  | some lv =>
    if so.isSome then .error (.other ("Cannot specify both long and short name at once: " ++ longOrShort lg sh))
    else makeValue sh lg ty lv

/-- `option::parse` -/
def parseOpt (l : String) (sh : Option String) (lg : String) (dflt : Option Val) (ty : VTy) (st : List Arg) : Res :=
  let s1 := optStep l lg false st                       -- long_found
  match sh with
  | none =>
    match s1.1 with
    | .error e => .error e
    | .ok o => match makeOrDefault sh lg dflt ty s1.2.1 o with
      | .ok v => .ok (s1.2.1, [(l, v)], s1.2.2)
      | .error e => .error e
  | some s =>
    let s2 := optStep l s true s1.2.1                    -- short_found, evaluated even when long_found is a failure
    match s1.1, s2.1 with                               -- either::apply: the first failure wins
    | .error e, _ => .error e
    | .ok _, .error e => .error e
    | .ok lo, .ok so =>
      match combineResults sh lg dflt ty s2.2.1 lo so with
      | .ok v => .ok (s2.2.1, [(l, v)], s1.2.2 ++ s2.2.2)
      | .error e => .error e

def findSub (name : String) : Subs → Option (String × OP)
  | [] => none
  | (n, t, _, p) :: r => if name = n then some (t, p) else findSub name r

/-- `detail::leftover_error` -/
def leftoverText (st : List Arg) : String := "Leftover arguments " ++ showList (st.map Prod.snd)

/-- `Parser::parse(state&&, parse_context const&)` -/
def parse : Nat → OP → List Arg → Ctx → Res
  | 0, _, _, _ => .error .diverge
  | f + 1, p, st, c =>
    match p with
    | .arg l ty nm _ =>
      match popArg st c with
      | none => .error (.missing st ("Missing argument \"" ++ nm ++ "\"."))
      | some (a, st') =>
        match convert ty a.2 with
        | some v => .ok (st', [(l, v)], [(a.1, l)])
        | none => .error (.other ("Failed to convert \"" ++ a.2 ++ "\" to " ++ prettyType ty ++ " for argument \"" ++ nm ++ "\"."))
    | .flag l sh lg act inact _ => parseFlag l sh lg act inact st
    | .opt l sh lg dflt ty _ => parseOpt l sh lg dflt ty st
    | .unit l => if st.isEmpty then .ok (st, [(l, .unit)], []) else .error (.other "Excess arguments")
    | .unitSwitch l sh lg =>
      match parseFlag l sh lg (.bool true) (.bool false) st with
      | .error e => .error e
      | .ok (st', r, lg') =>
        match r with
        | [(_, .bool true)] => .ok (st', [(l, .unit)], lg')
        | _ => .error (.missing st' ("Missing flag " ++ longOrShort lg sh ++ "."))
    | .optional q =>
      match parse f q st c with
      | .error (.missing _ _) => .ok (st, q.labels.map fun l => (l, .none), [])
      | .error e => .error e
      | .ok (st', r, lg) => .ok (st', r.map fun (l, v) => (l, .some v), lg)
    | .many q =>
      match parse f q st c with
      | .error (.missing _ _) => .ok (st, q.labels.map fun l => (l, .list []), [])
      | .error e => .error e
      | .ok (st', r, lg) =>
        match parse f (.many q) st' c with
        | .error e => .error e
        | .ok (st'', rs, lg') => .ok (st'', consRec r rs, lg ++ lg')
    | .prod a b =>
      match parse f a st c with
      | .error e => .error e
      | .ok (st1, r1, lg1) =>
        match parse f b st1 c with
        | .error e => .error e
        | .ok (st2, r2, lg2) => .ok (st2, r1 ++ r2, lg1 ++ lg2)
    | .sum l a b =>
      match parse f a st c with
      | .ok (st1, r1, lg1) => .ok (st1, [(l, .left (.recd r1))], lg1)
      | .error .diverge => .error .diverge
      | .error e1 =>
        match parse f b st c with
        | .ok (st2, r2, lg2) => .ok (st2, [(l, .right (.recd r2))], lg2)
        | .error e2 => .error (combineErrors e1 e2)
    | .commands common subs =>
      match splitNext st common.optionNames with
      | none => .error (.missing st ("No command specified from " ++ showList (subs.map Prod.fst)))
      | some (first, name, second) =>
        match findSub name.2 subs with
        | none => .error (.other ("Invalid command " ++ name.2))
        | some (tag, q) =>
          -- parse_to_empty(options_parser, first_args): its error text is handed on in an other_error
          match parse f common first common.optionNames with
          | .error .diverge => .error .diverge
          | .error e => .error (.other e.msg)
          | .ok (rest, ro, lgo) =>
            if !rest.isEmpty then .error (.other (leftoverText rest))
            else match parse f q second q.optionNames with
              | .error e => .error e
              | .ok (st', rq, lgq) =>
                .ok (st', [("options", .recd ro), ("sub", .recd [(tag, .recd rq)])], lgo ++ (name.1, "cmd") :: lgq)

inductive TopErr where
  | error (msg : String) | diverge
  deriving Repr, DecidableEq, Inhabited

/-- `detail::parse_to_empty` -/
def parseToEmpty (f : Nat) (p : OP) (st : List Arg) (c : Ctx) : Except TopErr (Rec × Log) :=
  match parse f p st c with
  | .error .diverge => .error .diverge
  | .error e => .error (.error e.msg)
  | .ok (st', r, lg) => if st'.isEmpty then .ok (r, lg) else .error (.error (leftoverText st'))

/-- attach the original indices -/
def index (args : List String) : List Arg := (List.range args.length).zip args

/-- `fcppt::options::parse` -/
def parseTop (f : Nat) (p : OP) (args : List String) : Except TopErr (Rec × Log) :=
  parseToEmpty f p (index args) p.optionNames

inductive HelpRes where
  | help (text : String)
  | result (r : Rec) (lg : Log)
  deriving Repr, Inhabited

/-- the parser `parse_help` builds: `make_sum<label>(help_switch, parser)` -/
def helpSum (hsh : Option String) (hlg : String) (p : OP) : OP := .sum "help" (.unitSwitch "h" hsh hlg) p

/-- `fcppt::options::parse_help`: the help text is the usage of the *wrapped* parser -/
def parseHelp (f : Nat) (hsh : Option String) (hlg : String) (p : OP) (args : List String) : Except TopErr HelpRes :=
  match parseToEmpty f (helpSum hsh hlg p) (index args) (helpSum hsh hlg p).optionNames with
  | .error e => .error e
  | .ok ([(_, .left _)], _) => .ok (.help p.usage)
  | .ok ([(_, .right (.recd r))], lg) => .ok (.result r lg)
  | .ok _ => .error (.error "")   -- not reachable: a sum yields exactly one left/right element (`helpSum_result_shape`)

/-- fuel that is provably enough for every shape without `many` around a non-consuming parser -/
def fuelFor (p : OP) (n : Nat) : Nat := (n + 1) * p.size + 1

/-! ## constructors -/

/-- what a constructor throws: `fcppt::options::exception` / `duplicate_names` and its text (after the
`fcppt::options: ` every `options::exception` puts in front) -/
structure Exc where
  kind : ExcKind
  msg : String
  deriving Repr, DecidableEq, Inhabited

def excText (m : String) : String := "fcppt::options: " ++ m

def checkShortLong (sh : Option String) (lg : String) : Except Exc Unit :=
  match sh with
  | some s =>
    if s = lg then .error ⟨.duplicateNames, excText ("Long and short options cannot have the same name: " ++ s)⟩ else .ok ()
  | none => .ok ()

/-- `product::check_disjoint`: flag names and option names, without the short/long distinction (a `std::set<string>`) -/
def OP.allNames (p : OP) : List String := p.flagNames ++ p.optionNames.map Prod.fst

/-- `set_intersection` of the two `all_parameters` sets -/
def commonNames (a b : OP) : List String := toSet strLt (a.allNames.filter (b.allNames.contains ·))

/-- `check_sub_command_names` -/
def dupFree : List String → Bool
  | [] => true
  | a :: r => !r.contains a && dupFree r

/-- the first name (in the order given) that occurs again later: the only one when exactly one name is duplicated
(with several duplicated names the C++ reports whichever its `unordered_map` yields first) -/
def firstDup : List String → Option String
  | [] => none
  | a :: r => if r.contains a then some a else firstDup r

mutual
/-- what the constructors do, sub-parsers first, left to right -/
def construct : OP → Except Exc Unit
  | .arg .. | .unit .. => .ok ()
  | .flag _ sh lg act inact _ => do
    checkShortLong sh lg
    if act.beqBase inact then
      .error ⟨.optionsException, excText ("The active and the inactive value must be different: " ++ act.plain)⟩
    else .ok ()
  | .opt _ sh lg _ _ _ => checkShortLong sh lg
  | .unitSwitch _ sh lg => checkShortLong sh lg
  | .optional p | .many p => construct p
  | .prod a b => do
    construct a
    construct b
    if a.allNames.any (b.allNames.contains ·) then
      .error ⟨.duplicateNames, excText ("The following names appear multiple times in a product parser: " ++ showList (commonNames a b))⟩
    else .ok ()
  | .sum _ a b => do
    construct a
    construct b
  | .commands c subs => do
    construct c
    constructSubs subs
    if dupFree (subs.map Prod.fst) then .ok ()
    else .error ⟨.duplicateNames,
      excText ("Sub command name \"" ++ (firstDup (subs.map Prod.fst)).getD "" ++ "\" specified multiple times!")⟩
def constructSubs : Subs → Except Exc Unit
  | [] => .ok ()
  | (_, _, _, p) :: r => do
    construct p
    constructSubs r
end

end Fcppt.C03
