/-!
# C05 — the transfer machine

Value traffic of a generic operation, at the granularity of *per-element transfer decisions*.

* an element is an identity (`Nat`); an element object is a `Slot` (identity, state
  live / moved-from / destroyed, and whether it is one of the objects the caller passed in);
* an argument is a list of slots (a `std::vector`, the content of an `optional`, the
  alternative held by an `either`, the elements of a tuple …) together with the value category it is
  passed with (`Cat`);
* an operation is a *program* over the transfers below; the interpreter `run` records
  the **event abstraction**: identities copied (`cp`), identities move-constructed out of an
  argument object (`mv`), moved inside an argument by an in-place permutation (`sw`), identities
  read / copied / moved after they were moved from (`ram`), live values destroyed (`lost`),
  accesses to objects that do not exist (any more) (`oob`).

Transfers and the C++ they stand for

| `Instr`                  | C++ |
|--------------------------|-----|
| `xfer a i .move d`       | `T(std::move(x))`, `std::forward<Arg>(x)` / `fcppt::move_if_rvalue<Arg>(x)` / `*move_iterator` with `Arg` an rvalue: the object is moved from, the value travels (through any number of temporaries) to `d` |
| `xfer a i .copy d`       | the same expressions with `Arg` an lvalue used to initialise a value: a copy |
| `derive a i k d`         | the element is handed to the *user's* function as an lvalue reference; the harness functions read it and make `k` new values from it (identity `id + 100·j`, j = 1..k) |
| `read a i`               | the library reads the payload (comparison, hashing) |
| `steal a d`              | the container is move-constructed / move-assigned as a whole (buffer or nodes change owner, no element is touched); the argument is left empty |
| `pop a i d`              | `T r{std::move(c.back())}; c.pop_back();` — with `d = drop`: `c.erase(it)` / the element is overwritten by an assignment (destroyed in place, nothing is move-constructed) |
| `swap a i j`             | `std::swap` of two elements of the same container (`std::reverse`) |
| `fresh v d`              | a value made by the user's function that comes from no argument |
| `shift a i`              | `*dest = std::move(*it)` inside `std::remove_if` / `std::unique`: the element is move-assigned to an earlier place of its own container (the model keeps elements, not memory positions: only the in-place move is logged) |

`Dest`: appended to the result, destroyed, or appended to an in/out argument.
-/
namespace Fcppt.C05

/-- How an argument is passed. `lv`: `T &` that the operation has no business modifying; `cr`: `T const &`;
`rv`: `T &&` or a by-value parameter the caller moved into; `io`: `T &` documented as in/out (pop_back, get_or_insert …). -/
inductive Cat where
  | lv | cr | rv | io
  deriving DecidableEq, Repr, Inhabited

inductive SlotSt where
  | live | moved | gone
  deriving DecidableEq, Repr, Inhabited

structure Slot where
  id : Nat
  st : SlotSt
  /-- one of the objects the caller passed in (not propagated by copy / move) -/
  orig : Bool
  deriving DecidableEq, Repr, Inhabited

inductive Mode where
  | move | copy
  deriving DecidableEq, Repr

inductive Dest where
  | res | drop | arg (a : Nat)
  deriving DecidableEq, Repr

inductive Instr where
  | xfer (a i : Nat) (m : Mode) (d : Dest)
  | derive (a i k : Nat) (d : Dest)
  | read (a i : Nat)
  | steal (a : Nat) (d : Dest)
  | pop (a i : Nat) (d : Dest)
  | swap (a i j : Nat)
  | fresh (v : Nat) (d : Dest)
  | shift (a i : Nat)
  deriving DecidableEq, Repr

structure St where
  args : List (List Slot)
  res : List Slot := []
  cp : List Nat := []
  mv : List Nat := []
  sw : List Nat := []
  ram : List Nat := []
  lost : List Nat := []
  oob : List (Nat × Nat) := []
  deriving Repr

def Slot.isLive (s : Slot) : Bool := s.st == .live

def getSlot (args : List (List Slot)) (a i : Nat) : Option Slot :=
  ((args[a]?).bind (·[i]?)).filter (·.st ≠ .gone)

def setSlot (args : List (List Slot)) (a i : Nat) (s : Slot) : List (List Slot) :=
  args.modify a (·.set i s)

/-- a value in flight never is one of the caller's objects -/
def Slot.val (s : Slot) : Slot := { s with orig := false }

def lostOf (vs : List Slot) : List Nat := (vs.filter Slot.isLive).map (·.id)

def put (st : St) (d : Dest) (vs : List Slot) : St :=
  match d with
  | .res => { st with res := st.res ++ vs.map Slot.val }
  | .drop => { st with lost := st.lost ++ lostOf vs }
  | .arg a =>
    if a < st.args.length then { st with args := st.args.modify a (· ++ vs.map Slot.val) }
    else { st with lost := st.lost ++ lostOf vs, oob := st.oob ++ [(a, 0)] }

/-- reading / copying / moving an object that was moved from is logged -/
def noteRam (st : St) (s : Slot) : St :=
  if s.st = .moved then { st with ram := st.ram ++ [s.id] } else st

def noteOob (st : St) (a i : Nat) : St := { st with oob := st.oob ++ [(a, i)] }

def derived (id k : Nat) : List Slot :=
  (List.range k).map fun j => { id := id + 100 * (j + 1), st := .live, orig := false }

def step (st : St) : Instr → St
  | .xfer a i .move d =>
    match getSlot st.args a i with
    | none => noteOob st a i
    | some s =>
      let st := noteRam st s
      let st := { st with args := setSlot st.args a i { s with st := .moved },
                          mv := if s.orig then st.mv ++ [s.id] else st.mv }
      put st d [s]
  | .xfer a i .copy d =>
    match getSlot st.args a i with
    | none => noteOob st a i
    | some s =>
      let st := noteRam st s
      put { st with cp := st.cp ++ [s.id] } d [s]
  | .derive a i k d =>
    match getSlot st.args a i with
    | none => noteOob st a i
    | some s => put (noteRam st s) d (derived s.id k)
  | .read a i =>
    match getSlot st.args a i with
    | none => noteOob st a i
    | some s => noteRam st s
  | .steal a d =>
    match st.args[a]? with
    | none => noteOob st a 0
    | some l =>
      put { st with args := st.args.modify a (·.map fun s => { s with st := .gone }) } d
        (l.filter (·.st ≠ .gone))
  | .pop a i d =>
    match getSlot st.args a i with
    | none => noteOob st a i
    | some s =>
      let st := noteRam st s
      -- destination `drop`: the element is erased / overwritten in place, nothing is move-constructed
      let st := { st with args := setSlot st.args a i { s with st := .gone },
                          mv := if s.orig && d != .drop then st.mv ++ [s.id] else st.mv }
      put st d [s]
  | .swap a i j =>
    match getSlot st.args a i, getSlot st.args a j with
    | some s, some t =>
      let st := noteRam (noteRam st s) t
      { st with args := setSlot (setSlot st.args a i t) a j s, sw := st.sw ++ [s.id, t.id] }
    | none, _ => noteOob st a i
    | _, none => noteOob st a j
  | .fresh v d => put st d [{ id := v, st := .live, orig := false }]
  | .shift a i =>
    -- the element is move-assigned to another place of its own container (`std::remove_if`, `std::unique`): an in-place move
    match getSlot st.args a i with
    | none => noteOob st a i
    | some s =>
      let st := noteRam st s
      { st with sw := st.sw ++ [s.id] }

def run (p : List Instr) (st : St) : St := p.foldl step st

def mkArg (ids : List Nat) : List Slot := ids.map fun x => { id := x, st := .live, orig := true }

def St.init (args : List (List Nat)) : St := { args := args.map mkArg }

/-- the slots of a container that still exist -/
def present (l : List Slot) : List Slot := l.filter (·.st ≠ .gone)

end Fcppt.C05
