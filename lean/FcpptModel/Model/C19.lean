import FcpptModel.Prelude.Fault
/-!
# C19 — model of `fcppt::log::context` / `fcppt::log::object` (sequential part)

Mirrors

* `libs/log/impl/src/log/impl/convert_level.cpp`      : `convertLevel` (empty optional ↦ `enum_::size<level>` = 6)
* `libs/core/include/fcppt/enum/from_int.hpp`         : `fromInt` (`v < size` ? enumerator : nothing)
* `libs/log/src/log/detail/context_tree_node.cpp`     : a node is `(name, atomic_level_ : unsigned)`; `level()` = `fromInt`,
                                                        `level(l)` stores `convertLevel l`
* `libs/core/include/fcppt/container/tree/object_impl.hpp` : `Tree` = value + `std::list` of children, `push_back` appends
* `libs/log/impl/include/fcppt/log/impl/find_child_tpl.hpp` : `findChild` = first child whose name matches
* `libs/log/impl/src/log/impl/find_or_create_child.cpp`     : found child, else `push_back (name, parent.level())`
* `libs/log/src/log/context.cpp`                       : `ensure` = `impl::find_location_impl` (fold of find_or_create_child),
                                                        `ctxSet` = find location, then pre-order update (`setAll`),
                                                        `ctxGet` = `fold_break`: descend while the child exists, level of the last node reached
* `libs/core/include/fcppt/container/tree/pre_order.hpp`    : `setAll` visits the node, then its children first to last (pre-order);
                                                        `preOrder` lists the visited nodes in that order
* `libs/log/src/log/object.cpp`                        : three constructors (`objRoot`, `objChild`, `objAt`), `enabled`, `log`
* `libs/log/src/log/format/chain.cpp` + `optional/combine.hpp` : `chain`
* `libs/log/impl/src/log/impl/tree_formatter.cpp`      : `treeFormatter` = left fold over node … root, empty names skipped
* `libs/log/src/log/format/prefix.cpp`, `inserter.cpp`, `default_level.cpp`, `level_to_string_impl.cpp`
* `libs/log/src/log/level_stream.cpp`                  : `streamLog` = `(chain additional own).getD id` applied to the message
* `libs/log/src/log/location.cpp`                      : `locOfName`, `locPush` (`operator/=` and `operator/`), `locString` (the fold as it is written: entries in reverse order, each followed by `::`)
* `libs/log/src/log/level_from_string.cpp`, `level_to_string.cpp`, `level_output.cpp`, `level_input.cpp`
  (+ `enum/from_string_impl.hpp` = `index_of_array(names)`, `enum/input.hpp`)          : `levelFromString`, `levelToString`, `levelInput`
* `libs/log/src/log/format/time_stamp.cpp`             : `timeStamp` (the clock text is a parameter)
* `libs/log/src/log/default_stream.cpp`, `default_level_streams.cpp` : `defaultStream`, `defaultLevelStreams`
* `libs/log/include/fcppt/log/detail/level_if_enabled.hpp` : `logMacro` (the message expression is evaluated iff `enabled`)
* `libs/log/include/fcppt/log/detail/temporary_output.hpp` : `outParts` (`out << a << b …` = concatenation)
* `libs/log/src/log/level_stream.cpp`                  : `LevelStream` with `sink` (redirect), `get`, `formatter`, `log`
* `libs/log/src/log/parameters.cpp`, `parameters_no_function.cpp` : `Params`

A reference to a tree node (`fcppt::reference<context_tree const>`, stable because children live in a
`std::list` and are never erased) is modelled by the node's location (list of names from the root);
dereferencing it is `nodeLvl`, which faults (`oob`) if no such node exists.
-/
namespace Fcppt.C19

/-- `fcppt::log::optional_level`; enumerators are `0 … 5` (verbose … fatal) -/
abbrev Level := Option Nat
/-- `fcppt::log::location`: vector of names -/
abbrev Loc := List String

/-- `fcppt::enum_::size<fcppt::log::level>` -/
def levelCount : Nat := 6

/-- `impl::convert_level` -/
def convertLevel : Level → Nat
  | none => levelCount
  | some l => l

/-- `enum_::from_int<level>(atomic_level_.load())` -/
def fromInt (v : Nat) : Level := if v < levelCount then some v else none

/-- `fcppt::container::tree::object<context_tree_node>` -/
inductive Tree where
  | node (name : String) (lvl : Nat) (kids : List Tree)
  deriving Inhabited

def Tree.name : Tree → String | .node n _ _ => n
def Tree.lvl : Tree → Nat | .node _ l _ => l
def Tree.kids : Tree → List Tree | .node _ _ ks => ks

/-- `context::impl::impl`: the root node has the empty name and the root level -/
def mkRoot (root : Level) : Tree := .node "" (convertLevel root) []

/-- `find_child_tpl`: `find_if_opt(children, name == _name)` -/
def findChild (ks : List Tree) (name : String) : Option Tree :=
  ks.find? (fun c => c.name == name)

/-- write access through the reference returned by `find_child`: rewrite the first child with that name -/
def modifyFirst (ks : List Tree) (name : String) (f : Tree → Tree) : List Tree :=
  match ks with
  | [] => []
  | c :: cs => if c.name == name then f c :: cs else c :: modifyFirst cs name f

/-- the node `find_or_create_child` pushes when there is none: `(name, parent.value().level())`,
    i.e. the parent's atomic is read through `level()` and written back through `convert_level` -/
def newChild (parentLvl : Nat) (name : String) : Tree :=
  .node name (convertLevel (fromInt parentLvl)) []

/-- `context::impl::find_location_impl`: fold `find_or_create_child` along the location -/
def ensure : Tree → Loc → Tree
  | t, [] => t
  | .node n l ks, x :: xs =>
    match findChild ks x with
    | some _ => .node n l (modifyFirst ks x (fun c => ensure c xs))
    | none => .node n l (ks ++ [ensure (newChild l x) xs])          -- push_back

/-- apply `f` to the node a reference (= location) points to -/
def updateAt : Tree → Loc → (Tree → Tree) → Tree
  | t, [], f => f t
  | .node n l ks, x :: xs, f => .node n l (modifyFirst ks x (fun c => updateAt c xs f))

/-- `for (node : make_pre_order(subtree)) node.value().level(v)`: the node first, then the children in order -/
def setAll (v : Nat) : Tree → Tree
  | .node n _ ks => .node n v (ks.map (setAll v))

/-- the nodes `pre_order` visits, as locations relative to the subtree, in visiting order -/
def preOrder : Tree → List Loc
  | .node _ _ ks => [] :: (ks.map (fun k => (preOrder k).map (k.name :: ·))).flatten

/-- `context::set` -/
def ctxSet (t : Tree) (loc : Loc) (lvl : Level) : Tree :=
  updateAt (ensure t loc) loc (setAll (convertLevel lvl))

/-- `context::get`: `fold_break` — continue into the child if it exists, else stop at the current node -/
def getInt : Tree → Loc → Nat
  | t, [] => t.lvl
  | t, x :: xs =>
    match findChild t.kids x with
    | none => t.lvl
    | some c => getInt c xs

def ctxGet (t : Tree) (loc : Loc) : Level := fromInt (getInt t loc)

/-- the node at a location, if it exists -/
def nodeAt : Tree → Loc → Option Tree
  | t, [] => some t
  | t, x :: xs => (findChild t.kids x).bind (fun c => nodeAt c xs)

/-- stored level of the node at a location -/
def lvlAt (t : Tree) (p : Loc) : Option Nat := (nodeAt t p).map Tree.lvl

/-- `node_.get().value().level()` through a stored reference -/
def nodeLvl (t : Tree) (p : Loc) : M Nat :=
  match lvlAt t p with
  | some l => .ok l
  | none => .error .oob

/-! ## formatters -/

abbrev Fn := String → String
abbrev OptFn := Option Fn

/-- `format::chain` = `optional::combine(parent, child, λ f g. f ∘ g)` -/
def chain : OptFn → OptFn → OptFn
  | none, c => c
  | some p, none => some p
  | some p, some c => some (fun s => p (c s))

/-- `format::prefix` -/
def prefixFn (p : String) : Fn := fun t => p ++ ": " ++ t

/-- `format::inserter` -/
def inserter (pre suf : String) : Fn := fun t => pre ++ t ++ suf

/-- `level_to_string` -/
def levelName : Nat → String
  | 0 => "verbose" | 1 => "debug" | 2 => "info" | 3 => "warning" | 4 => "error" | _ => "fatal"

/-- `format::default_level` -/
def defaultLevel (l : Nat) : Fn := inserter (levelName l ++ ": ") "\n"

/-- `impl::tree_formatter`: left fold over the names node, parent, …, root -/
def treeFormatter (toRoot : List String) : OptFn :=
  toRoot.foldl (fun st name => if name.isEmpty then st else chain (some (prefixFn name)) st) none

/-- the names `make_to_root(node)` visits for the node at location `p` (the root's name is empty) -/
def toRootNames (p : Loc) : List String := p.reverse ++ [""]

/-- `level_stream::log`: `from(chain(additional, own), identity)(text)` -/
def streamLog (own additional : OptFn) (msg : String) : String :=
  ((chain additional own).getD id) msg

/-! ## log objects -/

structure Obj where
  node : Loc            -- node_
  fmt : OptFn           -- formatter_

/-- the private constructor: `node_ = context.find_child(node, name)`, `formatter_ = chain(params.formatter, tree_formatter(node_))` -/
def objAtNode (t : Tree) (node : Loc) (name : String) (f : OptFn) : Tree × Obj :=
  let p := node ++ [name]
  (ensure t p, { node := p, fmt := chain f (treeFormatter (toRootNames p)) })

/-- `object(context, parameters)` -/
def objRoot (t : Tree) (name : String) (f : OptFn) : Tree × Obj := objAtNode t [] name f
/-- `object(context, location, parameters)`: `find_location` first (creates the location), then `find_child` -/
def objAt (t : Tree) (loc : Loc) (name : String) (f : OptFn) : Tree × Obj := objAtNode (ensure t loc) loc name f
/-- `object(parent, parameters)` -/
def objChild (t : Tree) (parent : Obj) (name : String) (f : OptFn) : Tree × Obj := objAtNode t parent.node name f

/-- `object::level` -/
def objLevel (t : Tree) (o : Obj) : M Level := (nodeLvl t o.node).map fromInt

/-- `object::enabled`: `maybe(level(), false, λ e. _level >= e)` -/
def enabledAt (cur : Level) (l : Nat) : Bool :=
  match cur with
  | none => false
  | some e => decide (l ≥ e)

def objEnabled (t : Tree) (o : Obj) (l : Nat) : M Bool := (objLevel t o).map (enabledAt · l)

/-- `object::log`: `if enabled(l) then level_sink(l).log(msg, formatter_)`; result = what is written to sink `l` -/
def objLog (t : Tree) (streams : Nat → OptFn) (o : Obj) (l : Nat) (msg : String) : M (Option String) :=
  (objEnabled t o l).map fun e => if e then some (streamLog (streams l) o.fmt msg) else none

/-! ## the rest of the public API of libs/log -/

/-- `location::location(name)` -/
def locOfName (n : String) : Loc := [n]
/-- `location::operator/=` and `operator/(location, name)`: `entries_.push_back` -/
def locPush (l : Loc) (n : String) : Loc := l ++ [n]
/-- `location::string`: `fcppt::algorithm::fold(*this, "", λ(_state, _elem). _state + "::" + _elem)` — but
    `fold` calls its function as `f(element, state)`, so the parameter the source calls `_state` receives the entry
    and `_elem` the accumulated text: every entry is put IN FRONT, followed by `::` (`[root, child]` ↦ `child::root::`,
    not the `::root::child` of the class documentation; see notes/C19.md, DEFECT CANDIDATE). Modelled as the code is. -/
def locString (l : Loc) : String := l.foldl (fun st e => e ++ "::" ++ st) ""

/-- `enum_::names<level>()`: `to_string` of every enumerator, in order -/
def levelNames : List String := (List.range levelCount).map levelName

/-- `level_to_string` / `operator<<`: the switch over the six enumerators, `FCPPT_ASSERT_UNREACHABLE` behind it -/
def levelToString (l : Nat) : M String :=
  if l < levelCount then .ok (levelName l) else .error (.exception (.other "unreachable"))

/-- `level_from_string` = `from_string_impl::get` = `index_of_array(names, s)`: first index whose name equals `s` -/
def levelFromString (s : String) : Level :=
  let i := levelNames.findIdx (· == s)
  if i < levelNames.length then some i else none

/-- blanks `operator>>(istream&, std::string&)` skips / stops at (the classic locale's `isspace`) -/
def isSpace (c : Char) : Bool := c == ' ' || c == '\n' || c == '\t' || c == '\r' || c.toNat == 11 || c.toNat == 12

/-- `operator>>(istream &, level &)` = `enum_::input`: `io::extract<std::string>` (skip blanks, read up to the next
    blank; nothing read ⇒ failure), then `from_string`; failure sets the failbit and leaves the variable alone.
    Result: new value of the variable, failbit, unread rest of the stream. -/
def levelInput (old : Nat) (input : List Char) : Nat × Bool × List Char :=
  let rest := input.dropWhile isSpace
  let word := rest.takeWhile (fun c => !isSpace c)
  let after := rest.dropWhile (fun c => !isSpace c)
  if word.isEmpty then (old, true, after)
  else match levelFromString (String.ofList word) with
    | some l => (l, false, after)
    | none => (old, true, after)

/-- `format::time_stamp`: `output_tm(localtime(std_time())) + ": " + text`; the clock text is the parameter `now` -/
def timeStamp (now : String) : Fn := fun t => now ++ ": " ++ t

/-- `default_stream`: verbose … warning ↦ `clog` (false), error and fatal ↦ `cerr` (true) -/
def defaultStream (l : Nat) : Bool := decide (l ≥ 4)

/-- `default_level_streams`: for every level the default stream and `default_level` as formatter -/
def defaultLevelStreams (l : Nat) : Bool × OptFn := (defaultStream l, some (defaultLevel l))

/-- `out << p₁ << p₂ …` (`temporary_output`): the texts are appended to one `ostringstream` -/
def outParts (parts : List String) : String := parts.foldl (· ++ ·) ""

/-- `temporary_output::operator=(temporary_output &&)`: the target's text is replaced by the source's -/
def outAssign (_target source : List String) : String := outParts source

/-- `fcppt::log::level_stream`: the sink it writes to (an index into the harness' sinks) and its formatter -/
structure LevelStream where
  dest : Nat
  fmt : OptFn

/-- `level_stream::sink(stream)`: redirect -/
def LevelStream.sink (s : LevelStream) (d : Nat) : LevelStream := { s with dest := d }

/-- `level_stream::log`: which sink receives which text -/
def LevelStream.log (s : LevelStream) (additional : OptFn) (msg : String) : Nat × String :=
  (s.dest, streamLog s.fmt additional msg)

/-- `fcppt::log::parameters` -/
structure Params where
  name : String
  fmt : OptFn

/-- `parameters_no_function` -/
def paramsNoFunction (name : String) : Params := ⟨name, none⟩

/-- `FCPPT_LOG_<LEVEL>(obj, msg)` = `if (obj.enabled(l)) obj.log(l, msg)`: the message expression is evaluated
    (count of evaluations in the second component) only inside the `if`; `log` tests `enabled` again -/
def logMacro (t : Tree) (streams : Nat → OptFn) (o : Obj) (l : Nat) (msg : String) : M (Option String × Nat) :=
  match objEnabled t o l with
  | .error f => .error f
  | .ok false => .ok (none, 0)
  | .ok true => (objLog t streams o l msg).map (fun r => (r, 1))

/-- `object::level_sink(l).log(msg, additional)`: bypasses `enabled`, the object's formatter is not applied
    unless passed as `additional` -/
def sinkLog (streams : Nat → OptFn) (l : Nat) (additional : OptFn) (msg : String) : String :=
  streamLog (streams l) additional msg

end Fcppt.C19
