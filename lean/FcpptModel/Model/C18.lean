import FcpptModel.Prelude.Fault
/-!
# C18 — model of fcppt's ranges and iterators

Mirrors, definition by definition,

* `fcppt/int_range_impl.hpp`            : constructor (`end_ = _end < _begin ? _begin : _end`), `size()`
                                          (`static_cast<size_type>(end_ - begin_)`)
* `fcppt/int_iterator_impl.hpp`         : `increment` (`++value_`), `equal`, `dereference`
* `fcppt/make_int_range.hpp`, `make_int_range_count.hpp`
* `fcppt/enum/range_impl.hpp`, `enum/iterator_impl.hpp`, `enum/make_range*.hpp`
* `fcppt/cyclic_iterator_impl.hpp`      : `advance` (C++ truncating `%`), `increment`, `decrement`, `distance_to`
* `fcppt/container/grid/spiral_iterator_impl.hpp`, `spiral_range_impl.hpp`
* `fcppt/container/grid/moore_neighbors.hpp`, `neumann_neighbors.hpp`
* `fcppt/iterator/range_impl.hpp`, `iterator/adapt_range.hpp`, `iterator/make_range.hpp`, `iterator/range_comparison.hpp`
* `fcppt/range/size.hpp`                : `to_unsigned(std::distance(begin, end))`; `range/empty.hpp`, `range/singular.hpp`, `range/from_pair.hpp`
* `fcppt/math/int_range_count.hpp`, `math/int_range.hpp` (`mpl/list/interval.hpp`) : the static lists `0 .. Count-1`, `Start .. End-1`
* `fcppt/iterator/base_impl.hpp`        : the loop `for (it = begin(); it != end(); ++it) *it` that every range-for performs
                                          (`operator!=` = `!equal`, `operator++` = `increment`, `operator*` = `dereference`),
                                          `operator+`/`+=`/`-=`/`-`/`[]` in terms of `advance`

C++ integer types are a signedness and a width; values are the mathematical integers inside the
type's range.  Operands of rank below `int` (`bits < 32`) are promoted, so their arithmetic never
overflows and only the conversion back wraps; `unsigned`/`unsigned long` arithmetic is modular;
overflow of `int`/`long` arithmetic is undefined behaviour = `Fault.signedOverflow`.

A loop of the implementation is a fuel recursion; running out of fuel is `Fault.fuel`
(the harness caps its loops at the same number and prints `overrun`).
-/
namespace Fcppt.C18

/-! ## fixed-width integer types -/

structure IntTy where
  signed : Bool
  bits : Nat
  deriving Repr, DecidableEq

namespace IntTy
def lo (t : IntTy) : Int := if t.signed then -(2 ^ (t.bits - 1)) else 0
def hi (t : IntTy) : Int := if t.signed then 2 ^ (t.bits - 1) - 1 else 2 ^ t.bits - 1
def InRange (t : IntTy) (x : Int) : Prop := t.lo ≤ x ∧ x ≤ t.hi
instance (t : IntTy) (x : Int) : Decidable (t.InRange x) := by unfold InRange; exact inferInstance

/-- conversion of a mathematical value to the type: reduction modulo `2^bits` (C++20 [conv.integral]) -/
def wrap (t : IntTy) (x : Int) : Int :=
  let m := x % (2 ^ t.bits)
  if t.signed && decide (2 ^ (t.bits - 1) ≤ m) then m - 2 ^ t.bits else m

/-- integral promotion applies: the type's rank is below `int` -/
def promotes (t : IntTy) : Bool := t.bits < 32

/-- arithmetic in this type overflows into undefined behaviour -/
def trapping (t : IntTy) : Bool := t.signed && !t.promotes

/-- the corresponding unsigned type (`std::make_unsigned_t`) -/
def toUnsigned (t : IntTy) : IntTy := ⟨false, t.bits⟩
end IntTy

/-- `++v` on an lvalue of the type -/
def incr (t : IntTy) (v : Int) : M Int :=
  if t.trapping && decide (t.hi < v + 1) then .error .signedOverflow else .ok (t.wrap (v + 1))

/-- `v - 1` converted back to the type (`pos_type{_pos.x() - 1, …}`) -/
def pred (t : IntTy) (v : Int) : M Int :=
  if t.trapping && decide (v - 1 < t.lo) then .error .signedOverflow else .ok (t.wrap (v - 1))

/-! ## int_range -/

structure IntRange where
  begin_ : Int
  end_ : Int
  deriving Repr, DecidableEq

/-- `int_range(Int _begin, Int _end) : begin_{_begin}, end_{_end < _begin ? _begin : _end}` -/
def IntRange.make (b e : Int) : IntRange := ⟨b, if e < b then b else e⟩

/-- `make_int_range(b, e)` -/
def makeIntRange (b e : Int) : IntRange := IntRange.make b e

/-- `make_int_range_count(n)` = `make_int_range(literal<Int>(0), n)` -/
def makeIntRangeCount (n : Int) : IntRange := makeIntRange 0 n

/-- `for (it = int_iterator(v); it != int_iterator(end_); ++it) emit(*it)` -/
def intLoop (t : IntTy) (end_ : Int) : Nat → Int → M (List Int)
  | 0, _ => .error .fuel
  | f + 1, v =>
    if v = end_ then .ok []                       -- int_iterator::equal
    else
      match incr t v with                          -- int_iterator::increment (after the body used *it = v)
      | .error e => .error e
      | .ok v' =>
        match intLoop t end_ f v' with
        | .error e => .error e
        | .ok r => .ok (v :: r)

def IntRange.elems (t : IntTy) (r : IntRange) (fuel : Nat) : M (List Int) := intLoop t r.end_ fuel r.begin_

/-- `size()`: `static_cast<size_type>(undecorate(end_) - undecorate(begin_))` -/
def IntRange.size (t : IntTy) (r : IntRange) : M Int :=
  let d := r.end_ - r.begin_
  if t.trapping && (decide (t.hi < d) || decide (d < t.lo)) then .error .signedOverflow else .ok (t.wrap d)

/-- `fcppt::range::size(r)` = `to_unsigned(std::distance(begin, end))` where `std::distance` of an input
iterator counts in the iterator's `difference_type` (`++n` per step) and `to_unsigned` converts. `n` = number of steps. -/
def rangeSize (diffTy : IntTy) (n : Nat) : M Int :=
  if diffTy.trapping && decide (diffTy.hi < (n : Int)) then .error .signedOverflow
  else .ok (diffTy.toUnsigned.wrap (diffTy.wrap n))

/-! ## `int_iterator` / `enum_::iterator` used directly, and the operations every fcppt iterator inherits from
`iterator::base` (`base_impl.hpp`): `operator==` = `equal`, `operator!=` = `!(a == b)`, `operator++(int)` =
`derived temp{get()}; ++*this; return temp;`, `swap` = `std::swap(get(), other.get())`. -/

/-- `int_iterator::equal` / `enum_::iterator::equal`: `value_ == other.value_` -/
def IntIter.equal (a b : Int) : Bool := decide (a = b)
/-- `iterator::base::operator!=` -/
def IntIter.notEqual (a b : Int) : Bool := !IntIter.equal a b
/-- `it++`: (the returned copy, the iterator afterwards) -/
def IntIter.postIncr (t : IntTy) (v : Int) : M (Int × Int) :=
  match incr t v with
  | .ok v' => .ok (v, v')
  | .error e => .error e
/-- `a.swap(b)` / `fcppt::iterator::swap(a, b)`: `std::swap` of the two derived objects -/
def swapPair {α : Type} (p : α × α) : α × α := (p.2, p.1)

/-- `fcppt::range::empty(r)`: `r.begin() == r.end()` -/
def IntRange.empty (r : IntRange) : Bool := IntIter.equal r.begin_ r.end_

/-- `fcppt::range::singular(r)`: `!empty(r) && std::next(r.begin()) == r.end()` (`&&` short-circuits: no increment of an empty range) -/
def IntRange.singular (t : IntTy) (r : IntRange) : M Bool :=
  if r.empty then .ok false
  else match incr t r.begin_ with
    | .ok v => .ok (IntIter.equal v r.end_)
    | .error e => .error e

/-- an `iterator::range` whose iterators are `int_iterator`s (`iterator::make_range(int_iterator(b), int_iterator(e))`):
the same loop as `int_range`'s, but there is **no clamp** -/
def intIterRange (t : IntTy) (b e : Int) (fuel : Nat) : M (List Int) := intLoop t e fuel b

/-! ## enum ranges.  An enum is its number of enumerators `n` and the width `w` of its `size_type`
(`std::make_unsigned_t<std::underlying_type_t<Enum>>`); an enumerator is its value. -/

def sizeTy (w : Nat) : IntTy := ⟨false, w⟩

structure EnumRange where
  begin_ : Int
  end_ : Int
  deriving Repr, DecidableEq

/-- `make_range_start_end(s, e)` = `range(enum_to_int<size_type>(s), enum_to_int<size_type>(e) + literal<size_type>(1))` -/
def makeRangeStartEnd (w : Nat) (s e : Int) : EnumRange := ⟨s, (sizeTy w).wrap (e + 1)⟩
/-- `make_range_start(s)` = `make_range_start_end(s, max_value)`, `max_value` = enumerator `n-1` -/
def makeRangeStart (w n : Nat) (s : Int) : EnumRange := makeRangeStartEnd w s ((n : Int) - 1)
/-- `make_range()` = `make_range_start(min_value)`, `min_value` = `int_to_enum(0)` -/
def makeRange (w n : Nat) : EnumRange := makeRangeStart w n 0

/-- iteration: `enum_::iterator` holds a `size_type`, `increment` is `++value_`, `dereference` is `int_to_enum(value_)` -/
def EnumRange.elems (w : Nat) (r : EnumRange) (fuel : Nat) : M (List Int) := intLoop (sizeTy w) r.end_ fuel r.begin_
/-- `size()`: `end_ - begin_` returned as `size_type` -/
def EnumRange.size (w : Nat) (r : EnumRange) : Int := (sizeTy w).wrap (r.end_ - r.begin_)

/-- `range::empty` / `range::singular` of an enum range (the iterator's `++` is the unsigned `size_type`'s) -/
def EnumRange.empty (r : EnumRange) : Bool := IntIter.equal r.begin_ r.end_
def EnumRange.singular (w : Nat) (r : EnumRange) : M Bool :=
  if r.empty then .ok false
  else match incr (sizeTy w) r.begin_ with
    | .ok v => .ok (IntIter.equal v r.end_)
    | .error e => .error e

/-! ## cyclic_iterator.  Container iterators are positions (indices into the container). -/

structure Cyc where
  it : Int
  first : Int          -- boundary<0>
  second : Int         -- boundary<1>
  deriving Repr, DecidableEq

/-- `if (++it_ == boundary_second()) it_ = boundary_first();` -/
def Cyc.increment (c : Cyc) : Cyc :=
  let it' := c.it + 1
  if it' = c.second then { c with it := c.first } else { c with it := it' }

/-- `if (it_ == boundary_first()) it_ = std::prev(boundary_second()); else --it_;` -/
def Cyc.decrement (c : Cyc) : Cyc :=
  if c.it = c.first then { c with it := c.second - 1 } else { c with it := c.it - 1 }

/-- `advance(_diff)`: `size = distance(first, second)`, `diff = (distance(first, it_) + _diff) % size` (truncating),
`it_ = first + (diff < 0 ? diff + size : diff)` -/
def Cyc.advance (c : Cyc) (n : Int) : M Cyc :=
  let size := c.second - c.first
  if size = 0 then .error .divZero
  else
    let diff := (c.it - c.first + n).tmod size
    .ok { c with it := c.first + (if diff < 0 then diff + size else diff) }

/-- `distance_to(other)` = `std::distance(it_, other.it_)` -/
def Cyc.distanceTo (c o : Cyc) : Int := o.it - c.it

/-- `equal(other)`: `it_ == other.it_` — the boundaries are **not** compared -/
def Cyc.equal (c o : Cyc) : Bool := decide (c.it = o.it)
/-- `iterator::base::operator-(a, b)` = `b.distance_to(a)` -/
def Cyc.sub (a b : Cyc) : Int := b.distanceTo a
/-- `operator<(l, r)` = `(r - l) > 0` -/
def Cyc.lt (l r : Cyc) : Bool := decide (0 < Cyc.sub r l)
/-- `operator>(l, r)` = `r < l` -/
def Cyc.gt (l r : Cyc) : Bool := Cyc.lt r l
/-- `operator<=(l, r)` = `!(l > r)` -/
def Cyc.le (l r : Cyc) : Bool := !Cyc.gt l r
/-- `operator>=(l, r)` = `!(l < r)` -/
def Cyc.ge (l r : Cyc) : Bool := !Cyc.lt l r

/-- `cyclic_iterator()`: `it_{}`, `boundary_{It{}, It{}}` — all three are the value-initialised (singular) container
iterator, written as position `0`; the boundary is empty -/
def Cyc.default : Cyc := ⟨0, 0, 0⟩

/-- `explicit cyclic_iterator(cyclic_iterator<OtherIterator> const &other)`: `it_(other.get())`, the two boundary iterators converted
one by one (`iterator` → `const_iterator`: the same positions) -/
def Cyc.convert (other : Cyc) : Cyc := ⟨other.it, other.first, other.second⟩

/-- `operator=(cyclic_iterator<OtherIterator> const &other)`: overwrites position and boundary of `*this`, returns `*this` -/
def Cyc.assignFrom (_self other : Cyc) : Cyc := ⟨other.it, other.first, other.second⟩

/-- `std::ptrdiff_t`, the `difference_type` of the container iterators -/
def ptrdiffTy : IntTy := ⟨true, 64⟩

/-- `advance` with the arithmetic of the real `difference_type`: `size` is computed first (cannot fault), then
`distance(first, it_) + _diff` (signed overflow is undefined), then `% size` (division by zero is undefined) -/
def Cyc.advance64 (c : Cyc) (n : Int) : M Cyc :=
  if ¬ ptrdiffTy.InRange (c.it - c.first + n) then .error .signedOverflow else c.advance n

/-- `iterator::base::operator-=(d)` = `*this += -d`: the negation itself overflows for the minimum -/
def Cyc.subAssign64 (c : Cyc) (n : Int) : M Cyc :=
  if ¬ ptrdiffTy.InRange (-n) then .error .signedOverflow else c.advance64 (-n)

/-- a history of iterator operations: `++it` / `it++`, `--it` / `it--`, `it += n`, `it -= n`
(`iterator/base_impl.hpp`: `operator-=(d)` is `*this += -d`; the post-fix forms change the iterator like the pre-fix ones) -/
inductive CycOp where
  | inc
  | dec
  | adv (n : Int)
  | sub (n : Int)
  deriving Repr, DecidableEq

def Cyc.apply (c : Cyc) : CycOp → M Cyc
  | .inc => .ok c.increment
  | .dec => .ok c.decrement
  | .adv n => c.advance n
  | .sub n => c.advance (-n)

def Cyc.run (c : Cyc) : List CycOp → M Cyc
  | [] => .ok c
  | o :: os =>
    match c.apply o with
    | .ok c' => c'.run os
    | .error e => .error e

/-- `n` applications of a step -/
def iter {α : Type} (f : α → α) : Nat → α → α
  | 0, a => a
  | n + 1, a => iter f n (f a)

/-! ## grid positions, spiral, neighbours -/

structure Pos where
  x : Int
  y : Int
  deriving Repr, DecidableEq

instance : Add Pos := ⟨fun a b => ⟨a.x + b.x, a.y + b.y⟩⟩

structure Spiral where
  cur : Pos
  maxDist : Int
  curDist : Int
  dir : Pos
  step : Int
  deriving Repr, DecidableEq

/-- `spiral_iterator(_cur, _max_dist) : cur_(_cur), max_dist_(_max_dist), cur_dist_(0), dir_(-1, -1), step_(0)` -/
def Spiral.init (c : Pos) (d : Int) : Spiral := ⟨c, d, 0, ⟨-1, -1⟩, 0⟩

/-- `spiral_iterator::increment` -/
def Spiral.increment (s : Spiral) : Spiral :=
  let s1 : Spiral :=
    if s.step = s.curDist then
      let swapped : Pos := ⟨s.dir.y, s.dir.x⟩                -- std::swap(dir_.x(), dir_.y())
      let dir' : Pos := ⟨swapped.x, -swapped.y⟩              -- dir_.y() = -dir_.y()
      if dir' = ⟨-1, 1⟩ then
        { s with dir := dir', curDist := s.curDist + 1, cur := ⟨s.cur.x, s.cur.y - 1⟩, step := 0 }
      else
        { s with dir := dir', step := 0 }
    else s
  { s1 with step := s1.step + 1, cur := s1.cur + s1.dir }   -- ++step_; cur_ += dir_

/-- `spiral_iterator::equal`: `cur_ == other.cur_` — neither `max_dist_` nor the direction / step state is compared -/
def Spiral.equal (a b : Spiral) : Bool := decide (a.cur = b.cur)

/-- `for (it = begin; it != end; ++it) emit(*it)`; `equal` compares `cur_` only -/
def spiralLoop (endCur : Pos) : Nat → Spiral → M (List Pos)
  | 0, _ => .error .fuel
  | f + 1, s =>
    if s.cur = endCur then .ok []
    else
      match spiralLoop endCur f s.increment with
      | .error e => .error e
      | .ok r => .ok (s.cur :: r)

/-- `spiral_range(start, dist)`: `begin() = iterator(start, dist)`, `end() = iterator(Pos(start.x - 1, start.y - dist), dist)` -/
def spiralRange (start : Pos) (dist : Int) (fuel : Nat) : M (List Pos) :=
  spiralLoop ⟨start.x - 1, start.y - dist⟩ fuel (Spiral.init start dist)

/-! ### the spiral in the arithmetic of the coordinate type (`int` / `long`: overflow is undefined behaviour) -/

/-- `a + b` in the type `t` -/
def addT (t : IntTy) (a b : Int) : M Int :=
  if t.trapping && !decide (t.InRange (a + b)) then .error .signedOverflow else .ok (t.wrap (a + b))

/-- `spiral_iterator::increment`, every arithmetic operation in the coordinate type, in program order:
`++cur_dist_`, `cur_.y() - 1`, `++step_`, `cur_.x() += dir_.x()`, `cur_.y() += dir_.y()` -/
def Spiral.incrementT (t : IntTy) (s : Spiral) : M Spiral :=
  let turn : M Spiral :=
    if s.step = s.curDist then
      let swapped : Pos := ⟨s.dir.y, s.dir.x⟩
      let dir' : Pos := ⟨swapped.x, -swapped.y⟩
      if dir' = ⟨-1, 1⟩ then
        match addT t s.curDist 1 with
        | .error e => .error e
        | .ok cd =>
          match addT t s.cur.y (-1) with
          | .error e => .error e
          | .ok y => .ok { s with dir := dir', curDist := cd, cur := ⟨s.cur.x, y⟩, step := 0 }
      else .ok { s with dir := dir', step := 0 }
    else .ok s
  match turn with
  | .error e => .error e
  | .ok s1 =>
    match addT t s1.step 1 with
    | .error e => .error e
    | .ok st =>
      match addT t s1.cur.x s1.dir.x with
      | .error e => .error e
      | .ok x =>
        match addT t s1.cur.y s1.dir.y with
        | .error e => .error e
        | .ok y => .ok { s1 with step := st, cur := ⟨x, y⟩ }

def spiralLoopT (t : IntTy) (endCur : Pos) : Nat → Spiral → M (List Pos)
  | 0, _ => .error .fuel
  | f + 1, s =>
    if s.cur = endCur then .ok []
    else
      match s.incrementT t with
      | .error e => .error e
      | .ok s' =>
        match spiralLoopT t endCur f s' with
        | .error e => .error e
        | .ok r => .ok (s.cur :: r)

/-- `for (pos p : make_spiral_range(start, dist))`: `end()` = `Pos(start_.x() - 1, start_.y() - dist_)` is computed
(in the coordinate type) before the loop starts -/
def spiralRangeT (t : IntTy) (start : Pos) (dist : Int) (fuel : Nat) : M (List Pos) :=
  match addT t start.x (-1) with
  | .error e => .error e
  | .ok ex =>
    match addT t start.y (-dist) with
    | .error e => .error e
    | .ok ey => spiralLoopT t ⟨ex, ey⟩ fuel (Spiral.init start dist)

/-- `neumann_neighbors(p)` in the order of the returned array -/
def neumann (t : IntTy) (p : Pos) : M (List Pos) :=
  match pred t p.x, incr t p.x, pred t p.y, incr t p.y with
  | .ok xm, .ok xp, .ok ym, .ok yp => .ok [⟨xm, p.y⟩, ⟨xp, p.y⟩, ⟨p.x, ym⟩, ⟨p.x, yp⟩]
  | .error e, _, _, _ => .error e
  | _, .error e, _, _ => .error e
  | _, _, .error e, _ => .error e
  | _, _, _, .error e => .error e

/-- `moore_neighbors(p)` in the order of the returned array -/
def moore (t : IntTy) (p : Pos) : M (List Pos) :=
  match pred t p.x, incr t p.x, pred t p.y, incr t p.y with
  | .ok xm, .ok xp, .ok ym, .ok yp =>
    .ok [⟨xm, p.y⟩, ⟨xp, p.y⟩, ⟨p.x, ym⟩, ⟨p.x, yp⟩, ⟨xm, ym⟩, ⟨xm, yp⟩, ⟨xp, ym⟩, ⟨xp, yp⟩]
  | .error e, _, _, _ => .error e
  | _, .error e, _, _ => .error e
  | _, _, .error e, _ => .error e
  | _, _, _, .error e => .error e

/-! ## iterator::range over a container (a list; iterators are indices) -/

structure IterRange where
  begin_ : Nat
  end_ : Nat
  deriving Repr, DecidableEq

/-- `iterator::make_range(b, e)` / `range(b, e)` -/
def iterMakeRange (b e : Nat) : IterRange := ⟨b, e⟩
/-- `adapt_range(c)` = `range{range::begin(c), range::end(c)}` -/
def adaptRange {α : Type} (c : List α) : IterRange := ⟨0, c.length⟩

/-- `range::empty` / `range::singular` of an iterator range; `range::from_pair(p)` = `range{p.first, p.second}` -/
def IterRange.empty (r : IterRange) : Bool := decide (r.begin_ = r.end_)
def IterRange.singular (r : IterRange) : Bool := !r.empty && decide (r.begin_ + 1 = r.end_)
def iterFromPair (p : Nat × Nat) : IterRange := ⟨p.1, p.2⟩

/-- `iterator/range_comparison.hpp`: `l.begin() == r.begin() && l.end() == r.end()` -/
def IterRange.equal (l r : IterRange) : Bool := decide (l.begin_ = r.begin_) && decide (l.end_ = r.end_)
/-- `!(l == r)` -/
def IterRange.notEqual (l r : IterRange) : Bool := !IterRange.equal l r

/-- `for (it = r.begin(); it != r.end(); ++it) emit(*it)` on the container `c` -/
def iterLoop {α : Type} (c : List α) (end_ : Nat) : Nat → Nat → M (List α)
  | 0, _ => .error .fuel
  | f + 1, i =>
    if i = end_ then .ok []
    else
      match c[i]? with
      | none => .error .oob                    -- dereferencing outside the container
      | some a =>
        match iterLoop c end_ f (i + 1) with
        | .error e => .error e
        | .ok r => .ok (a :: r)

def IterRange.elems {α : Type} (c : List α) (r : IterRange) (fuel : Nat) : M (List α) := iterLoop c r.end_ fuel r.begin_

/-- `range::size` of an iterator range over a random-access container: `to_unsigned(end - begin)` in `ptrdiff_t` -/
def IterRange.size (r : IterRange) : Int := (IntTy.mk false 64).wrap ((r.end_ : Int) - (r.begin_ : Int))

/-- `math::int_range_count<Count>`: `mpl::list::interval<0, Count>` = the constants `0 + Values…` of
`std::make_integer_sequence<size_type, Count - 0>` -/
def mathIntRangeCount (count : Nat) : List Nat := (List.range (count - 0)).map (0 + ·)

/-- `math::int_range<Start, End>` = `mpl::list::interval<Start, End>` (requires `Start ≤ End`): `Begin + Values…` over
`std::make_integer_sequence<_, End - Begin>` -/
def mathIntRange (start end_ : Nat) : List Nat := (List.range (end_ - start)).map (start + ·)

end Fcppt.C18
