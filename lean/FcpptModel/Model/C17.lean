import FcpptModel.Prelude.Fault
import FcpptModel.Model.C10
/-!
# C17 — model of the typed wrappers and of the comparison / hash functions

Part (a): `fcppt::strong_typedef<T, Tag>` over the C integer types.  For `int` and wider every operator is
modelled; for the types narrower than `int` (`signed char`, `unsigned char`, `short`, `unsigned short`) the binary
and unary operators are ill-formed (the result of the promoted operation is brace-initialised into `T`: a
narrowing conversion), so only the assigning operators, `++`/`--`, comparisons and hash exist there — with
integral promotion (`IntTy.promoted`, `IntTy.conv`).  Mirrors

* `strong_typedef_impl.hpp`        : `ST` (one member `value_`), `get` (const and non-const: `ST.set`), implicit copy (`ST.assign`)
* `strong_typedef_map.hpp`, `strong_typedef_apply.hpp`, `strong_typedef_construct_cast.hpp` : `ST.map`, `ST.apply2`, `ST.constructCast`
* `strong_typedef_arithmetic.hpp`  : `+ - *` (binary), unary `-`, `++x --x x++ x--`
* `strong_typedef_bitwise.hpp`     : `& | ^ ~`
* `strong_typedef_assignment.hpp`  : `+= -= *= &= |= ^=`
* `strong_typedef_comparison.hpp`  : `< <= > >= == !=`
* `strong_typedef_hash_impl.hpp`   : `std::hash<T>()(v.get())`
* `type_iso/strong_typedef.hpp`    : `decorate`, `undecorate`

The underlying operators are `IntTy.add …` (C semantics: signed overflow is a fault, unsigned
wraps modulo 2^bits, bitwise operators on the two's complement representation = `BitVec`).

Part (b): the comparison functions, transcribed header by header.  `α` is the component type,
`eq`/`lt` its `operator==`/`operator<`.

* `std::equal` (3 iterators), `fcppt::detail::equal`           : `stdEqual3` (reads the 2nd range unchecked → `Fault.oob`)
* `std::lexicographical_compare`                                : `lexCompare`
* index-wise `all_of` (`math/detail/array_equal.hpp`), `std::array ==` (`array/comparison.hpp`),
  `std::tuple ==` (`tuple/comparison.hpp`), `std::equal` on two `enum_::array`s of the same type
  (`enum/array_comparison.hpp`)                                  : `equalV`
* `math/detail/array_less.hpp`                                   : `arrayLess`
* `std::pair <` (synthesised three-way)                          : `pairLt`
* `optional/comparison.hpp`                                      : `Opt.eq Opt.ne Opt.lt`
* `either/comparison.hpp`                                        : `Either.eq Either.ne`
* `variant/comparison.hpp` (`std::variant ==`, `<`), `variant/compare.hpp` : `Var.eq Var.ne Var.lt Var.compare`
* `record/comparison.hpp`                                        : `Rec.eq`, `Rec2.eqPermuted`
* tuples / variants with element types of their own               : `Pair.*`, `SumV.*` (nested)
* `math/{vector,dim}/comparison.hpp`                             : `MVec.*`
* `math/matrix/comparison.hpp`                                   : `equalV` on the row-major storage
* `math/box/comparison.hpp`, `math/box/object_impl.hpp` (`pos`, `size`, the `(pos, size)` constructor),
  `math/sphere/comparison.hpp`                                    : `Box.*`, `Sphere.*`
* `container/grid/comparison.hpp`                                : `Grid.*`
* `container/tree/comparison.hpp` (`std::list ==` on the children): `Tree.eq`
* `container/raw_vector/comparison.hpp`                          : `RawVec.*`
* `reference_comparison.hpp`, `reference_hash_impl.hpp`          : `Ref.*`
* `shared_ptr_impl.hpp` (`== != <`), `shared_ptr_hash_impl.hpp`  : `SPtr.*`
* `recursive_comparison.hpp`                                     : `Recursive.*`
* `range/hash_impl.hpp`, `math/detail/hash_impl.hpp`, `math/*/std_hash.hpp` : `rangeHash`
* `container/bitfield/{comparison,hash_impl}.hpp`                : `Fcppt.C10.eq/ne/hash` (model of C10)

`hash_combine` and the `std::hash` of the components are parameters (`hc`, `h`).
-/
namespace Fcppt.C17

/-! ## Part (a): C integer operators and `strong_typedef` -/

structure IntTy where
  signed : Bool
  bits : Nat
  deriving Repr, DecidableEq

namespace IntTy
def i32 : IntTy := ⟨true, 32⟩
def u32 : IntTy := ⟨false, 32⟩
def i64 : IntTy := ⟨true, 64⟩
def u64 : IntTy := ⟨false, 64⟩
def i8 : IntTy := ⟨true, 8⟩
def u8 : IntTy := ⟨false, 8⟩
def i16 : IntTy := ⟨true, 16⟩
def u16 : IntTy := ⟨false, 16⟩

def lo (t : IntTy) : Int := if t.signed then -(2 ^ (t.bits - 1) : Int) else 0
def hi (t : IntTy) : Int := if t.signed then 2 ^ (t.bits - 1) - 1 else 2 ^ t.bits - 1
def inRange (t : IntTy) (x : Int) : Bool := decide (t.lo ≤ x) && decide (x ≤ t.hi)

/-- the value of an arithmetic operator whose exact result is `r`: signed → must be representable
(otherwise undefined behaviour), unsigned → reduced modulo 2^bits -/
def arith (t : IntTy) (r : Int) : M Int :=
  if t.signed then (if t.inRange r then pure r else throw .signedOverflow)
  else pure (r % (2 ^ t.bits : Int))

def add (t : IntTy) (a b : Int) : M Int := t.arith (a + b)
def sub (t : IntTy) (a b : Int) : M Int := t.arith (a - b)
def mul (t : IntTy) (a b : Int) : M Int := t.arith (a * b)
def neg (t : IntTy) (a : Int) : M Int := t.arith (-a)

/-- two's complement representation -/
def toBV (t : IntTy) (x : Int) : BitVec t.bits := BitVec.ofInt t.bits x
def ofBV (t : IntTy) (v : BitVec t.bits) : Int := if t.signed then v.toInt else (v.toNat : Int)

def band (t : IntTy) (a b : Int) : Int := t.ofBV (t.toBV a &&& t.toBV b)
def bor (t : IntTy) (a b : Int) : Int := t.ofBV (t.toBV a ||| t.toBV b)
def bxor (t : IntTy) (a b : Int) : Int := t.ofBV (t.toBV a ^^^ t.toBV b)
def bnot (t : IntTy) (a : Int) : Int := t.ofBV (~~~ t.toBV a)

/-! ### compound assignment and `++`/`--` of the C type (`a op= b` is `a = static_cast<T>(a op b)`)

For a type narrower than `int` both operands are promoted to `int` (integral promotion), the operator is that
of `int`, and the result is converted back to `T` (C++20: the unique value congruent modulo 2^bits).  For `int`
and wider nothing is promoted and the conversion is the identity on the values of the type. -/

/-- integral promotion -/
def promoted (t : IntTy) : IntTy := if t.bits < 32 then i32 else t
/-- conversion of an integer value to the type `t` (modulo 2^bits into the range of `t`) -/
def conv (t : IntTy) (x : Int) : Int := if t.signed then Int.bmod x (2 ^ t.bits) else x % (2 ^ t.bits : Int)

def addAssign (t : IntTy) (a b : Int) : M Int := do let r ← t.promoted.add a b; pure (t.conv r)
def subAssign (t : IntTy) (a b : Int) : M Int := do let r ← t.promoted.sub a b; pure (t.conv r)
def mulAssign (t : IntTy) (a b : Int) : M Int := do let r ← t.promoted.mul a b; pure (t.conv r)
def andAssign (t : IntTy) (a b : Int) : Int := t.conv (t.promoted.band a b)
def orAssign (t : IntTy) (a b : Int) : Int := t.conv (t.promoted.bor a b)
def xorAssign (t : IntTy) (a b : Int) : Int := t.conv (t.promoted.bxor a b)
/-- `++a` / `--a`: `a += 1` / `a -= 1` -/
def inc (t : IntTy) (a : Int) : M Int := t.addAssign a 1
def dec (t : IntTy) (a : Int) : M Int := t.subAssign a 1
end IntTy

/-- `fcppt::strong_typedef<T, Tag>`: exactly one member, `value_` -/
structure ST where
  get : Int
  deriving Repr, DecidableEq

namespace ST
/-- `operator+`: `strong_typedef{_left.get() + _right.get()}` (the others alike) -/
def add (t : IntTy) (l r : ST) : M ST := do let v ← t.add l.get r.get; pure ⟨v⟩
def sub (t : IntTy) (l r : ST) : M ST := do let v ← t.sub l.get r.get; pure ⟨v⟩
def mul (t : IntTy) (l r : ST) : M ST := do let v ← t.mul l.get r.get; pure ⟨v⟩
def neg (t : IntTy) (x : ST) : M ST := do let v ← t.neg x.get; pure ⟨v⟩
def band (t : IntTy) (l r : ST) : ST := ⟨t.band l.get r.get⟩
def bor (t : IntTy) (l r : ST) : ST := ⟨t.bor l.get r.get⟩
def bxor (t : IntTy) (l r : ST) : ST := ⟨t.bxor l.get r.get⟩
def bnot (t : IntTy) (x : ST) : ST := ⟨t.bnot x.get⟩

/-- `++x`: `++_value.get(); return _value;` → (operand afterwards, what the returned reference shows) -/
def preInc (t : IntTy) (x : ST) : M (ST × ST) := do let v ← t.inc x.get; pure (⟨v⟩, ⟨v⟩)
def preDec (t : IntTy) (x : ST) : M (ST × ST) := do let v ← t.dec x.get; pure (⟨v⟩, ⟨v⟩)
/-- `x++`: `temp{_value}; ++_value; return temp;` → (operand afterwards, returned copy) -/
def postInc (t : IntTy) (x : ST) : M (ST × ST) := do
  let temp := x
  let (x', _) ← preInc t x
  pure (x', temp)
def postDec (t : IntTy) (x : ST) : M (ST × ST) := do
  let temp := x
  let (x', _) ← preDec t x
  pure (x', temp)

/-- `l op= r`: `_left.get() op= _right.get(); return _left;` → (left afterwards, through the returned reference) -/
def addAssign (t : IntTy) (l r : ST) : M (ST × ST) := do let v ← t.addAssign l.get r.get; pure (⟨v⟩, ⟨v⟩)
def subAssign (t : IntTy) (l r : ST) : M (ST × ST) := do let v ← t.subAssign l.get r.get; pure (⟨v⟩, ⟨v⟩)
def mulAssign (t : IntTy) (l r : ST) : M (ST × ST) := do let v ← t.mulAssign l.get r.get; pure (⟨v⟩, ⟨v⟩)
def andAssign (t : IntTy) (l r : ST) : ST × ST := (⟨t.andAssign l.get r.get⟩, ⟨t.andAssign l.get r.get⟩)
def orAssign (t : IntTy) (l r : ST) : ST × ST := (⟨t.orAssign l.get r.get⟩, ⟨t.orAssign l.get r.get⟩)
def xorAssign (t : IntTy) (l r : ST) : ST × ST := (⟨t.xorAssign l.get r.get⟩, ⟨t.xorAssign l.get r.get⟩)

/-- the implicitly defined copy / move assignment `l = r` → (left afterwards, through the returned reference) -/
def assign (_l r : ST) : ST × ST := (r, r)
/-- writing through the non-const `get()`: `x.get() = v` -/
def set (_x : ST) (v : Int) : ST := ⟨v⟩
/-- `strong_typedef_map(x, f)`: `strong_typedef<R, Tag>(f(x.get()))` -/
def map (f : Int → Int) (x : ST) : ST := ⟨f x.get⟩
/-- `strong_typedef_apply(f, x, y)`: `strong_typedef<R, Tag>(f(x.get(), y.get()))` -/
def apply2 (f : Int → Int → Int) (x y : ST) : ST := ⟨f x.get y.get⟩
/-- `strong_typedef_construct_cast<ST, Conv>(v)`: `ST(Conv(v))` -/
def constructCast (conv : Int → Int) (v : Int) : ST := ⟨conv v⟩

def lt (l r : ST) : Bool := decide (l.get < r.get)
def le (l r : ST) : Bool := decide (l.get ≤ r.get)
def gt (l r : ST) : Bool := decide (l.get > r.get)
def ge (l r : ST) : Bool := decide (l.get ≥ r.get)
def eq (l r : ST) : Bool := decide (l.get = r.get)
def ne (l r : ST) : Bool := decide (l.get ≠ r.get)

/-- `strong_typedef_hash`: `std::hash<T>()(_value.get())` -/
def hash (h : Int → Nat) (x : ST) : Nat := h x.get

/-- `type_iso::transform<strong_typedef>` -/
def decorate (v : Int) : ST := ⟨v⟩
def undecorate (s : ST) : Int := s.get
end ST

/-! ## Part (b): building blocks from the standard library -/
section
variable {α β : Type}

/-- `std::equal(first1, last1, first2, pred)`: walks the first range, dereferences the second
without a bound check. -/
def stdEqual3 (eq : α → α → Bool) : List α → List α → M Bool
  | [], _ => pure true
  | _ :: _, [] => throw .oob
  | x :: xs, y :: ys => if eq x y then stdEqual3 eq xs ys else pure false

/-- `std::lexicographical_compare(first1, last1, first2, last2)` (uses `<` in both directions) -/
def lexCompare (lt : α → α → Bool) : List α → List α → Bool
  | [], [] => false
  | [], _ :: _ => true
  | _ :: _, [] => false
  | x :: xs, y :: ys => if lt x y then true else if lt y x then false else lexCompare lt xs ys

/-- element-wise comparison of two statically equally sized containers in index order
(`all_of` over `int_range_count<N>`, `std::array ==`, `std::tuple ==`, `std::equal` on `enum_::array`) -/
def equalV {n : Nat} (eq : α → α → Bool) (a b : Vector α n) : Bool :=
  (List.finRange n).all fun i => eq a[i] b[i]

/-- `math::detail::array_less`: `to_array` of both, then `std::lexicographical_compare` -/
def arrayLess {n : Nat} (lt : α → α → Bool) (a b : Vector α n) : Bool :=
  lexCompare lt a.toList b.toList

/-- `std::pair`'s `<` (synthesised three-way comparison from `<` of the members) -/
def pairLt (ltA : α → α → Bool) (ltB : β → β → Bool) (a b : α × β) : Bool :=
  if ltA a.1 b.1 then true else if ltA b.1 a.1 then false else ltB a.2 b.2

/-- `range::hash`: `fold(range, 0, λ (elem, cur) → hash_combine(cur, hash(elem)))` -/
def rangeHash (hc : Nat → Nat → Nat) (h : α → Nat) (l : List α) : Nat :=
  l.foldl (fun cur e => hc cur (h e)) 0

/-! ## optional -/
namespace Opt
/-- `a.has_value() && b.has_value() ? a.get_unsafe() == b.get_unsafe() : a.has_value() == b.has_value()` -/
def eq (eq : α → α → Bool) (a b : Option α) : Bool :=
  match a, b with
  | some x, some y => eq x y
  | _, _ => a.isSome == b.isSome
def ne (eq : α → α → Bool) (a b : Option α) : Bool := !(Opt.eq eq a b)
/-- `… ? a.get_unsafe() < b.get_unsafe() : a.has_value() < b.has_value()` (`bool < bool`) -/
def lt (lt : α → α → Bool) (a b : Option α) : Bool :=
  match a, b with
  | some x, some y => lt x y
  | _, _ => !a.isSome && b.isSome
end Opt

/-! ## either (`Sum.inl` = failure, `Sum.inr` = success) -/
namespace Either
def hasSuccess (a : Sum α β) : Bool := match a with | .inr _ => true | .inl _ => false
def hasFailure (a : Sum α β) : Bool := !hasSuccess a
/-- `a.has_success() && b.has_success() ? succ == succ : a.has_failure() && b.has_failure() && fail == fail` -/
def eq (eqF : α → α → Bool) (eqS : β → β → Bool) (a b : Sum α β) : Bool :=
  match a, b with
  | .inr x, .inr y => eqS x y
  | .inl x, .inl y => eqF x y
  | _, _ => false
def ne (eqF : α → α → Bool) (eqS : β → β → Bool) (a b : Sum α β) : Bool := !(eq eqF eqS a b)
end Either

/-! ## variant (`std::variant` holding alternative number `idx`) -/
structure Var (α : Type) where
  idx : Nat
  val : α
  deriving Repr, DecidableEq

namespace Var
/-- `std::variant ==`: `v.index() == w.index() && get<i>(v) == get<i>(w)` -/
def eq (eq : α → α → Bool) (a b : Var α) : Bool := a.idx == b.idx && eq a.val b.val
def ne (eq : α → α → Bool) (a b : Var α) : Bool := !(Var.eq eq a b)
/-- `std::variant <`: index first, then the values of the common alternative -/
def lt (lt : α → α → Bool) (a b : Var α) : Bool :=
  if a.idx < b.idx then true else if a.idx > b.idx then false else lt a.val b.val
/-- `variant::compare(l, r, c)`: visit `r`; `to_optional<T>(l)`; `maybe(…, const_(false), c)` -/
def compare (c : α → α → Bool) (l r : Var α) : Bool :=
  match (if l.idx = r.idx then some l.val else none) with
  | none => false
  | some li => c li r.val
end Var

/-! ## heterogeneous products and sums: `tuple<A, B, …>`, `variant<A, B, …>`, `record<…>` with element types of their own

`std::tuple ==` compares position by position from the left and stops at the first difference; a tuple of any
arity is a nested pair `A × (B × (C × …))`.  `std::variant` holding alternative `i` of `A, B, C, …` is the nested sum
`A ⊕ (B ⊕ (C ⊕ …))`: `inl` = the first alternative, so the nesting order is the index order. -/
variable {γ : Type}
namespace Pair
def eq (eqA : α → α → Bool) (eqB : β → β → Bool) (a b : α × β) : Bool := eqA a.1 b.1 && eqB a.2 b.2
def ne (eqA : α → α → Bool) (eqB : β → β → Bool) (a b : α × β) : Bool := !(Pair.eq eqA eqB a b)
end Pair

namespace SumV
/-- `std::variant ==`: same index and equal values of that alternative -/
def eq (eqA : α → α → Bool) (eqB : β → β → Bool) (a b : Sum α β) : Bool :=
  match a, b with
  | .inl x, .inl y => eqA x y
  | .inr x, .inr y => eqB x y
  | _, _ => false
def ne (eqA : α → α → Bool) (eqB : β → β → Bool) (a b : Sum α β) : Bool := !(SumV.eq eqA eqB a b)
/-- `std::variant <`: the smaller index first, then the values of the common alternative -/
def lt (ltA : α → α → Bool) (ltB : β → β → Bool) (a b : Sum α β) : Bool :=
  match a, b with
  | .inl x, .inl y => ltA x y
  | .inl _, .inr _ => true
  | .inr _, .inl _ => false
  | .inr x, .inr y => ltB x y
/-- `variant::compare(l, r, c)`: `c` on the values when both hold the same alternative, else `false` -/
def compare (cA : α → α → Bool) (cB : β → β → Bool) (l r : Sum α β) : Bool :=
  match l, r with
  | .inl x, .inl y => cA x y
  | .inr x, .inr y => cB x y
  | _, _ => false
end SumV

/-- `record<L0 : A, L1 : B> == record<L1 : B, L0 : A>` (the same labels in another order): label by label -/
def Rec2.eqPermuted (eqA : α → α → Bool) (eqB : β → β → Bool) (r1 : α × β) (r2 : β × α) : Bool :=
  eqA r1.1 r2.2 && eqB r1.2 r2.1

/-! ## record: list of (label, value); `get<Label>` is a lookup -/
abbrev Rec (α : Type) := List (Nat × α)

namespace Rec
def labels (r : Rec α) : List Nat := r.map (·.1)
/-- `record::are_equivalent` (static_assert): the same set of labels -/
def equivalent (r1 r2 : Rec α) : Bool :=
  r1.labels.all (r2.labels.contains ·) && r2.labels.all (r1.labels.contains ·)
/-- `all_of(element_vector<record1>, λ label → get<label>(r1) == get<label>(r2))`;
`none` = the program is ill-formed (records not equivalent) -/
def eq (eq : α → α → Bool) (r1 r2 : Rec α) : Option Bool :=
  if equivalent r1 r2 then
    some (r1.labels.all fun l =>
      match r1.lookup l, r2.lookup l with
      | some x, some y => eq x y
      | _, _ => false)
  else none
def ne (eq : α → α → Bool) (r1 r2 : Rec α) : Option Bool := (Rec.eq eq r1 r2).map (!·)
end Rec

/-! ## math::vector / math::dim (static storage of n components), matrix = row-major storage -/
namespace MVec
variable {n : Nat}
def eq (eq : α → α → Bool) (a b : Vector α n) : Bool := equalV eq a b
def ne (eq : α → α → Bool) (a b : Vector α n) : Bool := !(MVec.eq eq a b)
def lt (lt : α → α → Bool) (a b : Vector α n) : Bool := arrayLess lt a b
/-- `_v2 < _v1` -/
def gt (lt : α → α → Bool) (a b : Vector α n) : Bool := MVec.lt lt b a
/-- `!(_v2 < _v1)` -/
def le (lt : α → α → Bool) (a b : Vector α n) : Bool := !(MVec.lt lt b a)
/-- `!(_v1 < _v2)` -/
def ge (lt : α → α → Bool) (a b : Vector α n) : Bool := !(MVec.lt lt a b)
/-- `range::hash(to_array(v))` -/
def hash (hc : Nat → Nat → Nat) (h : α → Nat) (a : Vector α n) : Nat := rangeHash hc h a.toList
end MVec

/-! ## box (stores `min_` and `max_`; `pos()` is `min_`, `size()` is `max_ - min_`), sphere (origin : vector, radius) -/
structure Box (α : Type) (n : Nat) where
  min : Vector α n
  max : Vector α n

namespace Box
variable {n : Nat}
/-- `pos()`: `min_` -/
def pos (b : Box α n) : Vector α n := b.min
/-- `size()`: `to_dim(max_ - min_)`, component-wise with the `-` of the coordinate type -/
def size (sub : α → α → α) (b : Box α n) : Vector α n := Vector.zipWith sub b.max b.min
/-- constructor `object(vector pos, dim size)`: `min_(pos), max_(pos + size)` -/
def ofPosSize (add : α → α → α) (p s : Vector α n) : Box α n := ⟨p, Vector.zipWith add p s⟩
/-- `_a.pos() == _b.pos() && _a.size() == _b.size()` -/
def eq (sub : α → α → α) (eq : α → α → Bool) (a b : Box α n) : Bool :=
  MVec.eq eq a.pos b.pos && MVec.eq eq (a.size sub) (b.size sub)
def ne (sub : α → α → α) (eq : α → α → Bool) (a b : Box α n) : Bool := !(Box.eq sub eq a b)
/-- `std::make_pair(pos, size) < std::make_pair(pos, size)` -/
def lt (sub : α → α → α) (lt : α → α → Bool) (a b : Box α n) : Bool :=
  pairLt (MVec.lt lt) (MVec.lt lt) (a.pos, a.size sub) (b.pos, b.size sub)
end Box

structure Sphere (α : Type) (n : Nat) where
  origin : Vector α n
  radius : α

namespace Sphere
variable {n : Nat}
def eq (eq : α → α → Bool) (a b : Sphere α n) : Bool := MVec.eq eq a.origin b.origin && eq a.radius b.radius
def ne (eq : α → α → Bool) (a b : Sphere α n) : Bool := !(Sphere.eq eq a b)
end Sphere

/-! ## grid: `dim` of `size_type` and a `std::vector` of `content(dim)` elements -/
structure Grid (α : Type) (n : Nat) where
  size : Vector Nat n
  data : List α

namespace Grid
variable {n : Nat}
/-- class invariant: `container_.size() == dim.content()` -/
def Wf (g : Grid α n) : Prop := g.data.length = g.size.toList.foldl (· * ·) 1

def natEq (a b : Nat) : Bool := a == b
def natLt (a b : Nat) : Bool := decide (a < b)

/-- `_a.size() == _b.size() && detail::equal(_a.begin(), _a.end(), _b.begin())` -/
def eq (eq : α → α → Bool) (a b : Grid α n) : M Bool :=
  if MVec.eq natEq a.size b.size then stdEqual3 eq a.data b.data else pure false
def ne (eq : α → α → Bool) (a b : Grid α n) : M Bool := do let e ← Grid.eq eq a b; pure (!e)
/-- `_a.size() != _b.size() ? _a.size() < _b.size() : lexicographical_compare(…)` -/
def lt (lt : α → α → Bool) (a b : Grid α n) : Bool :=
  if MVec.ne natEq a.size b.size then MVec.lt natLt a.size b.size else lexCompare lt a.data b.data
/-- `_b < _a` -/
def gt (lt : α → α → Bool) (a b : Grid α n) : Bool := Grid.lt lt b a
/-- `!(_a > _b)` -/
def le (lt : α → α → Bool) (a b : Grid α n) : Bool := !(Grid.gt lt a b)
/-- `!(_a < _b)` -/
def ge (lt : α → α → Bool) (a b : Grid α n) : Bool := !(Grid.lt lt a b)
end Grid

/-! ## tree: value and `std::list` of children -/
inductive Tree (α : Type) where
  | node (value : α) (children : List (Tree α))

namespace Tree
mutual
/-- `_a.value() == _b.value() && _a.children() == _b.children()` -/
def eq (eq : α → α → Bool) : Tree α → Tree α → Bool
  | .node v cs, .node w ds => eq v w && eqList eq cs ds
/-- `std::list ==`: same length and pairwise `==` -/
def eqList (eq : α → α → Bool) : List (Tree α) → List (Tree α) → Bool
  | [], [] => true
  | c :: cs, d :: ds => Tree.eq eq c d && eqList eq cs ds
  | [], _ :: _ => false
  | _ :: _, [] => false
end
def ne (eq : α → α → Bool) (a b : Tree α) : Bool := !(Tree.eq eq a b)
end Tree

/-! ## raw_vector -/
namespace RawVec
/-- `_left.size() == _right.size() && detail::equal(begin, end, begin)` -/
def eq (eq : α → α → Bool) (l r : List α) : M Bool :=
  if l.length == r.length then stdEqual3 eq l r else pure false
def ne (eq : α → α → Bool) (l r : List α) : M Bool := do let e ← RawVec.eq eq l r; pure (!e)
def lt (lt : α → α → Bool) (l r : List α) : Bool := lexCompare lt l r
/-- `_right < _left` -/
def gt (lt : α → α → Bool) (l r : List α) : Bool := RawVec.lt lt r l
/-- `!(_left < _right)` -/
def ge (lt : α → α → Bool) (l r : List α) : Bool := !(RawVec.lt lt l r)
/-- `!(_left > _right)` -/
def le (lt : α → α → Bool) (l r : List α) : Bool := !(RawVec.gt lt l r)
end RawVec

/-! ## recursive: `get() == get()` -/
namespace Recursive
def eq (eq : α → α → Bool) (a b : α) : Bool := eq a b
def ne (eq : α → α → Bool) (a b : α) : Bool := !(Recursive.eq eq a b)
end Recursive

/-! ## owning wrappers expose the wrapped object: `recursive` (`recursive_impl.hpp`: a `unique_ptr` inside)

`cell = none` is the state after having been moved from (a null `unique_ptr`); `get` there is a null dereference. -/
structure RecCell (α : Type) where
  cell : Option α

namespace RecCell
/-- `recursive(Type const &)`, `recursive(Type &&)`: `make_unique_ptr<Type>(value)` -/
def make (v : α) : RecCell α := ⟨some v⟩
/-- `get()`: `*impl_` -/
def get (r : RecCell α) : M α := match r.cell with | some v => pure v | none => throw .emptyDeref
/-- copy constructor: `make_unique_ptr<Type>(_other.get())` — a new object holding a copy -/
def copy (o : RecCell α) : M (RecCell α) := do let v ← o.get; pure ⟨some v⟩
/-- copy assignment: `if (this == &_other) return *this; impl_ = make_unique_ptr<Type>(_other.get());` -/
def assign (self other : RecCell α) (sameObject : Bool) : M (RecCell α) :=
  if sameObject then pure self else do let v ← other.get; pure ⟨some v⟩
/-- move construction / move assignment (defaulted: that of `unique_ptr`): (target, what is left of the source) -/
def move (o : RecCell α) : RecCell α × RecCell α := (⟨o.cell⟩, ⟨none⟩)
/-- writing through the non-const `get()` -/
def set (r : RecCell α) (v : α) : M (RecCell α) := match r.cell with | some _ => pure ⟨some v⟩ | none => throw .emptyDeref
end RecCell

/-! ## iterator::range (`iterator/range_comparison.hpp`): a pair of iterators -/
namespace IterRange
/-- `_left.begin() == _right.begin() && _left.end() == _right.end()` -/
def eq (eqI : α → α → Bool) (a b : α × α) : Bool := eqI a.1 b.1 && eqI a.2 b.2
def ne (eqI : α → α → Bool) (a b : α × α) : Bool := !(IterRange.eq eqI a b)
end IterRange
end

/-! ## unit (`unit_comparison.hpp`) -/
namespace UnitT
def eq (_a _b : Unit) : Bool := true
def ne (_a _b : Unit) : Bool := false
end UnitT

/-! ## reference: holds the address of the referent -/
structure Ref where
  addr : Nat
  deriving Repr, DecidableEq

namespace Ref
/-- `&_a.get() == &_b.get()` -/
def eq (a b : Ref) : Bool := a.addr == b.addr
def ne (a b : Ref) : Bool := !(Ref.eq a b)
/-- `std::less<T *>()(&_a.get(), &_b.get())` -/
def lt (a b : Ref) : Bool := decide (a.addr < b.addr)
/-- `std::hash<T *>()(&_value.get())` -/
def hash (hp : Nat → Nat) (a : Ref) : Nat := hp a.addr
/-- `get()`: the referent itself (its address in the store `mem`) -/
def get {α : Type} (mem : Nat → α) (a : Ref) : α := mem a.addr
end Ref

/-! ## unique_ptr (`unique_ptr_impl.hpp`): owns the object at `ptr`, or is null after a move / `release_ownership` -/
structure UPtr where
  ptr : Option Nat
  deriving Repr, DecidableEq

namespace UPtr
/-- `operator*`, `operator->`, `get_pointer()` -/
def get {α : Type} (mem : Nat → α) (u : UPtr) : M α :=
  match u.ptr with | some p => pure (mem p) | none => throw .emptyDeref
/-- move construction / assignment: (target, what is left of the source) -/
def move (u : UPtr) : UPtr × UPtr := (⟨u.ptr⟩, ⟨none⟩)
/-- `release_ownership()`: (the pointer handed out, the wrapper afterwards) -/
def release (u : UPtr) : Option Nat × UPtr := (u.ptr, ⟨none⟩)
end UPtr

/-! ## shared_ptr: stored pointer and owner (control block) -/
structure SPtr where
  ptr : Nat
  owner : Nat
  deriving Repr, DecidableEq

namespace SPtr
/-- `_a.std_ptr() == _b.std_ptr()`: compares the stored pointers -/
def eq (a b : SPtr) : Bool := a.ptr == b.ptr
/-- `_a.std_ptr() != _b.std_ptr()` -/
def ne (a b : SPtr) : Bool := a.ptr != b.ptr
/-- `_a.std_ptr() < _b.std_ptr()`: `std::less` on the stored pointers -/
def lt (a b : SPtr) : Bool := decide (a.ptr < b.ptr)
/-- `std::hash<T *>()(_value.get_pointer())` -/
def hash (hp : Nat → Nat) (a : SPtr) : Nat := hp a.ptr
/-- `operator*`: the object at the stored pointer (address 0 = null) -/
def get {α : Type} (mem : Nat → α) (a : SPtr) : M α := if a.ptr = 0 then throw .emptyDeref else pure (mem a.ptr)
end SPtr

end Fcppt.C17
