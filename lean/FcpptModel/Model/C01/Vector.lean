import FcpptModel.Model.C01
import FcpptModel.Gen.Scalar
/-!
# C01 — the component-wise "all or nothing" wrappers of fcppt::math::vector

Mirrors `math/vector/arithmetic.hpp` (`operator/` by a scalar and by a vector), `math/vector/mod.hpp` (both
overloads), `math/vector/ceil_div_signed.hpp`, `math/detail/sequence.hpp` / `optional/sequence.hpp`.
The component functions are the *translated* scalar helpers of `Gen/Scalar.lean` (`div_i32`, `div_u32`, `mod_u32`,
`ceil_div_signed_i32`), so a fault in a component (INT_MIN / -1) is a fault of the vector operation.
-/
namespace Fcppt.C01
open Fcppt Fcppt.Gen

/-- `optional::sequence`: the values if every element has one, otherwise nothing -/
def sequenceOpt {α} : List (Option α) → Option (List α)
  | [] => some []
  | none :: _ => none
  | some x :: r => (sequenceOpt r).map (x :: ·)

/-- `sequence(map(v, f))`: `f` is applied to every component (first to last), then all-or-nothing -/
def vectorMap (f : Int → M (Option Int)) (v : List Int) : M (Option (List Int)) := do
  let rs ← v.mapM f
  pure (sequenceOpt rs)

/-- `sequence(binary_map(l, r, f))` for vectors of the same static size -/
def vectorZip (f : Int → Int → M (Option Int)) (l r : List Int) : M (Option (List Int)) := do
  let rs ← (l.zip r).mapM (fun p => f p.1 p.2)
  pure (sequenceOpt rs)

def vdiv_i32 (v : List Int) (d : Int) := vectorMap (fun x => div_i32 x d) v
def vdiv_u32 (v : List Int) (d : Int) := vectorMap (fun x => div_u32 x d) v
def vdivv_i32 (l r : List Int) := vectorZip div_i32 l r
def vdivv_u32 (l r : List Int) := vectorZip div_u32 l r
def vmod_u32 (v : List Int) (d : Int) := vectorMap (fun x => mod_u32 x d) v
def vmodv_u32 (l r : List Int) := vectorZip mod_u32 l r
def vceildiv_i32 (v : List Int) (d : Int) := vectorMap (fun x => ceil_div_signed_i32 x d) v

end Fcppt.C01
