import FcpptModel.Model.C01
/-!
# C01 — the pure path helpers of fcppt::filesystem

Mirrors `filesystem/remove_extension.cpp`, `stem.cpp`, `extension.cpp`, `extension_without_dot.cpp`,
`normalize.cpp`, `num_subpaths.cpp`, `replace_extension.cpp`, `strip_prefix.cpp`, `path_to_string.cpp`.

Underneath is `std::filesystem::path` of libstdc++ 12 on POSIX (no root names), modelled as a validated
**assumption** after `src/c++17/fs_path.cc`: `_M_split_cmpts` / `_Parser` (components with their
positions; a path with a single component keeps no component list), `_M_find_extension`, `stem`,
`extension`, `filename`, `has_relative_path`, `parent_path`, `operator/=`, `remove_filename`,
`replace_extension`, iteration.  A path is its pathname, a list of characters.
-/
namespace Fcppt.C01.Path

abbrev Str := List Char

def isSep (c : Char) : Bool := c == '/'

inductive Kind where
  | multi | rootDir | filename
  deriving Repr, DecidableEq

structure Cmpt where
  str : Str
  pos : Nat
  root : Bool        -- `_Type::_Root_dir`
  deriving Repr, DecidableEq

/-- `_Parser::next` repeated: the file names behind position `pos`, each with its offset; a trailing
separator behind a file name contributes one empty final element.  `prevFilename`: the previous token
was a file name. -/
def splitFrom : Nat → Str → Nat → Bool → List Cmpt
  | 0, _, _, _ => []
  | fuel + 1, s, pos, prevFilename =>
    let seps := s.takeWhile isSep
    let rest := s.dropWhile isSep
    let p := pos + seps.length
    match rest with
    | [] => if prevFilename && !seps.isEmpty then [⟨[], p, false⟩] else []
    | _ =>
      let name := rest.takeWhile (fun c => !isSep c)
      let tail := rest.dropWhile (fun c => !isSep c)
      ⟨name, p, false⟩ :: splitFrom fuel tail (p + name.length) true

/-- all tokens of `_M_split_cmpts`: the root directory (first separator, the run of separators behind it is
skipped) and the file names -/
def tokens (s : Str) : List Cmpt :=
  match s with
  | [] => []
  | c :: _ =>
    if isSep c then ⟨['/'], 0, true⟩ :: splitFrom (s.length + 1) s 0 false
    else splitFrom (s.length + 1) s 0 false

/-- a parsed path: `_M_pathname`, `_M_cmpts` (empty unless `_Multi`), `_M_type()` -/
structure P where
  name : Str
  cmpts : List Cmpt
  kind : Kind
  deriving Repr, DecidableEq

/-- `path(string)` / `_M_split_cmpts` -/
def parse (s : Str) : P :=
  match tokens s with
  | [] => ⟨s, [], .filename⟩                      -- empty pathname
  | [c] => ⟨s, [], if c.root then .rootDir else .filename⟩
  | cs => ⟨s, cs, .multi⟩

def P.empty (p : P) : Bool := p.name.isEmpty

/-- the elements `begin() … end()` enumerates -/
def P.elements (p : P) : List Str :=
  match p.kind with
  | .multi => p.cmpts.map (·.str)
  | _ => if p.empty then [] else [p.name]

/-- the file-name string `_M_find_extension` looks at -/
def P.lastName (p : P) : Option Str :=
  match p.kind with
  | .filename => some p.name
  | .multi => match p.cmpts.getLast? with
    | some c => if c.root then none else some c.str
    | none => none
  | .rootDir => none

/-- position of the last `.` (`string::rfind`) -/
def rfindDot (s : Str) : Option Nat :=
  let r := s.reverse
  match r.findIdx? (· == '.') with
  | some i => some (s.length - 1 - i)
  | none => none

/-- `_M_find_extension`: `none` = no string; `some (s, none)` = no extension (`npos`); `some (s, some k)` = the
extension starts at `k` -/
def P.findExtension (p : P) : Option (Str × Option Nat) :=
  match p.lastName with
  | none => none
  | some s =>
    if s.length = 0 then none
    else if s.length ≤ 2 && s.head? == some '.' then some (s, none)
    else match rfindDot s with
      | some pos => some (s, if pos = 0 then none else some pos)
      | none => some (s, none)

/-- `path::stem()` -/
def P.stem (p : P) : Str :=
  match p.findExtension with
  | some (s, some k) => s.take k            -- `ext.second != 0` holds: 0 was turned into npos
  | some (s, none) => s                     -- substr(0, npos)
  | none => []

/-- `path::extension()` -/
def P.extension (p : P) : Str :=
  match p.findExtension with
  | some (s, some k) => s.drop k
  | _ => []

/-- `path::has_filename()` -/
def P.hasFilename (p : P) : Bool :=
  if p.empty then false
  else match p.kind with
    | .filename => true
    | .multi => if p.name.getLast? == some '/' then false
                else match p.cmpts.getLast? with | some c => !c.root && !c.str.isEmpty | none => false
    | .rootDir => false

/-- `path::filename()` -/
def P.filename (p : P) : Str :=
  if p.empty then []
  else match p.kind with
    | .filename => p.name
    | .multi => if p.name.getLast? == some '/' then []
                else match p.cmpts.getLast? with | some c => if c.root then [] else c.str | none => []
    | .rootDir => []

/-- `path::has_relative_path()` -/
def P.hasRelativePath (p : P) : Bool :=
  if p.kind == .filename && !p.empty then true
  else match p.cmpts with
    | [] => false
    | c :: rest =>
      let rest' := if c.root then rest else c :: rest
      match rest' with
      | d :: _ => !d.str.isEmpty
      | [] => false

/-- `path::is_absolute()` on POSIX: `has_root_directory()` -/
def P.isAbsolute (p : P) : Bool :=
  match p.kind with
  | .rootDir => true
  | .multi => match p.cmpts with | c :: _ => c.root | [] => false
  | .filename => false

/-- `path::parent_path()` -/
def P.parentPath (p : P) : Str :=
  if !p.hasRelativePath then p.name
  else if p.cmpts.length ≥ 2 then
    match p.cmpts[p.cmpts.length - 2]? with
    | some parent => p.name.take (parent.pos + parent.str.length)
    | none => []
  else []

/-- `lhs /= rhs` (POSIX branch of `path::operator/=`) -/
def append (lhs rhs : Str) : Str :=
  let l := parse lhs
  let r := parse rhs
  if r.isAbsolute || l.empty then rhs
  else if l.hasFilename then lhs ++ ['/'] ++ rhs
  else if r.empty then lhs
  else lhs ++ rhs

/-- `path::remove_filename()` -/
def P.removeFilename (p : P) : Str :=
  match p.kind with
  | .multi =>
    match p.cmpts.getLast? with
    | some c => if !c.root && !c.str.isEmpty then p.name.take c.pos else p.name
    | none => p.name
  | .filename => []
  | .rootDir => p.name

/-- `path::replace_extension(replacement)`: the extension is erased, a dot is added unless the replacement is
empty or starts with one, the replacement is appended -/
def P.replaceExtension (p : P) (replacement : Str) : Str :=
  let base : Str :=
    match p.findExtension with
    | some (_, some k) =>
      (match p.kind with
       | .filename => p.name.take k
       | _ => match p.cmpts.getLast? with
         | some c => p.name.take (c.pos + k)
         | none => p.name)
    | _ => p.name
  let dot : Str := if !replacement.isEmpty && replacement.head? != some '.' then ['.'] else []
  base ++ dot ++ replacement

/-! ## the fcppt functions -/

/-- `fcppt::filesystem::path_to_string`: `_path.string<char>()` -/
def pathToString (s : Str) : Str := s

/-- `fcppt::filesystem::stem`: `path_to_string(_path.stem())` -/
def stem (s : Str) : Str := pathToString (parse s).stem

/-- `fcppt::filesystem::extension` -/
def extension (s : Str) : Str := pathToString (parse s).extension

/-- `fcppt::filesystem::extension_without_dot`:
`ret = extension(path); if (!ret.empty() && ret[0] == '.') ret.erase(ret.begin()); return ret;` -/
def extensionWithoutDot (s : Str) : M Str := do
  let ret := extension s
  if !ret.isEmpty then
    let c ← readAt ret 0
    if c == '.' then return ret.drop 1 else return ret
  else return ret

/-- `fcppt::filesystem::remove_extension`: `_path.parent_path() / stem(_path)` -/
def removeExtension (s : Str) : Str := append (parse s).parentPath (stem s)

/-- `fcppt::filesystem::normalize`: `stem(_path) == "." ? path(_path).remove_filename() : _path` -/
def normalize (s : Str) : Str := if stem s == ['.'] then (parse s).removeFilename else s

/-- `fcppt::filesystem::num_subpaths`: `distance(begin(), end())` -/
def numSubpaths (s : Str) : Nat := (parse s).elements.length

/-- `fcppt::filesystem::replace_extension`: `path(_path).replace_extension("." + _ext)` -/
def replaceExtension (s ext : Str) : Str := (parse s).replaceExtension (['.'] ++ ext)

/-- `fcppt::filesystem::strip_prefix`:
`for_each(next(path.begin(), num_subpaths(prefix)), path.end(), result /= entry)`.  `std::next` walks
`num_subpaths(prefix)` steps from `begin()`; a step at `end()` is undefined (the documented precondition is
that `prefix` is a prefix of `path`) -/
def stripPrefix (pre s : Str) : M Str := do
  let els := (parse s).elements
  let n := numSubpaths pre
  -- std::next(begin, n): every one of the n increments must start in front of end()
  if n > els.length then throw Fault.oob
  let rest := els.drop n
  return rest.foldl append []

end Fcppt.C01.Path
